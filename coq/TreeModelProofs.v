(** [C08_oracle_holds_of_model]: for every well-formed scenario ([wfb],
    TreeExec.v) the property's predicate [oracle] is true of the observation
    the model produces ([model_obs], TreeModel.v). *)
From Coq Require Import List Arith Lia Bool Permutation.
Import ListNotations.
From HV Require Import Tree TreeProofs TreeConc TreeConcProofs TreeExec TreeModel.

(** * Part A: facts about trees with distinct ids *)

Lemma ids_root_tl t : ids t = root t :: map snd (edges t).
Proof.
  induction t as [i ks IH] using tree_ind'. rewrite ids_eq. cbn [root edges]. f_equal.
  induction ks as [|k ks IHks]; [reflexivity|]. inversion IH; subst. cbn [flat_map].
  rewrite map_app. cbn [map snd]. rewrite <- IHks by assumption. rewrite H1. cbn. reflexivity.
Qed.

Lemma edges_snd_NoDup t : NoDup (ids t) -> NoDup (map snd (edges t)).
Proof. rewrite ids_root_tl. intros H. inversion H; assumption. Qed.

Lemma edge_child_ids t p c : In (p, c) (edges t) -> In c (ids t).
Proof. intros H. rewrite ids_root_tl. right. apply in_map_iff. exists (p, c). auto. Qed.

Lemma edges_unique_parent t p p' c : NoDup (ids t) -> In (p, c) (edges t) -> In (p', c) (edges t) -> p = p'.
Proof.
  intros Hnd. apply edges_snd_NoDup in Hnd. revert Hnd. generalize (edges t). intros l.
  induction l as [|[a b] l IH]; cbn; [tauto|]. intros Hnd H1 H2. inversion Hnd; subst.
  destruct H1 as [H1|H1], H2 as [H2|H2].
  - congruence.
  - inversion H1; subst. exfalso. apply H3. apply in_map_iff. exists (p', c). auto.
  - inversion H2; subst. exfalso. apply H3. apply in_map_iff. exists (p, c). auto.
  - auto.
Qed.

Lemma edges_subtree t p c :
  In (p, c) (edges t) <-> exists s k, subtree s t /\ root s = p /\ In k (subs s) /\ root k = c.
Proof.
  split.
  - induction t as [i ks IH] using tree_ind'. cbn [edges]. rewrite in_flat_map. intros (k & Hk & H).
    rewrite Forall_forall in IH. destruct H as [H|H].
    + inversion H; subst. exists (Node p ks), k. repeat split; auto. constructor.
    + destruct (IH k Hk H) as (s & k' & Hs & Hr & Hk' & Hc). exists s, k'. repeat split; auto.
      eapply sub_kid; eassumption.
  - intros (s & k & Hs & Hr & Hk & Hc). subst. induction Hs as [t|s i ks k' Hk' Hs IH].
    + destruct t as [i ks]. cbn in *. apply in_flat_map. exists k. split; [exact Hk|]. left. reflexivity.
    + cbn [edges]. apply in_flat_map. exists k'. split; [exact Hk'|]. right. apply IH. exact Hk.
Qed.

Lemma kids_of_edges t p c : NoDup (ids t) -> (In c (kids_of t p) <-> In (p, c) (edges t)).
Proof.
  intros Hnd. split.
  - intros H. apply kids_of_inv in H as (s & k & Hs & Hk & Hc). apply find_sub_some in Hs as [Hs Hr].
    apply edges_subtree. eauto 6.
  - intros H. apply edges_subtree in H as (s & k & Hs & Hr & Hk & Hc). subst.
    unfold kids_of. rewrite (find_sub_subtree t s Hnd Hs). unfold child_ids. apply in_map. exact Hk.
Qed.

Lemma parent_in_edges t c p : NoDup (ids t) -> (parent_in t c = Some p <-> In (p, c) (edges t)).
Proof.
  intros Hnd. unfold parent_in.
  assert (Hfind : forall s, find (fun s => existsb (Nat.eqb c) (child_ids s)) (subtrees t) = Some s ->
                            In (root s, c) (edges t)).
  { intros s H. apply find_some in H as [H1 H2]. apply subtrees_subtree in H1.
    apply existsb_exists in H2 as (x & Hx & E). apply Nat.eqb_eq in E. subst x.
    unfold child_ids in Hx. apply in_map_iff in Hx as (k & Hk & Hk'). apply edges_subtree. eauto 6. }
  split.
  - destruct (find _ (subtrees t)) as [s|] eqn:E; [|discriminate]. cbn. intros [= <-]. apply Hfind. reflexivity.
  - intros H. destruct (find _ (subtrees t)) as [s|] eqn:E.
    + cbn. f_equal. eapply edges_unique_parent; [exact Hnd|apply Hfind; reflexivity|exact H].
    + exfalso. apply edges_subtree in H as (s & k & Hs & Hr & Hk & Hc). apply subtrees_subtree in Hs.
      eapply find_none in E; [|exact Hs]. cbn in E.
      assert (existsb (Nat.eqb c) (child_ids s) = true); [|congruence].
      apply existsb_exists. exists c. split; [|apply Nat.eqb_refl]. unfold child_ids. rewrite <- Hc. apply in_map. exact Hk.
Qed.

Lemma ids_subtree t d : In d (ids t) -> exists s, subtree s t /\ root s = d.
Proof.
  induction t as [i ks IH] using tree_ind'. rewrite ids_eq. intros [<-|H].
  - exists (Node i ks). split; [constructor|reflexivity].
  - apply in_flat_map in H as (k & Hk & H). rewrite Forall_forall in IH.
    destruct (IH k Hk H) as (s & Hs & Hr). exists s. split; [eapply sub_kid; eassumption|exact Hr].
Qed.

Section Tree.
  Variable t : tree.
  Hypothesis Hnd : NoDup (ids t).

  Lemma find_sub_ids p : In p (ids t) -> exists s, find_sub t p = Some s /\ subtree s t /\ root s = p.
  Proof.
    intros H. apply ids_subtree in H as (s & Hs & Hr). exists s. subst. split; [apply find_sub_subtree; assumption|auto].
  Qed.

  Lemma closure_ids p : incl (closure t p) (ids t).
  Proof.
    unfold closure. destruct (find_sub t p) as [s|] eqn:E; [|intros x []].
    apply find_sub_some in E as [Hs _]. apply subtree_ids. exact Hs.
  Qed.

  Lemma closure_self p : In p (ids t) -> In p (closure t p).
  Proof.
    intros H. destruct (find_sub_ids p H) as (s & E & Hs & Hr). unfold closure. rewrite E. subst. apply root_in_ids.
  Qed.

  Lemma closure_cons p : In p (ids t) -> closure t p = p :: desc_of t p.
  Proof.
    intros H. destruct (find_sub_ids p H) as (s & E & Hs & Hr). unfold closure, desc_of. rewrite E.
    destruct s as [i ks]. cbn in Hr. subst. reflexivity.
  Qed.

  Lemma desc_closure p d : In d (desc_of t p) -> In d (closure t p).
  Proof.
    unfold desc_of, closure. destruct (find_sub t p) as [s|]; [|intros []]. apply desc_in_ids.
  Qed.

  (* the subtree relation is transitive on ids *)
  Lemma closure_trans p d : In d (closure t p) -> incl (closure t d) (closure t p).
  Proof.
    unfold closure at 1 3. destruct (find_sub t p) as [s|] eqn:E; [|intros []]. intros Hd.
    apply find_sub_some in E as [Hs _]. apply ids_subtree in Hd as (sd & Hsd & Hr). subst d.
    unfold closure. rewrite (find_sub_subtree t sd Hnd (subtree_trans _ _ _ Hsd Hs)). apply subtree_ids. exact Hsd.
  Qed.

  Lemma desc_trans_closure p d : In d (closure t p) -> incl (desc_of t d) (closure t p).
  Proof. intros H x Hx. apply (closure_trans p d H). apply desc_closure. exact Hx. Qed.

  Lemma edge_desc p c : In (p, c) (edges t) -> In c (desc_of t p).
  Proof.
    intros H. apply edges_subtree in H as (s & k & Hs & Hr & Hk & Hc). subst.
    unfold desc_of. rewrite (find_sub_subtree t s Hnd Hs). unfold desc. apply in_flat_map. exists k. split; [exact Hk|apply root_in_ids].
  Qed.

  Lemma edge_parent_ids p c : In (p, c) (edges t) -> In p (ids t).
  Proof.
    intros H. apply edges_subtree in H as (s & k & Hs & Hr & Hk & Hc). subst. apply subtree_root_in. exact Hs.
  Qed.
End Tree.

Lemma xs_of_app l1 l2 : xs_of (l1 ++ l2) = xs_of l1 ++ xs_of l2.
Proof. induction l1 as [|e l1 IH]; [reflexivity|]. destruct e; cbn; rewrite ?IH; reflexivity. Qed.

Lemma xs_of_In n l : In n (xs_of l) <-> In (X n) l.
Proof.
  induction l as [|e l IH]; cbn; [tauto|]. destruct e; cbn; rewrite IH; split; intros H;
    try (right; exact H); try (destruct H as [H|H]; [discriminate|exact H]).
  - destruct H as [->|H]; auto.
  - destruct H as [[= ->]|H]; auto.
Qed.

Lemma xs_of_NoDup l : NoDup l -> NoDup (xs_of l).
Proof.
  induction l as [|e l IH]; cbn; [constructor|]. intros H. inversion H; subst. destruct e; auto.
  constructor; auto. rewrite xs_of_In. assumption.
Qed.

Lemma xs_of_before d p l : before (X d) (X p) l -> before d p (xs_of l).
Proof.
  intros (l1 & l2 & l3 & ->). rewrite xs_of_app. cbn. rewrite xs_of_app. cbn. exists (xs_of l1), (xs_of l2), (xs_of l3). reflexivity.
Qed.

Lemma subtree_NoDup s t : NoDup (ids t) -> subtree s t -> NoDup (ids s).
Proof.
  intros Hnd Hs. induction Hs as [t|s i ks k Hk Hs IH]; [exact Hnd|]. apply IH.
  rewrite ids_eq in Hnd. inversion Hnd; subst. eapply flat_map_NoDup_each; eassumption.
Qed.

Section Post.
  Variable t : tree.
  Hypothesis Hnd : NoDup (ids t).

  Lemma post_In p n : In n (post t p) <-> In n (closure t p).
  Proof.
    unfold post, closure. destruct (find_sub t p) as [s|]; [|tauto]. rewrite xs_of_In. split.
    - intros H. apply events_of_tree in H as (d & Hd & He). cbn in He.
      destruct He as [E|[E|[E|[E|[E|[]]]]]]; inversion E; subst; exact Hd.
    - intros H. apply (desc_stopped s n H). cbn. auto.
  Qed.

  Lemma post_NoDup p : NoDup (post t p).
  Proof.
    unfold post. destruct (find_sub t p) as [s|] eqn:E; [|constructor].
    apply find_sub_some in E as [Hs _]. apply xs_of_NoDup, stop_tree_NoDup. eapply subtree_NoDup; eassumption.
  Qed.

  (* within the stop of p's subtree every descendant of q comes before q *)
  Lemma post_order p q d : In q (closure t p) -> In d (desc_of t q) -> before d q (post t p).
  Proof.
    unfold post, closure. destruct (find_sub t p) as [s|] eqn:E; [|intros []]. intros Hq Hd.
    apply find_sub_some in E as [Hs _]. apply ids_subtree in Hq as (sq & Hsq & Hr). subst q.
    unfold desc_of in Hd. rewrite (find_sub_subtree t sq Hnd (subtree_trans _ _ _ Hsq Hs)) in Hd.
    apply xs_of_before. apply (children_first s sq d Hsq Hd).
  Qed.
End Post.

(* [before] survives a filter that keeps both *)
Lemma before_filter {A} (f : A -> bool) a b l :
  before a b l -> f a = true -> f b = true -> before a b (filter f l).
Proof.
  intros (l1 & l2 & l3 & ->) Ha Hb. rewrite filter_app. cbn. rewrite Ha, filter_app. cbn. rewrite Hb.
  exists (filter f l1), (filter f l2), (filter f l3). reflexivity.
Qed.

(** * Lists *)
Lemma add_all_In l acc x : In x (add_all l acc) <-> In x l \/ In x acc.
Proof.
  unfold add_all. revert acc. induction l as [|y l IH]; intros acc; cbn; [tauto|].
  rewrite IH. destruct (memb y acc) eqn:E.
  - apply memb_In in E. split; [tauto|]. intros [[->|H]|H]; auto.
  - rewrite in_app_iff. cbn. tauto.
Qed.

Lemma memb_false x l : memb x l = false <-> ~ In x l.
Proof. rewrite <- memb_In. destruct (memb x l); split; congruence. Qed.

Lemma subsetb_incl a b : subsetb a b = true <-> incl a b.
Proof.
  unfold subsetb. rewrite forallb_forall. split; intros H x Hx; [apply memb_In, H, Hx|apply memb_In, H, Hx].
Qed.

Lemma seteqb_iff a b : seteqb a b = true <-> (forall x, In x a <-> In x b).
Proof.
  unfold seteqb. rewrite andb_true_iff, !subsetb_incl. split.
  - intros [H1 H2] x. split; [apply H1|apply H2].
  - intros H. split; intros x Hx; apply H; exact Hx.
Qed.

Lemma nodupb_NoDup l : NoDup l -> nodupb l = true.
Proof.
  induction 1 as [|x l Hx Hl IH]; [reflexivity|]. cbn. rewrite IH, andb_true_r. apply negb_true_iff, memb_false. exact Hx.
Qed.
Lemma nodupb_true l : nodupb l = true -> NoDup l.
Proof.
  induction l as [|x l IH]; [constructor|]. cbn. rewrite andb_true_iff, negb_true_iff, memb_false. intros [H1 H2].
  constructor; auto.
Qed.

(** * Part B: the children maps against the tree *)

Lemma binv_children b sp p :
  binv b sp -> In p (s_alive sp) ->
  NoDup (children b p) /\ forall c, In c (children b p) <-> In (p, c) (s_rel sp).
Proof.
  intros I Hp. apply (bi_alive _ _ I) in Hp as (pc & Hpc). unfold children. rewrite Hpc.
  split; [eapply bi_nodup; eassumption|]. intros c. eapply bi_kids; eassumption.
Qed.

Lemma binv_parent b sp c :
  binv b sp -> In c (s_alive sp) -> forall p, parent b c = Some p <-> In (c, p) (s_par sp).
Proof.
  intros I Hc p. apply (bi_alive _ _ I) in Hc as (cc & Hcc).
  rewrite (bi_par _ _ I c cc Hcc p). unfold parent. rewrite Hcc.
  destruct (b_par b cc) as [pc|]; cbn.
  - split; [intros [= <-]; eauto|]. intros (pc' & [= <-] & <-). reflexivity.
  - split; [discriminate|]. intros (? & ? & _). discriminate.
Qed.

Record kinv (t : tree) (Born Stopped : nat -> Prop) (b : bstate) (sp : sstate) : Prop := {
  k_binv : binv b sp;
  k_alive : forall n, In n (s_alive sp) <-> Born n /\ ~ Stopped n;
  k_rel : forall p c, In (p, c) (s_rel sp) <->
            In (p, c) (edges t) /\ Born p /\ Born c /\ ~ Stopped p /\ ~ Stopped c;
  k_par : forall c p, In (c, p) (s_par sp) <-> In (p, c) (edges t) /\ Born c /\ ~ Stopped c }.

Lemma kinv_ext t B B' S S' b sp :
  (forall n, B n <-> B' n) -> (forall n, S n <-> S' n) -> kinv t B S b sp -> kinv t B' S' b sp.
Proof.
  intros HB HS [K1 K2 K3 K4]. constructor; auto.
  - intros n. rewrite K2, HB, HS. tauto.
  - intros p c. rewrite K3, !HB, !HS. tauto.
  - intros c p. rewrite K4, HB, HS. tauto.
Qed.

(* one actor stops *)
Lemma kinv_stop t B S b sp c :
  kinv t B S b sp -> B c -> ~ S c ->
  kinv t B (fun n => n = c \/ S n) (bstep b (BStopped c)) (Tree.sstep sp (BStopped c)).
Proof.
  intros [K1 K2 K3 K4] Hb Hs. constructor.
  - apply binv_step; [exact K1|]. cbn. apply K2. auto.
  - intros n. cbn. rewrite set_del_In, K2. intuition (subst; auto).
  - intros p c'. cbn. rewrite filter_In, K3. cbn. rewrite andb_true_iff, !negb_true_iff, !Nat.eqb_neq.
    intuition (subst; auto).
  - intros c' p. cbn. rewrite filter_In, K4. cbn. rewrite negb_true_iff, Nat.eqb_neq. intuition (subst; auto).
Qed.

(* a batch of actors stops *)
Lemma kinv_stop_batch t B l : forall S b sp,
  kinv t B S b sp -> NoDup l -> (forall c, In c l -> B c /\ ~ S c) ->
  kinv t B (fun n => In n l \/ S n) (fold_left bstep (map BStopped l) b) (fold_left Tree.sstep (map BStopped l) sp).
Proof.
  induction l as [|c l IH]; intros S b sp K Hnd Hl; cbn.
  - eapply kinv_ext; [reflexivity| |exact K]. intros n. tauto.
  - inversion Hnd; subst. destruct (Hl c (or_introl eq_refl)) as [Hb Hs].
    eapply kinv_ext; [reflexivity| |apply (IH (fun n => n = c \/ S n)); [apply kinv_stop; assumption|assumption|]].
    + intros n. cbn. intuition.
    + intros c' Hc'. destruct (Hl c' (or_intror Hc')) as [Hb' Hs']. split; [exact Hb'|].
      intros [->|H]; [contradiction|contradiction].
Qed.

(* a child is spawned on demand *)
Lemma kinv_spawn t B S b sp p c :
  NoDup (ids t) ->
  kinv t B S b sp -> B p -> ~ S p -> ~ B c -> ~ S c -> In (p, c) (edges t) ->
  (forall a x, In (a, x) (edges t) -> B x -> B a) ->
  kinv t (fun n => n = c \/ B n) S (bstep b (BSpawnChild p c)) (Tree.sstep sp (BSpawnChild p c)).
Proof.
  intros Hnd [K1 K2 K3 K4] Bp Sp Bc Sc He Hclosed. constructor.
  - apply binv_step; [exact K1|]. cbn. rewrite !K2. tauto.
  - intros n. cbn. rewrite in_app_iff, K2. cbn. split.
    + intros [(HB & HS)|[<-|[]]]; auto.
    + intros ([->|HB] & HS); auto.
  - intros a x. cbn. rewrite in_app_iff, K3. cbn. split.
    + intros [(H1 & H2 & H3 & H4 & H5)|[[= <- <-]|[]]]; repeat split; auto.
    + intros (H1 & [->|Ba] & [->|Bx] & Sa & Sx).
      * exfalso. apply edge_child_ids in H1 as Hc. pose proof (edges_snd_NoDup t Hnd) as Hn.
        (* an edge (c, c) is impossible: c would be its own parent, listed twice *)
        assert (Hp : p = c) by (eapply edges_unique_parent; eassumption). subst. contradiction.
      * exfalso. apply Bc. eapply Hclosed; eassumption.
      * right. left. f_equal. eapply edges_unique_parent; eassumption.
      * left. repeat split; auto.
  - intros x a. cbn. rewrite in_app_iff, K4. cbn. split.
    + intros [(H1 & H2 & H3)|[[= <- <-]|[]]]; repeat split; auto.
    + intros (H1 & [->|Bx] & Sx).
      * right. left. f_equal. eapply edges_unique_parent; eassumption.
      * left. repeat split; auto.
Qed.

(* what a probe of a live actor sees *)
Lemma kinv_probe t B S b sp n :
  NoDup (ids t) -> kinv t B S b sp -> B n -> ~ S n ->
  NoDup (children b n) /\
  (forall c, In c (children b n) <-> In c (kids_of t n) /\ B c /\ ~ S c) /\
  parent b n = parent_in t n.
Proof.
  intros Hnd [K1 K2 K3 K4] Bn Sn.
  assert (Ha : In n (s_alive sp)) by (apply K2; auto).
  destruct (binv_children b sp n K1 Ha) as [H1 H2]. split; [exact H1|]. split.
  - intros c. rewrite H2, K3, (kids_of_edges t n c Hnd). tauto.
  - destruct (parent b n) as [p|] eqn:E1.
    + symmetry. apply (parent_in_edges t n p Hnd). apply (binv_parent b sp n K1 Ha p) in E1. apply K4 in E1. tauto.
    + destruct (parent_in t n) as [p|] eqn:E2; [|reflexivity]. exfalso.
      apply (parent_in_edges t n p Hnd) in E2.
      assert (parent b n = Some p); [|congruence]. apply (binv_parent b sp n K1 Ha p), K4. auto.
Qed.

(** ** The start: the scripted part of the tree has been spawned *)
Definition mk (e : nat * nat) : bop := BSpawnChild (fst e) (snd e).

Lemma spawn_kids_edges p k : spawn_kids p k = map mk ((p, root k) :: edges k).
Proof.
  revert p. induction k as [i ks IH] using tree_ind'. intros p. cbn [spawn_kids root edges map]. unfold mk at 1. cbn [fst snd].
  f_equal. induction ks as [|k ks IHks]; [reflexivity|]. inversion IH; subst. cbn [flat_map].
  rewrite map_app, <- IHks by assumption. rewrite H1. reflexivity.
Qed.

Lemma spawn_ops_edges t : spawn_ops t = BSpawnTop (root t) :: map mk (edges t).
Proof.
  destruct t as [i ks]. cbn [spawn_ops root edges]. f_equal.
  induction ks as [|k ks IH]; [reflexivity|]. cbn [flat_map]. rewrite map_app, <- IH, spawn_kids_edges. reflexivity.
Qed.

Definition keep (dyn : list nat) (e : nat * nat) : bool := negb (memb (snd e) dyn).

Lemma init_ops_eq t dyn : init_ops t dyn = BSpawnTop (root t) :: map mk (filter (keep dyn) (edges t)).
Proof.
  unfold init_ops. rewrite spawn_ops_edges. cbn [filter]. f_equal.
  induction (edges t) as [|e l IH]; [reflexivity|]. cbn [map filter]. unfold keep at 1, mk at 1.
  destruct (negb (memb (snd e) dyn)); cbn [map]; rewrite IH; reflexivity.
Qed.

(* in [edges] a parent comes before its children *)
Fixpoint pre_ok (seen : list nat) (es : list (nat * nat)) : Prop :=
  match es with
  | [] => True
  | e :: es' => In (fst e) seen /\ pre_ok (snd e :: seen) es'
  end.

Lemma pre_ok_incl es : forall s s', incl s s' -> pre_ok s es -> pre_ok s' es.
Proof.
  induction es as [|e es IH]; cbn; [tauto|]. intros s s' Hi [H1 H2]. split; [apply Hi, H1|].
  eapply IH; [|exact H2]. intros x [<-|Hx]; [left; reflexivity|right; apply Hi, Hx].
Qed.

Lemma pre_ok_app l : forall seen l', pre_ok seen l -> pre_ok (map snd l ++ seen) l' -> pre_ok seen (l ++ l').
Proof.
  induction l as [|e l IH]; cbn; intros seen l' H1 H2; [exact H2|]. destruct H1 as [H1 H1']. split; [exact H1|].
  apply IH; [exact H1'|]. eapply pre_ok_incl; [|exact H2]. intros x. rewrite !in_app_iff. cbn. rewrite in_app_iff. tauto.
Qed.

Lemma edges_pre_ok t : forall seen, In (root t) seen -> pre_ok seen (edges t).
Proof.
  induction t as [i ks IH] using tree_ind'. intros seen Hi. cbn [edges root] in *.
  revert seen Hi. induction ks as [|k ks IHks]; intros seen Hi; [exact I|]. inversion IH; subst. cbn [flat_map].
  change ((i, root k) :: edges k ++ flat_map (fun k0 => (i, root k0) :: edges k0) ks)
    with (((i, root k) :: edges k) ++ flat_map (fun k0 => (i, root k0) :: edges k0) ks).
  apply pre_ok_app.
  - cbn. split; [exact Hi|]. apply H1. left. reflexivity.
  - apply IHks; [assumption|]. apply in_app_iff. right. exact Hi.
Qed.

Lemma pre_ok_filter dyn es : forall seen,
  (forall e, In e es -> memb (fst e) dyn = true -> memb (snd e) dyn = true) ->
  pre_ok seen es -> pre_ok (filter (fun n => negb (memb n dyn)) seen) (filter (keep dyn) es).
Proof.
  induction es as [|e es IH]; cbn; intros seen Hc H; [exact I|]. destruct H as [H1 H2].
  assert (Hc' : forall e0, In e0 es -> memb (fst e0) dyn = true -> memb (snd e0) dyn = true) by (intros; apply Hc; auto).
  specialize (IH (snd e :: seen) Hc' H2). cbn [filter] in IH. unfold keep at 1.
  destruct (memb (snd e) dyn) eqn:E; cbn [negb] in *.
  - exact IH.
  - cbn. split; [|exact IH]. apply filter_In. split; [exact H1|].
    destruct (memb (fst e) dyn) eqn:E'; [|reflexivity]. rewrite (Hc e (or_introl eq_refl) E') in E. discriminate.
Qed.

Lemma srun_spawns es : forall sp,
  let sp' := fold_left Tree.sstep (map mk es) sp in
  s_alive sp' = s_alive sp ++ map snd es /\ s_rel sp' = s_rel sp ++ es /\
  s_par sp' = s_par sp ++ map (fun e => (snd e, fst e)) es.
Proof.
  induction es as [|[p c] es IH]; intros sp; cbn; [rewrite !app_nil_r; auto|].
  destruct (IH (Tree.sstep sp (mk (p, c)))) as (H1 & H2 & H3). cbn in *. rewrite H1, H2, H3, <- !app_assoc. auto.
Qed.

Lemma spawns_fresh es : forall sp seen,
  (forall x, In x seen <-> In x (s_alive sp)) -> pre_ok seen es ->
  NoDup (map snd es) -> (forall c, In c (map snd es) -> ~ In c seen) ->
  hist_fresh sp (map mk es).
Proof.
  induction es as [|[p c] es IH]; intros sp seen Hs Hp Hnd Hd; cbn; [exact I|].
  destruct Hp as [Hp1 Hp2]. cbn in Hp1. inversion Hnd; subst. repeat split.
  - apply Hs. exact Hp1.
  - intros H. apply Hs in H. apply (Hd c); [left; reflexivity|exact H].
  - apply (IH _ (c :: seen)); auto.
    + intros x. cbn. rewrite in_app_iff, <- Hs. cbn. tauto.
    + intros x Hx [<-|H]; [contradiction|]. apply (Hd x); [right; exact Hx|exact H].
Qed.

Lemma map_snd_filter_keep dyn es : map snd (filter (keep dyn) es) = filter (fun n => negb (memb n dyn)) (map snd es).
Proof.
  induction es as [|e es IH]; [reflexivity|]. cbn. unfold keep at 1. destruct (negb (memb (snd e) dyn)); cbn; rewrite IH; reflexivity.
Qed.

Lemma kinv_init t dyn :
  NoDup (ids t) -> ~ In (root t) dyn ->
  (forall e, In e (edges t) -> memb (fst e) dyn = true -> memb (snd e) dyn = true) ->
  exists sp, kinv t (fun n => In n (ids t) /\ ~ In n dyn) (fun _ => False) (brun (init_ops t dyn)) sp.
Proof.
  intros Hnd Hr Hc. exists (srun (init_ops t dyn)).
  set (E0 := filter (keep dyn) (edges t)).
  assert (Hfresh : hist_fresh s_init (init_ops t dyn)).
  { rewrite init_ops_eq. cbn. split; [tauto|]. fold E0.
    apply (spawns_fresh E0 _ [root t]).
    - cbn. tauto.
    - assert (H := pre_ok_filter dyn (edges t) [root t] Hc (edges_pre_ok t [root t] (or_introl eq_refl))).
      cbn in H. destruct (memb (root t) dyn) eqn:E; [apply memb_In in E; contradiction|exact H].
    - unfold E0. rewrite map_snd_filter_keep. apply NoDup_filter, edges_snd_NoDup, Hnd.
    - intros c Hc' [<-|[]]. unfold E0 in Hc'. rewrite map_snd_filter_keep in Hc'. apply filter_In in Hc' as [Hc' _].
      rewrite ids_root_tl in Hnd. inversion Hnd; contradiction. }
  assert (Hs : s_alive (srun (init_ops t dyn)) = root t :: map snd E0 /\ s_rel (srun (init_ops t dyn)) = E0 /\
               s_par (srun (init_ops t dyn)) = map (fun e => (snd e, fst e)) E0).
  { unfold srun. rewrite init_ops_eq. cbn [fold_left]. fold E0.
    destruct (srun_spawns E0 (Tree.sstep s_init (BSpawnTop (root t)))) as (H1 & H2 & H3). cbn in *. auto. }
  destruct Hs as (Ha & Hrel & Hpar).
  assert (HE0 : forall p c, In (p, c) E0 <-> In (p, c) (edges t) /\ ~ In c dyn).
  { intros p c. unfold E0. rewrite filter_In. unfold keep. cbn. rewrite negb_true_iff, memb_false. tauto. }
  assert (Hpd : forall p c, In (p, c) (edges t) -> ~ In c dyn -> ~ In p dyn).
  { intros p c He Hcd Hp. apply Hcd. apply memb_In. apply (Hc (p, c) He). apply memb_In. exact Hp. }
  constructor.
  - apply binv_run. exact Hfresh.
  - intros n. rewrite Ha. cbn. unfold E0. rewrite map_snd_filter_keep, filter_In, negb_true_iff, memb_false.
    rewrite (ids_root_tl t). cbn. split.
    + intros [<-|[H1 H2]]; tauto.
    + intros [[[<-|H1] H2] _]; tauto.
  - intros p c. rewrite Hrel, HE0. split.
    + intros [He Hcd]. repeat split; auto.
      * eapply edge_parent_ids; eassumption.
      * eapply Hpd; eassumption.
      * eapply edge_child_ids; eassumption.
    + tauto.
  - intros c p. rewrite Hpar, in_map_iff. split.
    + intros ([p' c'] & [= <- <-] & H). apply HE0 in H as [He Hcd]. repeat split; auto. eapply edge_child_ids; eassumption.
    + intros (He & [_ Hcd] & _). exists (p, c). split; [reflexivity|]. apply HE0. auto.
Qed.

(** * Part C: the invariant of the model's run *)

Definition probe_ok (sp mp : nat * list nat * option nat) : bool :=
  Nat.eqb (fst (fst sp)) (fst (fst mp)) && seteqb (snd (fst sp)) (snd (fst mp)) && nodupb (snd (fst mp)) &&
  option_nat_eqb (snd sp) (snd mp).

Lemma all2_snoc {A B} (f : A -> B -> bool) l1 l2 a b :
  all2 f l1 l2 = true -> f a b = true -> all2 f (l1 ++ [a]) (l2 ++ [b]) = true.
Proof.
  revert l2. induction l1 as [|x l1 IH]; intros [|y l2]; cbn; try discriminate.
  - intros _ ->. reflexivity.
  - rewrite !andb_true_iff. intros [H1 H2] H3. split; [exact H1|]. apply IH; assumption.
Qed.

Lemma option_nat_eqb_refl o : option_nat_eqb o o = true.
Proof. destruct o; cbn; [apply Nat.eqb_refl|reflexivity]. Qed.

Section Run.
  Variable t : tree.
  Hypothesis Hnd : NoDup (ids t).

  (* the sets *)
  Record sinv (rest : list sstep) (m : mstate) : Prop := {
    v_born_ids : incl (m_born m) (ids t);
    v_born_all : forall n, In n (ids t) -> In n (m_born m) \/ In n (dyn_ids rest);
    v_born_par : forall a x, In (a, x) (edges t) -> In x (m_born m) -> In a (m_born m);
    v_stopping_born : incl (m_stopping m) (m_born m);
    v_stopped_stopping : incl (m_stopped m) (m_stopping m);
    v_down_stopping : forall n, In n (m_stopping m) -> incl (closure t n) (m_stopping m);
    v_down_stopped : forall n, In n (m_stopped m) -> incl (closure t n) (m_stopped m);
    v_handles : forall j k q, nth_error (m_handles m) j = Some (k, q) ->
                  In q (ids t) /\ incl (closure t q) (m_stopping m);
    v_restarted : incl (m_restarted m) (ids t) }.

  (* the children maps and the probes *)
  Record pinv (m : mstate) : Prop := {
    v_book : exists sp, kinv t (fun n => In n (m_born m)) (fun n => In n (m_stopped m)) (m_book m) sp;
    v_spawned : exists sp, kinv t (fun n => In n (m_born m)) (fun _ => False) (m_spawned m) sp;
    v_probes : all2 probe_ok (m_spec_probes m) (m_probes m) = true }.

  (* the events *)
  Record einv (e : estate) : Prop := {
    v_xb : forall n, In (EXB n) (e_evs e) <-> In n (m_stopped (e_m e));
    v_xe : forall n, In (EXE n) (e_evs e) <-> In n (m_stopped (e_m e));
    v_order : forall p d, In p (m_stopped (e_m e)) -> In d (desc_of t p) ->
                precedes oev_eqb (EXE d) (EXB p) (e_evs e) = true;
    v_done : forall j, In j (e_done e) ->
               exists k q, nth_error (m_handles (e_m e)) j = Some (k, q) /\
                           incl (closure t q) (m_stopped (e_m e)) /\
                           forall d, In d (closure t q) -> precedes oev_eqb (EXE d) (EDone j) (e_evs e) = true;
    v_done_in : forall j, In (EDone j) (e_evs e) -> In j (e_done e);
    v_alive : forall x, In x (e_alive e) -> snd x = [] }.

  Definition winddown (s : sstep) : bool := match s with SRelease _ | SAwait _ => true | _ => false end.

  Lemma e_m_estep e s : e_m (estep t e s) = mstep t (e_m e) s.
  Proof.
    destruct s; try reflexivity. cbn. unfold do_await. destruct (nth_error (m_handles (e_m e)) k) as [[? ?]|]; reflexivity.
  Qed.

  Lemma dyn_ids_cons s rest : dyn_ids (s :: rest) = match s with SSpawn _ c => c :: dyn_ids rest | _ => dyn_ids rest end.
  Proof. destruct s; reflexivity. Qed.

  (** ** the sets *)
  Lemma sinv_handle maxr rest m kind n s :
    sinv (s :: rest) m -> dyn_ids (s :: rest) = dyn_ids rest -> wf_handle t maxr m kind n = true ->
    sinv rest (new_handle t m kind n).
  Proof.
    intros [S1 S2 S3 S4 S5 S6 S7 S8 S9] Hd W. unfold wf_handle in W. rewrite !andb_true_iff in W.
    destruct W as (((W1 & W2) & _) & _). apply memb_In in W1. apply subsetb_incl in W2.
    constructor; cbn; auto.
    - rewrite <- Hd. exact S2.
    - intros x Hx. apply add_all_In in Hx as [Hx|Hx]; auto.
    - intros x Hx. apply add_all_In. right. auto.
    - intros x Hx y Hy. apply add_all_In. apply add_all_In in Hx as [Hx|Hx].
      + left. eapply closure_trans; eassumption.
      + right. eapply S6; eassumption.
    - intros j k q Hj. destruct (Nat.lt_ge_cases j (length (m_handles m))) as [Hlt|Hge].
      + rewrite nth_error_app1 in Hj by exact Hlt. destruct (S8 j k q Hj) as [H1 H2]. split; [exact H1|].
        intros x Hx. apply add_all_In. right. auto.
      + rewrite nth_error_app2 in Hj by exact Hge. destruct (j - length (m_handles m)) as [|[|?]]; cbn in Hj; try discriminate.
        inversion Hj; subst. split; [auto|]. intros x Hx. apply add_all_In. left. exact Hx.
  Qed.

  Lemma sinv_same rest m m' s :
    sinv (s :: rest) m -> dyn_ids (s :: rest) = dyn_ids rest ->
    m_born m' = m_born m -> m_stopping m' = m_stopping m -> m_stopped m' = m_stopped m ->
    m_handles m' = m_handles m -> m_restarted m' = m_restarted m -> sinv rest m'.
  Proof.
    intros [S1 S2 S3 S4 S5 S6 S7 S8 S9] Hd E1 E2 E3 E4 E5. constructor; rewrite ?E1, ?E2, ?E3, ?E4, ?E5; auto.
    rewrite <- Hd. exact S2.
  Qed.

  Lemma sinv_await rest m k : sinv (SAwait k :: rest) m -> sinv rest (do_await t m k).
  Proof.
    intros S. unfold do_await. destruct (nth_error (m_handles m) k) as [[kind p]|] eqn:E.
    - destruct S as [S1 S2 S3 S4 S5 S6 S7 S8 S9]. destruct (S8 k kind p E) as [Hp Hc].
      constructor; cbn; auto.
      + intros x Hx. apply add_all_In in Hx as [Hx|Hx]; [apply Hc, post_In, Hx|auto].
      + intros x Hx y Hy. apply add_all_In. apply add_all_In in Hx as [Hx|Hx].
        * left. apply post_In. apply post_In in Hx. eapply closure_trans; eassumption.
        * right. eapply S7; eassumption.
    - eapply sinv_same; [exact S|reflexivity..].
  Qed.

  Lemma sinv_spawn rest m p c :
    sinv (SSpawn p c :: rest) m ->
    In p (m_born m) -> ~ In c (m_born m) -> In c (ids t) -> In (p, c) (edges t) ->
    sinv rest (do_spawn m p c).
  Proof.
    intros [S1 S2 S3 S4 S5 S6 S7 S8 S9] Hp Hc Hci He. constructor; cbn; auto.
    - intros x Hx. apply in_app_iff in Hx as [Hx|[<-|[]]]; auto.
    - intros n Hn. rewrite in_app_iff. cbn. destruct (S2 n Hn) as [H|H]; auto. cbn in H. destruct H as [<-|H]; auto.
    - intros a x Hax Hx. apply in_app_iff. apply in_app_iff in Hx as [Hx|[<-|[]]].
      + left. eapply S3; eassumption.
      + left. assert (a = p) as -> by (eapply edges_unique_parent; eassumption). exact Hp.
    - intros x Hx. apply in_app_iff. left. auto.
  Qed.

  Lemma sinv_step maxr rest m waited s :
    sinv (s :: rest) m -> winddown s = true \/ wf_step t maxr m waited s = true -> sinv rest (mstep t m s).
  Proof.
    intros S W. destruct s as [n|n|n|n|k|g|g|k c x|n|p c|n]; cbn [mstep winddown] in *;
      try (destruct W as [W|W]; [discriminate|]).
    1-4: eapply (sinv_handle maxr); [exact S|reflexivity|exact W].
    - apply sinv_await. exact S.
    - eapply sinv_same; [exact S|reflexivity..].
    - eapply sinv_same; [exact S|reflexivity..].
    - eapply sinv_same; [exact S|reflexivity..].
    - eapply sinv_same; [exact S|reflexivity..].
    - cbn in W. rewrite !andb_true_iff in W. destruct W as ((((W1 & W2) & W3) & W4) & W5).
      apply memb_In in W1, W4. apply negb_true_iff, memb_false in W3.
      apply sinv_spawn; auto. apply (parent_in_edges t c p Hnd).
      destruct (parent_in t c) as [q|]; cbn in W5; [apply Nat.eqb_eq in W5; subst; reflexivity|discriminate].
    - cbn in W. rewrite !andb_true_iff in W. destruct W as ((W1 & W2) & W3). apply memb_In in W1.
      destruct S as [S1 S2 S3 S4 S5 S6 S7 S8 S9]. constructor; cbn; try assumption.
      intros x Hx. apply in_app_or in Hx as [Hx|[<-|[]]]; auto.
  Qed.

  (** ** the children maps *)
  Lemma pinv_same m m' :
    pinv m -> m_born m' = m_born m -> m_stopped m' = m_stopped m -> m_book m' = m_book m ->
    m_spawned m' = m_spawned m -> m_probes m' = m_probes m -> m_spec_probes m' = m_spec_probes m -> pinv m'.
  Proof. intros [P1 P2 P3] E1 E2 E3 E4 E5 E6. constructor; rewrite ?E1, ?E2, ?E3, ?E4, ?E5, ?E6; assumption. Qed.

  Lemma pinv_await rest m k : sinv (SAwait k :: rest) m -> pinv m -> pinv (do_await t m k).
  Proof.
    intros S P. unfold do_await. destruct (nth_error (m_handles m) k) as [[kind p]|] eqn:E; [|exact P].
    destruct P as [(sp & K) P2 P3]. destruct (v_handles _ _ S k kind p E) as [Hp Hc].
    constructor; cbn; [|exact P2|exact P3].
    exists (fold_left Tree.sstep (newly_stopped t (m_stopped m) p) sp). unfold newly_stopped.
    set (batch := filter (fun c => negb (memb c (m_stopped m))) (post t p)).
    assert (K' := kinv_stop_batch t _ batch _ _ _ K).
    eapply kinv_ext; [| |apply K'].
    - intros n. cbn. reflexivity.
    - intros n. cbn. rewrite add_all_In. unfold batch. rewrite filter_In, negb_true_iff, memb_false.
      destruct (in_dec Nat.eq_dec n (m_stopped m)); tauto.
    - apply NoDup_filter, post_NoDup, Hnd.
    - intros c Hc'. unfold batch in Hc'. apply filter_In in Hc' as [H1 H2]. apply negb_true_iff, memb_false in H2.
      split; [|exact H2]. apply (v_stopping_born _ _ S), Hc. apply post_In in H1; assumption.
  Qed.

  Lemma pinv_probe rest m n :
    sinv (SProbe n :: rest) m -> pinv m -> In n (m_born m) -> ~ In n (m_stopping m) -> pinv (do_probe t m n).
  Proof.
    intros S [(sp & K) P2 P3] Hb Hs. constructor; cbn; [eauto|exact P2|].
    apply all2_snoc; [exact P3|].
    assert (Hns : ~ In n (m_stopped m)) by (intros H; apply Hs, (v_stopped_stopping _ _ S), H).
    destruct (kinv_probe t _ _ _ _ n Hnd K Hb Hns) as (H1 & H2 & H3).
    unfold probe_ok. cbn. rewrite Nat.eqb_refl, H3, option_nat_eqb_refl, (nodupb_NoDup _ H1), !andb_true_r. cbn.
    apply seteqb_iff. intros c. rewrite H2. unfold spec_kids. rewrite filter_In, andb_true_iff, negb_true_iff, memb_In, memb_false. tauto.
  Qed.

  Lemma pinv_spawn rest m p c :
    sinv (SSpawn p c :: rest) m -> pinv m ->
    In p (m_born m) -> ~ In p (m_stopping m) -> ~ In c (m_born m) -> In (p, c) (edges t) ->
    pinv (do_spawn m p c).
  Proof.
    intros S [(sp & K) (sp' & K') P3] Hp Hps Hc He.
    assert (Hpst : ~ In p (m_stopped m)) by (intros H; apply Hps, (v_stopped_stopping _ _ S), H).
    assert (Hcst : ~ In c (m_stopped m)).
    { intros H. apply Hc, (v_stopping_born _ _ S), (v_stopped_stopping _ _ S), H. }
    constructor; cbn; [| |exact P3].
    - exists (Tree.sstep sp (BSpawnChild p c)).
      assert (K2 := kinv_spawn t _ _ _ _ p c Hnd K Hp Hpst Hc Hcst He (v_born_par _ _ S)).
      eapply kinv_ext; [| |apply K2]; intros n; cbn; [rewrite in_app_iff; cbn; intuition|reflexivity].
    - exists (Tree.sstep sp' (BSpawnChild p c)).
      assert (K2 := kinv_spawn t _ _ _ _ p c Hnd K' Hp (fun H => H) Hc (fun H => H) He (v_born_par _ _ S)).
      eapply kinv_ext; [| |apply K2]; intros n; cbn; [rewrite in_app_iff; cbn; intuition|reflexivity].
  Qed.

  Lemma pinv_step maxr rest m waited s :
    sinv (s :: rest) m -> pinv m -> winddown s = true \/ wf_step t maxr m waited s = true -> pinv (mstep t m s).
  Proof.
    intros S P W. destruct s as [n|n|n|n|k|g|g|k c x|n|p c|n]; cbn [mstep winddown] in *;
      try (destruct W as [W|W]; [discriminate|]).
    1-4: eapply pinv_same; [exact P|reflexivity..].
    - eapply pinv_await; eassumption.
    - eapply pinv_same; [exact P|reflexivity..].
    - eapply pinv_same; [exact P|reflexivity..].
    - exact P.
    - cbn in W. rewrite !andb_true_iff in W. destruct W as ((W1 & W2) & _).
      apply memb_In in W1. apply negb_true_iff, memb_false in W2. eapply pinv_probe; eassumption.
    - cbn in W. rewrite !andb_true_iff in W. destruct W as ((((W1 & W2) & W3) & W4) & W5).
      apply memb_In in W1. apply negb_true_iff, memb_false in W2, W3.
      eapply pinv_spawn; try eassumption. apply (parent_in_edges t c p Hnd).
      destruct (parent_in t c) as [q|]; cbn in W5; [apply Nat.eqb_eq in W5; subst; reflexivity|discriminate].
    - eapply pinv_same; [exact P|reflexivity..].
  Qed.

  (** ** the events *)
  Lemma einv_same e e' :
    einv e -> e_evs e' = e_evs e -> e_done e' = e_done e -> e_alive e' = e_alive e ->
    m_stopped (e_m e') = m_stopped (e_m e) ->
    (forall j x, nth_error (m_handles (e_m e)) j = Some x -> nth_error (m_handles (e_m e')) j = Some x) ->
    einv e'.
  Proof.
    intros [E1 E2 E3 E4 E5 E6] H1 H2 H3 H4 H5. constructor; rewrite ?H1, ?H2, ?H3, ?H4; auto.
    intros j Hj. destruct (E4 j Hj) as (k & q & Hq & Hr). exists k, q. split; [apply H5; exact Hq|exact Hr].
  Qed.
End Run.

(** lists of events *)
Section Prec.
  Context {A : Type} (eqb : A -> A -> bool).
  Hypothesis eqb_spec : forall a b, eqb a b = true <-> a = b.

  Lemma index_of_in a l : In a l -> exists i, index_of eqb a l = Some i /\ i < length l.
  Proof.
    induction l as [|b l IH]; cbn; [tauto|]. intros H. destruct (eqb a b) eqn:E.
    - exists 0. split; [reflexivity|lia].
    - destruct H as [->|H]; [rewrite (proj2 (eqb_spec a a) eq_refl) in E; discriminate|].
      destruct (IH H) as (i & -> & Hi). exists (S i). split; [reflexivity|lia].
  Qed.

  Lemma index_of_app_in a l l' : In a l -> index_of eqb a (l ++ l') = index_of eqb a l.
  Proof.
    induction l as [|b l IH]; cbn; [tauto|]. intros H. destruct (eqb a b) eqn:E; [reflexivity|].
    destruct H as [->|H]; [rewrite (proj2 (eqb_spec a a) eq_refl) in E; discriminate|]. rewrite IH by exact H. reflexivity.
  Qed.

  Lemma index_of_app_out a l l' : ~ In a l -> index_of eqb a (l ++ l') = option_map (fun i => length l + i) (index_of eqb a l').
  Proof.
    induction l as [|b l IH]; cbn; intros H.
    - destruct (index_of eqb a l'); reflexivity.
    - destruct (eqb a b) eqn:E; [apply eqb_spec in E; subst; tauto|]. rewrite IH by tauto.
      destruct (index_of eqb a l'); reflexivity.
  Qed.

  Lemma precedes_app_l a b l l' : precedes eqb a b l = true -> precedes eqb a b (l ++ l') = true.
  Proof.
    unfold precedes. destruct (index_of eqb a l) as [i|] eqn:Ea; [|discriminate].
    destruct (index_of eqb b l) as [j|] eqn:Eb; [|discriminate]. intros H.
    assert (Ha : In a l) by (apply (index_of_some eqb eqb_spec) in Ea as (l1 & l2 & -> & _); apply in_app_iff; right; left; reflexivity).
    assert (Hb : In b l) by (apply (index_of_some eqb eqb_spec) in Eb as (l1 & l2 & -> & _); apply in_app_iff; right; left; reflexivity).
    rewrite !index_of_app_in by assumption. rewrite Ea, Eb. exact H.
  Qed.

  Lemma precedes_old_new a b l l' : In a l -> ~ In b l -> In b l' -> precedes eqb a b (l ++ l') = true.
  Proof.
    intros Ha Hb Hb'. unfold precedes. rewrite index_of_app_in by exact Ha. rewrite index_of_app_out by exact Hb.
    destruct (index_of_in a l Ha) as (i & -> & Hi). destruct (index_of_in b l' Hb') as (j & -> & _). cbn.
    apply Nat.ltb_lt. lia.
  Qed.

  Lemma precedes_new_new a b l l' : ~ In a l -> ~ In b l -> precedes eqb a b (l ++ l') = precedes eqb a b l'.
  Proof.
    intros Ha Hb. unfold precedes. rewrite !index_of_app_out by assumption.
    destruct (index_of eqb a l') as [i|], (index_of eqb b l') as [j|]; cbn [option_map]; try reflexivity.
    destruct (i <? j) eqn:E1; [apply Nat.ltb_lt; apply Nat.ltb_lt in E1; lia|apply Nat.ltb_ge; apply Nat.ltb_ge in E1; lia].
  Qed.
End Prec.

Lemma x_events_In o ns : In o (x_events ns) <-> exists n, In n ns /\ (o = EXB n \/ o = EXE n).
Proof.
  unfold x_events. rewrite in_flat_map. split.
  - intros (n & Hn & [ <- | [ <- | [] ] ]); eauto.
  - intros (n & Hn & [ -> | -> ]); exists n; cbn; auto.
Qed.

Lemma x_events_NoDup ns : NoDup ns -> NoDup (x_events ns).
Proof.
  induction 1 as [|n ns Hn Hns IH]; cbn; [constructor|]. constructor; [|constructor]; auto.
  - cbn. intros [H|H]; [discriminate|]. apply x_events_In in H as (m & Hm & [[= <-]|H]); [contradiction|discriminate].
  - intros H. apply x_events_In in H as (m & Hm & [H|[= <-]]); [discriminate|contradiction].
Qed.

Lemma x_events_app l1 l2 : x_events (l1 ++ l2) = x_events l1 ++ x_events l2.
Proof. unfold x_events. apply flat_map_app. Qed.

Lemma x_events_before d p ns : before d p ns -> before (EXE d) (EXB p) (x_events ns).
Proof.
  intros (l1 & l2 & l3 & ->). rewrite x_events_app. cbn. rewrite x_events_app. cbn.
  exists (x_events l1 ++ [EXB d]), (x_events l2), (EXE p :: x_events l3). rewrite <- app_assoc. reflexivity.
Qed.

Lemma nth_error_app_some {A} (l l' : list A) j x : nth_error l j = Some x -> nth_error (l ++ l') j = Some x.
Proof.
  intros H. rewrite nth_error_app1; [exact H|]. apply nth_error_Some. congruence.
Qed.

Lemma filter_nil_of_subset (l s : list nat) : incl l s -> filter (fun d => negb (memb d s)) l = [].
Proof.
  induction l as [|x l IH]; [reflexivity|]. intros H. cbn.
  assert (memb x s = true) as -> by (apply memb_In, H; left; reflexivity). cbn. apply IH. intros y Hy. apply H. right. exact Hy.
Qed.

Section Run2.
  Variable t : tree.
  Hypothesis Hnd : NoDup (ids t).

  Lemma einv_await rest e k : sinv t (SAwait k :: rest) (e_m e) -> einv t e -> einv t (estep t e (SAwait k)).
  Proof.
    intros S E. cbn [estep]. destruct (nth_error (m_handles (e_m e)) k) as [[kind p]|] eqn:Ek; [|exact E].
    set (m := e_m e) in *.
    set (batch := filter (fun n => negb (memb n (m_stopped m))) (post t p)).
    set (st' := add_all (post t p) (m_stopped m)).
    assert (Hm' : m_stopped (mstep t m (SAwait k)) = st') by (cbn; unfold do_await; rewrite Ek; reflexivity).
    assert (Hh' : m_handles (mstep t m (SAwait k)) = m_handles m) by (cbn; unfold do_await; rewrite Ek; reflexivity).
    rewrite Hm'.
    set (newly := filter (fun j => negb (memb j (e_done e)) &&
                           match nth_error (m_handles m) j with
                           | Some (_, q) => subsetb (closure t q) st' | None => false end)
                         (seq 0 (length (m_handles m)))).
    destruct E as [E1 E2 E3 E4 E5 E6]. fold m in E1, E2, E3, E4.
    destruct (v_handles _ _ _ S k kind p Ek) as [Hp Hc]. fold m in Hc.
    assert (Hbatch : forall n, In n batch <-> In n (post t p) /\ ~ In n (m_stopped m)).
    { intros n. unfold batch. rewrite filter_In, negb_true_iff, memb_false. tauto. }
    assert (Hst' : forall n, In n st' <-> In n (m_stopped m) \/ In n batch).
    { intros n. unfold st'. rewrite add_all_In, Hbatch. destruct (in_dec Nat.eq_dec n (m_stopped m)); tauto. }
    assert (HnoD : forall j l, ~ In (EDone j) (x_events l)).
    { intros j l H. apply x_events_In in H as (n & _ & [H|H]); discriminate. }
    assert (HnoX : forall o l, In o (map EDone l) -> (forall n, o <> EXB n) /\ (forall n, o <> EXE n)).
    { intros o l H. apply in_map_iff in H as (j & <- & _). split; discriminate. }
    constructor; cbn [e_evs e_m e_done e_alive]; rewrite ?Hm', ?Hh'.
    - intros n. rewrite !in_app_iff, E1, Hst', x_events_In. split.
      + intros [H|[(n' & Hn' & [[= <-]|H])|H]]; auto; try discriminate. destruct (HnoX _ _ H) as [H1 _]. exfalso. eapply H1; reflexivity.
      + intros [H|H]; auto. right. left. eauto.
    - intros n. rewrite !in_app_iff, E2, Hst', x_events_In. split.
      + intros [H|[(n' & Hn' & [H|[= <-]])|H]]; auto; try discriminate. destruct (HnoX _ _ H) as [_ H1]. exfalso. eapply H1; reflexivity.
      + intros [H|H]; auto. right. left. eauto.
    - intros q d Hq Hd. apply Hst' in Hq as [Hq|Hq].
      + apply (precedes_app_l _ oev_eqb_spec). apply E3; assumption.
      + apply Hbatch in Hq as [Hq1 Hq2]. apply (post_In t) in Hq1.
        assert (Hdc : In d (closure t p)) by (eapply (desc_trans_closure t Hnd); eassumption).
        destruct (in_dec Nat.eq_dec d (m_stopped m)) as [Hds|Hds].
        * apply (precedes_old_new _ oev_eqb_spec).
          -- apply E2. exact Hds.
          -- rewrite E1. exact Hq2.
          -- apply in_app_iff. left. apply x_events_In. exists q. split; [|auto]. apply Hbatch. split; [apply (post_In t); assumption|exact Hq2].
        * rewrite (precedes_new_new _ oev_eqb_spec); [|rewrite E2; exact Hds|rewrite E1; exact Hq2].
          apply (precedes_app_l _ oev_eqb_spec). apply (before_precedes _ oev_eqb_spec).
          -- apply x_events_NoDup, NoDup_filter, (post_NoDup t Hnd).
          -- apply x_events_before. unfold batch. apply before_filter.
             ++ apply (post_order t Hnd); assumption.
             ++ apply negb_true_iff, memb_false. exact Hds.
             ++ apply negb_true_iff, memb_false. exact Hq2.
    - intros j Hj. apply in_app_iff in Hj as [Hj|Hj].
      + destruct (E4 j Hj) as (k' & q & Hq & Hincl & Hprec). exists k', q. split; [exact Hq|]. split.
        * intros x Hx. apply Hst'. left. apply Hincl, Hx.
        * intros d Hd. apply (precedes_app_l _ oev_eqb_spec). apply Hprec, Hd.
      + unfold newly in Hj. apply filter_In in Hj as [Hj1 Hj2]. apply andb_true_iff in Hj2 as [Hj2 Hj3].
        apply negb_true_iff, memb_false in Hj2.
        destruct (nth_error (m_handles m) j) as [[k' q]|] eqn:Eq; [|discriminate]. apply subsetb_incl in Hj3.
        exists k', q. split; [reflexivity|]. split; [exact Hj3|]. intros d Hd.
        rewrite app_assoc. apply (precedes_old_new _ oev_eqb_spec).
        * apply in_app_iff. apply Hj3, Hst' in Hd as [Hd|Hd]; [left; apply E2, Hd|right; apply x_events_In; eauto].
        * rewrite in_app_iff. intros [H|H]; [apply Hj2, E5, H|eapply HnoD, H].
        * apply in_map. unfold newly. apply filter_In. split; [exact Hj1|]. rewrite Eq. apply andb_true_iff. split.
          -- apply negb_true_iff, memb_false, Hj2.
          -- apply subsetb_incl, Hj3.
    - intros j. rewrite !in_app_iff. intros [H|[H|H]].
      + left. apply E5, H.
      + exfalso. eapply HnoD, H.
      + right. apply in_map_iff in H as (j' & [= <-] & H). exact H.
    - intros x Hx. apply in_app_iff in Hx as [Hx|Hx]; [apply E6, Hx|].
      apply in_map_iff in Hx as (j & <- & Hj). cbn. unfold newly in Hj. apply filter_In in Hj as [_ Hj].
      apply andb_true_iff in Hj as [_ Hj]. destruct (nth_error (m_handles m) j) as [[k' q]|]; [|reflexivity].
      apply filter_nil_of_subset. apply subsetb_incl. exact Hj.
  Qed.

  Lemma einv_step e s : forall rest, sinv t (s :: rest) (e_m e) -> einv t e -> einv t (estep t e s).
  Proof.
    intros rest S E. destruct s as [n|n|n|n|k|g|g|k c x|n|p c|n];
      try (eapply einv_same; [exact E|reflexivity..|cbn; intros j y Hy; first [exact Hy | apply nth_error_app_some; exact Hy]]).
    eapply einv_await; eassumption.
  Qed.
End Run2.

(** * Part D: the whole run, and the predicate *)

Lemma precedes_antisym {A} (eqb : A -> A -> bool) a b l : precedes eqb a b l = true -> precedes eqb b a l = false.
Proof.
  unfold precedes. destruct (index_of eqb a l), (index_of eqb b l); try discriminate.
  intros H. apply Nat.ltb_lt in H. apply Nat.ltb_ge. lia.
Qed.

Lemma filter_all_false {A} (f : A -> bool) l : (forall x, In x l -> f x = false) -> filter f l = [].
Proof.
  induction l as [|x l IH]; [reflexivity|]. intros H. cbn. rewrite (H x (or_introl eq_refl)). apply IH. intros y Hy. apply H. right. exact Hy.
Qed.

Lemma child_ids_desc s c : In c (child_ids s) -> In c (desc s).
Proof.
  unfold child_ids, desc. rewrite in_map_iff. intros (k & <- & Hk). apply in_flat_map. exists k. split; [exact Hk|apply root_in_ids].
Qed.

Lemma model_xinfo_ok t n :
  NoDup (ids t) -> In n (ids t) ->
  let x := model_xinfo t n in
  xi_n x = n /\ xi_self_reg x = true /\ xi_desc_reg x = [] /\ xi_kids x = [] /\ xi_parent x = parent_in t n.
Proof.
  intros Hnd Hn. destruct (find_sub_ids t Hnd n Hn) as (s & E & Hs & Hr). unfold model_xinfo. rewrite E. cbn.
  assert (Hnds : NoDup (stop_tree s)) by (apply stop_tree_NoDup; eapply subtree_NoDup; eassumption).
  subst n. repeat split.
  - apply negb_true_iff. apply precedes_antisym. apply (before_precedes _ tev_eqb_spec _ _ _ Hnds).
    apply (own_order s s (sub_refl s)).
  - apply filter_all_false. intros d Hd. apply negb_false_iff. apply (before_precedes _ tev_eqb_spec _ _ _ Hnds).
    apply (children_first s s d (sub_refl s) Hd).
  - apply filter_all_false. intros d Hd. apply negb_false_iff. apply (before_precedes _ tev_eqb_spec _ _ _ Hnds).
    apply (children_first s s d (sub_refl s) (child_ids_desc s d Hd)).
Qed.

Lemma indexed_In {A} (l : list A) : forall i j x, In (j, x) (indexed i l) <-> i <= j /\ nth_error l (j - i) = Some x.
Proof.
  induction l as [|a l IH]; intros i j x; cbn.
  - split; [tauto|]. intros [_ H]. destruct (j - i); discriminate.
  - rewrite IH. split.
    + intros [[= <- <-]|[H1 H2]].
      * rewrite Nat.sub_diag. cbn. split; [lia|reflexivity].
      * split; [lia|]. replace (j - i) with (S (j - S i)) by lia. exact H2.
    + intros [H1 H2]. destruct (Nat.eq_dec i j) as [->|Hne].
      * rewrite Nat.sub_diag in H2. cbn in H2. left. congruence.
      * right. split; [lia|]. replace (j - i) with (S (j - S i)) in H2 by lia. exact H2.
Qed.

Lemma indexed_map_indexed {A B} (g : nat * A -> B) (l : list A) : forall i,
  indexed i (map g (indexed i l)) = map (fun jh => (fst jh, g jh)) (indexed i l).
Proof. induction l as [|a l IH]; intros i; cbn; [reflexivity|]. rewrite IH. reflexivity. Qed.

Lemma all2_map_r {A B C} (f : A -> C -> bool) (g : A -> B -> bool) (h : B -> C) l1 l2 :
  (forall a b, g a b = true -> f a (h b) = true) -> all2 g l1 l2 = true -> all2 f l1 (map h l2) = true.
Proof.
  intros Hfg. revert l2. induction l1 as [|a l1 IH]; intros [|b l2]; cbn; try discriminate; auto.
  rewrite !andb_true_iff. intros [H1 H2]. split; [apply Hfg, H1|apply IH, H2].
Qed.

Lemma xb_nodes_In n evs : In n (xb_nodes evs) <-> In (EXB n) evs.
Proof.
  unfold xb_nodes. rewrite in_flat_map. split.
  - intros (e & He & H). destruct e; cbn in H; try contradiction. destruct H as [<-|[]]. exact He.
  - intros H. exists (EXB n). split; [exact H|left; reflexivity].
Qed.

Section Whole.
  Variable t : tree.
  Hypothesis Hnd : NoDup (ids t).

  Lemma run_inv maxr : forall steps rest e waited,
    sinv t (steps ++ rest) (e_m e) -> pinv t (e_m e) -> einv t e ->
    wf_steps t maxr (e_m e) waited steps = true ->
    let e' := fold_left (estep t) steps e in
    sinv t rest (e_m e') /\ pinv t (e_m e') /\ einv t e'.
  Proof.
    induction steps as [|s steps IH]; intros rest e waited S P E W; cbn; [auto|].
    cbn in W. apply andb_true_iff in W as [W1 W2]. cbn [app] in S.
    apply (IH rest (estep t e s) (match s with SWaitGate g => g :: waited | _ => waited end)).
    - rewrite e_m_estep. eapply sinv_step; [exact Hnd|exact S|right; exact W1].
    - rewrite e_m_estep. eapply pinv_step; [exact Hnd|exact S|exact P|right; exact W1].
    - eapply einv_step; eassumption.
    - rewrite e_m_estep. exact W2.
  Qed.

  Lemma wd_inv : forall wd e,
    Forall (fun s => winddown s = true) wd ->
    sinv t wd (e_m e) -> pinv t (e_m e) -> einv t e ->
    let e' := fold_left (estep t) wd e in
    sinv t [] (e_m e') /\ pinv t (e_m e') /\ einv t e'.
  Proof.
    induction wd as [|s wd IH]; intros e F S P E; cbn; [auto|]. inversion F; subst.
    apply IH; [assumption| | |].
    - rewrite e_m_estep. eapply (sinv_step t Hnd 0 wd (e_m e) []); [exact S|left; assumption].
    - rewrite e_m_estep. eapply (pinv_step t Hnd 0 wd (e_m e) []); [exact S|exact P|left; assumption].
    - eapply einv_step; eassumption.
  Qed.

  Lemma estep_done_mono e s j : In j (e_done e) -> In j (e_done (estep t e s)).
  Proof.
    destruct s; cbn; auto. destruct (nth_error (m_handles (e_m e)) k) as [[? ?]|]; cbn; auto.
    intros H. apply in_app_iff. left. exact H.
  Qed.

  Lemma estep_handles_wd e s : winddown s = true -> m_handles (e_m (estep t e s)) = m_handles (e_m e).
  Proof.
    rewrite e_m_estep. destruct s; try discriminate; intros _; cbn; [|reflexivity].
    unfold do_await. destruct (nth_error (m_handles (e_m e)) k) as [[? ?]|]; reflexivity.
  Qed.

  Lemma await_marks e j : j < length (m_handles (e_m e)) -> In j (e_done (estep t e (SAwait j))).
  Proof.
    intros Hj. cbn. destruct (nth_error (m_handles (e_m e)) j) as [[kind p]|] eqn:E.
    - cbn. destruct (in_dec Nat.eq_dec j (e_done e)) as [H|H]; [apply in_app_iff; left; exact H|].
      apply in_app_iff. right. apply filter_In. split; [apply in_seq; lia|]. rewrite E. apply andb_true_iff. split.
      + apply negb_true_iff, memb_false, H.
      + apply subsetb_incl. intros x Hx. unfold do_await. rewrite E. cbn. apply add_all_In. left. apply (post_In t). exact Hx.
    - apply nth_error_None in E. lia.
  Qed.

  Lemma awaits_mark : forall l e,
    let e' := fold_left (estep t) (map SAwait l) e in
    m_handles (e_m e') = m_handles (e_m e) /\
    (forall j, In j (e_done e) -> In j (e_done e')) /\
    (forall j, In j l -> j < length (m_handles (e_m e)) -> In j (e_done e')).
  Proof.
    induction l as [|k l IH]; intros e; cbn [map fold_left]; [cbn; tauto|].
    destruct (IH (estep t e (SAwait k))) as (H1 & H2 & H3).
    pose proof (estep_handles_wd e (SAwait k) eq_refl) as Hh. split; [congruence|]. split.
    - intros j Hj. apply H2. apply estep_done_mono. exact Hj.
    - intros j [<-|Hj] Hlt.
      + apply H2. apply await_marks. exact Hlt.
      + apply H3; [exact Hj|]. rewrite Hh. exact Hlt.
  Qed.

  Lemma releases_keep : forall gs e,
    let e' := fold_left (estep t) (map SRelease gs) e in
    m_handles (e_m e') = m_handles (e_m e) /\ e_done e' = e_done e.
  Proof.
    induction gs as [|g gs IH]; intros e; cbn [map fold_left]; [cbn; auto|].
    destruct (IH (estep t e (SRelease g))) as [H1 H2]. split; [rewrite H1|rewrite H2]; reflexivity.
  Qed.
End Whole.

Lemma handles_length t : forall steps m,
  length (m_handles (fold_left (mstep t) steps m)) = length (m_handles m) + nhandles steps.
Proof.
  induction steps as [|s steps IH]; intros m; cbn; [unfold nhandles; cbn; lia|].
  rewrite IH. unfold nhandles. cbn [filter]. destruct s; cbn; rewrite ?app_length; cbn; try lia.
  unfold do_await. destruct (nth_error (m_handles m) k) as [[? ?]|]; cbn; lia.
Qed.

Lemma e_m_fold t : forall steps e, e_m (fold_left (estep t) steps e) = fold_left (mstep t) steps (e_m e).
Proof. induction steps as [|s steps IH]; intros e; cbn; [reflexivity|]. rewrite IH, e_m_estep. reflexivity. Qed.

Lemma wd_keeps t : forall wd m,
  Forall (fun s => winddown s = true) wd ->
  let m' := fold_left (mstep t) wd m in
  m_spec_probes m' = m_spec_probes m /\ m_probes m' = m_probes m /\ m_restarted m' = m_restarted m /\
  m_spawned m' = m_spawned m /\ m_at_return m' = m_at_return m /\ m_handles m' = m_handles m.
Proof.
  induction wd as [|s wd IH]; intros m F; cbn; [tauto|]. inversion F; subst.
  destruct (IH (mstep t m s) H2) as (A1 & A2 & A3 & A4 & A5 & A6). rewrite A1, A2, A3, A4, A5, A6.
  destruct s; try discriminate; cbn; [|tauto]. unfold do_await. destruct (nth_error (m_handles m) k) as [[? ?]|]; cbn; tauto.
Qed.

Lemma winddown_all gates steps : Forall (fun s => winddown s = true) (wind_down gates steps).
Proof.
  unfold wind_down. apply Forall_app. split; apply Forall_forall; intros s Hs; apply in_map_iff in Hs as (? & <- & _); reflexivity.
Qed.

Lemma dyn_ids_app a b : dyn_ids (a ++ b) = dyn_ids a ++ dyn_ids b.
Proof. unfold dyn_ids. apply flat_map_app. Qed.

Lemma dyn_ids_wd : forall wd, Forall (fun s => winddown s = true) wd -> dyn_ids wd = [].
Proof. induction 1 as [|s wd Hs _ IH]; [reflexivity|]. destruct s; try discriminate; cbn; exact IH. Qed.

Lemma nrestarts_run t : forall steps m,
  length (m_restarted (fold_left (mstep t) steps m)) = length (m_restarted m) + nrestarts steps.
Proof.
  induction steps as [|s steps IH]; intros m; cbn; [unfold nrestarts; cbn; lia|].
  rewrite IH. unfold nrestarts. cbn [filter]. destruct s; cbn; rewrite ?app_length; cbn; try lia.
  unfold do_await. destruct (nth_error (m_handles m) k) as [[? ?]|]; cbn; lia.
Qed.

(** ** the start *)
Lemma init_inv t gates dyn rest :
  NoDup (ids t) -> ~ In (root t) dyn ->
  (forall e, In e (edges t) -> memb (fst e) dyn = true -> memb (snd e) dyn = true) ->
  dyn_ids rest = dyn ->
  let e := e_init t gates dyn in
  sinv t rest (e_m e) /\ pinv t (e_m e) /\ einv t e.
Proof.
  intros Hnd Hr Hc Hd. cbn. split; [|split].
  - constructor; cbn.
    + intros n Hn. apply filter_In in Hn. tauto.
    + intros n Hn. rewrite Hd. destruct (in_dec Nat.eq_dec n dyn) as [H|H]; [right; exact H|left].
      apply filter_In. split; [exact Hn|]. apply negb_true_iff, memb_false, H.
    + intros a0 x0 He Hx. apply filter_In in Hx as [Hx1 Hx2]. apply negb_true_iff, memb_false in Hx2.
      apply filter_In. split; [eapply edge_parent_ids; eassumption|]. apply negb_true_iff, memb_false.
      intros Ha. apply Hx2. apply memb_In. apply (Hc (a0, x0) He). apply memb_In. exact Ha.
    + intros x0 [].
    + intros x0 [].
    + intros n [].
    + intros n [].
    + intros j k q H. destruct j; discriminate.
    + intros x0 [].
  - destruct (kinv_init t dyn Hnd Hr Hc) as (sp & K).
    assert (HB : forall n, In n (ids t) /\ ~ In n dyn <-> In n (filter (fun n0 => negb (memb n0 dyn)) (ids t))).
    { intros n. rewrite filter_In, negb_true_iff, memb_false. tauto. }
    constructor; cbn.
    + exists sp. eapply kinv_ext; [exact HB| |exact K]. intros n. cbn. tauto.
    + exists sp. eapply kinv_ext; [exact HB| |exact K]. intros n. tauto.
    + reflexivity.
  - constructor; cbn.
    + tauto.
    + tauto.
    + intros p d [].
    + intros j [].
    + intros j [].
    + intros x0 [].
Qed.

(** * [C08_oracle_holds_of_model] *)
Theorem oracle_holds_of_model c :
  wfb c = true ->
  oracle (with_obs c (model_obs c)) = true /\ o_rstops (model_obs c) = nrestarts (c_steps c).
Proof.
  intros W. unfold wfb in W. rewrite !andb_true_iff in W.
  destruct W as ((((((((W1 & W2) & W3) & W4) & W5) & _) & _) & _) & W9).
  set (t := c_tree c) in *. set (dyn := dyn_ids (c_steps c)) in *.
  apply nodupb_true in W1. rename W1 into Hnd.
  apply negb_true_iff, memb_false in W4.
  assert (Hc : forall e, In e (edges t) -> memb (fst e) dyn = true -> memb (snd e) dyn = true).
  { intros e He Hf. rewrite forallb_forall in W5. specialize (W5 e He). rewrite Hf in W5. exact W5. }
  set (wd := wind_down (c_gates c) (c_steps c)).
  pose proof (winddown_all (c_gates c) (c_steps c)) as Fwd. fold wd in Fwd.
  destruct (init_inv t (c_gates c) dyn (c_steps c ++ wd) Hnd W4 Hc) as (S0 & P0 & E0).
  { rewrite dyn_ids_app, (dyn_ids_wd wd Fwd), app_nil_r. reflexivity. }
  set (e0 := e_init t (c_gates c) dyn) in *.
  destruct (run_inv t Hnd (c_maxr c) (c_steps c) wd e0 [] S0 P0 E0 W9) as (S1 & P1 & E1).
  set (e1 := fold_left (estep t) (c_steps c) e0) in *.
  destruct (wd_inv t Hnd wd e1 Fwd S1 P1 E1) as (S2 & P2 & E2).
  set (e2 := fold_left (estep t) wd e1) in *.
  assert (He2 : erun c = e2) by (unfold erun, e2, e1, e0; fold t dyn wd; rewrite fold_left_app; reflexivity).
  assert (Hm1 : mrun c = e_m e1) by (unfold mrun, mrun_steps, e1, e0; rewrite e_m_fold; reflexivity).
  assert (Hkeep := wd_keeps t wd (e_m e1) Fwd). cbn zeta in Hkeep. rewrite <- (e_m_fold t wd e1) in Hkeep. fold e2 in Hkeep.
  destruct Hkeep as (K1 & K2 & K3 & K4 & K5 & K6).
  (* every handle is done at the end *)
  assert (Hdone : forall j, j < length (m_handles (e_m e2)) -> In j (e_done e2)).
  { intros j Hj. unfold e2, wd, wind_down. rewrite fold_left_app.
    destruct (releases_keep t (c_gates c) e1) as [R1 R2].
    set (er := fold_left (estep t) (map SRelease (c_gates c)) e1) in *.
    destruct (awaits_mark t (seq 0 (nhandles (c_steps c))) er) as (A1 & A2 & A3). apply A3.
    - apply in_seq. rewrite K6 in Hj. unfold e1 in Hj. rewrite e_m_fold, handles_length in Hj. cbn in Hj. lia.
    - rewrite R1, <- K6. exact Hj. }
  assert (Hstopped_ids : incl (m_stopped (e_m e2)) (ids t)).
  { intros x Hx. apply (v_born_ids _ _ _ S2), (v_stopping_born _ _ _ S2), (v_stopped_stopping _ _ _ S2), Hx. }
  assert (Hborn_all : forall n, In n (ids t) -> In n (m_born (e_m e2))).
  { intros n Hn. destruct (v_born_all _ _ _ S2 n Hn) as [H|[]]. exact H. }
  split.
  2: { unfold model_obs. cbn [o_rstops]. rewrite He2, K3. unfold e1. rewrite e_m_fold, nrestarts_run. reflexivity. }
  unfold oracle. cbn [c_tree c_obs with_obs c_steps c_gates c_maxr].
  change (mrun (with_obs c (model_obs c))) with (mrun c). rewrite Hm1. fold t.
  unfold model_obs. rewrite He2. fold t.
  cbn [o_hang o_gate_timeout o_handles o_events o_xinfo o_started o_probes].
  repeat (apply andb_true_iff; split).
  - reflexivity.
  - reflexivity.
  - (* every context is done *)
    apply forallb_forall. intros h Hh. apply in_map_iff in Hh as ([j x] & <- & Hjx). cbn.
    apply memb_In, Hdone. apply indexed_In in Hjx as [_ Hjx]. rewrite Nat.sub_0_r in Hjx.
    apply nth_error_Some. congruence.
  - (* descendants first *)
    unfold order_ok. apply forallb_forall. intros s Hs. apply subtrees_subtree in Hs.
    destruct (existsb (oev_eqb (EXB (root s))) (e_evs e2)) eqn:Ex; [|reflexivity]. cbn.
    apply existsb_exists in Ex as (o & Ho & Eo). apply oev_eqb_spec in Eo. subst o.
    apply (v_xb _ _ E2) in Ho. apply forallb_forall. intros d Hd. apply (v_order _ _ E2 (root s) d Ho).
    unfold desc_of. rewrite (find_sub_subtree t s Hnd Hs). exact Hd.
  - (* the caller is signalled last; nobody of the subtree is alive then *)
    rewrite indexed_map_indexed. apply forallb_forall. intros jh Hjh.
    apply in_map_iff in Hjh as ([j [k q]] & <- & Hj). cbn.
    apply indexed_In in Hj as [_ Hj]. rewrite Nat.sub_0_r in Hj.
    assert (Hlt : j < length (m_handles (e_m e2))) by (apply nth_error_Some; congruence).
    destruct (v_done _ _ E2 j (Hdone j Hlt)) as (k' & q' & Hq' & _ & Hprec). rewrite Hj in Hq'. inversion Hq'; subst k' q'.
    apply andb_true_iff. split.
    + unfold done_ok. apply orb_true_iff. right. apply forallb_forall. exact Hprec.
    + unfold alive_of. destruct (find _ (e_alive e2)) as [x|] eqn:Ef; [|reflexivity].
      apply find_some in Ef as [Ef _]. rewrite (v_alive _ _ E2 x Ef). reflexivity.
  - (* inside Stopped *)
    apply forallb_forall. intros x Hx. apply in_map_iff in Hx as (n & <- & Hn).
    destruct (model_xinfo_ok t n Hnd (Hstopped_ids n Hn)) as (X1 & X2 & X3 & X4 & X5).
    rewrite X1, X2, X3, X4, X5, option_nat_eqb_refl. reflexivity.
  - apply forallb_forall. intros n Hn. apply xb_nodes_In, (v_xb _ _ E2) in Hn.
    apply existsb_exists. exists (model_xinfo t n). split; [apply in_map; exact Hn|].
    destruct (model_xinfo_ok t n Hnd (Hstopped_ids n Hn)) as (X1 & _). rewrite X1. apply Nat.eqb_refl.
  - (* Parent() at Started *)
    apply forallb_forall. intros n Hn. apply existsb_exists. exists (n, parent (m_spawned (e_m e2)) n).
    split; [|apply Nat.eqb_refl]. apply in_map_iff. exists n. split; [reflexivity|apply in_app_iff; left; exact Hn].
  - apply forallb_forall. intros sp Hsp. apply in_map_iff in Hsp as (n & <- & Hn). cbn.
    assert (Hni : In n (ids t)).
    { apply in_app_iff in Hn as [Hn|Hn]; [exact Hn|apply (v_restarted _ _ _ S2), Hn]. }
    destruct (v_spawned _ _ P2) as (sp' & K').
    destruct (kinv_probe t _ _ _ _ n Hnd K' (Hborn_all n Hni) (fun H => H)) as (_ & _ & Hpar).
    rewrite Hpar. apply option_nat_eqb_refl.
  - (* Children() and Parent() when probed *)
    rewrite <- K1. apply (all2_map_r _ probe_ok); [|apply (v_probes _ _ P2)].
    intros [[n1 k1] p1] [[n2 k2] p2]. unfold probe_ok. cbn. rewrite !andb_true_iff.
    intros (((H1 & H2) & H3) & H4). repeat split; assumption.
Qed.

(* the premise is met by scenarios with gates, repeated stops, restarts and children spawned on demand *)
Example wfb_examples :
  wfb {| c_tree := T3; c_maxr := 0; c_gates := [3];
         c_steps := [SPoison 1; SWaitGate 3; SPoison 0; SHold 1 1 1; SRelease 3; SAwait 1; SAwait 0];
         c_obs := obs_seq |} = true /\
  wfb {| c_tree := T3d; c_maxr := 1; c_gates := []; c_steps := steps_restart ++ [SAwait 0; SProbe 0; SRestart 0; SCrash 0];
         c_obs := obs_seq |} = true.
Proof. vm_compute. auto. Qed.
