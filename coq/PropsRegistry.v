(** The property theorems of the registry and request/response layer (C10,
    C11).  Nothing else lives here: each is closed by [exact <lemma>] and
    followed by [Print Assumptions]. *)
From stdpp Require Import list.
From HV Require Import Registry RegistryProofs RegistryExec RegistrySound.

(** * C10 — one live actor per ID; duplicate spawns change nothing *)

(* Interleaving model (Registry.v (ii)): any number of threads, each issuing
   any sequence of add / stop / lookup calls on any ids, scheduled in any
   order at the granularity of the lock acquisitions of registry.go.  In every
   reachable state: two live processes (Start() called, Stopped not yet
   handled) with the same id are the same process; a live process is the
   registry entry of its id; and whatever the registry holds under an id is a
   process created for that id whose add inserted it and whose cleanup has not
   removed it. *)
Theorem C10_unique_live :
  forall (progs : list (list cop)) (s : cst),
    creach (cinit progs) s ->
    (forall p q, clive s p -> clive s q -> c_ids s !! p = c_ids s !! q -> p = q) /\
    (forall p, clive s p -> cregistered s p) /\
    (forall i p, c_reg s i = Some p -> c_ids s !! p = Some i /\ p ∈ c_won s /\ p ∉ c_removed s).
Proof. exact unique_live. Qed.
Print Assumptions C10_unique_live.

(* a lookup (Registry.get / getByID / GetPID) returns process p of that id
   exactly while p is registered *)
Theorem C10_getpid_iff_registered :
  forall progs s t s' i r p,
    creach (cinit progs) s -> cstep s t = Some (s', LGet i r) -> c_ids s !! p = Some i ->
    (r = Some p <-> cregistered s p).
Proof. exact get_iff_registered. Qed.
Print Assumptions C10_getpid_iff_registered.

(* of the adds of an id that nobody stops during the run, at any moment after
   the first of them took the lock: exactly one (w) has won, it is the entry,
   it has run Start() or is about to; every other one has not won, never runs
   Start(), and has published ActorDuplicateIdEvent or is about to *)
Theorem C10_one_winner :
  forall (progs : list (list cop)) (i : id) (s : cst),
    (forall prog, prog ∈ progs -> i ∉ stops_of prog) ->
    creach (cinit progs) s ->
    (exists p, c_ids s !! p = Some i) ->
    exists w, c_ids s !! w = Some i /\ w ∈ c_won s /\ c_reg s i = Some w /\
              (w ∈ c_started s \/ exists t rest, c_thr s !! t = Some (MStart w, rest)) /\
              forall p, c_ids s !! p = Some i -> p <> w ->
                        p ∉ c_won s /\ p ∉ c_started s /\
                        (p ∈ c_dup s \/ exists t rest, c_thr s !! t = Some (MDup p, rest)).
Proof. exact one_winner. Qed.
Print Assumptions C10_one_winner.

(* and when all threads have finished: as many processes were created for i as
   there were adds of i (k >= 1); exactly one ran Start(); each of the k-1
   others ran nothing and got its ActorDuplicateIdEvent, once *)
Theorem C10_one_winner_at_the_end :
  forall (progs : list (list cop)) (i : id) (s : cst),
    (forall prog, prog ∈ progs -> i ∉ stops_of prog) ->
    creach (cinit progs) s -> cterminal s = true ->
    0 < count_id i (flat_map adds_of progs) ->
    count_id i (c_ids s) = count_id i (flat_map adds_of progs) /\
    NoDup (c_dup s) /\ NoDup (c_won s) /\
    exists w, c_ids s !! w = Some i /\ w ∈ c_started s /\ c_reg s i = Some w /\
              forall p, c_ids s !! p = Some i -> p <> w -> p ∉ c_started s /\ p ∈ c_dup s.
Proof. exact one_winner_terminal. Qed.
Print Assumptions C10_one_winner_at_the_end.

(* Sequential machine (Registry.v (i)), any state: Spawn under a taken id runs
   no Producer, leaves every process record (incarnation, parent, pending
   queue, flags), every children map and the delivery log as they were, and
   publishes one ActorDuplicateIdEvent for that id *)
Theorem C10_duplicate_is_noop :
  forall (s : sst) (i : id),
    is_live s i = true ->
    let s' := sstep s (OSpawn i) in
    procs s' = procs s /\ kids s' = kids s /\ runs s' = runs s /\ recvd s' = recvd s /\
    gate s' = gate s /\ bad s' = bad s /\
    dups s' i = S (dups s i) /\ (forall j, j <> i -> dups s' j = dups s j).
Proof. exact duplicate_is_noop. Qed.
Print Assumptions C10_duplicate_is_noop.

(* the same for SpawnChild (as repaired by D21: the children-map entry is
   written only after Registry.insert succeeded): no trace at all besides the
   ActorDuplicateIdEvent — every process record, every children map (the
   caller's included), the Producer counts, the delivery log are as they were *)
Theorem C10_duplicate_child_is_noop :
  forall (s : sst) (p i : id),
    is_live s i = true -> is_live s p = true -> busy s p = false ->
    let s' := sstep s (OSpawnChild p i) in
    procs s' = procs s /\ kids s' = kids s /\ runs s' = runs s /\ recvd s' = recvd s /\
    gate s' = gate s /\ bad s' = bad s /\
    dups s' i = S (dups s i) /\ (forall j, j <> i -> dups s' j = dups s j).
Proof. exact duplicate_child_is_noop. Qed.
Print Assumptions C10_duplicate_child_is_noop.

(* after Stop(pid).Done the id is free, and the next Spawn of it runs the
   Producer once more, with an empty queue and no duplicate event *)
Theorem C10_respawn_after_stop :
  forall (s : sst) (i : id) (r : prec),
    procs s i = Some r -> busy s i = false ->
    let s1 := sstep s (OStop i) in
    procs s1 i = None /\
    let s2 := sstep s1 (OSpawn i) in
    runs s2 i = S (runs s1 i) /\ dups s2 = dups s1 /\
    procs s2 i = Some {| p_inc := S (runs s1 i); p_parent := None; p_queue := []; p_blocked := false; p_stopping := false |}.
Proof. exact respawn_after_stop. Qed.
Print Assumptions C10_respawn_after_stop.

(* the same in the interleaving model: the Remove step of a stopped process
   frees its id, and an add that finds the id free wins *)
Theorem C10_respawn_after_remove_concurrent :
  forall progs s t s' p,
    creach (cinit progs) s -> cstep s t = Some (s', LRem p) ->
    (exists i, c_ids s !! p = Some i /\ c_reg s i = Some p /\ c_reg s' i = None) /\
    forall s2 t2 rest i, c_thr s2 !! t2 = Some (MIdle, CAdd i :: rest) -> c_reg s2 i = None ->
      exists s3, cstep s2 t2 = Some (s3, LAdd i (length (c_ids s2)) true) /\
                 c_reg s3 i = Some (length (c_ids s2)) /\ c_thr s3 !! t2 = Some (MStart (length (c_ids s2)), rest).
Proof.
  intros progs s t s' p R Hs. split.
  - exact (remove_frees s t s' p (Inv_reach _ _ R) Hs).
  - exact add_on_free_id_wins.
Qed.
Print Assumptions C10_respawn_after_remove_concurrent.

(* the predicate the `regsched` check evaluates on the implementation's
   observations (RegistryExec.oracle: never two live processes of one id, one
   Start or one ActorDuplicateIdEvent per add, exactly one winner among the adds
   of an id nobody stops, final registry = the live process) is true of the
   observation of every state the model can reach *)
Theorem C10_oracle_holds_of_model :
  forall (progs : list (list cop)) (s : cst),
    creach (cinit progs) s -> oracle (model_case progs s) = true.
Proof. exact oracle_holds_of_model. Qed.
Print Assumptions C10_oracle_holds_of_model.

(* the predicate the `respawn` check evaluates (RespawnExec.oracle: per
   operation — a Spawn/SpawnChild/concurrent Spawns on a taken id change nothing
   but the duplicate count, on a free id run the Producer once; Stop unregisters;
   a held shutdown keeps its actors registered; lookups agree — and, over the
   history, every message sent to a registered actor is handled exactly once,
   by that incarnation, in order) is true of the sequential machine's own
   observations, for every history of the generators' domain:
   [wf_hist n depth h] = all ids below n; SpawnChild p i only with
   depth p < depth i (ids form a tree of paths); distinct message values; the
   run stays inside the modelled domain (Registry.bad = false) and ends with
   no actor held inside a handler *)
From HV Require RespawnExec.
From HV Require Import RespawnSound.
Theorem C10_respawn_oracle_holds_of_model :
  forall (n : nat) (depth : id -> nat) (h : list sop),
    wf_hist n depth h -> RespawnExec.oracle (RespawnExec.model_case n h) = true.
Proof. exact respawn_oracle_holds_of_model. Qed.
Print Assumptions C10_respawn_oracle_holds_of_model.

(* The two machines are one: an execution of the interleaving model in which
   calls do not overlap (each add / stop / lookup runs its one or two lock-level
   steps to completion before the next call of any thread starts) projects onto
   the run of the sequential machine on the same calls in the same order
   ([Rel]: registered ids = live actors, Start() calls per id = Producer runs,
   losing adds per id = duplicate events) ... *)
Theorem C10_nonoverlapping_runs_are_sequential :
  forall (q : sst) (s : cst) (h : list sop) (s' : cst),
    Rel q s -> nonoverlap s h s' -> Rel (srun q h) s'.
Proof. exact nonoverlapping_runs_are_sequential. Qed.
Print Assumptions C10_nonoverlapping_runs_are_sequential.

(* ... and every history of Spawn / Stop / GetPID calls of the sequential
   machine is such an execution (one thread issuing them in turn), which is a
   run of the lock-level model, so that C10_unique_live applies to it *)
Theorem C10_sequential_histories_are_nonoverlapping_runs :
  forall (prog : list cop),
    exists s, nonoverlap (cinit [prog]) (map tr prog) s /\ Rel (srun sinit (map tr prog)) s /\ cterminal s = true /\
              creach (cinit [prog]) s.
Proof.
  intros prog. destruct (sequential_histories_are_nonoverlapping_runs prog) as (s & H1 & H2 & H3).
  exists s. split_and!; try done. by eapply nonoverlap_creach.
Qed.
Print Assumptions C10_sequential_histories_are_nonoverlapping_runs.

(* C10_duplicate_is_noop at lock level: an add that overlaps no other call and
   finds its id taken leaves the registry, the started and the stopped processes
   as they were and adds one duplicate event — and that is the sequential
   machine's losing Spawn *)
Theorem C10_duplicate_is_noop_at_lock_level :
  forall (q : sst) (s : cst) (t : nat) (i : id) (rest : list cop),
    Rel q s -> c_thr s !! t = Some (MIdle, CAdd i :: rest) -> is_live q i = true ->
    exists s', complete s t = Some s' /\ Rel (sstep q (OSpawn i)) s' /\
               c_reg s' = c_reg s /\ c_started s' = c_started s /\ c_stopped s' = c_stopped s /\
               c_dup s' = length (c_ids s) :: c_dup s /\
               procs (sstep q (OSpawn i)) = procs q /\ runs (sstep q (OSpawn i)) = runs q.
Proof. exact nonoverlapping_duplicate_add. Qed.
Print Assumptions C10_duplicate_is_noop_at_lock_level.

(** * C11 — request/response: correlated, at most once, bounded by the timeout *)
From HV Require Import Response ResponseProofs.

(* Transition system Response.v: any number of requests, any interleaving of
   Request / Respond (lookup, channel send) / Result (begin, timeout, return)
   steps and clock ticks, responders replying any number of times at any
   moments.  With pairwise distinct response ids: the value that Result()
   returns for request r was sent by a Respond answering request r. *)
Theorem C11_correlated :
  forall (c : cfg) (s : rst) (r : req) (v : val),
    injective (ids c) -> rreach c rinit s ->
    phase s r = Decided (Some v) \/ phase s r = Returned (Some v) ->
    (r, v) ∈ sent s.
Proof. exact correlated. Qed.
Print Assumptions C11_correlated.

(* Result() answers with the error only when the timeout, counted from its
   call, has passed (whatever the ids) *)
Theorem C11_error_only_after_deadline :
  forall (c : cfg) (s : rst) (r : req),
    rreach c rinit s -> phase s r = Decided None \/ phase s r = Returned None ->
    exists t0, began s r = Some t0 /\ t0 + timeout c <= clock s.
Proof. exact error_only_after_deadline. Qed.
Print Assumptions C11_error_only_after_deadline.

(* once Result() has returned res — a value or the error — the response PID
   is not registered, in that state and in every later one *)
Theorem C11_unregistered_after_result :
  forall (c : cfg) (s s' : rst) (r : req) (res : option val),
    injective (ids c) -> rreach c rinit s -> phase s r = Returned res -> rreach c s s' ->
    reg s' (ids c r) = None.
Proof. exact unregistered_after_result. Qed.
Print Assumptions C11_unregistered_after_result.

(* the returning step itself removes the id in both branches, whatever the ids *)
Theorem C11_unregistered_by_the_return_step :
  forall (c : cfg) (s : rst) (r : req) (s' : rst),
    rstep c s (LReturn r) = Some s' ->
    reg s' (ids c r) = None /\ exists res, phase s r = Decided res /\ phase s' r = Returned res.
Proof. exact return_step_unregisters. Qed.
Print Assumptions C11_unregistered_by_the_return_step.

(* a Respond executed after Result() has returned becomes one DeadLetterEvent
   for the response PID with the reply as message, and touches nothing else *)
Theorem C11_late_reply_dead_letters :
  forall (c : cfg) (s : rst) (r : req) (res : option val) (v : val),
    injective (ids c) -> rreach c rinit s -> phase s r = Returned res ->
    exists s', rstep c s (LLookup r v) = Some s' /\
               dead s' = dead s ++ [(ids c r, v)] /\ pend s' = pend s /\ buf s' = buf s /\ phase s' = phase s /\
               reg s' = reg s.
Proof. exact late_reply_dead_letters. Qed.
Print Assumptions C11_late_reply_dead_letters.

(* at most one outcome per request: what Result() has returned never changes
   afterwards (further replies cannot alter it), and a decided outcome is the
   one returned *)
Theorem C11_at_most_one_result :
  forall (c : cfg) (s s' : rst) (r : req) (res : option val),
    rreach c s s' ->
    (phase s r = Returned res -> phase s' r = Returned res) /\
    (phase s r = Decided res -> phase s' r = Decided res \/ phase s' r = Returned res).
Proof. exact at_most_one_result. Qed.
Print Assumptions C11_at_most_one_result.

(* the premise of C11_correlated cannot be dropped, nor weakened to "distinct
   among the outstanding requests": two runs with a repeated id in which
   Result() returns a reply that answered another request *)
Theorem C11_distinct_ids_needed :
  (let c := {| ids := fun _ => 5; timeout := 3; nonblock := false |} in
   exists s, rrun c rinit [LRequest 0; LRequest 1; LLookup 1 77; LPut 0; LBegin 0; LReturn 0] = Some s /\
             result_of s 0 = Some (Some 77) /\ (0, 77) ∉ sent s /\ sent s = [(1, 77)] /\ dupid s = [1]) /\
  (let c := {| ids := fun _ => 5; timeout := 2; nonblock := false |} in
   exists s, rrun c rinit [LRequest 0; LBegin 0; LTick; LTick; LTimeout 0; LReturn 0;
                          LRequest 1; LLookup 0 66; LPut 0; LBegin 1; LReturn 1] = Some s /\
             result_of s 0 = Some None /\ result_of s 1 = Some (Some 66) /\ sent s = [(0, 66)] /\ dupid s = []).
Proof. split; [exact crosstalk_same_id_concurrent | exact crosstalk_id_reused_later]. Qed.
Print Assumptions C11_distinct_ids_needed.

(* The C09 clause "sending never blocks the caller", for the one Processer
   whose Send was a blocking channel operation (checked here because the
   request/response harness is what exercises it).  With the repaired
   Response.Send ([nonblock c = true], fixes/D16.diff): in every state every
   pending reply can be delivered at once, and it ends up handed to the parked
   Result(), parked in the empty slot, or reported as a DeadLetterEvent for
   the response PID. *)
Theorem C11_respond_never_blocks :
  forall (c : cfg) (s : rst) (k : nat) (r' : req) (v : val) (r0 : req),
    nonblock c = true -> pend s !! k = Some (r', v, r0) ->
    exists s', rstep c s (LPut k) = Some s' /\ pend s' = delete k (pend s) /\
      ((exists d, phase s r' = Waiting d /\ phase s' r' = Decided (Some v) /\ dead s' = dead s) \/
       (buf s r' = None /\ buf s' r' = Some v /\ phase s' = phase s /\ dead s' = dead s) \/
       (exists w, buf s r' = Some w /\ buf s' = buf s /\ phase s' = phase s /\ dead s' = dead s ++ [(ids c r', v)])).
Proof. exact respond_never_blocks. Qed.
Print Assumptions C11_respond_never_blocks.

(* ... and Respond itself (the registry lookup) is always enabled once the
   request exists: it yields a DeadLetterEvent or a channel send *)
Theorem C11_respond_total :
  forall (c : cfg) (s : rst) (r : req) (v : val),
    is_requested (phase s r) = true ->
    exists s', rstep c s (LLookup r v) = Some s' /\ sent s' = sent s ++ [(r, v)] /\
               ((reg s (ids c r) = None /\ dead s' = dead s ++ [(ids c r, v)] /\ pend s' = pend s) \/
                (exists r', reg s (ids c r) = Some r' /\ pend s' = pend s ++ [(r', v, r)] /\ dead s' = dead s)).
Proof. exact lookup_total. Qed.
Print Assumptions C11_respond_total.

(* refuted for the code as it stood ([nonblock c = false], `r.result <- msg`):
   one responder answering three times in a row; reply 1 is what Result()
   returns, reply 2 is swallowed by the buffer without a dead letter, and the
   channel send of reply 3 can never proceed, in any continuation of the run *)
Theorem C11_respond_never_blocks_refuted_before_D16 :
  let c := {| ids := fun r => r; timeout := 5; nonblock := false |} in
  exists s, rrun c rinit [LRequest 0; LLookup 0 1; LPut 0; LLookup 0 2; LBegin 0; LPut 0; LLookup 0 3; LReturn 0] = Some s /\
            result_of s 0 = Some (Some 1) /\ reg s 0 = None /\ dead s = [] /\
            buf s 0 = Some 2 /\ pend s = [(0, 3, 0)] /\
            forall s', rreach c s s' -> rstep c s' (LPut 0) = None \/ pend s' !! 0 <> Some (0, 3, 0).
Proof. exact three_replies_block_the_responder. Qed.
Print Assumptions C11_respond_never_blocks_refuted_before_D16.

(* The liveness half of "bounded by the timeout", in logical time.  The model
   has no fairness, so the claim is made for urgent runs ([ureach]): time does
   not advance while a parked Result() has reached its deadline or a decided
   Result() has not returned — what the runtime timer and the deferred return
   provide.  In every urgent run a call of Result() that began at t0 and has not
   returned yet sees a clock within [t0, t0 + timeout]; a parked call has not
   passed its deadline; so Result() returns no later than its deadline. *)
Theorem C11_result_waits_at_most_timeout_in_logical_time :
  forall (c : cfg) (s : rst) (r : req) (t0 : nat),
    ureach c s -> began s r = Some t0 -> (forall res, phase s r <> Returned res) ->
    t0 <= clock s <= t0 + timeout c /\ (forall d, phase s r = Waiting d -> d = t0 + timeout c /\ clock s <= d).
Proof. exact result_waits_at_most_timeout. Qed.
Print Assumptions C11_result_waits_at_most_timeout_in_logical_time.

(* urgency never stops the clock for ever: whenever it forbids a Tick, a step
   of that Result() — the timeout firing, or the return — is enabled *)
Theorem C11_urgent_step_enabled :
  forall (c : cfg) (s : rst) (r : req),
    (exists d, phase s r = Waiting d /\ d <= clock s) \/ (exists res, phase s r = Decided res) ->
    exists l s', (l = LTimeout r \/ l = LReturn r) /\ rstep c s l = Some s'.
Proof. exact urgent_step_enabled. Qed.
Print Assumptions C11_urgent_step_enabled.
