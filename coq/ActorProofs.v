(** Proofs about the product model Actor.v: for every script whose Stopped
    handler does not panic, every number of senders, messages and poisoners,
    every MaxRestarts, every batch bound and every schedule.  Invariants by
    induction over steps (the counting technique of InboxProofs), with the
    big-step facts of ProcProofs about [start] / [invoke] at the points where a
    thread enters process code. *)
From Coq Require Import List Arith Bool Lia Permutation.
Import ListNotations.
From HV Require Import Inbox Proc ProcExec ProcProofs Actor.

(* ------------------------------------------------------------------ *)
(** * Lists of threads: counting *)

Definition b2n (b : bool) : nat := if b then 1 else 0.

Lemma acnt_app f a b : acnt f (a ++ b) = acnt f a + acnt f b.
Proof. unfold acnt. rewrite filter_app, app_length. reflexivity. Qed.
Lemma acnt_cons f a l : acnt f (a :: l) = b2n (f a) + acnt f l.
Proof. unfold acnt. cbn [filter]. destruct (f a); reflexivity. Qed.
Lemma acnt_nil f : acnt f [] = 0.
Proof. reflexivity. Qed.

Lemma nth_split {A} (l : list A) i old :
  nth_error l i = Some old -> l = firstn i l ++ old :: skipn (S i) l.
Proof.
  revert i. induction l as [|a l IH]; intros [|i] H; try discriminate.
  - injection H as ->. reflexivity.
  - cbn [nth_error] in H. cbn [firstn skipn app]. f_equal. apply IH. exact H.
Qed.

Lemma acnt_set f l i old p extra :
  nth_error l i = Some old ->
  acnt f (set_thr_list l i p extra) + b2n (f old) = acnt f l + b2n (f p) + acnt f extra.
Proof.
  intros H. unfold set_thr_list. rewrite (nth_split l i old H) at 3.
  rewrite !acnt_app, !acnt_cons, acnt_app. lia.
Qed.

Lemma acnt_le f g l : (forall p, f p = true -> g p = true) -> acnt f l <= acnt g l.
Proof.
  intros H. induction l as [|a l IH]; [reflexivity|]. rewrite !acnt_cons.
  specialize (H a). destruct (f a) eqn:Ef; [rewrite (H eq_refl)|]; cbn; lia.
Qed.

Lemma acnt_zero_forall f l : acnt f l = 0 -> Forall (fun p => f p = false) l.
Proof.
  induction l as [|a l IH]; [constructor|]. rewrite acnt_cons. intros H.
  constructor; [destruct (f a); [cbn in H; lia|reflexivity]|apply IH; lia].
Qed.

Lemma forall_acnt_zero f l : Forall (fun p => f p = false) l -> acnt f l = 0.
Proof. induction 1 as [|a l Ha _ IH]; [reflexivity|]. rewrite acnt_cons, Ha, IH. reflexivity. Qed.

(* when at most one element satisfies f and the i-th does, the others do not *)
Lemma acnt_others f l i p :
  acnt f l <= 1 -> nth_error l i = Some p -> f p = true ->
  Forall (fun q => f q = false) (firstn i l) /\ Forall (fun q => f q = false) (skipn (S i) l).
Proof.
  intros Hc Hn Hp. pose proof (nth_split l i p Hn) as E. rewrite E in Hc.
  rewrite acnt_app, acnt_cons, Hp in Hc. cbn [b2n] in Hc.
  split; apply acnt_zero_forall; lia.
Qed.

Lemma Forall_set {P : apc -> Prop} l i p extra :
  Forall P l -> P p -> Forall P extra -> Forall P (set_thr_list l i p extra).
Proof.
  intros Hl Hp He. unfold set_thr_list. apply Forall_app. split.
  - rewrite <- (firstn_skipn i l) in Hl. apply Forall_app in Hl. apply Hl.
  - constructor; [exact Hp|]. apply Forall_app. split; [|exact He].
    rewrite <- (firstn_skipn (S i) l) in Hl. apply Forall_app in Hl. apply Hl.
Qed.

Lemma Forall_set_others {P Q : apc -> Prop} l i p extra :
  Forall Q (firstn i l) -> Forall Q (skipn (S i) l) -> (forall q, Q q -> P q) ->
  P p -> Forall P extra -> Forall P (set_thr_list l i p extra).
Proof.
  intros H1 H2 HQ Hp He. unfold set_thr_list. apply Forall_app. split.
  - eapply Forall_impl; [exact HQ|exact H1].
  - constructor; [exact Hp|]. apply Forall_app. split; [|exact He]. eapply Forall_impl; [exact HQ|exact H2].
Qed.

Lemma set_thr_cons_S p0 cl j p extra :
  set_thr_list (p0 :: cl) (S j) p extra = p0 :: set_thr_list cl j p extra.
Proof. reflexivity. Qed.
Lemma set_thr_cons_0 p0 cl p extra : set_thr_list (p0 :: cl) 0 p extra = p :: cl ++ extra.
Proof. reflexivity. Qed.

(* ------------------------------------------------------------------ *)
(** * Micro-operation lists *)

(* no operation of Inbox.Start *)
Fixpoint nostartb (ops : list mop) : bool :=
  match ops with [] => true | MStartCas :: _ | MStartSwap :: _ | MStartKick :: _ => false | _ :: r => nostartb r end.
(* Inbox.Start only as the triple CAS ; Swap ; kick, and none after an Inbox.Stop *)
Fixpoint wokb (ops : list mop) : bool :=
  match ops with
  | [] => true
  | MStop :: r => nostartb r
  | MStartCas :: MStartSwap :: MStartKick :: r => wokb r
  | MStartCas :: _ | MStartSwap :: _ | MStartKick :: _ => false
  | _ :: r => wokb r
  end.

Definition neutral (op : mop) : bool :=
  match op with MStop | MStartCas | MStartSwap | MStartKick => false | _ => true end.

Lemma nostartb_app a b : nostartb (a ++ b) = nostartb a && nostartb b.
Proof. induction a as [|x a IH]; [reflexivity|]. cbn [app nostartb]. destruct x; try exact IH; reflexivity. Qed.

Lemma wokb_neutral_cons x r : neutral x = true -> wokb (x :: r) = wokb r.
Proof. destruct x; try discriminate; reflexivity. Qed.
Lemma nostartb_neutral_cons x r : neutral x = true -> nostartb (x :: r) = nostartb r.
Proof. destruct x; try discriminate; reflexivity. Qed.

Lemma wokb_neutral_app a b : forallb neutral a = true -> wokb (a ++ b) = wokb b.
Proof.
  induction a as [|x a IH]; [reflexivity|]. cbn [forallb app]. intros H. apply andb_prop in H as [Hx Ha].
  rewrite wokb_neutral_cons by exact Hx. apply IH, Ha.
Qed.
Lemma nostartb_neutral a : forallb neutral a = true -> nostartb a = true.
Proof.
  induction a as [|x a IH]; [reflexivity|]. cbn [forallb]. intros H. apply andb_prop in H as [Hx Ha].
  rewrite nostartb_neutral_cons by exact Hx. apply IH, Ha.
Qed.
Lemma nostartb_wokb ops : nostartb ops = true -> wokb ops = true.
Proof.
  induction ops as [|x r IH]; [reflexivity|]. destruct x; cbn [nostartb]; try discriminate; try exact IH.
  intros H. exact H.
Qed.

Lemma settle_ops_cons_silent e r : settle_ops (MSilent e :: r) = settle_ops r.
Proof. unfold settle_ops. cbn [silent_prefix]. destruct (silent_prefix r). reflexivity. Qed.

Lemma nostartb_settle ops : nostartb (settle_ops ops) = nostartb ops.
Proof.
  induction ops as [|x r IH]; [reflexivity|]. destruct x; try reflexivity.
  rewrite settle_ops_cons_silent. exact IH.
Qed.
Lemma wokb_settle ops : wokb (settle_ops ops) = wokb ops.
Proof.
  induction ops as [|x r IH]; [reflexivity|]. destruct x; try reflexivity.
  rewrite settle_ops_cons_silent. exact IH.
Qed.
Lemma settle_ops_app_start pre r : settle_ops (pre ++ MStartCas :: r) = settle_ops pre ++ MStartCas :: r.
Proof.
  induction pre as [|x pre IH]; [reflexivity|]. destruct x; try reflexivity.
  cbn [app]. rewrite !settle_ops_cons_silent. exact IH.
Qed.

(* a failed CAS of Inbox.Start skips the other two operations *)
Lemma wokb_start_fail r : wokb (MStartCas :: r) = true -> wokb (drop_start r) = true.
Proof. destruct r as [|[] [|[] r]]; cbn; auto; discriminate. Qed.

(* the spawner's call: either it never reaches Inbox.Start (the actor died in
   its first Start), or Inbox.Start is the very last thing it does *)
Definition sp_shape (ops : list mop) : Prop :=
  nostartb ops = true \/ exists pre, ops = pre ++ [MStartCas; MStartSwap; MStartKick] /\ nostartb pre = true.

Lemma sp_shape_settle ops : sp_shape ops -> sp_shape (settle_ops ops).
Proof.
  intros [H|(pre & -> & H)]; [left; rewrite nostartb_settle; exact H|].
  right. exists (settle_ops pre). split; [apply settle_ops_app_start|rewrite nostartb_settle; exact H].
Qed.

Lemma sp_shape_tail op r : sp_shape (op :: r) -> neutral op = true \/ op = MStop -> sp_shape r.
Proof.
  intros [H|(pre & E & H)] Hop.
  - left. destruct op; cbn [nostartb] in H; try exact H; discriminate.
  - destruct pre as [|x pre]; cbn [app] in E; injection E as -> ->; [destruct Hop; discriminate|].
    right. exists pre. split; [reflexivity|]. destruct x; cbn [nostartb] in H; try exact H; discriminate.
Qed.

Lemma sp_shape_head op r : sp_shape (op :: r) -> op <> MStartSwap /\ op <> MStartKick.
Proof.
  intros [H|(pre & E & H)].
  - destruct op; cbn [nostartb] in H; try discriminate; split; discriminate.
  - destruct pre as [|x pre]; cbn [app] in E; injection E as -> ->; [split; discriminate|].
    destruct x; cbn [nostartb] in H; try discriminate; split; discriminate.
Qed.

Lemma sp_shape_start r : sp_shape (MStartCas :: r) -> r = [MStartSwap; MStartKick].
Proof.
  intros [H|(pre & E & H)]; [discriminate H|].
  destruct pre as [|x pre]; cbn [app] in E.
  - injection E as E2. exact E2.
  - injection E as E1 E2. subst x. discriminate H.
Qed.

(* ------------------------------------------------------------------ *)
(** * What Proc's big-step facts say about compiled traces *)

Lemma compile_app a b : compile (a ++ b) = compile a ++ compile b.
Proof. apply flat_map_app. Qed.

Definition ev_neutral (e : event) : bool :=
  match e with InboxStop | InboxStart _ => false | _ => true end.

Lemma compile1_neutral e : ev_neutral e = true -> forallb neutral (compile1 e) = true.
Proof.
  destruct e as [ | | | | | | |p| | | | | |en| | | ]; try reflexivity; try discriminate.
  - destruct p; reflexivity.
  - cbn [compile1]. destruct (emsg en); reflexivity.
Qed.

(* a dropped event is a discard *)
Lemma strip_cons_cases e t n k :
  (exists n' k', strip (e :: t) n k = e :: strip t n' k') \/
  ((exists p, e = EvDeadLetter p) \/ (exists j, e = Cancel j)) /\ exists n' k', strip (e :: t) n k = strip t n' k'.
Proof.
  destruct k as [|k]; destruct e as [ | | | | | | |[]| | | | | | | | | ]; cbn [strip]; eauto 8.
Qed.

Lemma irun_wok : forall t r r' n k, irun t r = Some r' ->
  wokb (compile (strip t n k)) = true /\ (r = 2 -> nostartb (compile (strip t n k)) = true).
Proof.
  induction t as [|e t IH]; intros r r' n k H; [split; reflexivity|].
  cbn [irun] in H. destruct (istep r e) as [r1|] eqn:E; [|discriminate].
  destruct (strip_cons_cases e t n k) as [(n' & k' & ->)|(Hd & n' & k' & ->)].
  - destruct (IH _ _ n' k' H) as [IH1 IH2]. cbn [compile flat_map]. fold (compile (strip t n' k')).
    destruct (ev_neutral e) eqn:En.
    + assert (r1 = r) by (destruct e; cbn in E; try discriminate En; congruence). subst r1.
      pose proof (compile1_neutral e En) as Hn. split.
      * rewrite wokb_neutral_app by exact Hn. exact IH1.
      * intros ->. rewrite nostartb_app, (nostartb_neutral _ Hn). apply IH2. reflexivity.
    + destruct e; try discriminate En.
      * (* InboxStop *) cbn in E. injection E as <-. cbn [compile1 app wokb nostartb]. split.
        -- apply IH2. reflexivity.
        -- intros _. apply IH2. reflexivity.
      * (* InboxStart *) cbn [compile1 app wokb nostartb]. split; [exact IH1|].
        intros ->. destruct opened; discriminate E.
  - assert (r1 = r) by (destruct Hd as [[p ->]|[j ->]]; cbn in E; congruence). subst r1.
    apply (IH _ _ n' k' H).
Qed.

Lemma noIS_nostart : forall t n k, Forall noIS t -> nostartb (compile (strip t n k)) = true.
Proof.
  induction t as [|e t IH]; intros n k H; [reflexivity|]. inversion H as [|? ? He Ht]; subst.
  destruct (strip_cons_cases e t n k) as [(n' & k' & ->)|(_ & n' & k' & ->)]; [|apply IH, Ht].
  cbn [compile flat_map]. fold (compile (strip t n' k')). rewrite nostartb_app, IH by exact Ht.
  rewrite andb_true_r. destruct e as [ | | | | | | |p| | | | | |en| | | ]; try reflexivity; try contradiction.
  - destruct p; reflexivity.
  - cbn [compile1]. destruct (emsg en); reflexivity.
Qed.

Lemma strip_app_start : forall pre n k b,
  strip (pre ++ [InboxStart b]) n k = strip pre n k ++ [InboxStart b].
Proof.
  induction pre as [|e pre IH]; intros n k b.
  - destruct k; reflexivity.
  - destruct k as [|k]; destruct e as [ | | | | | | |[]| | | | | | | | | ]; cbn [app strip]; rewrite ?IH; reflexivity.
Qed.

Lemma first_shape_ops s' t : first_start_shape s' t -> sp_shape (compile (strip t 0 0)).
Proof.
  intros [[_ H]|(_ & pre & -> & H)].
  - left. apply noIS_nostart, H.
  - right. exists (compile (strip pre 0 0)). rewrite strip_app_start, compile_app. split; [reflexivity|apply noIS_nostart, H].
Qed.

(* ------------------------------------------------------------------ *)
(** * Fields through the state updates *)

Lemma park_thr s i k ops esc extra :
  a_thr (park s i k ops esc extra) = set_thr_list (a_thr s) i (park_pc k (settle_ops ops) esc) extra.
Proof. unfold park. destruct (settle_ops ops); destruct esc; reflexivity. Qed.
Lemma park_status s i k ops esc extra : a_status (park s i k ops esc extra) = a_status s.
Proof. unfold park. destruct (settle_ops ops); destruct esc; reflexivity. Qed.
Lemma park_reg s i k ops esc extra : a_reg (park s i k ops esc extra) = a_reg s.
Proof. unfold park. destruct (settle_ops ops); destruct esc; reflexivity. Qed.
Lemma park_ring s i k ops esc extra : a_ring (park s i k ops esc extra) = a_ring s.
Proof. unfold park. destruct (settle_ops ops); destruct esc; reflexivity. Qed.
Lemma park_ps s i k ops esc extra : a_ps (park s i k ops esc extra) = a_ps s.
Proof. unfold park. destruct (settle_ops ops); destruct esc; reflexivity. Qed.
Lemma park_oof s i k ops esc extra : a_oof (park s i k ops esc extra) = a_oof s.
Proof. unfold park. destruct (settle_ops ops); destruct esc; reflexivity. Qed.
Lemma park_fl s i k ops esc extra : a_fl (park s i k ops esc extra) = a_fl s.
Proof. unfold park. destruct (settle_ops ops); destruct esc; reflexivity. Qed.
Lemma park_late s i k ops esc extra : a_late (park s i k ops esc extra) = a_late s.
Proof. unfold park. destruct (settle_ops ops); destruct esc; reflexivity. Qed.
Lemma park_log s i k ops esc extra :
  a_log (park s i k ops esc extra) = a_log s ++ map (fun e => (OProc, e)) (fst (silent_prefix ops)).
Proof. unfold park. destruct (settle_ops ops); destruct esc; reflexivity. Qed.

Lemma begin_call_eq s i k ps' t o :
  park (with_ps (if out_of_fuel t then with_oof s true else s) ps') i k (compile (strip t 0 0)) (is_panicking o) []
  = begin_call s i k (ps', t, o).
Proof. reflexivity. Qed.
Lemma begin_call_thr s i k ps' t o :
  a_thr (begin_call s i k (ps', t, o)) =
  set_thr_list (a_thr s) i (park_pc k (settle_ops (compile (strip t 0 0))) (is_panicking o)) [].
Proof. unfold begin_call. rewrite park_thr. destruct (out_of_fuel t); reflexivity. Qed.
Lemma begin_call_status s i k r : a_status (begin_call s i k r) = a_status s.
Proof. destruct r as [[ps' t] o]. unfold begin_call. rewrite park_status. destruct (out_of_fuel t); reflexivity. Qed.
Lemma begin_call_reg s i k r : a_reg (begin_call s i k r) = a_reg s.
Proof. destruct r as [[ps' t] o]. unfold begin_call. rewrite park_reg. destruct (out_of_fuel t); reflexivity. Qed.
Lemma begin_call_ring s i k r : a_ring (begin_call s i k r) = a_ring s.
Proof. destruct r as [[ps' t] o]. unfold begin_call. rewrite park_ring. destruct (out_of_fuel t); reflexivity. Qed.
Lemma begin_call_ps s i k ps' t o : a_ps (begin_call s i k (ps', t, o)) = ps'.
Proof. unfold begin_call. rewrite park_ps. reflexivity. Qed.
Lemma begin_call_oof s i k ps' t o : a_oof (begin_call s i k (ps', t, o)) = a_oof s || out_of_fuel t.
Proof. unfold begin_call. rewrite park_oof. destruct (out_of_fuel t); cbn; [apply eq_sym, orb_true_r|apply eq_sym, orb_false_r]. Qed.

Lemma akick_cases s :
  (a_status s = Idle /\ akick_status s = (with_status s Running, [WLoad], ACas Idle Running true)) \/
  (a_status s <> Idle /\ akick_status s = (s, [], ACas Idle Running false)).
Proof. unfold akick_status. destruct (a_status s); cbn; [right|right|left|right]; split; congruence. Qed.

(* ------------------------------------------------------------------ *)
(** * Entering process code: what ProcProofs gives *)

Section Calls.
Variable c : cfg.
Hypothesis Hs : stopped_safe c.

Lemma spawn_call_facts f s ps' t o :
  mbuf s = [] -> dead s = false -> istatus_stopped s = true ->
  start f c s = (ps', t, o) -> out_of_fuel t = false ->
  o = Normal /\ sp_shape (compile (strip t 0 0)).
Proof.
  intros Hm Hd Hst H Hf. destruct (proj1 (proj2 (safe_sound c Hs f)) _ _ _ _ H Hf) as [-> Hss].
  split; [reflexivity|]. eapply first_shape_ops. apply (proj1 (proj2 (first_start c)) _ _ _ Hss Hm Hd Hst).
Qed.

Lemma work_call_facts f s b ps' t o :
  invoke f c s b = (ps', t, o) -> out_of_fuel t = false ->
  o = Normal /\ wokb (compile (strip t 0 0)) = true.
Proof.
  intros H Hf. destruct (proj1 (safe_sound c Hs f) _ _ _ _ _ H Hf) as [-> Hi].
  split; [reflexivity|]. pose proof (proj1 (safe_IR c Hs) _ _ _ _ Hi) as Hir. unfold IR in Hir.
  apply (irun_wok _ _ _ 0 0 Hir).
Qed.
End Calls.

(* ------------------------------------------------------------------ *)
(** * C02: at most one thread runs the actor's code *)

Definition wholder (p : apc) : bool :=
  match p with PRun KWork _ _ | WLoad | WPop | WExit => true | _ => false end.

(* a client or worker thread is consistent with the inbox status *)
Definition thr_ok (st : status) (p : apc) : Prop :=
  match p with
  | PAdd | PRun KSpawn _ _ => False
  | PRun KWork ops esc => esc = false /\ wokb ops = true /\ (st = Stopped -> nostartb ops = true)
  | WPop => st <> Stopped
  | _ => True
  end.

(* the inbox has been opened: the status word carries the token *)
Definition OPn (st : status) (nH : nat) : Prop :=
  match st with Stopped => nH <= 1 | Starting => False | Idle => nH = 0 | Running => nH = 1 end.

Definition P0 (p0 : apc) (s : ast) (cl : list apc) : Prop :=
  match p0 with
  | PAdd => a_status s = Stopped /\ acnt is_worker_pc cl = 0 /\ mbuf (a_ps s) = [] /\ dead (a_ps s) = false
  | PRun KSpawn ops esc =>
      esc = false /\
      ((sp_shape ops /\ a_status s = Stopped /\ acnt is_worker_pc cl = 0) \/
       (ops = [MStartSwap; MStartKick] /\ a_status s = Starting /\ acnt is_worker_pc cl = 0) \/
       (ops = [MStartKick] /\ OPn (a_status s) (acnt wholder cl)))
  | Done => OPn (a_status s) (acnt wholder cl)
  | _ => False
  end.

Definition AI (s : ast) : Prop :=
  exists p0 cl, a_thr s = p0 :: cl /\ Forall (thr_ok (a_status s)) cl /\ P0 p0 s cl.

Lemma wholder_worker p : wholder p = true -> is_worker_pc p = true.
Proof. destruct p as [ |[] ? ?| | | | | | | | | | | | | | ]; cbn; congruence. Qed.

Lemma thr_ok_nonholder st st' p : thr_ok st p -> wholder p = false -> thr_ok st' p.
Proof. destruct p as [ |[] ? ?| | | | | | | | | | | | | | ]; cbn; try tauto; discriminate. Qed.

Lemma thr_ok_holds st p : thr_ok st p -> holds p = wholder p.
Proof. destruct p as [ |[] ? ?| | | | | | | | | | | | | | ]; cbn; try tauto; reflexivity. Qed.

Lemma Forall_thr_ok_change st st' cl :
  Forall (thr_ok st) cl -> acnt wholder cl = 0 -> Forall (thr_ok st') cl.
Proof.
  intros H H0. apply acnt_zero_forall in H0. rewrite Forall_forall in *. intros p Hp.
  eapply thr_ok_nonholder; [apply H, Hp|apply H0, Hp].
Qed.

Lemma acnt_holds_cl st cl : Forall (thr_ok st) cl -> acnt holds cl = acnt wholder cl.
Proof.
  induction 1 as [|p cl Hp _ IH]; [reflexivity|]. rewrite !acnt_cons, IH, (thr_ok_holds _ _ Hp). reflexivity.
Qed.

Lemma acnt_wholder_le_worker cl : acnt wholder cl <= acnt is_worker_pc cl.
Proof. apply acnt_le, wholder_worker. Qed.

Theorem AI_mutex s : AI s -> acnt holds (a_thr s) <= 1.
Proof.
  intros (p0 & cl & -> & Hok & Hp). rewrite acnt_cons, (acnt_holds_cl _ _ Hok).
  pose proof (acnt_wholder_le_worker cl) as Hle.
  destruct p0 as [ |[] ops esc| | | | | | | | | | | | | | ]; cbn [P0] in Hp; try contradiction.
  - cbn. lia.
  - destruct Hp as (_ & [(_ & _ & H)|[(_ & _ & H)|(-> & H)]]); cbn [holds].
    + destruct (negb (kick_only ops)); cbn [b2n]; lia.
    + destruct (negb (kick_only ops)); cbn [b2n]; lia.
    + cbn [kick_only negb b2n]. destruct (a_status s); cbn [OPn] in H; try contradiction; lia.
  - cbn [holds b2n]. destruct (a_status s); cbn [OPn] in Hp; try contradiction; lia.
Qed.

Lemma acnt_pos f l i p : nth_error l i = Some p -> f p = true -> 1 <= acnt f l.
Proof.
  intros H Hf. rewrite (nth_split l i p H), acnt_app, acnt_cons, Hf. cbn. lia.
Qed.

Lemma park_pc_spawn_P0 s cl rest :
  sp_shape rest -> a_status s = Stopped -> acnt is_worker_pc cl = 0 ->
  P0 (park_pc KSpawn (settle_ops rest) false) s cl.
Proof.
  intros Hsh Hst Hw. pose proof (sp_shape_settle _ Hsh) as Hsh'.
  pose proof (acnt_wholder_le_worker cl) as Hle.
  unfold park_pc. destruct (settle_ops rest) as [|op r] eqn:E.
  - cbn [P0]. rewrite Hst. cbn. lia.
  - cbn [P0]. split; [reflexivity|]. left. repeat split; assumption.
Qed.

Lemma others_ok st st' cl j p p' extra :
  Forall (thr_ok st) cl -> acnt wholder cl <= 1 -> nth_error cl j = Some p -> wholder p = true ->
  thr_ok st' p' -> Forall (thr_ok st') extra -> Forall (thr_ok st') (set_thr_list cl j p' extra).
Proof.
  intros Hok Hle Hn Hp Hp' Hex. destruct (acnt_others wholder cl j p Hle Hn Hp) as [H1 H2].
  pose proof Hok as Hok1. rewrite <- (firstn_skipn j cl) in Hok1. apply Forall_app in Hok1 as [Hok1 _].
  pose proof Hok as Hok2. rewrite <- (firstn_skipn (S j) cl) in Hok2. apply Forall_app in Hok2 as [_ Hok2].
  unfold set_thr_list. apply Forall_app. split.
  - rewrite Forall_forall in *. intros q Hq. eapply thr_ok_nonholder; [apply Hok1, Hq|apply H1, Hq].
  - constructor; [exact Hp'|]. apply Forall_app. split; [|exact Hex].
    rewrite Forall_forall in *. intros q Hq. eapply thr_ok_nonholder; [apply Hok2, Hq|apply H2, Hq].
Qed.

(* how a step of a client or worker thread may change the status word and the thread's own class *)
Definition trans (st : status) (p : apc) (st' : status) (p' : apc) (extra : list apc) : Prop :=
  (* local *)
  (st' = st /\ extra = [] /\ wholder p' = wholder p /\ (is_worker_pc p' = true -> is_worker_pc p = true)) \/
  (* a thread that does not hold the token starts a worker *)
  (st = Idle /\ st' = Running /\ extra = [WLoad] /\ wholder p = false /\ wholder p' = false) \/
  (* the holder stops the inbox *)
  (wholder p = true /\ wholder p' = true /\ st' = Stopped /\ extra = []) \/
  (* the holder gives the token back, or finds the inbox stopped *)
  (wholder p = true /\ wholder p' = false /\ extra = [] /\ ((st = Running /\ st' = Idle) \/ (st <> Running /\ st' = st))).

Lemma AI_cl s s' p0 cl j p p' extra :
  a_thr s = p0 :: cl -> Forall (thr_ok (a_status s)) cl -> P0 p0 s cl -> nth_error cl j = Some p ->
  a_thr s' = p0 :: set_thr_list cl j p' extra ->
  (a_ps s' = a_ps s \/ is_worker_pc p = true) ->
  thr_ok (a_status s') p' -> Forall (thr_ok (a_status s')) extra ->
  trans (a_status s) p (a_status s') p' extra ->
  AI s'.
Proof.
  intros Hthr Hok Hp Hn Hthr' Hps Hp' Hex Htr.
  exists p0, (set_thr_list cl j p' extra). split; [exact Hthr'|].
  pose proof (acnt_set is_worker_pc cl j p p' extra Hn) as EW.
  pose proof (acnt_set wholder cl j p p' extra Hn) as EH.
  pose proof (acnt_wholder_le_worker cl) as Hle.
  assert (PW : is_worker_pc p = true -> 1 <= acnt is_worker_pc cl) by (intros; eapply acnt_pos; eassumption).
  assert (PH : wholder p = true -> 1 <= acnt wholder cl) by (intros; eapply acnt_pos; eassumption).
  pose proof (wholder_worker p) as WP. pose proof (wholder_worker p') as WP'.
  (* the two kinds of phases *)
  assert (Hph : (acnt is_worker_pc cl = 0 /\ (a_status s = Stopped \/ a_status s = Starting)) \/
                ((p0 = PRun KSpawn [MStartKick] false \/ p0 = Done) /\ OPn (a_status s) (acnt wholder cl))).
  { destruct p0 as [ |[] ops esc| | | | | | | | | | | | | | ]; cbn [P0] in Hp; try contradiction.
    - left. tauto.
    - destruct Hp as (-> & [(_ & ? & ?)|[(_ & ? & ?)|(-> & ?)]]); [left; tauto|left; tauto|right; tauto].
    - right. tauto. }
  destruct Hph as [[Hw Hst]|[Hp0 Hop]].
  - (* no worker exists yet: only local steps of clients *)
    assert (Hnw : is_worker_pc p = false) by (destruct (is_worker_pc p); [specialize (PW eq_refl); lia|reflexivity]).
    assert (Hnh : wholder p = false) by (destruct (wholder p); [specialize (WP eq_refl); congruence|reflexivity]).
    destruct Htr as [(E1 & -> & E3 & E4)|[(E1 & _)|[(E1 & _)|(E1 & _)]]]; try congruence;
      [|destruct Hst; congruence].
    rewrite E1 in *. split; [apply Forall_set; [exact Hok|exact Hp'|constructor]|].
    assert (Hw' : acnt is_worker_pc (set_thr_list cl j p' []) = 0).
    { rewrite Hnw, acnt_nil in EW. cbn [b2n] in EW. destruct (is_worker_pc p'); [specialize (E4 eq_refl); congruence|cbn [b2n] in EW; lia]. }
    destruct Hps as [Hps|Hps]; [|congruence].
    destruct p0 as [ |[] ops esc| | | | | | | | | | | | | | ]; cbn [P0] in Hp |- *; try contradiction.
    + rewrite E1, Hps. tauto.
    + destruct Hp as (-> & Hd). split; [reflexivity|]. rewrite E1.
      destruct Hd as [(? & ? & ?)|[(? & ? & ?)|(-> & Hd)]]; [left; tauto|right; left; tauto|].
      right; right. split; [reflexivity|]. destruct Hst as [Hst|Hst]; rewrite Hst in *; cbn [OPn] in *; [|contradiction].
      pose proof (acnt_wholder_le_worker (set_thr_list cl j p' [])). lia.
    + rewrite E1. destruct Hst as [Hst|Hst]; rewrite Hst in *; cbn [OPn] in *; [|contradiction].
      pose proof (acnt_wholder_le_worker (set_thr_list cl j p' [])). lia.
  - (* the inbox has been opened *)
    assert (HP0 : forall n, OPn (a_status s') n -> P0 p0 s' (set_thr_list cl j p' extra) \/ True) by (intros; right; exact I).
    assert (Hgoal : OPn (a_status s') (acnt wholder (set_thr_list cl j p' extra)) -> P0 p0 s' (set_thr_list cl j p' extra)).
    { intros H. destruct Hp0 as [-> | ->]; cbn [P0]; [|exact H]. split; [reflexivity|]. right; right. split; [reflexivity|exact H]. }
    destruct Htr as [(E1 & -> & E3 & E4)|[(E1 & E2 & -> & E3 & E4)|[(E1 & E2 & E3 & ->)|(E1 & E2 & -> & E3)]]].
    + rewrite E1 in *. split; [apply Forall_set; [exact Hok|exact Hp'|constructor]|]. apply Hgoal.
      rewrite E3, acnt_nil in EH. replace (acnt wholder (set_thr_list cl j p' [])) with (acnt wholder cl) by lia. exact Hop.
    + rewrite E1 in Hop. cbn [OPn] in Hop. rewrite E2 in *. split.
      * apply Forall_set; [eapply Forall_thr_ok_change; eassumption|exact Hp'|exact Hex].
      * apply Hgoal. cbn [OPn]. rewrite E3, E4 in EH. cbn in EH. lia.
    + rewrite E3 in *. specialize (PH E1).
      assert (Hle1 : acnt wholder cl <= 1) by (destruct (a_status s); cbn [OPn] in Hop; try contradiction; lia).
      split; [eapply others_ok; try eassumption; constructor|].
      apply Hgoal. cbn [OPn]. rewrite E1, E2, acnt_nil in EH. lia.
    + specialize (PH E1).
      assert (Hle1 : acnt wholder cl <= 1) by (destruct (a_status s); cbn [OPn] in Hop; try contradiction; lia).
      split; [eapply others_ok; try eassumption; constructor|].
      apply Hgoal. rewrite E1, E2, acnt_nil in EH. cbn [b2n] in EH.
      destruct E3 as [[E3 E4]|[E3 E4]]; rewrite E4.
      * cbn [OPn]. rewrite E3 in Hop. cbn [OPn] in Hop. lia.
      * destruct (a_status s); cbn [OPn] in Hop |- *; try contradiction; try congruence; lia.
Qed.

Section Step.
Variable c : acfg.
Hypothesis Hs : stopped_safe (a_cfg c).

(* ---- the spawner moves *)
Lemma AI_step_spawner s s' l p0 cl :
  a_thr s = p0 :: cl -> Forall (thr_ok (a_status s)) cl -> P0 p0 s cl ->
  astep_pc c s 0 p0 = Some (s', l) -> a_oof s' = false -> AI s'.
Proof.
  intros Hthr Hok Hp H Hoof.
  pose proof (acnt_wholder_le_worker cl) as Hle.
  destruct p0 as [ |[] ops esc| | | | | | | | | | | | | | ]; cbn [P0] in Hp; try contradiction; cbn [astep_pc] in H.
  - (* PAdd *)
    destruct Hp as (Hst & Hw & Hm & Hd). cbv zeta in H.
    destruct (start (a_fuel c) (a_cfg c) (mk_pst (with_reg s true))) as [[ps' t] o] eqn:E.
    injection H as <- <-. rewrite !begin_call_eq in *. rewrite begin_call_oof in Hoof. apply orb_false_iff in Hoof as [_ Hf].
    destruct (spawn_call_facts _ Hs (a_fuel c) (mk_pst (with_reg s true)) ps' t o Hm Hd ltac:(change (status_eqb (a_status s) Stopped = true); rewrite Hst; reflexivity) E Hf) as [-> Hsh].
    exists (park_pc KSpawn (settle_ops (compile (strip t 0 0))) false), cl.
    rewrite begin_call_thr, begin_call_status. cbn [a_thr a_status with_reg is_panicking]. rewrite Hthr, set_thr_cons_0, app_nil_r.
    split; [reflexivity|]. split; [exact Hok|].
    assert (HP : forall s1 : ast, a_status s1 = a_status s -> P0 (park_pc KSpawn (settle_ops (compile (strip t 0 0))) false) s1 cl).
    { intros s1 E1. apply park_pc_spawn_P0; [exact Hsh|congruence|exact Hw]. }
    apply HP. rewrite begin_call_status. reflexivity.
  - (* inside process.Start *)
    destruct Hp as (-> & Hph). destruct ops as [|op rest]; [discriminate|].
    destruct Hph as [(Hsh & Hst & Hw)|[(E & Hst & Hw)|(E & Hop)]].
    + (* before Inbox.Start *)
      assert (Hnh : acnt wholder cl = 0) by lia.
      destruct (sp_shape_head _ _ Hsh) as [Hn1 Hn2].
      assert (Hgen : forall s1 rest', a_thr s1 = a_thr s -> a_status s1 = Stopped -> sp_shape rest' ->
                AI (park s1 0 KSpawn rest' false [])).
      { intros s1 rest' E1 E2 Hsh'. exists (park_pc KSpawn (settle_ops rest') false), cl.
        rewrite park_thr, park_status, E1, Hthr, set_thr_cons_0, app_nil_r, E2.
        split; [reflexivity|]. split; [rewrite <- Hst; exact Hok|].
        assert (HP : forall s2 : ast, a_status s2 = Stopped -> P0 (park_pc KSpawn (settle_ops rest') false) s2 cl)
          by (intros s2 E3; apply park_pc_spawn_P0; assumption).
        apply HP. rewrite park_status. exact E2. }
      destruct op; cbn [op_effect] in H; try discriminate H; try congruence.
      * injection H as <- <-. apply Hgen; [reflexivity|exact Hst|]. apply (sp_shape_tail _ _ Hsh). left; reflexivity.
      * injection H as <- <-. apply Hgen; [reflexivity|exact Hst|]. apply (sp_shape_tail _ _ Hsh). left; reflexivity.
      * injection H as <- <-. apply Hgen; [reflexivity|exact Hst|]. apply (sp_shape_tail _ _ Hsh). left; reflexivity.
      * injection H as <- <-. apply Hgen; [reflexivity|exact Hst|]. apply (sp_shape_tail _ _ Hsh). left; reflexivity.
      * (* MKick: the inbox is stopped, the CAS fails *)
        destruct (akick_cases s) as [[E _]|[_ E]]; [congruence|]. rewrite E in H. cbv beta iota in H. injection H as <- <-.
        apply Hgen; [reflexivity|exact Hst|]. apply (sp_shape_tail _ _ Hsh). left; reflexivity.
      * injection H as <- <-. apply Hgen; [reflexivity|reflexivity|]. apply (sp_shape_tail _ _ Hsh). right; reflexivity.
      * injection H as <- <-. apply Hgen; [reflexivity|exact Hst|]. apply (sp_shape_tail _ _ Hsh). left; reflexivity.
      * (* MFlush *)
        destruct (a_ring s) as [|e0 q0] eqn:Eq; injection H as <- <-.
        -- apply Hgen; [reflexivity|exact Hst|]. apply (sp_shape_tail _ _ Hsh). left; reflexivity.
        -- apply Hgen; [reflexivity|exact Hst|exact Hsh].
      * (* MStartCas: opens the inbox *)
        rewrite Hst in H. cbn [status_eqb] in H. injection H as <- <-.
        pose proof (sp_shape_start _ Hsh) as ->.
        exists (PRun KSpawn [MStartSwap; MStartKick] false), cl.
        rewrite park_thr, park_status. cbn [a_thr a_status add_log with_status settle_ops silent_prefix snd park_pc].
        rewrite Hthr, set_thr_cons_0, app_nil_r. split; [reflexivity|].
        split; [eapply Forall_thr_ok_change; eassumption|].
        cbn [P0]. split; [reflexivity|]. right; left. rewrite park_status. cbn. repeat split; assumption.
    + (* between the CAS and the Swap *)
      injection E as -> ->. cbn in H. injection H as <- <-.
      assert (Hnh : acnt wholder cl = 0) by lia.
      exists (PRun KSpawn [MStartKick] false), cl.
      rewrite park_thr, park_status. cbn [a_thr a_status with_status settle_ops silent_prefix snd park_pc].
      rewrite Hthr, set_thr_cons_0, app_nil_r. split; [reflexivity|].
      split; [eapply Forall_thr_ok_change; eassumption|].
      cbn [P0]. split; [reflexivity|]. right; right. split; [reflexivity|]. rewrite park_status. cbn. exact Hnh.
    + (* the final kick *)
      injection E as -> ->. cbn [astep_pc op_effect] in H.
      destruct (akick_cases s) as [[Ei E]|[Ei E]]; rewrite E in H; cbv beta iota in H; injection H as <- <-.
      * rewrite Ei in Hop. cbn in Hop.
        exists Done, (cl ++ [WLoad]). rewrite park_thr, park_status. cbn [a_thr a_status with_status settle_ops silent_prefix snd park_pc].
        rewrite Hthr, set_thr_cons_0. split; [reflexivity|]. split.
        -- apply Forall_app. split; [eapply Forall_thr_ok_change; eassumption|repeat constructor].
        -- cbn [P0]. rewrite park_status. cbn. rewrite acnt_app, Hop. reflexivity.
      * exists Done, cl. rewrite park_thr, park_status. cbn [a_thr a_status settle_ops silent_prefix snd park_pc].
        rewrite Hthr, set_thr_cons_0, app_nil_r. split; [reflexivity|]. split; [exact Hok|].
        cbn [P0]. rewrite park_status. exact Hop.
  - discriminate H.
Qed.

Ltac local_step := left; repeat split; try reflexivity; try (intros; discriminate); try assumption.

(* ---- a sender, a poisoner or a worker moves *)
Lemma AI_step_cl s s' l p0 cl j p :
  a_thr s = p0 :: cl -> Forall (thr_ok (a_status s)) cl -> P0 p0 s cl -> nth_error cl j = Some p ->
  astep_pc c s (S j) p = Some (s', l) -> a_oof s' = false -> AI s'.
Proof.
  intros Hthr Hok Hp Hn H Hoof.
  assert (Hpk : thr_ok (a_status s) p) by (rewrite Forall_forall in Hok; apply Hok; eapply nth_error_In; exact Hn).
  (* a kick by a thread that holds nothing *)
  assert (Hkick : forall p', wholder p = false -> wholder p' = false -> (is_worker_pc p' = true -> is_worker_pc p = true) ->
            (forall st, thr_ok st p') ->
            (let '(s1, extra, l) := akick_status s in Some (with_thr s1 (S j) p' extra, l)) = Some (s', l) -> AI s').
  { intros p' Hh Hh' Hw' Hk' Hk. destruct (akick_cases s) as [[Ei E]|[Ei E]]; rewrite E in Hk; injection Hk as <- <-.
    - eapply (AI_cl s _ p0 cl j p p' [WLoad]); try eassumption; cbn [a_thr a_status a_ps with_thr with_status].
      + rewrite Hthr. reflexivity.
      + left; reflexivity.
      + apply Hk'.
      + repeat constructor.
      + right; left. repeat split; assumption.
    - eapply (AI_cl s _ p0 cl j p p' []); try eassumption; cbn [a_thr a_status a_ps with_thr].
      + rewrite Hthr. reflexivity.
      + left; reflexivity.
      + apply Hk'.
      + constructor.
      + left. repeat split; try assumption. congruence. }
  (* a step that changes neither the status word nor what the thread holds *)
  assert (Hloc : forall s1 p', a_thr s1 = a_thr s -> a_status s1 = a_status s -> a_ps s1 = a_ps s ->
            wholder p' = wholder p -> (is_worker_pc p' = true -> is_worker_pc p = true) -> thr_ok (a_status s) p' ->
            AI (with_thr s1 (S j) p' [])).
  { intros s1 p' E1 E2 E3 Hh Hw Hk'.
    eapply (AI_cl s _ p0 cl j p p' []); try eassumption; cbn [a_thr a_status a_ps with_thr].
    - rewrite E1, Hthr. reflexivity.
    - left; exact E3.
    - rewrite E2. exact Hk'.
    - constructor.
    - left. repeat split; assumption. }
  destruct p as [ |k ops esc|m ms|m ms|ms|g k|g k|g k|k|k| | | | | | ]; cbn [astep_pc] in H; try discriminate H.
  - (* PAdd *) contradiction.
  - (* inside Invoke *)
    destruct k; [contradiction|]. destruct Hpk as (-> & Hwok & Hns).
    destruct ops as [|op rest]; [discriminate|].
    (* a micro-operation that leaves the status word alone *)
    assert (Hop : forall s1 rest', a_thr s1 = a_thr s -> a_status s1 = a_status s -> a_ps s1 = a_ps s ->
              wokb rest' = true -> (a_status s = Stopped -> nostartb rest' = true) ->
              AI (park s1 (S j) KWork rest' false [])).
    { intros s1 rest' E1 E2 E3 Hw1 Hn1.
      eapply (AI_cl s _ p0 cl j _ (park_pc KWork (settle_ops rest') false) []); try eassumption.
      - rewrite park_thr, E1, Hthr. reflexivity.
      - right; reflexivity.
      - rewrite park_status, E2. unfold park_pc. destruct (settle_ops rest') eqn:Es; [exact I|]. rewrite <- Es.
        cbn [thr_ok]. rewrite wokb_settle, nostartb_settle. repeat split; assumption.
      - constructor.
      - rewrite park_status, E2. left. repeat split; try reflexivity.
        unfold park_pc. destruct (settle_ops rest'); reflexivity. }
    destruct op; cbn [op_effect] in H; try discriminate H.
    + injection H as <- <-. apply Hop; try reflexivity; [exact Hwok|exact Hns].
    + injection H as <- <-. apply Hop; try reflexivity; [exact Hwok|exact Hns].
    + injection H as <- <-. apply Hop; try reflexivity; [exact Hwok|exact Hns].
    + injection H as <- <-. apply Hop; try reflexivity; [exact Hwok|exact Hns].
    + (* MKick: the holder's own CAS idle->running fails *)
      destruct (akick_cases s) as [[Ei E]|[Ei E]]; rewrite E in H; cbv beta iota in H; injection H as <- <-.
      * (* idle while a holder exists: impossible *)
        exfalso. pose proof (acnt_pos wholder cl j _ Hn eq_refl) as PH.
        pose proof (acnt_pos is_worker_pc cl j _ Hn eq_refl) as PW.
        destruct p0 as [ |[] ops esc| | | | | | | | | | | | | | ]; cbn [P0] in Hp; try contradiction; rewrite Ei in Hp; cbn [OPn] in Hp.
        -- destruct Hp as (? & _); congruence.
        -- destruct Hp as (_ & [(_ & ? & _)|[(_ & ? & _)|(_ & ?)]]); try congruence; lia.
        -- lia.
      * apply Hop; try reflexivity; [exact Hwok|exact Hns].
    + (* MStop *)
      injection H as <- <-. cbn [wokb] in Hwok.
      eapply (AI_cl s _ p0 cl j _ (park_pc KWork (settle_ops rest) false) []); try eassumption.
      * rewrite park_thr. cbn [a_thr add_log with_status]. rewrite Hthr. reflexivity.
      * right; reflexivity.
      * rewrite park_status. cbn [a_status add_log with_status]. unfold park_pc. destruct (settle_ops rest) eqn:Es; [exact I|]. rewrite <- Es.
        cbn [thr_ok]. rewrite wokb_settle, nostartb_settle. repeat split; [apply nostartb_wokb, Hwok|intros _; exact Hwok].
      * constructor.
      * rewrite park_status. cbn [a_status add_log with_status]. right; right; left. repeat split; try reflexivity.
        unfold park_pc. destruct (settle_ops rest); reflexivity.
    + injection H as <- <-. apply Hop; try reflexivity; [exact Hwok|exact Hns].
    + (* MFlush *)
      destruct (a_ring s) as [|e0 q0] eqn:Eq; injection H as <- <-.
      * apply Hop; try reflexivity; [exact Hwok|exact Hns].
      * apply Hop; try reflexivity; [exact Hwok|exact Hns].
    + (* MStartCas: the inbox is open, the CAS fails *)
      destruct (status_eqb (a_status s) Stopped) eqn:Est.
      * exfalso. assert (a_status s = Stopped) by (destruct (a_status s); try discriminate; reflexivity).
        specialize (Hns H0). discriminate Hns.
      * injection H as <- <-. apply Hop; try reflexivity.
        -- apply wokb_start_fail, Hwok.
        -- intros E. rewrite E in Est. discriminate Est.
    + (* MStartSwap at the head: excluded by the shape *) discriminate Hwok.
    + discriminate Hwok.
  - (* SLook *)
    destruct (a_reg s); injection H as <- <-; [|destruct ms]; apply Hloc; try reflexivity; try (intros; discriminate); exact I.
  - (* SPush *) injection H as <- <-. apply Hloc; try reflexivity; try (intros; discriminate); exact I.
  - (* SCas *) apply (Hkick (next_send ms)); try reflexivity; try exact H; destruct ms; try reflexivity; try (intros; discriminate); intros; exact I.
  - (* QLook1 *) destruct (a_reg s); injection H as <- <-; apply Hloc; try reflexivity; try (intros; discriminate); exact I.
  - destruct (a_reg s); injection H as <- <-; apply Hloc; try reflexivity; try (intros; discriminate); exact I.
  - injection H as <- <-. apply Hloc; try reflexivity; try (intros; discriminate); exact I.
  - apply (Hkick (QLook3 k)); try reflexivity; try exact H; try (intros; discriminate); intros; exact I.
  - destruct (a_reg s); injection H as <- <-; apply Hloc; try reflexivity; try (intros; discriminate); exact I.
  - (* WLoad *)
    destruct (status_eqb (a_status s) Stopped) eqn:Est; injection H as <- <-; apply Hloc; try reflexivity; try exact I.
    cbn [thr_ok]. intros E. rewrite E in Est. discriminate Est.
  - (* WPop *)
    destruct (a_ring s) as [|e0 q0] eqn:Eq.
    + injection H as <- <-. apply Hloc; try reflexivity; exact I.
    + cbv zeta in H.
      destruct (invoke (a_fuel c) (a_cfg c) (mk_pst (with_ring s (skipn (batch (a_cfg c)) (e0 :: q0)))) (firstn (batch (a_cfg c)) (e0 :: q0)))
        as [[ps' t] o] eqn:E.
      injection H as <- <-. rewrite !begin_call_eq in *. rewrite begin_call_oof in Hoof. apply orb_false_iff in Hoof as [_ Hf].
      destruct (work_call_facts _ Hs _ _ _ _ _ _ E Hf) as [-> Hw].
      cbn [thr_ok] in Hpk.
      eapply (AI_cl s _ p0 cl j _ (park_pc KWork (settle_ops (compile (strip t 0 0))) false) []); try eassumption.
      * rewrite begin_call_thr. cbn [a_thr with_ring is_panicking]. rewrite Hthr. reflexivity.
      * right; reflexivity.
      * rewrite begin_call_status. cbn [a_status with_ring]. unfold park_pc.
        destruct (settle_ops (compile (strip t 0 0))) eqn:Es; [exact I|]. rewrite <- Es.
        cbn [thr_ok]. rewrite wokb_settle, nostartb_settle. repeat split; [exact Hw|intros; contradiction].
      * constructor.
      * rewrite begin_call_status. cbn [a_status with_ring]. left. repeat split; try reflexivity.
        unfold park_pc. destruct (settle_ops (compile (strip t 0 0))); reflexivity.
  - (* WExit *)
    destruct (status_eqb (a_status s) Running) eqn:Est; injection H as <- <-.
    + assert (Er : a_status s = Running) by (destruct (a_status s); try discriminate; reflexivity).
      eapply (AI_cl s _ p0 cl j _ WLen []);
        [exact Hthr|exact Hok|exact Hp|exact Hn|cbn; rewrite Hthr; reflexivity|left; reflexivity|exact I|constructor|].
      cbn [a_status with_thr with_status].
      right; right; right. repeat split; try reflexivity. left. split; [exact Er|reflexivity].
    + eapply (AI_cl s _ p0 cl j _ Done []);
        [exact Hthr|exact Hok|exact Hp|exact Hn|cbn; rewrite Hthr; reflexivity|left; reflexivity|exact I|constructor|].
      cbn [a_status with_thr].
      right; right; right. repeat split; try reflexivity. right. split; [|reflexivity].
      intros E. rewrite E in Est. discriminate Est.
  - (* WLen *)
    destruct (a_ring s); injection H as <- <-; apply Hloc; try reflexivity; try (intros; discriminate); exact I.
  - (* WSched *)
    apply (Hkick Done); try reflexivity; try exact H; try (intros; discriminate); intros; exact I.
Qed.

Theorem AI_step s i s' l : AI s -> astep c s i = Some (s', l) -> a_oof s' = false -> AI s'.
Proof.
  intros (p0 & cl & Hthr & Hok & Hp) H Hoof. unfold astep in H. rewrite Hthr in H.
  destruct i as [|j]; cbn [nth_error] in H.
  - eapply AI_step_spawner; eassumption.
  - destruct (nth_error cl j) as [p|] eqn:Hn; [|discriminate]. eapply AI_step_cl; eassumption.
Qed.
End Step.

(* ------------------------------------------------------------------ *)
(** * Reachable states *)

Lemma akick_oof s s1 extra l : akick_status s = (s1, extra, l) -> a_oof s1 = a_oof s.
Proof. unfold akick_status. destruct (status_eqb (a_status s) Idle); intros [= <- <- <-]; reflexivity. Qed.

Lemma op_effect_oof c s op rest s1 rest' extra l :
  op_effect c s op rest = Some (s1, rest', extra, l) -> a_oof s1 = a_oof s.
Proof.
  destruct op; cbn [op_effect]; try discriminate; try (intros [= <- <- <- <-]; reflexivity).
  - destruct (akick_status s) as [[s2 ex] l2] eqn:E. intros [= <- <- <- <-]. eapply akick_oof; exact E.
  - destruct (a_ring s); intros [= <- <- <- <-]; reflexivity.
  - destruct (status_eqb (a_status s) Stopped); intros [= <- <- <- <-]; reflexivity.
  - destruct (akick_status s) as [[s2 ex] l2] eqn:E. intros [= <- <- <- <-]. eapply akick_oof; exact E.
Qed.

(* running out of fuel is never forgotten *)
Lemma astep_oof c s i s' l : astep c s i = Some (s', l) -> a_oof s = true -> a_oof s' = true.
Proof.
  unfold astep. destruct (nth_error (a_thr s) i) as [p|]; [|discriminate]. intros H Ho.
  destruct p as [ |k ops esc|m ms|m ms|ms|g k|g k|g k|k|k| | | | | | ]; cbn [astep_pc] in H; try discriminate H.
  - cbv zeta in H. destruct (start _ _ _) as [[ps' t] o]. injection H as <- <-. rewrite !begin_call_eq.
    rewrite begin_call_oof. cbn. rewrite Ho. reflexivity.
  - destruct ops as [|op rest]; [discriminate|].
    destruct (op_effect c s op rest) as [[[[s1 rest'] extra] l1]|] eqn:E; [|discriminate]. injection H as <- <-.
    rewrite park_oof, (op_effect_oof _ _ _ _ _ _ _ _ E). exact Ho.
  - destruct (a_reg s); injection H as <- <-; exact Ho.
  - injection H as <- <-; exact Ho.
  - destruct (akick_status s) as [[s1 extra] l1] eqn:E; injection H as <- <-. cbn. rewrite (akick_oof _ _ _ _ E). exact Ho.
  - destruct (a_reg s); injection H as <- <-; exact Ho.
  - destruct (a_reg s); injection H as <- <-; exact Ho.
  - injection H as <- <-; exact Ho.
  - destruct (akick_status s) as [[s1 extra] l1] eqn:E; injection H as <- <-. cbn. rewrite (akick_oof _ _ _ _ E). exact Ho.
  - destruct (a_reg s); injection H as <- <-; exact Ho.
  - destruct (status_eqb (a_status s) Stopped); injection H as <- <-; exact Ho.
  - destruct (a_ring s) as [|e0 q0]; [injection H as <- <-; exact Ho|]. cbv zeta in H.
    destruct (invoke _ _ _ _) as [[ps' t] o]. injection H as <- <-. rewrite !begin_call_eq.
    rewrite begin_call_oof. cbn. rewrite Ho. reflexivity.
  - destruct (status_eqb (a_status s) Running); injection H as <- <-; exact Ho.
  - destruct (a_ring s); injection H as <- <-; exact Ho.
  - destruct (akick_status s) as [[s1 extra] l1] eqn:E; injection H as <- <-. cbn. rewrite (akick_oof _ _ _ _ E). exact Ho.
Qed.

Lemma acnt_worker_clients senders poisoners : acnt is_worker_pc (client_threads senders poisoners) = 0.
Proof.
  unfold client_threads. rewrite acnt_app.
  assert (H1 : acnt is_worker_pc (map next_send senders) = 0).
  { induction senders as [|ms l IH]; [reflexivity|]. cbn [map]. rewrite acnt_cons, IH. destruct ms; reflexivity. }
  assert (H2 : forall k, acnt is_worker_pc (poisoner_threads poisoners k) = 0).
  { induction poisoners as [|g l IH]; intros k; [reflexivity|]. cbn [poisoner_threads]. rewrite acnt_cons, IH. reflexivity. }
  rewrite H1, H2. reflexivity.
Qed.

Lemma thr_ok_clients st senders poisoners : Forall (thr_ok st) (client_threads senders poisoners).
Proof.
  unfold client_threads. apply Forall_app. split.
  - induction senders as [|ms l IH]; [constructor|]. cbn [map]. constructor; [destruct ms; exact I|exact IH].
  - generalize 0. induction poisoners as [|g l IH]; intros k; [constructor|]. cbn [poisoner_threads].
    constructor; [exact I|apply IH].
Qed.

Lemma AI_init senders poisoners : AI (ainit senders poisoners).
Proof.
  exists PAdd, (client_threads senders poisoners). split; [reflexivity|]. split; [apply thr_ok_clients|].
  cbn [P0 ainit a_status a_ps init_ps mbuf dead]. repeat split. apply acnt_worker_clients.
Qed.

Theorem AI_reach c senders poisoners s :
  stopped_safe (a_cfg c) -> areach c (ainit senders poisoners) s -> a_oof s = false -> AI s.
Proof.
  intros Hs Hr. induction Hr as [|s i s' l Hr IH H]; intros Ho; [apply AI_init|].
  eapply AI_step; try eassumption. apply IH.
  destruct (a_oof s) eqn:E; [|reflexivity]. rewrite (astep_oof _ _ _ _ _ H E) in Ho. discriminate Ho.
Qed.

(** C02, full statement: in every reachable state at most one thread runs the
    actor's code — process.Start on the spawner's goroutine (Producer,
    Initialized, Started, the restarts caused by panics in them) or
    Inbox.run / process.Invoke on a worker (user messages, Stopped, restarts,
    cleanup and flush) — and hence at most one thread is inside a Receive. *)
Theorem C02_at_most_one_thread_runs_the_actor_thm c senders poisoners s :
  stopped_safe (a_cfg c) -> areach c (ainit senders poisoners) s -> a_oof s = false ->
  acnt holds (a_thr s) <= 1.
Proof. intros Hs Hr Ho. apply AI_mutex. eapply AI_reach; eassumption. Qed.

Lemma in_receive_holds p : in_receive p = true -> holds p = true.
Proof.
  destruct p as [ |k ops esc| | | | | | | | | | | | | | ]; cbn; try discriminate.
  destruct ops as [|[] r]; try discriminate. intros _. destruct k; [|reflexivity]. destruct r; reflexivity.
Qed.

Theorem C02_no_two_receives_overlap_thm c senders poisoners s :
  stopped_safe (a_cfg c) -> areach c (ainit senders poisoners) s -> a_oof s = false ->
  acnt in_receive (a_thr s) <= 1.
Proof.
  intros Hs Hr Ho. etransitivity; [apply acnt_le, in_receive_holds|].
  eapply C02_at_most_one_thread_runs_the_actor_thm; eassumption.
Qed.

(* ------------------------------------------------------------------ *)
(** * The three kinds of steps *)

Definition is_prun (p : apc) : bool := match p with PRun _ _ _ => true | _ => false end.

(* what a step outside process code may do to the status word *)
Definition ext_status (st st' : status) (extra : list apc) : Prop :=
  (st' = st /\ extra = []) \/ (st = Idle /\ st' = Running /\ extra = [WLoad]) \/ (st = Running /\ st' = Idle /\ extra = []).

Definition ext_ev (e : event) : Prop := match e with Sent _ | Enq _ | EvDeadLetter _ | Cancel _ => True | _ => False end.

Lemma akick_ext s s1 extra l :
  akick_status s = (s1, extra, l) ->
  a_log s1 = a_log s /\ a_thr s1 = a_thr s /\ a_ps s1 = a_ps s /\ a_reg s1 = a_reg s /\ a_ring s1 = a_ring s /\
  a_fl s1 = a_fl s /\ a_late s1 = a_late s /\
  ext_status (a_status s) (a_status s1) extra.
Proof.
  destruct (akick_cases s) as [[Ei E]|[Ei E]]; rewrite E; intros [= <- <- <-]; cbn; repeat split.
  - right; left. repeat split. exact Ei.
  - left. split; reflexivity.
Qed.

(* where a client's Cancel comes from: a poisoner whose first lookup missed (the dead letter is
   logged with it), or a poisoner's last lookup finding the actor gone *)
Definition cancel_src (s : ast) (p : apc) (evs : list event) : Prop :=
  forall k, In (Cancel k) evs ->
    (exists g, evs = [EvDeadLetter (Pill g k); Cancel k]) \/ (evs = [Cancel k] /\ a_reg s = false /\ p = QLook3 k).

(* a poisoner past its first lookup has seen the actor registered *)
Definition past_look1 (p : apc) : bool :=
  match p with QLook2 _ _ | QPush _ _ | QCas _ | QLook3 _ => true | _ => false end.
Definition look_src (s : ast) (p p' : apc) : Prop :=
  past_look1 p' = true -> past_look1 p = true \/ a_reg s = true.

Ltac kfin0 := try reflexivity; try discriminate; try (cbn; rewrite ?app_nil_r; first [assumption|reflexivity]); try (repeat constructor; fail).
Ltac kfin := kfin0; try (intros ? ?; cbn in *; intuition discriminate); try (intros ?; cbn in *; first [discriminate|left; reflexivity|right; assumption]).

Theorem astep_kinds c s i s' l : astep c s i = Some (s', l) ->
  exists p, nth_error (a_thr s) i = Some p /\
  ((exists k s1 r,
      ((p = PAdd /\ k = KSpawn /\ s1 = with_reg s true /\ r = start (a_fuel c) (a_cfg c) (mk_pst s1)) \/
       (p = WPop /\ k = KWork /\ a_ring s <> [] /\ s1 = with_ring s (skipn (batch (a_cfg c)) (a_ring s)) /\
        r = invoke (a_fuel c) (a_cfg c) (mk_pst s1) (firstn (batch (a_cfg c)) (a_ring s)))) /\
      s' = begin_call s1 i k r) \/
   (exists k op rest esc s1 rest' extra,
      p = PRun k (op :: rest) esc /\ op_effect c s op rest = Some (s1, rest', extra, l) /\
      s' = park s1 i k rest' esc extra) \/
   (exists p' extra evs s1,
      s' = with_thr s1 i p' extra /\ a_log s1 = a_log s ++ map (fun e => (OExt i, e)) evs /\ Forall ext_ev evs /\
      a_thr s1 = a_thr s /\ a_ps s1 = a_ps s /\ a_reg s1 = a_reg s /\
      ext_status (a_status s) (a_status s1) extra /\
      p <> PAdd /\ is_prun p = false /\ is_prun p' = false /\ p' <> PAdd /\ cancel_src s p evs /\ look_src s p p')).
Proof.
  unfold astep. destruct (nth_error (a_thr s) i) as [p|] eqn:Hn; [|discriminate]. intros H.
  exists p. split; [reflexivity|].
  assert (Hk : forall p', is_prun p' = false -> p' <> PAdd -> p <> PAdd -> is_prun p = false -> look_src s p p' ->
            (let '(s1, extra, l) := akick_status s in Some (with_thr s1 i p' extra, l)) = Some (s', l) ->
            exists p' extra evs s1,
              s' = with_thr s1 i p' extra /\ a_log s1 = a_log s ++ map (fun e => (OExt i, e)) evs /\ Forall ext_ev evs /\
              a_thr s1 = a_thr s /\ a_ps s1 = a_ps s /\ a_reg s1 = a_reg s /\
              ext_status (a_status s) (a_status s1) extra /\
              p <> PAdd /\ is_prun p = false /\ is_prun p' = false /\ p' <> PAdd /\ cancel_src s p evs /\ look_src s p p').
  { intros p' Hp1 Hp2 Hp3 Hp4 Hls Hkk. destruct (akick_status s) as [[s1 extra] l1] eqn:E. injection Hkk as <- <-.
    destruct (akick_ext _ _ _ _ E) as (E1 & E2 & E3 & E4 & _ & _ & _ & E5).
    exists p', extra, [], s1. rewrite E1, app_nil_r. repeat split; try assumption; try (constructor; fail); try (intros k0 []). }
  assert (Hl : forall s1 p' evs, a_log s1 = a_log s ++ map (fun e => (OExt i, e)) evs -> Forall ext_ev evs ->
            a_thr s1 = a_thr s -> a_ps s1 = a_ps s -> a_reg s1 = a_reg s -> a_status s1 = a_status s ->
            is_prun p' = false -> p' <> PAdd -> p <> PAdd -> is_prun p = false -> cancel_src s p evs -> look_src s p p' ->
            exists p'0 extra evs0 s2,
              with_thr s1 i p' [] = with_thr s2 i p'0 extra /\ a_log s2 = a_log s ++ map (fun e => (OExt i, e)) evs0 /\ Forall ext_ev evs0 /\
              a_thr s2 = a_thr s /\ a_ps s2 = a_ps s /\ a_reg s2 = a_reg s /\
              ext_status (a_status s) (a_status s2) extra /\
              p <> PAdd /\ is_prun p = false /\ is_prun p'0 = false /\ p'0 <> PAdd /\ cancel_src s p evs0 /\ look_src s p p'0).
  { intros s1 p' evs E1 Ev E2 E3 E4 E5 Hp1 Hp2 Hp3 Hp4 Hcs Hls. exists p', [], evs, s1.
    repeat split; try assumption. left. split; [exact E5|reflexivity]. }
  destruct p as [ |k ops esc|m ms|m ms|ms|g k|g k|g k|k|k| | | | | | ]; cbn [astep_pc] in H; try discriminate H.
  - left. cbv zeta in H. injection H as <- <-. exists KSpawn, (with_reg s true), (start (a_fuel c) (a_cfg c) (mk_pst (with_reg s true))).
    split; [left; repeat split|reflexivity].
  - right; left. destruct ops as [|op rest]; [discriminate|].
    destruct (op_effect c s op rest) as [[[[s1 rest'] extra] l1]|] eqn:E; [|discriminate]. injection H as <- <-.
    exists k, op, rest, esc, s1, rest', extra. repeat split. exact E.
  - right; right. destruct (a_reg s) eqn:Er; injection H as <- <-.
    + apply (Hl _ _ [Sent m]); kfin.
    + apply (Hl _ _ [Sent m; EvDeadLetter (User m)]); destruct ms; kfin.
  - right; right. injection H as <- <-. apply (Hl _ _ [Enq (uenv1 m)]); kfin.
  - right; right. apply (Hk (next_send ms)); try exact H; destruct ms; kfin.
  - right; right. destruct (a_reg s) eqn:Er; injection H as <- <-.
    + apply (Hl _ _ []); kfin.
    + apply (Hl _ _ [EvDeadLetter (Pill g k); Cancel k]); kfin0.
      intros k0 [E|[E|[]]]; [discriminate|]. injection E as <-. left. exists g. reflexivity.
  - right; right. destruct (a_reg s) eqn:Er; injection H as <- <-.
    + apply (Hl _ _ []); kfin.
    + apply (Hl _ _ [EvDeadLetter (Pill g k)]); kfin.
  - right; right. injection H as <- <-. apply (Hl _ _ [Enq (penv g k)]); kfin.
  - right; right. apply (Hk (QLook3 k)); try exact H; kfin.
  - right; right. destruct (a_reg s) eqn:Er; injection H as <- <-.
    + apply (Hl _ _ []); kfin.
    + apply (Hl _ _ [Cancel k]); kfin0.
      intros k0 [E|[]]. injection E as <-. right. repeat split; first [exact Er|reflexivity].
  - right; right. destruct (status_eqb (a_status s) Stopped); injection H as <- <-; apply (Hl _ _ []); kfin.
  - destruct (a_ring s) as [|e0 q0] eqn:Eq.
    + right; right. injection H as <- <-. apply (Hl _ _ []); kfin.
    + left. cbv zeta in H. injection H as <- <-.
      exists KWork, (with_ring s (skipn (batch (a_cfg c)) (e0 :: q0))),
        (invoke (a_fuel c) (a_cfg c) (mk_pst (with_ring s (skipn (batch (a_cfg c)) (e0 :: q0)))) (firstn (batch (a_cfg c)) (e0 :: q0))).
      split; [right; repeat split; discriminate|reflexivity].
  - right; right. destruct (status_eqb (a_status s) Running) eqn:Est; injection H as <- <-.
    + assert (Er : a_status s = Running) by (destruct (a_status s); try discriminate; reflexivity).
      exists WLen, [], [], (with_status s Idle). split; [reflexivity|]. split; [cbn; rewrite app_nil_r; reflexivity|].
      split; [constructor|]. split; [reflexivity|]. split; [reflexivity|]. split; [reflexivity|].
      split; [right; right; repeat split; exact Er|]. repeat split; try discriminate; try (intros k0 []); try (intros Hx; discriminate Hx).
    + apply (Hl _ _ []); kfin.
  - right; right. destruct (a_ring s) eqn:Eq; injection H as <- <-; apply (Hl _ _ []); kfin.
  - right; right. apply (Hk Done); try exact H; kfin.
Qed.

(* ------------------------------------------------------------------ *)
(** * C04: the lifecycle monitor of ProcProofs, run over the interleaved execution *)

Notation cRun := ProcProofs.PRun.

Definition silent_ok (e : event) : bool :=
  match e with Recv _ _ _ _ | Enq _ | InboxStop | RegRemove | InboxStart _ => false | _ => true end.

Definition is_dead_ctl (m : mst) : bool := match m_ctl m with PDead => true | _ => false end.

(* the monitor over micro-operations: what the operation will log *)
Definition ostep (m : mst) (op : mop) : option mst :=
  match op with
  | MSilent e => if silent_ok e then mstep m e else None
  | MRecvB i mw msg sd => mstep m (Recv i mw msg sd)
  | MPush e => mstep m (Enq e)
  | MStop => mstep m InboxStop
  | MRemove => mstep m RegRemove
  | MStartCas => mstep m (InboxStart true)
  | MFlush => if is_dead_ctl m then Some m else None
  | _ => Some m
  end.
Fixpoint omrun (ops : list mop) (m : mst) : option mst :=
  match ops with [] => Some m | op :: r => match ostep m op with Some m' => omrun r m' | None => None end end.

Lemma omrun_app a b m : omrun (a ++ b) m = match omrun a m with Some m' => omrun b m' | None => None end.
Proof. revert m. induction a as [|x a IH]; intros m; [reflexivity|]. cbn [app omrun]. destruct (ostep m x); [apply IH|reflexivity]. Qed.

Ltac dm m := destruct m as [?cur ?wph []].

Lemma mstep_drop e m m1 : (exists p, e = EvDeadLetter p) \/ (exists j, e = Cancel j) -> mstep m e = Some m1 -> m1 = m /\ is_dead_ctl m = true.
Proof. intros [[p ->]|[j ->]] H; dm m; cbn in H; try discriminate; injection H as <-; split; reflexivity. Qed.

Lemma mstep_evstopped m m1 : mstep m EvStopped = Some m1 -> is_dead_ctl m1 = true.
Proof. dm m; cbn; try discriminate. intros [= <-]. reflexivity. Qed.

Lemma mstep_istart b m : mstep m (InboxStart b) = mstep m (InboxStart true).
Proof. dm m; reflexivity. Qed.

Lemma omrun_compile1 e m m1 : mstep m e = Some m1 -> omrun (compile1 e) m = Some m1.
Proof.
  intros H. destruct e as [ | | | | | | |p| | | | | |en| | | ]; cbn [compile1 omrun ostep silent_ok]; try (rewrite H; reflexivity).
  - rewrite H. rewrite (mstep_evstopped _ _ H). reflexivity.
  - destruct p; cbn [omrun ostep silent_ok]; rewrite H; reflexivity.
  - rewrite <- mstep_istart with (b := opened), H. reflexivity.
  - destruct (emsg en); cbn [omrun ostep]; rewrite H; reflexivity.
Qed.

Lemma omrun_compile : forall t m m' n k, mrun t m = Some m' -> omrun (compile (strip t n k)) m = Some m'.
Proof.
  induction t as [|e t IH]; intros m m' n k H; [exact H|]. cbn [mrun] in H.
  destruct (mstep m e) as [m1|] eqn:E; [|discriminate].
  destruct (strip_cons_cases e t n k) as [(n' & k' & ->)|(Hd & n' & k' & ->)].
  - cbn [compile flat_map]. fold (compile (strip t n' k')). rewrite omrun_app, (omrun_compile1 _ _ _ E). apply IH, H.
  - destruct (mstep_drop _ _ _ Hd E) as [-> _]. apply IH, H.
Qed.

Lemma omrun_drop_start r m : omrun (drop_start r) m = omrun r m.
Proof. destruct r as [|[] [|[] r]]; reflexivity. Qed.

(* ** what the monitor's control point says about the registry entry and the inbox *)
Definition ctl_unreg (k : ctl) : bool := match k with PRemoved | PDead => true | _ => false end.
Definition ctl_stopped (k : ctl) : bool := match k with PInboxStopped | PStoppedC | PRemoved | PDead => true | _ => false end.
Definition reg_rel (m : mst) (s : ast) : Prop := a_reg s = negb (ctl_unreg (m_ctl m)).
Definition st_rel (m : mst) (s : ast) : Prop := ctl_stopped (m_ctl m) = true -> a_status s = Stopped.

Lemma mstep_silent_cls m e m' : silent_ok e = true -> mstep m e = Some m' ->
  ctl_unreg (m_ctl m') = ctl_unreg (m_ctl m) /\ ctl_stopped (m_ctl m') = ctl_stopped (m_ctl m).
Proof.
  intros Hs H. dm m; destruct e; try discriminate Hs; cbn in H; try discriminate;
    repeat match type of H with (if ?c then _ else _) = _ => destruct c; try discriminate end;
    injection H as <-; split; reflexivity.
Qed.

Lemma mstep_recv_cls m i mw msg sd m' : mstep m (Recv i mw msg sd) = Some m' ->
  ctl_unreg (m_ctl m') = ctl_unreg (m_ctl m) /\ ctl_stopped (m_ctl m') = ctl_stopped (m_ctl m).
Proof.
  intros H. dm m; destruct mw; destruct msg; cbn in H; try discriminate;
    repeat match type of H with (if ?c then _ else _) = _ => destruct c; try discriminate end;
    injection H as <-; split; reflexivity.
Qed.

Lemma mstep_enq m e m' : mstep m (Enq e) = Some m' -> m' = m.
Proof. dm m; cbn; try discriminate; intros [= <-]; reflexivity. Qed.

Lemma mstep_stop_cls m m' : mstep m InboxStop = Some m' ->
  ctl_unreg (m_ctl m') = false /\ ctl_unreg (m_ctl m) = false /\ ctl_stopped (m_ctl m') = true.
Proof. dm m; cbn; try discriminate; intros [= <-]; repeat split. Qed.

Lemma mstep_remove_cls m m' : mstep m RegRemove = Some m' ->
  ctl_unreg (m_ctl m') = true /\ ctl_stopped (m_ctl m') = true /\ ctl_stopped (m_ctl m) = true.
Proof. dm m; cbn; try discriminate; intros [= <-]; repeat split. Qed.

Lemma mstep_istart_cls m m' : mstep m (InboxStart true) = Some m' -> m' = m /\ ctl_stopped (m_ctl m) = false /\ ctl_unreg (m_ctl m) = false.
Proof. dm m; cbn; try discriminate; intros [= <-]; repeat split. Qed.

(* ** the log of process code *)
Lemma plog_add_proc s evs : plog (add_log s OProc evs) = plog s ++ evs.
Proof.
  unfold plog, add_log. cbn [a_log]. rewrite flat_map_app. f_equal.
  induction evs as [|e evs IH]; [reflexivity|]. cbn. f_equal. exact IH.
Qed.
Lemma plog_ext (l : list (origin * event)) i evs :
  flat_map (fun oe => match fst oe with OProc => [snd oe] | _ => [] end) (l ++ map (fun e => (OExt i, e)) evs)
  = flat_map (fun oe => match fst oe with OProc => [snd oe] | _ => [] end) l.
Proof.
  rewrite flat_map_app. rewrite <- app_nil_r. f_equal. induction evs as [|e evs IH]; [reflexivity|exact IH].
Qed.

Lemma plog_park s i k ops esc extra : plog (park s i k ops esc extra) = plog s ++ fst (silent_prefix ops).
Proof.
  unfold plog. rewrite park_log, flat_map_app. f_equal.
  induction (fst (silent_prefix ops)) as [|e evs IH]; [reflexivity|]. cbn. f_equal. exact IH.
Qed.

Lemma silent_prefix_cons e r : silent_prefix (MSilent e :: r) = (e :: fst (silent_prefix r), snd (silent_prefix r)).
Proof. cbn [silent_prefix]. destruct (silent_prefix r). reflexivity. Qed.

(* running on to the next scheduling point *)
Lemma settle_mon : forall ops m mf, omrun ops m = Some mf ->
  exists m1, mrun (fst (silent_prefix ops)) m = Some m1 /\ omrun (settle_ops ops) m1 = Some mf /\
             ctl_unreg (m_ctl m1) = ctl_unreg (m_ctl m) /\ ctl_stopped (m_ctl m1) = ctl_stopped (m_ctl m).
Proof.
  induction ops as [|op r IH]; intros m mf H.
  - exists m. repeat split. exact H.
  - destruct op; try (exists m; repeat split; exact H).
    cbn [omrun ostep] in H. destruct (silent_ok e) eqn:Es; [|discriminate].
    destruct (mstep m e) as [m'|] eqn:E; [|discriminate].
    destruct (IH _ _ H) as (m1 & H1 & H2 & H3 & H4). destruct (mstep_silent_cls _ _ _ Es E) as [C1 C2].
    exists m1. rewrite silent_prefix_cons, settle_ops_cons_silent. cbn [fst mrun]. rewrite E.
    repeat split; try assumption; congruence.
Qed.

Definition m0 : mst := MS 0 0 PFresh.

Definition inrun (p : apc) : bool := match p with PRun _ _ _ => holds p | _ => false end.
Fixpoint cur_ops (l : list apc) : option (list mop) :=
  match l with
  | [] => None
  | p :: l' => if inrun p then match p with PRun _ ops _ => Some ops | _ => None end else cur_ops l'
  end.

Definition MI (s : ast) : Prop :=
  (nth_error (a_thr s) 0 = Some PAdd /\ plog s = [] /\ a_reg s = false /\ inc (a_ps s) = 0) \/
  (nth_error (a_thr s) 0 <> Some PAdd /\
   exists m, mrun (plog s) m0 = Some m /\ reg_rel m s /\ st_rel m s /\
     match cur_ops (a_thr s) with Some ops => omrun ops m = Some (mfin (a_ps s)) | None => m = mfin (a_ps s) end).

Lemma cur_ops_app_none a b : Forall (fun q => inrun q = false) a -> cur_ops (a ++ b) = cur_ops b.
Proof. induction 1 as [|x a Hx _ IH]; [reflexivity|]. cbn [app cur_ops]. rewrite Hx. exact IH. Qed.
Lemma cur_ops_none a : Forall (fun q => inrun q = false) a -> cur_ops a = None.
Proof. intros H. rewrite <- (app_nil_r a). rewrite cur_ops_app_none by exact H. reflexivity. Qed.

Lemma inrun_holds p : inrun p = true -> holds p = true.
Proof. destruct p; cbn; try discriminate. intros H; exact H. Qed.

Definition ops_of (p : apc) : option (list mop) :=
  if inrun p then match p with PRun _ ops _ => Some ops | _ => None end else None.

(* the holder's own entry decides *)
Lemma cur_ops_set_holder l i p p' extra :
  acnt holds l <= 1 -> nth_error l i = Some p -> holds p = true ->
  Forall (fun q => inrun q = false) extra ->
  cur_ops (set_thr_list l i p' extra) = ops_of p' /\ cur_ops l = ops_of p.
Proof.
  intros Hle Hn Hp Hex. destruct (acnt_others holds l i p Hle Hn Hp) as [H1 H2].
  assert (N1 : Forall (fun q => inrun q = false) (firstn i l)).
  { eapply Forall_impl; [|exact H1]. intros q Hq. destruct (inrun q) eqn:E; [apply inrun_holds in E; congruence|reflexivity]. }
  assert (N2 : Forall (fun q => inrun q = false) (skipn (S i) l)).
  { eapply Forall_impl; [|exact H2]. intros q Hq. destruct (inrun q) eqn:E; [apply inrun_holds in E; congruence|reflexivity]. }
  split.
  - unfold set_thr_list. rewrite cur_ops_app_none by exact N1. cbn [cur_ops]. unfold ops_of.
    destruct (inrun p'); [reflexivity|]. rewrite cur_ops_app_none by exact N2. apply cur_ops_none, Hex.
  - rewrite (nth_split l i p Hn) at 1. rewrite cur_ops_app_none by exact N1. cbn [cur_ops]. unfold ops_of.
    destruct (inrun p); [reflexivity|]. apply cur_ops_none, N2.
Qed.

(* a thread outside process code does not matter *)
Lemma cur_ops_set_other l i p p' extra :
  nth_error l i = Some p -> inrun p = false -> inrun p' = false -> Forall (fun q => inrun q = false) extra ->
  cur_ops (set_thr_list l i p' extra) = cur_ops l.
Proof.
  intros Hn Hp Hp' Hex. rewrite (nth_split l i p Hn) at 2. unfold set_thr_list.
  generalize (firstn i l) as a. induction a as [|x a IH]; cbn [app cur_ops].
  - rewrite Hp, Hp'. generalize (skipn (S i) l) as b. induction b as [|y b IHb]; cbn [app cur_ops].
    + apply cur_ops_none, Hex.
    + destruct (inrun y); [reflexivity|exact IHb].
  - destruct (inrun x); [reflexivity|exact IH].
Qed.

Lemma mrun_snoc t e m m1 m2 : mrun t m = Some m1 -> mstep m1 e = Some m2 -> mrun (t ++ [e]) m = Some m2.
Proof. intros H1 H2. rewrite mrun_app, H1. cbn [mrun]. rewrite H2. reflexivity. Qed.

Lemma is_dead_ctl_inv m : is_dead_ctl m = true -> exists cur w, m = MS cur w PDead.
Proof. dm m; cbn; try discriminate. eauto. Qed.

Lemma op_effect_mon c s op rest s1 rest' extra l m mf :
  op_effect c s op rest = Some (s1, rest', extra, l) ->
  mrun (plog s) m0 = Some m -> omrun (op :: rest) m = Some mf -> reg_rel m s -> st_rel m s ->
  (op = MStartSwap -> a_status s <> Stopped) ->
  exists m1, mrun (plog s1) m0 = Some m1 /\ omrun rest' m1 = Some mf /\ reg_rel m1 s1 /\ st_rel m1 s1 /\
             a_ps s1 = a_ps s /\ a_thr s1 = a_thr s /\ Forall (fun q => q = WLoad) extra.
Proof.
  intros He Hm Ho Hr Hst Hsw. unfold reg_rel, st_rel in *. cbn [omrun] in Ho.
  assert (Hkick : forall rest0, rest' = rest0 -> omrun rest0 m = Some mf ->
            (let '(s2, extra0, l0) := akick_status s in Some (s2, rest0, extra0, l0)) = Some (s1, rest', extra, l) ->
            exists m1, mrun (plog s1) m0 = Some m1 /\ omrun rest' m1 = Some mf /\ a_reg s1 = negb (ctl_unreg (m_ctl m1)) /\
              (ctl_stopped (m_ctl m1) = true -> a_status s1 = Stopped) /\ a_ps s1 = a_ps s /\ a_thr s1 = a_thr s /\ Forall (fun q => q = WLoad) extra).
  { intros rest0 _ Ho' Hk. destruct (akick_status s) as [[s2 ex] l2] eqn:E. injection Hk as <- <- <- <-.
    destruct (akick_ext _ _ _ _ E) as (E1 & E2 & E3 & E4 & _ & _ & _ & E5).
    exists m. unfold plog. rewrite E1, E4. repeat split; try assumption.
    - intros Hc. specialize (Hst Hc). destruct E5 as [[-> _]|[(E6 & _)|(E6 & _)]]; congruence.
    - destruct E5 as [[_ ->]|[(_ & _ & ->)|(_ & _ & ->)]]; repeat constructor. }
  destruct op; cbn [op_effect ostep] in He, Ho; try discriminate He.
  - (* MRecvB *)
    injection He as <- <- <- <-. destruct (mstep m (Recv i mw m1 sd)) as [m2|] eqn:E; [|discriminate].
    destruct (mstep_recv_cls _ _ _ _ _ _ E) as [C1 C2]. exists m2. rewrite plog_add_proc.
    split; [eapply mrun_snoc; eassumption|]. split; [exact Ho|]. cbn [a_reg a_status a_ps a_thr add_log]. rewrite C1, C2.
    repeat split; try assumption; constructor.
  - injection He as <- <- <- <-. exists m. repeat split; try assumption; constructor.
  - injection He as <- <- <- <-. exists m. repeat split; try assumption; constructor.
  - (* MPush *)
    injection He as <- <- <- <-. destruct (mstep m (Enq e)) as [m2|] eqn:E; [|discriminate].
    pose proof (mstep_enq _ _ _ E) as ->. exists m. rewrite plog_add_proc.
    split; [eapply mrun_snoc; eassumption|]. repeat split; try assumption; constructor.
  - apply (Hkick rest); [|exact Ho|exact He]. destruct (akick_status s) as [[? ?] ?]. injection He as _ <- _ _. reflexivity.
  - (* MStop *)
    injection He as <- <- <- <-. destruct (mstep m InboxStop) as [m2|] eqn:E; [|discriminate].
    destruct (mstep_stop_cls _ _ E) as (C1 & C2 & C3). exists m2. rewrite plog_add_proc.
    split; [eapply mrun_snoc; eassumption|]. split; [exact Ho|]. cbn [a_reg a_status a_ps a_thr add_log with_status].
    rewrite C1. rewrite C2 in Hr. repeat split; try assumption; constructor.
  - (* MRemove *)
    injection He as <- <- <- <-. destruct (mstep m RegRemove) as [m2|] eqn:E; [|discriminate].
    destruct (mstep_remove_cls _ _ E) as (C1 & C2 & C3). exists m2. rewrite plog_add_proc.
    split; [eapply mrun_snoc; eassumption|]. split; [exact Ho|]. cbn [a_reg a_status a_ps a_thr add_log with_reg].
    rewrite C1. repeat split; try constructor. intros _. apply Hst, C3.
  - (* MFlush *)
    destruct (is_dead_ctl m) eqn:Ed; [|discriminate]. destruct (is_dead_ctl_inv _ Ed) as (cur & w & ->).
    destruct (a_ring s) as [|e0 q0] eqn:Eq; injection He as <- <- <- <-.
    + exists (MS cur w PDead). repeat split; try assumption; constructor.
    + exists (MS cur w PDead). rewrite plog_add_proc.
      change (plog (with_ring s (skipn (batch (a_cfg c)) (e0 :: q0)))) with (plog s).
      split; [rewrite mrun_app, Hm; apply mrun_dead, flat_discard_deadP|].
      split; [cbn [omrun ostep]; exact Ho|]. repeat split; try assumption; constructor.
  - (* MStartCas *)
    destruct (mstep m (InboxStart true)) as [m2|] eqn:E; [|discriminate].
    destruct (mstep_istart_cls _ _ E) as (-> & C1 & C2).
    destruct (status_eqb (a_status s) Stopped); injection He as <- <- <- <-; exists m; rewrite plog_add_proc.
    + split; [eapply mrun_snoc; eassumption|]. split; [exact Ho|]. cbn [a_reg a_status a_ps a_thr add_log with_status].
      repeat split; try assumption; try constructor. intros Hc. congruence.
    + split; [eapply mrun_snoc; [exact Hm|rewrite mstep_istart; exact E]|]. split; [rewrite omrun_drop_start; exact Ho|].
      repeat split; try assumption; constructor.
  - (* MStartSwap *)
    injection He as <- <- <- <-. exists m. cbn [a_reg a_status a_ps a_thr with_status]. repeat split; try assumption; try constructor.
    intros Hc. exfalso. apply Hsw; [reflexivity|apply Hst, Hc].
  - apply (Hkick rest); [|exact Ho|exact He]. destruct (akick_status s) as [[? ?] ?]. injection He as _ <- _ _. reflexivity.
Qed.

Lemma nth_set_same l i p p' extra : nth_error l i = Some p -> nth_error (set_thr_list l i p' extra) i = Some p'.
Proof.
  intros H. unfold set_thr_list. rewrite nth_error_app2; rewrite firstn_length_le; try lia.
  - rewrite Nat.sub_diag. reflexivity.
  - apply Nat.lt_le_incl, nth_error_Some. congruence.
  - apply Nat.lt_le_incl, nth_error_Some. congruence.
Qed.
Lemma nth_set_0 l i p p' extra : nth_error l i = Some p -> i <> 0 -> nth_error (set_thr_list l i p' extra) 0 = nth_error l 0.
Proof. intros H Hi. destruct i as [|i]; [congruence|]. destruct l as [|x l]; [discriminate|]. reflexivity. Qed.

Lemma cur_after k r esc m1 mf : omrun r m1 = Some mf ->
  match ops_of (park_pc k r esc) with Some ops => omrun ops m1 = Some mf | None => m1 = mf end.
Proof.
  intros H. destruct r as [|op r'].
  - cbn [omrun] in H. injection H as <-. unfold park_pc. destruct esc; [reflexivity|]. destruct k; reflexivity.
  - unfold park_pc, ops_of, inrun. destruct k; cbn [holds]; [|exact H].
    destruct (kick_only (op :: r')) eqn:Ek; cbn [negb]; [|exact H].
    destruct op; try discriminate Ek. destruct r'; [|discriminate Ek]. cbn in H. injection H as <-. reflexivity.
Qed.

Lemma park_pc_not_padd k r esc : park_pc k r esc <> PAdd.
Proof. unfold park_pc. destruct r; [destruct esc; [|destruct k]|]; discriminate. Qed.

(* facts read off AI *)
Lemma AI_nth s i p : AI s -> nth_error (a_thr s) i = Some p ->
  (i = 0 /\ exists cl, a_thr s = p :: cl /\ P0 p s cl) \/ (exists j, i = S j /\ thr_ok (a_status s) p).
Proof.
  intros (p0 & cl & Hthr & Hok & Hp) Hn. rewrite Hthr in Hn. destruct i as [|j].
  - injection Hn as <-. left. split; [reflexivity|]. exists cl. split; assumption.
  - right. exists j. split; [reflexivity|]. cbn in Hn. rewrite Forall_forall in Hok. apply Hok. eapply nth_error_In; exact Hn.
Qed.

Lemma AI_padd_alone s i k ops esc : AI s -> nth_error (a_thr s) 0 = Some PAdd -> nth_error (a_thr s) i = Some (PRun k ops esc) -> False.
Proof.
  intros (p0 & cl & Hthr & Hok & Hp) H0 Hn. rewrite Hthr in *. injection H0 as ->. destruct i as [|j]; [discriminate|].
  cbn in Hn. pose proof Hn as Hin. apply nth_error_In in Hin. rewrite Forall_forall in Hok. specialize (Hok _ Hin).
  destruct k; [exact Hok|]. destruct Hp as (_ & Hw & _).
  pose proof (acnt_pos is_worker_pc cl j _ Hn eq_refl). lia.
Qed.

Lemma AI_swap_starting s i k rest esc : AI s -> nth_error (a_thr s) i = Some (PRun k (MStartSwap :: rest) esc) -> a_status s <> Stopped.
Proof.
  intros HA Hn. destruct (AI_nth _ _ _ HA Hn) as [(-> & cl & _ & Hp)|(j & -> & Hk)].
  - destruct k; [|contradiction]. destruct Hp as (_ & [(Hsh & _)|[(_ & E & _)|(E & _)]]).
    + destruct (sp_shape_head _ _ Hsh) as [H _]. congruence.
    + congruence.
    + discriminate E.
  - destruct k; [contradiction|]. destruct Hk as (_ & Hw & _). discriminate Hw.
Qed.

Lemma holds_unique l i j p q :
  acnt holds l <= 1 -> nth_error l i = Some p -> holds p = true -> nth_error l j = Some q -> holds q = true -> i = j.
Proof.
  intros Hle Hi Hp Hj Hq. destruct (acnt_others holds l i p Hle Hi Hp) as [H1 H2].
  assert (Hlen : i < length l) by (apply nth_error_Some; congruence).
  rewrite (nth_split l i p Hi) in Hj.
  destruct (Nat.lt_trichotomy j i) as [Hlt|[->|Hgt]]; [|reflexivity|]; exfalso.
  - rewrite nth_error_app1 in Hj by (rewrite firstn_length_le; lia).
    apply nth_error_In in Hj. rewrite Forall_forall in H1. rewrite (H1 _ Hj) in Hq. discriminate.
  - rewrite nth_error_app2 in Hj by (rewrite firstn_length_le; lia). rewrite firstn_length_le in Hj by lia.
    destruct (j - i) as [|d] eqn:Ed; [lia|]. cbn [nth_error] in Hj.
    apply nth_error_In in Hj. rewrite Forall_forall in H2. rewrite (H2 _ Hj) in Hq. discriminate.
Qed.

Section MonStep.
Variable c : acfg.
Hypothesis Hs : stopped_safe (a_cfg c).

Lemma MI_begin s i k s1 ps' t o m :
  AI s -> nth_error (a_thr s) i = Some (match k with KSpawn => PAdd | KWork => WPop end) ->
  a_thr s1 = a_thr s -> a_status s1 = a_status s -> plog s1 = plog s ->
  mrun (plog s) m0 = Some m -> ctl_unreg (m_ctl m) = false -> ctl_stopped (m_ctl m) = false -> a_reg s1 = true ->
  mrun t m = Some (mfin ps') ->
  MI (begin_call s1 i k (ps', t, o)).
Proof.
  intros HA Hn E1 E2 E3 Hm C1 C2 Hreg Ht.
  pose proof (omrun_compile _ _ _ 0 0 Ht) as Ho.
  destruct (settle_mon _ _ _ Ho) as (m1 & H1 & H2 & C3 & C4).
  assert (Hhold : holds (match k with KSpawn => PAdd | KWork => WPop end) = true) by (destruct k; reflexivity).
  right. split.
  - rewrite begin_call_thr, E1. destruct (Nat.eq_dec i 0) as [->|Hi].
    + rewrite (nth_set_same _ _ _ _ _ Hn). intros [= E]. exact (park_pc_not_padd _ _ _ E).
    + rewrite (nth_set_0 _ _ _ _ _ Hn Hi). intros E.
      apply Hi. eapply (holds_unique (a_thr s)); [apply AI_mutex, HA|exact Hn|exact Hhold|exact E|reflexivity].
  - exists m1. rewrite <- begin_call_eq. rewrite plog_park. cbn [plog a_log with_ps].
    assert (Epl : plog (with_ps (if out_of_fuel t then with_oof s1 true else s1) ps') = plog s1) by (destruct (out_of_fuel t); reflexivity).
    unfold plog in Epl |- *. cbn [a_log with_ps] in Epl |- *.
    split; [rewrite Epl; fold (plog s1); rewrite E3, mrun_app, Hm; exact H1|].
    unfold reg_rel, st_rel. rewrite park_reg, park_status, park_ps, park_thr. cbn [a_reg a_status a_ps a_thr with_ps].
    assert (Er : a_reg (if out_of_fuel t then with_oof s1 true else s1) = true) by (destruct (out_of_fuel t); exact Hreg).
    assert (Et : a_thr (if out_of_fuel t then with_oof s1 true else s1) = a_thr s) by (destruct (out_of_fuel t); exact E1).
    rewrite Er, Et, C3, C1, C4, C2. split; [reflexivity|]. split; [discriminate|].
    destruct (cur_ops_set_holder (a_thr s) i _ (park_pc k (settle_ops (compile (strip t 0 0))) (is_panicking o)) []
                (AI_mutex _ HA) Hn Hhold ltac:(constructor)) as [-> _].
    apply cur_after. exact H2.
Qed.

Lemma inrun_false_of_prun p : is_prun p = false -> inrun p = false.
Proof. destruct p; cbn; try reflexivity; discriminate. Qed.

Theorem MI_step s i s' l : AI s -> MI s -> astep c s i = Some (s', l) -> a_oof s' = false -> MI s'.
Proof.
  intros HA HM H Hoof. pose proof (AI_mutex _ HA) as Hmx.
  destruct (astep_kinds _ _ _ _ _ H) as (p & Hn & [(k & s1 & r & Hb & ->)|[(k & op & rest & esc & s1 & rest' & extra & -> & He & ->)|
    (p' & extra & evs & s1 & -> & El & Hev & Et & Eps & Er & Est & Hp1 & Hp2 & Hp3 & Hp4 & _ & _)]]).
  - (* entering process code *)
    destruct r as [[ps' t] o] eqn:Er0. rewrite begin_call_oof in Hoof. apply orb_false_iff in Hoof as [_ Hf].
    destruct Hb as [(-> & -> & -> & Er)|(-> & -> & Hq & -> & Er)]; symmetry in Er.
    + (* Spawn *)
      destruct (AI_nth _ _ _ HA Hn) as [(-> & cl & Hthr & Hp)|(j & _ & [])]. cbn [P0] in Hp. destruct Hp as (Hst & _ & Hmb & Hd).
      destruct HM as [(_ & Hpl & Hreg & Hinc)|(Hne & _)]; [|congruence].
      destruct (proj1 (proj2 (safe_sound _ Hs _)) _ _ _ _ Er Hf) as [_ Hss].
      destruct (proj1 (proj2 (safe_mon _ Hs)) _ _ _ Hss ltac:(split; [exact Hd|reflexivity]) m0 ltac:(right; split; [exact Hinc|reflexivity])) as [Hmr _].
      eapply (MI_begin s 0 KSpawn); try eassumption; try reflexivity. rewrite Hpl. reflexivity.
    + (* Invoke *)
      assert (Hst : a_status s <> Stopped).
      { destruct (AI_nth _ _ _ HA Hn) as [(-> & cl & _ & Hp)|(j & _ & Hk)]; [contradiction|exact Hk]. }
      destruct HM as [(H0 & _)|(Hne & m & Hm & Hr & Hsr & Hc)].
      { exfalso. pose proof (holds_unique _ _ _ _ _ Hmx Hn eq_refl H0 eq_refl) as ->. congruence. }
      destruct (cur_ops_set_holder (a_thr s) i WPop WPop [] Hmx Hn eq_refl ltac:(constructor)) as [_ Ec].
      rewrite Ec in Hc. cbn in Hc. subst m.
      assert (Hd : dead (a_ps s) = false).
      { destruct (dead (a_ps s)) eqn:Ed; [|reflexivity]. exfalso. apply Hst, Hsr. unfold mfin. rewrite Ed. reflexivity. }
      unfold mfin in Hm, Hr. rewrite Hd in Hm, Hr. unfold reg_rel in Hr. cbn in Hr.
      destruct (proj1 (safe_sound _ Hs _) _ _ _ _ _ Er Hf) as [_ Hi].
      destruct (proj1 (safe_mon _ Hs) _ _ _ _ Hi ltac:(split; [exact Hd|exact Hr])) as [Hmr _].
      eapply (MI_begin s i KWork); try eassumption; try reflexivity.
  - (* a micro-operation *)
    destruct HM as [(H0 & _)|(Hne & m & Hm & Hr & Hsr & Hc)]; [exfalso; eapply AI_padd_alone; eassumption|].
    assert (Hsw : op = MStartSwap -> a_status s <> Stopped) by (intros ->; eapply AI_swap_starting; eassumption).
    destruct (holds (PRun k (op :: rest) esc)) eqn:Hh.
    + (* by the thread that runs the actor's code *)
      destruct (cur_ops_set_holder (a_thr s) i _ WLoad [] Hmx Hn Hh ltac:(constructor)) as [_ Ec].
      rewrite Ec in Hc. unfold ops_of, inrun in Hc. rewrite Hh in Hc.
      destruct (op_effect_mon _ _ _ _ _ _ _ _ _ _ He Hm Hc Hr Hsr Hsw) as (m1 & Hm1 & Ho1 & Hr1 & Hs1 & Ep & Et & Hex).
      destruct (settle_mon _ _ _ Ho1) as (m2 & H1 & H2 & C3 & C4).
      right. split.
      * rewrite park_thr, Et. destruct (Nat.eq_dec i 0) as [->|Hi].
        -- rewrite (nth_set_same _ _ _ _ _ Hn). intros [= E]. exact (park_pc_not_padd _ _ _ E).
        -- rewrite (nth_set_0 _ _ _ _ _ Hn Hi). exact Hne.
      * exists m2. rewrite plog_park. split; [rewrite mrun_app, Hm1; exact H1|].
        unfold reg_rel, st_rel in *. rewrite park_reg, park_status, park_ps, park_thr, C3, C4, Ep, Et.
        split; [exact Hr1|]. split; [exact Hs1|].
        assert (Hex' : Forall (fun q => inrun q = false) extra) by (eapply Forall_impl; [|exact Hex]; intros q ->; reflexivity).
        destruct (cur_ops_set_holder (a_thr s) i _ (park_pc k (settle_ops rest') esc) extra Hmx Hn Hh Hex') as [-> _].
        apply cur_after, H2.
    + (* the spawner's last kick *)
      assert (E : k = KSpawn /\ op = MStartKick /\ rest = []).
      { destruct k; cbn in Hh; [|discriminate]. destruct op; try discriminate Hh. destruct rest; [|discriminate Hh]. repeat split. }
      destruct E as (-> & -> & ->).
      destruct (op_effect_mon _ _ _ _ _ _ _ _ _ m He Hm eq_refl Hr Hsr Hsw) as (m1 & Hm1 & Ho1 & Hr1 & Hs1 & Ep & Et & Hex).
      assert (rest' = []) by (cbn in He; destruct (akick_status s) as [[? ?] ?]; injection He as _ <- _ _; reflexivity). subst rest'.
      cbn in Ho1. injection Ho1 as ->.
      right. split.
      * rewrite park_thr, Et. destruct (Nat.eq_dec i 0) as [->|Hi].
        -- rewrite (nth_set_same _ _ _ _ _ Hn). intros E. destruct esc; discriminate E.
        -- rewrite (nth_set_0 _ _ _ _ _ Hn Hi). exact Hne.
      * exists m. rewrite plog_park. cbn [silent_prefix fst]. rewrite app_nil_r. split; [exact Hm1|].
        unfold reg_rel, st_rel in *. rewrite park_reg, park_status, park_ps, park_thr, Ep, Et.
        split; [exact Hr1|]. split; [exact Hs1|].
        rewrite (cur_ops_set_other (a_thr s) i _ _ extra Hn); [exact Hc|cbn; exact Hh|destruct esc; reflexivity|].
        eapply Forall_impl; [|exact Hex]. intros q ->. reflexivity.
  - (* outside process code *)
    assert (Hpl : plog (with_thr s1 i p' extra) = plog s).
    { unfold plog. cbn [a_log with_thr]. rewrite El. apply plog_ext. }
    assert (Hex : Forall (fun q => inrun q = false) extra).
    { destruct Est as [[_ ->]|[(_ & _ & ->)|(_ & _ & ->)]]; repeat constructor. }
    assert (Hi0 : i = 0 -> False).
    { intros ->. destruct (AI_nth _ _ _ HA Hn) as [(_ & cl & Hthr & Hp)|(j & ? & _)]; [|discriminate].
      destruct p as [ |[] ? ?| | | | | | | | | | | | | | ]; cbn in Hp, Hp2; try contradiction; try discriminate.
      (* thread 0 is done: it cannot step *) unfold astep in H. rewrite Hn in H. discriminate H. }
    destruct HM as [(H0 & Hpl0 & Hreg & Hinc)|(Hne & m & Hm & Hr & Hsr & Hc)].
    + left. cbn [a_thr a_reg a_ps with_thr]. rewrite Et, Er, Eps, Hpl.
      destruct (Nat.eq_dec i 0) as [->|Hi]; [exfalso; apply Hi0; reflexivity|].
      rewrite (nth_set_0 _ _ _ _ _ Hn Hi). repeat split; assumption.
    + right. cbn [a_thr with_thr]. rewrite Et. split.
      * destruct (Nat.eq_dec i 0) as [->|Hi]; [exfalso; apply Hi0; reflexivity|].
        rewrite (nth_set_0 _ _ _ _ _ Hn Hi). exact Hne.
      * exists m. rewrite Hpl. split; [exact Hm|]. unfold reg_rel, st_rel in *. cbn [a_reg a_status a_ps with_thr].
        rewrite Er, Eps. split; [exact Hr|]. split.
        -- intros Hcs. specialize (Hsr Hcs). destruct Est as [[-> _]|[(E & _)|(E & _)]]; congruence.
        -- rewrite (cur_ops_set_other (a_thr s) i p p' extra Hn); [exact Hc|apply inrun_false_of_prun, Hp2|apply inrun_false_of_prun, Hp3|exact Hex].
Qed.
End MonStep.

(* ------------------------------------------------------------------ *)
(** * Reachable states satisfy both invariants; C04 *)

Lemma MI_init senders poisoners : MI (ainit senders poisoners).
Proof. left. repeat split. Qed.

Theorem AM_reach c senders poisoners s :
  stopped_safe (a_cfg c) -> areach c (ainit senders poisoners) s -> a_oof s = false -> AI s /\ MI s.
Proof.
  intros Hs Hr. induction Hr as [|s i s' l Hr IH H]; intros Ho; [split; [apply AI_init|apply MI_init]|].
  assert (Ho' : a_oof s = false).
  { destruct (a_oof s) eqn:E; [|reflexivity]. rewrite (astep_oof _ _ _ _ _ H E) in Ho. discriminate Ho. }
  destruct (IH Ho') as [HA HM]. split; [eapply AI_step; eassumption|eapply MI_step; eassumption].
Qed.

(** C04 under every schedule: the deliveries of the whole execution — on the
    spawner's goroutine and on every worker, restarts included — form a
    lifecycle word. *)
Theorem C04_lifecycle_word_all_schedules_thm c senders poisoners s :
  stopped_safe (a_cfg c) -> areach c (ainit senders poisoners) s -> a_oof s = false ->
  c04_word (recvs_of (plog s)) 0 0 = true.
Proof.
  intros Hs Hr Ho. destruct (AM_reach _ _ _ _ Hs Hr Ho) as [_ [(_ & -> & _)|(_ & m & Hm & _)]]; [reflexivity|].
  apply (mrun_word _ _ _ Hm).
Qed.

(* ** only process code logs deliveries *)
Definition xlog_ok (l : list (origin * event)) : Prop :=
  Forall (fun oe => match fst oe with OExt _ => ext_ev (snd oe) | OProc => True end) l.

Lemma op_effect_log c s op rest s1 rest' extra l :
  op_effect c s op rest = Some (s1, rest', extra, l) -> exists evs, a_log s1 = a_log s ++ map (fun e => (OProc, e)) evs.
Proof.
  destruct op; cbn [op_effect]; try discriminate;
    try (intros [= <- <- <- <-]; first [exists []; cbn; rewrite app_nil_r; reflexivity|eexists; reflexivity]).
  - destruct (akick_status s) as [[s2 ex] l2] eqn:E. intros [= <- <- <- <-]. exists []. rewrite app_nil_r. apply (akick_ext _ _ _ _ E).
  - destruct (a_ring s); intros [= <- <- <- <-]; [exists []; cbn; rewrite app_nil_r; reflexivity|eexists; reflexivity].
  - destruct (status_eqb (a_status s) Stopped); intros [= <- <- <- <-]; eexists; reflexivity.
  - destruct (akick_status s) as [[s2 ex] l2] eqn:E. intros [= <- <- <- <-]. exists []. rewrite app_nil_r. apply (akick_ext _ _ _ _ E).
Qed.

(* what a step appends to the log *)
Lemma astep_log c s i s' l : astep c s i = Some (s', l) ->
  (exists evs, a_log s' = a_log s ++ map (fun e => (OProc, e)) evs) \/
  (exists p evs, nth_error (a_thr s) i = Some p /\ a_log s' = a_log s ++ map (fun e => (OExt i, e)) evs /\ Forall ext_ev evs /\ cancel_src s p evs).
Proof.
  intros H. destruct (astep_kinds _ _ _ _ _ H) as (p & Hn & [(k & s1 & r & Hb & ->)|[(k & op & rest & esc & s1 & rest' & extra & -> & He & ->)|
    (p' & extra & evs & s1 & -> & El & Hev & Et & Eps & Er & Est & Hp1 & Hp2 & Hp3 & Hp4 & Hcs & _)]]).
  - left. destruct r as [[ps' t] o]. rewrite <- begin_call_eq, park_log. eexists.
    destruct Hb as [(_ & _ & -> & _)|(_ & _ & _ & -> & _)]; destruct (out_of_fuel t); reflexivity.
  - left. destruct (op_effect_log _ _ _ _ _ _ _ _ He) as (evs & E). rewrite park_log, E, <- app_assoc, <- map_app. eexists. reflexivity.
  - right. exists p, evs. repeat split; assumption.
Qed.

Lemma xlog_ok_step c s i s' l : astep c s i = Some (s', l) -> xlog_ok (a_log s) -> xlog_ok (a_log s').
Proof.
  intros H Hx. unfold xlog_ok in *. destruct (astep_log _ _ _ _ _ H) as [(evs & ->)|(p & evs & _ & -> & Hev & _)]; apply Forall_app; split; try exact Hx.
  - apply Forall_forall. intros oe Hin. apply in_map_iff in Hin as (e & <- & _). exact I.
  - apply Forall_forall. intros oe Hin. apply in_map_iff in Hin as (e & <- & He). rewrite Forall_forall in Hev. exact (Hev _ He).
Qed.

Lemma xlog_ok_reach c s0 s : areach c s0 s -> xlog_ok (a_log s0) -> xlog_ok (a_log s).
Proof. induction 1 as [|s i s' l _ IH H]; intros H0; [exact H0|]. eapply xlog_ok_step; [exact H|apply IH, H0]. Qed.

Lemma recvs_of_xlog l : xlog_ok l ->
  recvs_of (map snd l) = recvs_of (flat_map (fun oe => match fst oe with OProc => [snd oe] | _ => [] end) l).
Proof.
  induction 1 as [|[o e] l Ho _ IH]; [reflexivity|]. cbn [map flat_map fst snd].
  destruct o; cbn [app].
  - destruct e; cbn [recvs_of]; rewrite IH; reflexivity.
  - cbn in Ho. destruct e; try contradiction; cbn [recvs_of]; exact IH.
Qed.

(* the deliveries of the whole log are those of process code *)
Theorem recvs_elog c senders poisoners s :
  areach c (ainit senders poisoners) s -> recvs_of (elog s) = recvs_of (plog s).
Proof. intros Hr. apply recvs_of_xlog. eapply xlog_ok_reach; [exact Hr|constructor]. Qed.

(* ------------------------------------------------------------------ *)
(** * C07 (when a context is cancelled) *)

(* a poisoner past its first lookup: the spawner has registered the actor *)
Definition QI (s : ast) : Prop :=
  (exists i p, nth_error (a_thr s) i = Some p /\ past_look1 p = true) -> nth_error (a_thr s) 0 <> Some PAdd.

Lemma nth_set_other l i j p p' q extra :
  nth_error l i = Some p -> j <> i -> nth_error (set_thr_list l i p' extra) j = Some q ->
  nth_error l j = Some q \/ In q extra.
Proof.
  intros Hi Hne H. assert (Hlen : i < length l) by (apply nth_error_Some; congruence).
  unfold set_thr_list in H. destruct (Nat.lt_trichotomy j i) as [Hlt|[->|Hgt]]; [|congruence|].
  - rewrite nth_error_app1 in H by (rewrite firstn_length_le; lia). left.
    rewrite (nth_split l i p Hi), nth_error_app1 by (rewrite firstn_length_le; lia). exact H.
  - rewrite nth_error_app2 in H by (rewrite firstn_length_le; lia). rewrite firstn_length_le in H by lia.
    destruct (j - i) as [|d] eqn:Ed; [lia|]. cbn [nth_error] in H.
    destruct (Nat.lt_ge_cases d (length (skipn (S i) l))) as [Hd|Hd].
    + rewrite nth_error_app1 in H by exact Hd. left.
      rewrite (nth_split l i p Hi), nth_error_app2 by (rewrite firstn_length_le; lia). rewrite firstn_length_le by lia.
      rewrite Ed. exact H.
    + rewrite nth_error_app2 in H by exact Hd. right. eapply nth_error_In; exact H.
Qed.

Lemma park_pc_not_look k r esc : past_look1 (park_pc k r esc) = false.
Proof. unfold park_pc. destruct r; [destruct esc; [|destruct k]|]; reflexivity. Qed.

Lemma QI_step c s i s' l : MI s -> QI s -> astep c s i = Some (s', l) -> QI s'.
Proof.
  intros HM HQ H (j & q & Hj & Hq) H0.
  (* the step is thread i: p -> pn, with threads extra (workers) added *)
  assert (Hshape : exists p pn extra, nth_error (a_thr s) i = Some p /\ a_thr s' = set_thr_list (a_thr s) i pn extra /\
            pn <> PAdd /\ Forall (fun x => x = WLoad) extra /\ (past_look1 pn = true -> past_look1 p = true \/ a_reg s = true)).
  { destruct (astep_kinds _ _ _ _ _ H) as (p & Hn & [(k & s1 & r & Hb & ->)|[(k & op & rest & esc & s1 & rest' & extra & -> & He & ->)|
      (p' & extra & evs & s1 & -> & El & Hev & Et & Eps & Er & Est & Hp1 & Hp2 & Hp3 & Hp4 & _ & Hls)]]).
    - destruct r as [[ps' t] o]. exists p, (park_pc k (settle_ops (compile (strip t 0 0))) (is_panicking o)), [].
      rewrite begin_call_thr. split; [exact Hn|]. split; [destruct Hb as [(_ & _ & -> & _)|(_ & _ & _ & -> & _)]; reflexivity|].
      split; [apply park_pc_not_padd|]. split; [constructor|]. rewrite park_pc_not_look. discriminate.
    - exists (PRun k (op :: rest) esc), (park_pc k (settle_ops rest') esc), extra. rewrite park_thr.
      assert (E : a_thr s1 = a_thr s /\ Forall (fun x => x = WLoad) extra).
      { destruct op; cbn [op_effect] in He; try discriminate He;
          try (injection He as <- <- <- <-; split; [reflexivity|constructor]).
        - destruct (akick_status s) as [[s2 ex] l2] eqn:E. injection He as <- <- <- <-.
          destruct (akick_ext _ _ _ _ E) as (_ & E2 & _ & _ & _ & _ & _ & [[_ ->]|[(_ & _ & ->)|(_ & _ & ->)]]); split; try exact E2; repeat constructor.
        - destruct (a_ring s); injection He as <- <- <- <-; split; try reflexivity; constructor.
        - destruct (status_eqb (a_status s) Stopped); injection He as <- <- <- <-; split; try reflexivity; constructor.
        - destruct (akick_status s) as [[s2 ex] l2] eqn:E. injection He as <- <- <- <-.
          destruct (akick_ext _ _ _ _ E) as (_ & E2 & _ & _ & _ & _ & _ & [[_ ->]|[(_ & _ & ->)|(_ & _ & ->)]]); split; try exact E2; repeat constructor. }
      destruct E as [-> Hex]. split; [exact Hn|]. split; [reflexivity|]. split; [apply park_pc_not_padd|]. split; [exact Hex|].
      rewrite park_pc_not_look. discriminate.
    - exists p, p', extra. cbn [a_thr with_thr]. rewrite Et. split; [exact Hn|]. split; [reflexivity|]. split; [exact Hp4|].
      split; [destruct Est as [[_ ->]|[(_ & _ & ->)|(_ & _ & ->)]]; repeat constructor|exact Hls]. }
  destruct Hshape as (p & pn & extra & Hn & Ht & Hpn & Hex & Hls). rewrite Ht in *.
  (* thread 0 was already at PAdd *)
  assert (Hi : i <> 0) by (intros ->; rewrite (nth_set_same _ _ _ _ _ Hn) in H0; congruence).
  rewrite (nth_set_0 _ _ _ _ _ Hn Hi) in H0.
  assert (Hreg : a_reg s = false) by (destruct HM as [(_ & _ & Hr & _)|(Hne & _)]; [exact Hr|congruence]).
  apply HQ; [|exact H0].
  destruct (Nat.eq_dec j i) as [->|Hji].
  - rewrite (nth_set_same _ _ _ _ _ Hn) in Hj. injection Hj as <-.
    destruct (Hls Hq) as [Hp|Hp]; [exists i, p; split; assumption|congruence].
  - destruct (nth_set_other _ _ _ _ _ _ _ Hn Hji Hj) as [Hj'|Hin]; [exists j, q; split; assumption|].
    rewrite Forall_forall in Hex. rewrite (Hex _ Hin) in Hq. discriminate Hq.
Qed.

Lemma QI_init senders poisoners : QI (ainit senders poisoners).
Proof.
  intros (i & p & Hn & Hp). exfalso. apply nth_error_In in Hn. cbn [ainit a_thr] in Hn.
  destruct Hn as [<-|Hn]; [discriminate|]. unfold client_threads in Hn. apply in_app_or in Hn as [Hn|Hn].
  - apply in_map_iff in Hn as (ms & <- & _). destruct ms; discriminate.
  - revert Hn. generalize 0. induction poisoners as [|g l IH]; intros k Hn; cbn [poisoner_threads In] in Hn; [contradiction|].
    destruct Hn as [E|Hn]; [subst p; discriminate|eapply IH; exact Hn].
Qed.

(* ** the condition on every Cancel of the log, given what precedes it *)
Fixpoint cok (pre l : list (origin * event)) : Prop :=
  match l with
  | [] => True
  | oe :: l' =>
    match snd oe with
    | Cancel k => In (OProc, RegRemove) pre \/
                  exists i g pre', fst oe = OExt i /\ pre = pre' ++ [(OExt i, EvDeadLetter (Pill g k))]
    | _ => True
    end /\ cok (pre ++ [oe]) l'
  end.

Lemma cok_app : forall a pre b, cok pre (a ++ b) <-> cok pre a /\ cok (pre ++ a) b.
Proof.
  induction a as [|x a IH]; intros pre b; cbn [app cok].
  - rewrite app_nil_r. tauto.
  - rewrite IH, <- app_assoc. cbn [app]. tauto.
Qed.

Lemma cok_proc : forall evs pre,
  (forall epre k epost, evs = epre ++ Cancel k :: epost -> In (OProc, RegRemove) (pre ++ map (fun e => (OProc, e)) epre)) ->
  cok pre (map (fun e => (OProc, e)) evs).
Proof.
  induction evs as [|e evs IH]; intros pre H; [exact I|]. cbn [map cok snd]. split.
  - destruct e; try exact I. left. specialize (H [] k evs eq_refl). cbn in H. rewrite app_nil_r in H. exact H.
  - apply IH. intros epre k epost ->. specialize (H (e :: epre) k epost eq_refl). cbn [map] in H.
    rewrite <- app_assoc. exact H.
Qed.

Lemma cok_nocancel : forall evs o pre, (forall k, ~ In (Cancel k) evs) -> cok pre (map (fun e => (o, e)) evs).
Proof.
  induction evs as [|e evs IH]; intros o pre H; [exact I|]. cbn [map cok snd]. split.
  - destruct e; try exact I. exfalso. apply (H k). left; reflexivity.
  - apply IH. intros k Hk. apply (H k). right; exact Hk.
Qed.

Lemma in_plog_log (l : list (origin * event)) e :
  In e (flat_map (fun oe => match fst oe with OProc => [snd oe] | _ => [] end) l) -> In (OProc, e) l.
Proof.
  intros H. apply in_flat_map in H as ([o e'] & Hin & He). cbn in He. destruct o; [|contradiction].
  destruct He as [<-|[]]. exact Hin.
Qed.

Definition CI (s : ast) : Prop := cok [] (a_log s).

Lemma CI_step c s i s' l : MI s -> QI s -> MI s' -> CI s -> astep c s i = Some (s', l) -> CI s'.
Proof.
  intros HM HQ HM' HC H. unfold CI in *.
  destruct (astep_log _ _ _ _ _ H) as [(evs & E)|(p & evs & Hn & E & Hev & Hcs)]; rewrite E; apply cok_app; (split; [exact HC|]); cbn [app].
  - (* process code: the monitor *)
    apply cok_proc. intros epre k epost ->.
    assert (Hpl : plog s' = plog s ++ epre ++ Cancel k :: epost).
    { unfold plog. rewrite E, flat_map_app. f_equal. clear. induction (epre ++ Cancel k :: epost) as [|e l IH]; [reflexivity|]. cbn. f_equal. exact IH. }
    destruct HM' as [(_ & Hnil & _)|(_ & m & Hm & _)].
    + rewrite Hpl in Hnil. destruct (plog s); destruct epre; discriminate.
    + rewrite Hpl, app_assoc in Hm. destruct (mon_cancel_after_unregister _ _ _ _ _ _ Hm eq_refl eq_refl) as [Hin _].
      apply in_app_or in Hin as [Hin|Hin]; apply in_or_app; [left; apply in_plog_log, Hin|right].
      apply in_map_iff. exists RegRemove. split; [reflexivity|exact Hin].
  - (* a client *)
    destruct (existsb (fun e => match e with Cancel _ => true | _ => false end) evs) eqn:Eex.
    + apply existsb_exists in Eex as (e & Hin & He). destruct e; try discriminate He.
      destruct (Hcs k Hin) as [(g & ->)|(-> & Hreg & ->)].
      * cbn [map cok snd fst]. repeat split. right. exists i, g, (a_log s). split; reflexivity.
      * cbn [map cok snd fst]. repeat split. left.
        assert (Hne : nth_error (a_thr s) 0 <> Some PAdd) by (apply HQ; exists i, (QLook3 k); split; [exact Hn|reflexivity]).
        destruct HM as [(H0 & _)|(_ & m & Hm & Hr & _)]; [congruence|].
        unfold reg_rel in Hr. rewrite Hreg in Hr. apply in_plog_log.
        assert (Hk : m_ctl m = PDead \/ m_ctl m = PRemoved) by (destruct m as [? ? []]; cbn in Hr; try discriminate; tauto).
        destruct (mrun_reach_dead _ _ _ Hm Hk) as [Hx|[Hx|Hx]]; [discriminate Hx|discriminate Hx|exact Hx].
    + apply cok_nocancel. intros k Hin.
      assert (existsb (fun e => match e with Cancel _ => true | _ => false end) evs = true) by (apply existsb_exists; eexists; split; [exact Hin|reflexivity]).
      congruence.
Qed.

Theorem CQ_reach c senders poisoners s :
  stopped_safe (a_cfg c) -> areach c (ainit senders poisoners) s -> a_oof s = false -> QI s /\ CI s.
Proof.
  intros Hs Hr. induction Hr as [|s i s' l Hr IH H]; intros Ho; [split; [apply QI_init|exact I]|].
  assert (Ho' : a_oof s = false).
  { destruct (a_oof s) eqn:E; [|reflexivity]. rewrite (astep_oof _ _ _ _ _ H E) in Ho. discriminate Ho. }
  destruct (IH Ho') as [HQ HC]. destruct (AM_reach _ _ _ _ Hs Hr Ho') as [HA HM].
  assert (HM' : MI s') by (eapply MI_step; eassumption).
  split; [exact (QI_step c s i s' l HM HQ H)|exact (CI_step c s i s' l HM HQ HM' HC H)].
Qed.

Lemma cok_split : forall l pre l1 o k l2, cok pre l -> l = l1 ++ (o, Cancel k) :: l2 ->
  In (OProc, RegRemove) (pre ++ l1) \/ exists i g pre', o = OExt i /\ pre ++ l1 = pre' ++ [(OExt i, EvDeadLetter (Pill g k))].
Proof.
  induction l as [|x l IH]; intros pre l1 o k l2 H E; [destruct l1; discriminate|].
  destruct l1 as [|y l1]; cbn [app] in E; injection E as -> ->.
  - cbn [cok snd fst] in H. rewrite app_nil_r. exact (proj1 H).
  - cbn [cok] in H. destruct H as [_ H]. specialize (IH _ l1 o k l2 H eq_refl). rewrite <- app_assoc in IH. exact IH.
Qed.

Lemma mstep_to_stoppedC m e m1 : mstep m e = Some m1 -> m_ctl m1 = PStoppedC ->
  m_ctl m = PStoppedC \/ exists i sd, e = Recv i true LStopped sd.
Proof.
  intros E Hc. destruct m as [cur w k]; destruct m1 as [cur1 w1 k1]; cbn in Hc; subst k1.
  destruct k; destruct e as [ |? [] [] ?| | | | | | | | | | | | | | | ]; cbn in E; try discriminate;
    repeat match type of E with (if ?c then _ else _) = _ => destruct c; try discriminate end;
    try (injection E as <- <-); try discriminate; cbn; eauto.
Qed.

Lemma mrun_to_stoppedC : forall t m ma, mrun t m = Some ma -> m_ctl ma = PStoppedC ->
  m_ctl m = PStoppedC \/ exists i sd, In (Recv i true LStopped sd) t.
Proof.
  induction t as [|e t IH]; intros m ma H Hc; cbn [mrun] in H.
  - injection H as ->. left; exact Hc.
  - destruct (mstep m e) as [m1|] eqn:E; [|discriminate].
    destruct (IH _ _ H Hc) as [H1|(i & sd & Hin)]; [|right; exists i, sd; right; exact Hin].
    destruct (mstep_to_stoppedC _ _ _ E H1) as [H2|(i & sd & ->)]; [left; exact H2|right; exists i, sd; left; reflexivity].
Qed.

(** C07, first half, under every schedule: a Stop/Poison context is cancelled
    only after the actor has been removed from the registry — which happens
    after its final Stopped, and after which nothing is delivered any more —
    or at once by a caller whose first lookup found no actor (the dead letter
    it reports is the entry just before). *)
Theorem C07_cancel_after_stopped_all_schedules_thm c senders poisoners s :
  stopped_safe (a_cfg c) -> areach c (ainit senders poisoners) s -> a_oof s = false ->
  forall l1 o k l2, a_log s = l1 ++ (o, Cancel k) :: l2 ->
    (In (OProc, RegRemove) l1 /\ (exists i sd, In (OProc, Recv i true LStopped sd) l1) /\
     Forall (fun oe => match snd oe with Recv _ _ _ _ => False | _ => True end) l2) \/
    (exists i g l1', o = OExt i /\ l1 = l1' ++ [(OExt i, EvDeadLetter (Pill g k))]).
Proof.
  intros Hs Hr Ho l1 o k l2 E.
  destruct (CQ_reach _ _ _ _ Hs Hr Ho) as [_ HC]. destruct (AM_reach _ _ _ _ Hs Hr Ho) as [_ HM].
  pose proof (xlog_ok_reach _ _ _ Hr ltac:(constructor)) as Hx.
  destruct (cok_split _ [] _ _ _ _ HC E) as [Hin|Hc]; [left|right; exact Hc]. cbn [app] in Hin.
  split; [exact Hin|].
  (* the monitor: RegRemove is preceded by the Stopped of cleanup and followed by no delivery *)
  apply in_split in Hin as (la & lb & ->).
  pose (pl := fun l : list (origin * event) => flat_map (fun oe => match fst oe with OProc => [snd oe] | _ => [] end) l).
  assert (Hpl : plog s = pl la ++ RegRemove :: pl (lb ++ (o, Cancel k) :: l2)).
  { unfold plog. rewrite E, <- app_assoc. cbn [app]. unfold pl. rewrite flat_map_app. reflexivity. }
  destruct HM as [(_ & Hnil & _)|(_ & m & Hm & _)]; [rewrite Hpl in Hnil; destruct (pl la); discriminate|].
  pose proof (mon_nothing_after_unregister _ _ _ _ _ Hm Hpl) as Hlate.
  rewrite Hpl in Hm. apply mrun_split in Hm as (ma & mb & H1 & Est & _).
  apply mstep_regremove in Est as [Ek _].
  split.
  - destruct (mrun_to_stoppedC _ _ _ H1 Ek) as [Hx0|(i & sd & Hin)]; [discriminate Hx0|].
    exists i, sd. apply in_or_app. left. apply in_plog_log. exact Hin.
  - rewrite E in Hx. unfold xlog_ok in Hx. apply Forall_app in Hx as [_ Hx]. inversion Hx as [|? ? _ Hx2]; subst.
    unfold pl in Hlate. rewrite flat_map_app in Hlate. apply Forall_app in Hlate as [_ Hlate]. cbn [flat_map] in Hlate.
    apply Forall_app in Hlate as [_ Hlate].
    apply Forall_forall. intros [o' e'] Hin. cbn [snd].
    destruct o' as [|j].
    + assert (Hl : late_ev e').
      { rewrite Forall_forall in Hlate. apply Hlate. apply in_flat_map. exists (OProc, e'). split; [exact Hin|left; reflexivity]. }
      destruct Hl as [->|Hd]; [exact I|]. destruct e'; try contradiction; exact I.
    + rewrite Forall_forall in Hx2. specialize (Hx2 _ Hin). cbn in Hx2. destruct e'; try contradiction; exact I.
Qed.

(* ------------------------------------------------------------------ *)
(** * Executable schedules are runs *)
Lemma arun_sched_reach c : forall sched s0 s ls, arun_sched c s0 sched = Some (s, ls) -> areach c s0 s.
Proof.
  intros sched. induction sched as [|i sched IH] using rev_ind; intros s0 s ls H.
  - cbn in H. injection H as <- _. constructor.
  - assert (G : forall a b s0 s ls, arun_sched c s0 (a ++ b) = Some (s, ls) ->
                exists s1 l1 l2, arun_sched c s0 a = Some (s1, l1) /\ arun_sched c s1 b = Some (s, l2)).
    { clear. induction a as [|x a IHa]; intros b s0 s ls H; cbn [app arun_sched] in *.
      - exists s0, [], ls. split; [reflexivity|exact H].
      - destruct (astep c s0 x) as [[s1 l1]|]; [|discriminate].
        destruct (arun_sched c s1 (a ++ b)) as [[s2 l2]|] eqn:E; [|discriminate]. injection H as <- <-.
        destruct (IHa _ _ _ _ E) as (s3 & l3 & l4 & E1 & E2). rewrite E1. exists s3, (l1 :: l3), l4. split; [reflexivity|exact E2]. }
    destruct (G _ _ _ _ _ H) as (s1 & l1 & l2 & E1 & E2). cbn [arun_sched] in E2.
    destruct (astep c s1 i) as [[s2 l3]|] eqn:E; [|discriminate]. injection E2 as <- _.
    eapply areach_step; [eapply IH; exact E1|exact E].
Qed.

(* ------------------------------------------------------------------ *)
(** * The flush that [strip] cuts out of a trace is the flush of the call's own sends

    For the traces of Proc's functions, run from a state whose queue holds
    the call's own sends so far: [strip] with the counter at the length of
    that queue removes, after EvStopped, exactly the discards of that queue.
    [SC q t q']: the trace [t] runs from queue [q] to queue [q'], [strip]
    distributes over what follows with the counter at [length q'], and what
    was cut out is accounted for ([no]: events leaving the system, per key). *)
Section SCx.
Variable x : key.

(* the trace [t], produced from queue [q] and leaving queue [q'], and its stripped form *)
Definition SC (q : list env) (t : list event) (q' : list env) : Prop :=
  (forall rest, strip (t ++ rest) (length q) 0 = strip t (length q) 0 ++ strip rest (length q') 0) /\
  no x t + nk x q' = no x (strip t (length q) 0) + nk x q + nk x (acc t).

Lemma SC_nil q : SC q [] q.
Proof. split; [reflexivity|]. cbn. unfold no, nk. cbn. lia. Qed.

Lemma SC_trans q t1 q1 t2 q2 : SC q t1 q1 -> SC q1 t2 q2 -> SC q (t1 ++ t2) q2.
Proof.
  intros [A1 B1] [A2 B2]. split.
  - intros rest. rewrite <- app_assoc, A1, A2. rewrite (A1 t2), app_assoc. reflexivity.
  - rewrite A1, !no_app, acc_app, nk_app. lia.
Qed.

Definition plain (e : event) : Prop := match e with Enq _ | EvStopped => False | _ => True end.

Lemma SC_plain1 q e : plain e -> SC q [e] q.
Proof.
  intros He. split.
  - intros rest. destruct e; try contradiction; reflexivity.
  - assert (acc [e] = []) as -> by (destruct e; try contradiction; reflexivity).
    assert (strip [e] (length q) 0 = [e]) as -> by (destruct e; try contradiction; reflexivity).
    rewrite nk_nil. lia.
Qed.

Lemma SC_plain q t : Forall plain t -> SC q t q.
Proof.
  induction 1 as [|e t He _ IH]; [apply SC_nil|]. change (e :: t) with ([e] ++ t).
  eapply SC_trans; [apply SC_plain1, He|exact IH].
Qed.

Lemma SC_enq q e : SC q [Enq e] (q ++ [e]).
Proof.
  split.
  - intros rest. cbn. rewrite app_length. cbn. rewrite Nat.add_1_r. reflexivity.
  - cbn [strip]. rewrite nk_app. cbn [acc flat_map app]. unfold no. cbn. lia.
Qed.

Lemma strip_discards : forall l rest n, strip (flat_map discard l ++ rest) n (length l) = strip rest n 0.
Proof.
  induction l as [|e l IH]; intros rest n; [reflexivity|]. cbn [flat_map length]. rewrite <- app_assoc.
  unfold discard at 1. destruct (emsg e); cbn [app strip]; apply IH.
Qed.

Lemma strip_discards_nil l n : strip (flat_map discard l) n (length l) = [].
Proof. rewrite <- (app_nil_r (flat_map discard l)). apply strip_discards. Qed.

Lemma SC_flush q : SC q (EvStopped :: flat_map discard q) [].
Proof.
  split.
  - intros rest. cbn [app strip]. rewrite strip_discards, strip_discards_nil. reflexivity.
  - cbn [strip]. rewrite strip_discards_nil.
    rewrite no_cons. destruct (flat_discard_cnt x q) as [_ ->]. 
    assert (acc (EvStopped :: flat_map discard q) = []) as ->.
    { cbn. induction q as [|e q IH]; [reflexivity|]. cbn [flat_map]. unfold acc in *. rewrite flat_map_app, IH, app_nil_r.
      unfold discard. destruct (emsg e); reflexivity. }
    rewrite nk_nil. unfold no. cbn. lia.
Qed.

Definition SCs (s : pst) (t : list event) (s' : pst) : Prop := SC (queue s) t (queue s').

Lemma do_actions_SC acts s s' t o : do_actions s acts = (s', t, o) -> SCs s t s'.
Proof.
  apply (do_actions_rel SCs); unfold SCs.
  - intros. apply SC_nil.
  - intros. eapply SC_trans; eassumption.
  - intros s0 n b. unfold send_self. destruct (registered s0); cbn [fst snd sent_of emsg queue upd_queue].
    + change ([Sent n] ++ [Enq {| emsg := User n; esnd := b |}]) with ([Sent n] ++ [Enq {| emsg := User n; esnd := b |}]).
      eapply SC_trans; [apply SC_plain1; exact I|apply SC_enq].
    + apply SC_plain. repeat constructor.
  - intros s0 g. unfold poison_self. destruct (registered s0); cbn [fst snd queue upd_queue upd_npill].
    + apply SC_enq.
    + apply SC_plain. repeat constructor.
Qed.

Lemma recv_SC c s mw m s' t o : recv c s mw m = (s', t, o) -> SCs s t s'.
Proof.
  intros H. apply recv_inv in H as (ta & -> & H). apply do_actions_SC in H. unfold SCs in *.
  change (Recv (inc s) mw m (csender s) :: ta) with ([Recv (inc s) mw m (csender s)] ++ ta).
  eapply SC_trans; [apply SC_plain1; exact I|exact H].
Qed.

Lemma invoke_msg_SC c s e s' t o : invoke_msg c s e = (s', t, o) -> SCs s t s'.
Proof.
  unfold invoke_msg. destruct (emsg e).
  - intros H. apply recv_SC in H. exact H.
  - intros [= <- <- <-]. apply SC_nil.
Qed.

Lemma cleanup_SC c s k s' t : cleanup c s k = (s', t, Normal) -> SCs s t s'.
Proof.
  intros H. apply cleanup_normal_inv in H as (s1 & t1 & E & -> & ->). apply recv_SC in E. unfold SCs in *.
  cbn [queue upd_istopped upd_dead upd_queue upd_registered] in *.
  change (InboxStop :: t1 ++ RegRemove :: EvStopped :: flat_map discard (queue s1) ++ match k with Some k0 => [Cancel k0] | None => [] end)
    with ([InboxStop] ++ (t1 ++ [RegRemove] ++ (EvStopped :: flat_map discard (queue s1)) ++ match k with Some k0 => [Cancel k0] | None => [] end)).
  eapply SC_trans; [apply SC_plain1; exact I|]. eapply SC_trans; [exact E|].
  eapply SC_trans; [apply SC_plain1; exact I|]. eapply SC_trans; [apply SC_flush|].
  apply SC_plain. destruct k; repeat constructor.
Qed.

Lemma discard_plain e : Forall plain (discard e).
Proof. unfold discard. destruct (emsg e); repeat constructor. Qed.
Lemma flat_discard_plain l : Forall plain (flat_map discard l).
Proof. induction l as [|e l IH]; [constructor|]. cbn. apply Forall_app. split; [apply discard_plain|exact IH]. Qed.
Lemma discard_rest_plain g l : Forall plain (discard_rest g l).
Proof.
  unfold discard_rest. induction l as [|e l IH]; [constructor|]. cbn [flat_map]. apply Forall_app. split; [|exact IH].
  destruct (emsg e) eqn:E; [destruct g; [constructor|]|]; apply discard_plain.
Qed.

Lemma drain_SC c : forall l s n sk s' t o np sk', drain c s l n sk = (s', t, o, np, sk') -> SCs s t s'.
Proof.
  induction l as [|e l IH]; intros s n sk s' t o np sk' H; cbn [drain] in H.
  - injection H as <- <- <- <- <-. apply SC_nil.
  - destruct (emsg e) eqn:Ee; [|eapply IH; exact H].
    destruct (invoke_msg c s e) as [[s1 t1] o1] eqn:E1. apply invoke_msg_SC in E1. destruct o1.
    + destruct (drain c s1 l (S n) sk) as [[[[s2 t2] o2] np2] sk2] eqn:E2. injection H as <- <- <- <- <-.
      eapply SC_trans; [exact E1|eapply IH; exact E2].
    + injection H as <- <- <- <- <-. exact E1.
Qed.

Lemma invoke_loop_SC c (Hs : stopped_safe c) : forall l s n s' t o np d,
  invoke_loop c s l n = (s', t, o, np, d) -> SCs s t s'.
Proof.
  induction l as [|e l IH]; intros s n s' t o np d H; cbn [invoke_loop] in H.
  - injection H as <- <- <- <- <-. apply SC_nil.
  - destruct (emsg e) eqn:Ee.
    + destruct (invoke_msg c s e) as [[s1 t1] o1] eqn:E1. apply invoke_msg_SC in E1. destruct o1.
      * destruct (invoke_loop c s1 l (S n)) as [[[[s2 t2] o2] np2] d2] eqn:E2. injection H as <- <- <- <- <-.
        eapply SC_trans; [exact E1|eapply IH; exact E2].
      * injection H as <- <- <- <- <-. exact E1.
    + assert (Hd : exists s1 t1 o1 np1 sk1,
          (if graceful then drain c s l (S n) [] else (s, [], Normal, S n, [])) = (s1, t1, o1, np1, sk1) /\ SCs s t1 s1).
      { destruct graceful.
        - destruct (drain c s l (S n) []) as [[[[s1 t1] o1] np1] sk1] eqn:E1. exists s1, t1, o1, np1, sk1.
          split; [reflexivity|]. eapply drain_SC; exact E1.
        - exists s, [], Normal, (S n), []. split; [reflexivity|apply SC_nil]. }
      destruct Hd as (s1 & t1 & o1 & np1 & sk1 & Heq & H1). rewrite Heq in H. clear Heq. destruct o1.
      * destruct (cleanup c s1 (Some k)) as [[s2 t2] o2] eqn:E2.
        pose proof (cleanup_safe _ _ _ _ _ _ Hs E2) as ->. apply cleanup_SC in E2.
        injection H as <- <- <- <- <-. eapply SC_trans; [exact H1|]. eapply SC_trans; [exact E2|].
        apply SC_plain, discard_rest_plain.
      * injection H as <- <- <- <- <-. exact H1.
Qed.

Lemma start_end_SC s3 : SCs s3 (snd (start_end s3)) (fst (start_end s3)).
Proof. unfold start_end. destruct (dead s3); cbn [fst snd]; [apply SC_nil|]. apply SC_plain1. exact I. Qed.

Theorem safe_SC c (Hs : stopped_safe c) :
  (forall s msgs s' t, Invoke_s c s msgs s' t -> SCs s t s') /\
  (forall s s' t, Start_s c s s' t -> SCs s t s') /\
  (forall s b s' t, Restart_s c s b s' t -> SCs s t s').
Proof.
  apply safe_mutind; unfold SCs.
  - intros s msgs s' t np d El. eapply invoke_loop_SC; eassumption.
  - intros s msgs s1 t1 b np d s' t2 El _ IH. eapply SC_trans; [eapply invoke_loop_SC; eassumption|exact IH].
  - intros s si ti b s' t' Ei _ IH. apply recv_SC in Ei. change (Produce (S (inc s)) :: ti ++ t') with ([Produce (S (inc s))] ++ ti ++ t').
    eapply SC_trans; [apply SC_plain1; exact I|]. eapply SC_trans; [exact Ei|exact IH].
  - intros s si ti s2 ts b s' t' Ei Es _ IH. apply recv_SC in Ei. apply recv_SC in Es.
    change (Produce (S (inc s)) :: ti ++ EvInitialized :: ts ++ t') with ([Produce (S (inc s))] ++ ti ++ [EvInitialized] ++ ts ++ t').
    eapply SC_trans; [apply SC_plain1; exact I|]. eapply SC_trans; [exact Ei|]. eapply SC_trans; [apply SC_plain1; exact I|].
    eapply SC_trans; [exact Es|exact IH].
  - intros s si ti s2 ts Ei Es Hb. apply recv_SC in Ei. apply recv_SC in Es.
    change (Produce (S (inc s)) :: ti ++ EvInitialized :: ts ++ EvStarted :: snd (start_end s2))
      with ([Produce (S (inc s))] ++ ti ++ [EvInitialized] ++ ts ++ [EvStarted] ++ snd (start_end s2)).
    eapply SC_trans; [apply SC_plain1; exact I|]. eapply SC_trans; [exact Ei|]. eapply SC_trans; [apply SC_plain1; exact I|].
    eapply SC_trans; [exact Es|]. eapply SC_trans; [apply SC_plain1; exact I|apply start_end_SC].
  - intros s si ti s2 ts s3 t3 Ei Es Hb _ IH. apply recv_SC in Ei. apply recv_SC in Es.
    change (Produce (S (inc s)) :: ti ++ EvInitialized :: ts ++ EvStarted :: t3 ++ snd (start_end (upd_mbuf s3 [])))
      with ([Produce (S (inc s))] ++ ti ++ [EvInitialized] ++ ts ++ [EvStarted] ++ t3 ++ snd (start_end (upd_mbuf s3 []))).
    eapply SC_trans; [apply SC_plain1; exact I|]. eapply SC_trans; [exact Ei|]. eapply SC_trans; [apply SC_plain1; exact I|].
    eapply SC_trans; [exact Es|]. eapply SC_trans; [apply SC_plain1; exact I|]. eapply SC_trans; [exact IH|].
    apply (start_end_SC (upd_mbuf s3 [])).
  - intros s s1 t1 s' t' E1 _ IH. apply recv_SC in E1. change (t1 ++ Sleep :: t') with (t1 ++ [Sleep] ++ t').
    eapply SC_trans; [exact E1|]. eapply SC_trans; [apply SC_plain1; exact I|exact IH].
  - intros s s1 t1 Hmax E1. apply cleanup_SC in E1. change (EvMaxRestarts :: t1 ++ flat_map discard (mbuf s1)) with ([EvMaxRestarts] ++ t1 ++ flat_map discard (mbuf s1)).
    eapply SC_trans; [apply SC_plain1; exact I|]. eapply SC_trans; [exact E1|]. apply SC_plain, flat_discard_plain.
  - intros s s1 t1 s' t3 Hne E1 _ IH. apply recv_SC in E1.
    change (t1 ++ EvRestarted (S (restarts s1)) :: Sleep :: t3) with (t1 ++ [EvRestarted (S (restarts s1))] ++ [Sleep] ++ t3).
    eapply SC_trans; [exact E1|]. eapply SC_trans; [apply SC_plain1; exact I|]. eapply SC_trans; [apply SC_plain1; exact I|exact IH].
Qed.
End SCx.

(* ------------------------------------------------------------------ *)
(** * C01/C05: conservation of user messages, counted per payload *)

Definition hand (n : nat) (p : apc) : nat :=      (* a sender between its lookup and its push holds the message *)
  match p with SPush m _ => kx (inl n) (User m) | _ => 0 end.
Definition asum (n : nat) (l : list apc) : nat := list_sum (map (hand n) l).

Lemma asum_app n a b : asum n (a ++ b) = asum n a + asum n b.
Proof. unfold asum. rewrite map_app, list_sum_app. reflexivity. Qed.
Lemma asum_cons n p r : asum n (p :: r) = hand n p + asum n r.
Proof. reflexivity. Qed.
Lemma asum_set n l i p p' extra : nth_error l i = Some p ->
  asum n (set_thr_list l i p' extra) + hand n p = asum n l + hand n p' + asum n extra.
Proof.
  intros H.
  assert (E : asum n l = asum n (firstn i l) + (hand n p + asum n (skipn (S i) l))).
  { rewrite (nth_split l i p H) at 1. rewrite asum_app, asum_cons. reflexivity. }
  unfold set_thr_list. rewrite asum_app, asum_cons, asum_app, E. lia.
Qed.
Lemma asum_wload n extra : Forall (fun q => q = WLoad) extra -> asum n extra = 0.
Proof. induction 1 as [|q l -> _ IH]; [reflexivity|]. unfold asum in *. cbn. exact IH. Qed.

Section UCount.
Variable n : nat.
Let x : key := inl n.

(* what the remaining micro-operations of a call will still log as born / as out, plus the
   user envelopes they will still push *)
Definition xb1 (op : mop) : nat := match op with MSilent e => ev_born x e | _ => 0 end.
Definition xo1 (op : mop) : nat :=
  match op with MSilent e => ev_out x e | MRecvB _ _ m _ => lu x m | MPush e => ku x e | _ => 0 end.
Definition xb (ops : list mop) : nat := list_sum (map xb1 ops).
Definition xo (ops : list mop) : nat := list_sum (map xo1 ops).

Lemma xb_app a b : xb (a ++ b) = xb a + xb b. Proof. unfold xb. rewrite map_app, list_sum_app. reflexivity. Qed.
Lemma xo_app a b : xo (a ++ b) = xo a + xo b. Proof. unfold xo. rewrite map_app, list_sum_app. reflexivity. Qed.
Lemma xb_cons op r : xb (op :: r) = xb1 op + xb r. Proof. reflexivity. Qed.
Lemma xo_cons op r : xo (op :: r) = xo1 op + xo r. Proof. reflexivity. Qed.

Lemma compile1_cnt e : xb (compile1 e) + nkp x (acc [e]) = ev_born x e /\ xo (compile1 e) = ev_out x e + nku x (acc [e]).
Proof.
  destruct e as [ |i mw m sd| | | | | |p| | | | | |en| | | ]; cbn [compile1 acc flat_map app]; try (split; reflexivity).
  - destruct p; split; reflexivity.
  - unfold nkp, nku. destruct (emsg en) eqn:E; unfold xb, xo, list_sum; cbn [map fold_right xb1 xo1 ev_born ev_out]; split; lia.
  - unfold xb, xo, nkp, nku, list_sum; cbn [map fold_right xb1 xo1 ev_born ev_out]; split; lia.
Qed.

Lemma compile_cnt : forall t, xb (compile t) + nkp x (acc t) = nb x t /\ xo (compile t) = no x t + nku x (acc t).
Proof.
  induction t as [|e t [IH1 IH2]]; [split; reflexivity|].
  change (e :: t) with ([e] ++ t). rewrite compile_app, acc_app, xb_app, xo_app, nkp_app, nku_app, nb_app, no_app.
  assert (Ec : compile [e] = compile1 e) by (cbn; apply app_nil_r). rewrite Ec.
  assert (Enb : nb x [e] = ev_born x e) by (unfold nb; cbn; lia).
  assert (Eno : no x [e] = ev_out x e) by (unfold no; cbn; lia).
  destruct (compile1_cnt e) as [H1 H2]. lia.
Qed.

Lemma acc_cons1 e l : acc (e :: l) = acc [e] ++ acc l.
Proof. change (e :: l) with ([e] ++ l). apply acc_app. Qed.

Lemma strip_cnt : forall t a k, nb x (strip t a k) = nb x t /\ acc (strip t a k) = acc t.
Proof.
  induction t as [|e t IH]; intros a k; [split; reflexivity|].
  destruct k as [|k]; destruct e as [ | | | | | | |[]| | | | | | | | | ]; cbn [strip];
    match goal with |- context [strip t ?a1 ?k1] => destruct (IH a1 k1) as [H1 H2] end;
    rewrite ?nb_cons, ?(acc_cons1 _ (strip t _ _)), ?(acc_cons1 _ t), ?H1, ?H2; split; reflexivity.
Qed.
End UCount.

Section UCount2.
Variable n : nat.
Let x : key := inl n.

Lemma settle_cnt : forall ops,
  xb n ops = nb x (fst (silent_prefix ops)) + xb n (settle_ops ops) /\
  xo n ops = no x (fst (silent_prefix ops)) + xo n (settle_ops ops).
Proof.
  induction ops as [|op r [IH1 IH2]]; [split; reflexivity|].
  destruct op; try (split; reflexivity).
  rewrite silent_prefix_cons, settle_ops_cons_silent. cbn [fst]. rewrite nb_cons, no_cons, xb_cons, xo_cons. cbn [xb1 xo1].
  fold x. split; lia.
Qed.

Section CallCnt.
Variable c : cfg.
Hypothesis Hs : stopped_safe c.

Lemma call_cnt_invoke f s b ps' t o :
  invoke f c s b = (ps', t, o) -> out_of_fuel t = false -> queue s = [] ->
  xo n (compile (strip t 0 0)) = xb n (compile (strip t 0 0)) + nk x b.
Proof.
  intros H Hf Hq. destruct (proj1 (safe_sound c Hs f) _ _ _ _ _ H Hf) as [_ Hi].
  pose proof (proj1 (safe_cnt x c Hs) _ _ _ _ Hi) as Hc. rewrite Hq, nk_nil in Hc.
  destruct (proj1 (safe_SC x c Hs) _ _ _ _ Hi) as [_ Hsc]. unfold SCs in *. rewrite Hq in Hsc. cbn [length] in Hsc. rewrite nk_nil in Hsc.
  destruct (compile_cnt n (strip t 0 0)) as [C1 C2]. destruct (strip_cnt n t 0 0) as [S1 S2]. fold x in C1, C2, S1.
  rewrite S1, S2 in C1. rewrite S2 in C2. pose proof (nk_split x (acc t)). lia.
Qed.

Lemma call_cnt_start f s ps' t o :
  start f c s = (ps', t, o) -> out_of_fuel t = false -> queue s = [] -> mbuf s = [] ->
  xo n (compile (strip t 0 0)) = xb n (compile (strip t 0 0)).
Proof.
  intros H Hf Hq Hm. destruct (proj1 (proj2 (safe_sound c Hs f)) _ _ _ _ H Hf) as [_ Hi].
  pose proof (proj1 (proj2 (safe_cnt x c Hs)) _ _ _ Hi) as Hc. rewrite Hq, Hm, nk_nil in Hc.
  destruct (proj1 (proj2 (safe_SC x c Hs)) _ _ _ Hi) as [_ Hsc]. unfold SCs in *. rewrite Hq in Hsc. cbn [length] in Hsc. rewrite nk_nil in Hsc.
  destruct (compile_cnt n (strip t 0 0)) as [C1 C2]. destruct (strip_cnt n t 0 0) as [S1 S2]. fold x in C1, C2, S1.
  rewrite S1, S2 in C1. rewrite S2 in C2. pose proof (nk_split x (acc t)). lia.
Qed.
End CallCnt.

Lemma elog_add s o evs : elog (add_log s o evs) = elog s ++ evs.
Proof. unfold elog, add_log. cbn [a_log]. rewrite map_app, map_map. cbn [snd]. rewrite map_id. reflexivity. Qed.

Ltac cnt1 := rewrite ?xb_cons, ?xo_cons, ?nb_cons, ?no_cons, ?nb_nil, ?no_nil; cbn [xb1 xo1 ev_born ev_out]; try subst x.

(* one micro-operation: what it logs, and the ring *)
Lemma op_effect_cnt c s op rest s1 rest' extra l :
  op_effect c s op rest = Some (s1, rest', extra, l) ->
  exists evs, elog s1 = elog s ++ evs /\ a_thr s1 = a_thr s /\ Forall (fun q => q = WLoad) extra /\
    nb x evs + xb n rest' + nk x (a_ring s) + xo n (op :: rest) = xb n (op :: rest) + no x evs + nk x (a_ring s1) + xo n rest'.
Proof.
  assert (Hk : forall rest0, (let '(s2, extra0, l0) := akick_status s in Some (s2, rest0, extra0, l0)) = Some (s1, rest', extra, l) ->
            rest' = rest0 /\ elog s1 = elog s /\ a_thr s1 = a_thr s /\ a_ring s1 = a_ring s /\ Forall (fun q => q = WLoad) extra).
  { intros rest0 H. destruct (akick_status s) as [[s2 ex] l2] eqn:E. injection H as <- <- <- <-.
    destruct (akick_ext _ _ _ _ E) as (E1 & E2 & _ & _ & E5 & _ & _ & E8). unfold elog. rewrite E1.
    repeat split; try assumption. destruct E8 as [[_ ->]|[(_ & _ & ->)|(_ & _ & ->)]]; repeat constructor. }
  destruct op; cbn [op_effect]; try discriminate.
  - intros [= <- <- <- <-]. eexists. rewrite elog_add. split; [reflexivity|]. split; [reflexivity|]. split; [constructor|].
    cnt1. cbn [a_ring add_log]. destruct m; cbn [lu]; lia.
  - intros [= <- <- <- <-]. exists []. rewrite app_nil_r. repeat split; try constructor. cnt1. lia.
  - intros [= <- <- <- <-]. exists []. rewrite app_nil_r. repeat split; try constructor. cnt1. lia.
  - intros [= <- <- <- <-]. eexists. rewrite elog_add. split; [reflexivity|]. split; [reflexivity|]. split; [constructor|].
    cbn [a_ring add_log push_ring]. rewrite nk_app, nk_cons, nk_nil. cnt1. pose proof (kx_split (inl n) e). lia.
  - intros H. destruct (Hk _ H) as (-> & E1 & E2 & E3 & E4). exists []. rewrite app_nil_r, E3. repeat split; try assumption.
    cnt1. lia.
  - intros [= <- <- <- <-]. eexists. rewrite elog_add. split; [reflexivity|]. split; [reflexivity|]. split; [constructor|].
    cnt1. cbn [a_ring add_log with_status]. lia.
  - intros [= <- <- <- <-]. eexists. rewrite elog_add. split; [reflexivity|]. split; [reflexivity|]. split; [constructor|].
    cnt1. cbn [a_ring add_log with_reg]. lia.
  - destruct (a_ring s) as [|e0 q0] eqn:Eq; intros [= <- <- <- <-].
    + exists []. rewrite app_nil_r. cbn [a_ring with_fl]. rewrite Eq. repeat split; try constructor. cnt1. lia.
    + eexists. rewrite elog_add. split; [reflexivity|]. split; [reflexivity|]. split; [constructor|].
      cbn [a_ring add_log with_ring]. destruct (flat_discard_cnt x (firstn (batch (a_cfg c)) (e0 :: q0))) as [-> ->].
      rewrite (nk_firstn_skipn x (batch (a_cfg c)) (e0 :: q0)). cnt1. lia.
  - destruct (status_eqb (a_status s) Stopped); intros [= <- <- <- <-]; eexists; rewrite elog_add; (split; [reflexivity|]); (split; [reflexivity|]); (split; [constructor|]).
    + cnt1. cbn [a_ring add_log with_status]. lia.
    + cnt1. cbn [a_ring add_log]. destruct rest as [|[] [|[] r]]; cbn [drop_start]; cnt1; lia.
  - intros [= <- <- <- <-]. exists []. rewrite app_nil_r. repeat split; try constructor. cnt1. cbn [a_ring with_status]. lia.
  - intros H. destruct (Hk _ H) as (-> & E1 & E2 & E3 & E4). exists []. rewrite app_nil_r, E3. repeat split; try assumption.
    cnt1. lia.
Qed.
End UCount2.

(* ** a step outside process code, counted *)
Lemma astep_ext_cnt c s i s' l p :
  astep c s i = Some (s', l) -> nth_error (a_thr s) i = Some p ->
  is_prun p = false -> p <> PAdd -> (p = WPop -> a_ring s = []) ->
  exists p' extra evs, a_thr s' = set_thr_list (a_thr s) i p' extra /\ Forall (fun q => q = WLoad) extra /\ is_prun p' = false /\
    elog s' = elog s ++ evs /\
    forall n, nb (inl n) evs + nk (inl n) (a_ring s) + hand n p = no (inl n) evs + nk (inl n) (a_ring s') + hand n p'.
Proof.
  unfold astep. intros H Hn Hp1 Hp2 Hp3. rewrite Hn in H.
  assert (Hk : forall p', is_prun p' = false -> (forall n, hand n p = hand n p') ->
            (let '(s1, extra, l) := akick_status s in Some (with_thr s1 i p' extra, l)) = Some (s', l) ->
            exists p'0 extra evs, a_thr s' = set_thr_list (a_thr s) i p'0 extra /\ Forall (fun q => q = WLoad) extra /\ is_prun p'0 = false /\
              elog s' = elog s ++ evs /\
              forall n, nb (inl n) evs + nk (inl n) (a_ring s) + hand n p = no (inl n) evs + nk (inl n) (a_ring s') + hand n p'0).
  { intros p' Hp' Hh Hkk. destruct (akick_status s) as [[s1 extra] l1] eqn:E. injection Hkk as <- <-.
    destruct (akick_ext _ _ _ _ E) as (E1 & E2 & _ & _ & E5 & _ & _ & E8).
    exists p', extra, []. cbn [a_thr a_ring with_thr]. unfold elog. cbn [a_log with_thr]. rewrite E1, E2, E5, app_nil_r.
    repeat split; try assumption.
    - destruct E8 as [[_ ->]|[(_ & _ & ->)|(_ & _ & ->)]]; repeat constructor.
    - intros n. rewrite (Hh n), nb_nil, no_nil. lia. }
  assert (Hl : forall s1 p' evs, a_thr s1 = a_thr s -> elog s1 = elog s ++ evs -> is_prun p' = false ->
            (forall n, nb (inl n) evs + nk (inl n) (a_ring s) + hand n p = no (inl n) evs + nk (inl n) (a_ring s1) + hand n p') ->
            exists p'0 extra evs0, a_thr (with_thr s1 i p' []) = set_thr_list (a_thr s) i p'0 extra /\ Forall (fun q => q = WLoad) extra /\ is_prun p'0 = false /\
              elog (with_thr s1 i p' []) = elog s ++ evs0 /\
              forall n, nb (inl n) evs0 + nk (inl n) (a_ring s) + hand n p = no (inl n) evs0 + nk (inl n) (a_ring (with_thr s1 i p' [])) + hand n p'0).
  { intros s1 p' evs E1 E2 Hp' Hc. exists p', [], evs. cbn [a_thr a_ring with_thr]. rewrite E1.
    repeat split; try assumption; try constructor. }
  Ltac ext0 := match goal with Hl : forall s1 p' evs, _ |- _ => apply (Hl _ _ []); try reflexivity; try (unfold elog; cbn; rewrite app_nil_r; reflexivity);
    try (intros n; cbn [a_ring hand]; rewrite nb_nil, no_nil; lia) end.
  destruct p as [ |k ops esc|m ms|m ms|ms|g k|g k|g k|k|k| | | | | | ]; cbn [astep_pc] in H; try discriminate H; try congruence; try discriminate Hp1.
  - (* SLook *)
    destruct (a_reg s); injection H as <- <-.
    + apply (Hl _ _ [Sent m]); try reflexivity; try (rewrite elog_add; reflexivity);
        try (intros n; cbn [a_ring add_log hand]; rewrite nb_cons, no_cons, nb_nil, no_nil; cbn [ev_born ev_out]; lia).
    + apply (Hl _ _ [Sent m; EvDeadLetter (User m)]); try reflexivity; try (rewrite elog_add; reflexivity); try (destruct ms; reflexivity);
        try (intros n; cbn [a_ring add_log hand]; rewrite !nb_cons, !no_cons, nb_nil, no_nil; cbn [ev_born ev_out];
             destruct ms; cbn [next_send hand]; lia).
  - (* SPush *)
    injection H as <- <-. apply (Hl _ _ [Enq (uenv1 m)]); try reflexivity; try (rewrite elog_add; reflexivity);
      try (intros n; cbn [a_ring add_log push_ring hand]; rewrite nk_app, nk_cons, nk_nil, nb_cons, no_cons, nb_nil, no_nil;
           cbn [ev_born ev_out]; unfold uenv1, kp; cbn [emsg]; lia).
  - apply (Hk (next_send ms)); [destruct ms; reflexivity|intros n; destruct ms; reflexivity|exact H].
  - destruct (a_reg s); injection H as <- <-.
    + ext0.
    + apply (Hl _ _ [EvDeadLetter (Pill g k); Cancel k]); try reflexivity; try (rewrite elog_add; reflexivity);
        try (intros n; cbn [a_ring add_log hand]; rewrite !nb_cons, !no_cons, nb_nil, no_nil; cbn [ev_born ev_out kx]; lia).
  - destruct (a_reg s); injection H as <- <-.
    + ext0.
    + apply (Hl _ _ [EvDeadLetter (Pill g k)]); try reflexivity; try (rewrite elog_add; reflexivity);
        try (intros n; cbn [a_ring add_log hand]; rewrite !nb_cons, !no_cons, nb_nil, no_nil; cbn [ev_born ev_out kx]; lia).
  - injection H as <- <-. apply (Hl _ _ [Enq (penv g k)]); try reflexivity; try (rewrite elog_add; reflexivity);
      try (intros n; cbn [a_ring add_log push_ring hand]; rewrite nk_app, nk_cons, nk_nil, nb_cons, no_cons, nb_nil, no_nil;
           cbn [ev_born ev_out]; unfold kp, penv; cbn [emsg kx]; lia).
  - apply (Hk (QLook3 k)); [reflexivity|intros n; reflexivity|exact H].
  - destruct (a_reg s); injection H as <- <-.
    + ext0.
    + apply (Hl _ _ [Cancel k]); try reflexivity; try (rewrite elog_add; reflexivity);
        try (intros n; cbn [a_ring add_log hand]; rewrite !nb_cons, !no_cons, nb_nil, no_nil; cbn [ev_born ev_out kx]; lia).
  - destruct (status_eqb (a_status s) Stopped); injection H as <- <-; ext0.
  - rewrite (Hp3 eq_refl) in H. injection H as <- <-. ext0.
  - destruct (status_eqb (a_status s) Running); injection H as <- <-.
    + exists WLen, [], []. cbn [a_thr a_ring with_thr with_status]. unfold elog. cbn [a_log with_thr with_status]. rewrite app_nil_r.
      repeat split; try constructor; try (intros n; cbn [hand]; rewrite nb_nil, no_nil; lia).
    + ext0.
  - destruct (a_ring s) eqn:Eq; injection H as <- <-; ext0; intros n; cbn [hand]; rewrite Eq, nb_nil, no_nil; lia.
  - apply (Hk Done); [reflexivity|intros n; reflexivity|exact H].
Qed.

Lemma elog_park s i k ops esc extra : elog (park s i k ops esc extra) = elog s ++ fst (silent_prefix ops).
Proof. unfold elog. rewrite park_log, map_app, map_map. cbn [snd]. rewrite map_id. reflexivity. Qed.

Lemma hand_park_pc n k r esc : hand n (park_pc k r esc) = 0.
Proof. unfold park_pc. destruct r; [destruct esc; [|destruct k]|]; reflexivity. Qed.

Lemma cur_cnt_after n k r esc :
  match ops_of (park_pc k r esc) with Some ops => xb n ops | None => 0 end = xb n r /\
  match ops_of (park_pc k r esc) with Some ops => xo n ops | None => 0 end = xo n r.
Proof.
  destruct r as [|op r'].
  - unfold park_pc. destruct esc; [split; reflexivity|]. destruct k; split; reflexivity.
  - unfold park_pc, ops_of, inrun. destruct k; cbn [holds]; [|split; reflexivity].
    destruct (kick_only (op :: r')) eqn:Ek; cbn [negb]; [|split; reflexivity].
    destruct op; try discriminate Ek. destruct r'; [|discriminate Ek]. split; reflexivity.
Qed.

Section GCount.
Variable c : acfg.
Hypothesis Hs : stopped_safe (a_cfg c).
Variable n : nat.

Definition curb (s : ast) : nat := match cur_ops (a_thr s) with Some ops => xb n ops | None => 0 end.
Definition curo (s : ast) : nat := match cur_ops (a_thr s) with Some ops => xo n ops | None => 0 end.

(* sent = delivered + dead letters + in the ring + held by the call in progress + in a sender's hand *)
Definition GC (s : ast) : Prop :=
  nb (inl n) (elog s) + curb s = no (inl n) (elog s) + nk (inl n) (a_ring s) + curo s + asum n (a_thr s).

Lemma GC_call s s1 i k ps' t o b :
  AI s -> GC s -> nth_error (a_thr s) i = Some (match k with KSpawn => PAdd | KWork => WPop end) ->
  a_thr s1 = a_thr s -> elog s1 = elog s -> nk (inl n) (a_ring s) = nk (inl n) b + nk (inl n) (a_ring s1) ->
  xo n (compile (strip t 0 0)) = xb n (compile (strip t 0 0)) + nk (inl n) b ->
  GC (begin_call s1 i k (ps', t, o)).
Proof.
  intros HA HG Hn E1 E2 E3 Hc. unfold GC, curb, curo in *.
  assert (Hhold : holds (match k with KSpawn => PAdd | KWork => WPop end) = true) by (destruct k; reflexivity).
  destruct (cur_ops_set_holder (a_thr s) i _ (park_pc k (settle_ops (compile (strip t 0 0))) (is_panicking o)) []
              (AI_mutex _ HA) Hn Hhold ltac:(constructor)) as [Ec1 Ec0].
  rewrite Ec0 in HG. assert (Eo : ops_of (match k with KSpawn => PAdd | KWork => WPop end) = None) by (destruct k; reflexivity).
  rewrite Eo in HG.
  rewrite begin_call_thr, begin_call_ring, E1, Ec1. rewrite <- begin_call_eq, elog_park.
  assert (El : elog (with_ps (if out_of_fuel t then with_oof s1 true else s1) ps') = elog s) by (destruct (out_of_fuel t); exact E2).
  rewrite El, nb_app, no_app.
  destruct (cur_cnt_after n k (settle_ops (compile (strip t 0 0))) (is_panicking o)) as [-> ->].
  destruct (settle_cnt n (compile (strip t 0 0))) as [S1 S2].
  pose proof (asum_set n (a_thr s) i _ (park_pc k (settle_ops (compile (strip t 0 0))) (is_panicking o)) [] Hn) as Ha.
  rewrite hand_park_pc in Ha. assert (hand n (match k with KSpawn => PAdd | KWork => WPop end) = 0) as Hh by (destruct k; reflexivity).
  rewrite Hh in Ha. change (asum n []) with 0 in Ha. lia.
Qed.

Theorem GC_step s i s' l : AI s -> GC s -> astep c s i = Some (s', l) -> a_oof s' = false -> GC s'.
Proof.
  intros HA HG H Hoof. pose proof (AI_mutex _ HA) as Hmx. pose proof H as H0.
  unfold astep in H. destruct (nth_error (a_thr s) i) as [p|] eqn:Hn; [|discriminate].
  assert (Hext : is_prun p = false -> p <> PAdd -> (p = WPop -> a_ring s = []) -> GC s').
  { intros Hp1 Hp2 Hp3. destruct (astep_ext_cnt _ _ _ _ _ _ H0 Hn Hp1 Hp2 Hp3) as (p' & extra & evs & Et & Hex & Hp' & El & Hc).
    unfold GC, curb, curo in *. rewrite Et, El, nb_app, no_app.
    rewrite (cur_ops_set_other (a_thr s) i p p' extra Hn (inrun_false_of_prun _ Hp1) (inrun_false_of_prun _ Hp'));
      [|eapply Forall_impl; [|exact Hex]; intros q ->; reflexivity].
    pose proof (asum_set n (a_thr s) i p p' extra Hn) as Ha. rewrite (asum_wload n extra Hex) in Ha. specialize (Hc n). lia. }
  destruct p as [ |k ops esc|m ms|m ms|ms|g k|g k|g k|k|k| | | | | | ];
    try (apply Hext; [reflexivity|discriminate|discriminate]).
  - (* Spawn *)
    cbn [astep_pc] in H. cbv zeta in H. destruct (start _ _ _) as [[ps' t] o] eqn:E. injection H as <- <-. rewrite !begin_call_eq in *.
    rewrite begin_call_oof in Hoof. apply orb_false_iff in Hoof as [_ Hf].
    destruct (AI_nth _ _ _ HA Hn) as [(-> & cl & Hthr & Hp)|(j & _ & [])]. cbn [P0] in Hp. destruct Hp as (_ & _ & Hmb & _).
    eapply (GC_call s (with_reg s true) 0 KSpawn ps' t o []); try eassumption; try reflexivity.
    rewrite (call_cnt_start n _ Hs _ _ _ _ _ E Hf eq_refl Hmb), nk_nil. lia.
  - (* a micro-operation *)
    cbn [astep_pc] in H. destruct ops as [|op rest]; [discriminate|].
    destruct (op_effect c s op rest) as [[[[s1 rest'] extra] l1]|] eqn:He; [|discriminate]. injection H as <- <-.
    destruct (op_effect_cnt n _ _ _ _ _ _ _ _ He) as (evs & El & Et & Hex & Hc).
    assert (Hex' : Forall (fun q => inrun q = false) extra) by (eapply Forall_impl; [|exact Hex]; intros q ->; reflexivity).
    pose proof (asum_set n (a_thr s) i _ (park_pc k (settle_ops rest') esc) extra Hn) as Ha.
    rewrite hand_park_pc, (asum_wload n extra Hex) in Ha. cbn [hand] in Ha.
    destruct (settle_cnt n rest') as [S1 S2].
    unfold GC, curb, curo in *. rewrite park_thr, park_ring, elog_park, Et, El, !nb_app, !no_app.
    destruct (holds (PRun k (op :: rest) esc)) eqn:Hh.
    + destruct (cur_ops_set_holder (a_thr s) i _ (park_pc k (settle_ops rest') esc) extra Hmx Hn Hh Hex') as [-> Ec0].
      rewrite Ec0 in HG. unfold ops_of, inrun in HG. rewrite Hh in HG.
      destruct (cur_cnt_after n k (settle_ops rest') esc) as [-> ->]. lia.
    + assert (E : k = KSpawn /\ op = MStartKick /\ rest = []).
      { destruct k; cbn in Hh; [|discriminate]. destruct op; try discriminate Hh. destruct rest; [|discriminate Hh]. repeat split. }
      destruct E as (-> & -> & ->).
      assert (rest' = []) by (cbn in He; destruct (akick_status s) as [[? ?] ?]; injection He as _ <- _ _; reflexivity). subst rest'.
      rewrite (cur_ops_set_other (a_thr s) i _ _ extra Hn); [|cbn; exact Hh|destruct esc; reflexivity|exact Hex'].
      change (xb n []) with 0 in *. change (xo n []) with 0 in *. change (xb n [MStartKick]) with 0 in *. change (xo n [MStartKick]) with 0 in *.
      cbn [silent_prefix fst]. rewrite ?nb_nil, ?no_nil. lia.
  - (* WPop *)
    destruct (a_ring s) as [|e0 q0] eqn:Eq; [apply Hext; [reflexivity|discriminate|intros _; reflexivity]|].
    cbn [astep_pc] in H. rewrite Eq in H. cbv zeta in H. destruct (invoke _ _ _ _) as [[ps' t] o] eqn:E. injection H as <- <-. rewrite !begin_call_eq in *.
    rewrite begin_call_oof in Hoof. apply orb_false_iff in Hoof as [_ Hf].
    eapply (GC_call s _ i KWork ps' t o (firstn (batch (a_cfg c)) (e0 :: q0))); try eassumption; try reflexivity.
    + cbn [a_ring with_ring]. rewrite Eq. apply nk_firstn_skipn.
    + apply (call_cnt_invoke n _ Hs _ _ _ _ _ _ E Hf eq_refl).
Qed.
End GCount.

Lemma clients_not_prun senders poisoners : Forall (fun q => is_prun q = false /\ forall n, hand n q = 0) (client_threads senders poisoners).
Proof.
  unfold client_threads. apply Forall_app. split.
  - induction senders as [|ms l IH]; [constructor|]. cbn [map]. constructor; [destruct ms; split; reflexivity|exact IH].
  - assert (G : forall k, Forall (fun q => is_prun q = false /\ forall n, hand n q = 0) (poisoner_threads poisoners k)).
    { induction poisoners as [|g l IH]; intros k; [constructor|]. cbn [poisoner_threads].
      constructor; [split; reflexivity|apply IH]. }
    apply G.
Qed.

Lemma GC_init n senders poisoners : GC n (ainit senders poisoners).
Proof.
  unfold GC, curb, curo. cbn [ainit a_thr a_ring a_log elog map].
  pose proof (clients_not_prun senders poisoners) as Hc.
  assert (E1 : cur_ops (PAdd :: client_threads senders poisoners) = None).
  { apply cur_ops_none. constructor; [reflexivity|]. eapply Forall_impl; [|exact Hc]. intros q [Hq _]. apply inrun_false_of_prun, Hq. }
  assert (E2 : asum n (PAdd :: client_threads senders poisoners) = 0).
  { rewrite asum_cons. cbn [hand]. clear E1. induction Hc as [|q l [_ Hq] _ IH]; [reflexivity|]. rewrite asum_cons, Hq. exact IH. }
  rewrite E1, E2. reflexivity.
Qed.

Theorem GC_reach c senders poisoners s n :
  stopped_safe (a_cfg c) -> areach c (ainit senders poisoners) s -> a_oof s = false -> GC n s.
Proof.
  intros Hs Hr. induction Hr as [|s i s' l Hr IH H]; intros Ho; [apply GC_init|].
  assert (Ho' : a_oof s = false).
  { destruct (a_oof s) eqn:E; [|reflexivity]. rewrite (astep_oof _ _ _ _ _ H E) in Ho. discriminate Ho. }
  destruct (AM_reach _ _ _ _ Hs Hr Ho') as [HA _]. eapply GC_step; try eassumption. apply IH, Ho'.
Qed.

Lemma nk_user_count n l : nk (inl n) l = count_occ Nat.eq_dec (uenv l) n.
Proof.
  induction l as [|e l IH]; [reflexivity|]. rewrite nk_cons, uenv_cons, count_occ_app, IH. f_equal.
  unfold uenv. cbn [flat_map]. rewrite app_nil_r. destruct (emsg e) as [m|g k]; cbn [kx].
  - cbn [count_occ]. destruct (Nat.eq_dec m n) as [->|Hne]; [rewrite Nat.eqb_refl; reflexivity|].
    destruct (n =? m) eqn:E; [apply Nat.eqb_eq in E; congruence|reflexivity].
  - reflexivity.
Qed.

Lemma quiescent_all_done s : aquiescent s = true -> Forall (fun q => q = Done) (a_thr s).
Proof.
  unfold aquiescent. intros H. rewrite forallb_forall in H. apply Forall_forall. intros q Hq.
  specialize (H q Hq). destruct q; try discriminate H. reflexivity.
Qed.

(** C01/C05 under every schedule: when everything has come to rest, every user
    message sent to the PID — by the client threads and by the actor itself —
    has been delivered, or reported as a dead letter, or is left in the ring
    of the inbox; per payload, with multiplicity. *)
Theorem C01_C05_conservation_all_schedules_thm c senders poisoners s :
  stopped_safe (a_cfg c) -> areach c (ainit senders poisoners) s -> a_oof s = false -> aquiescent s = true ->
  forall n, count_occ Nat.eq_dec (sends_of (elog s)) n =
            count_occ Nat.eq_dec (dlv (elog s)) n + count_occ Nat.eq_dec (ddl (elog s)) n +
            count_occ Nat.eq_dec (uenv (a_ring s)) n.
Proof.
  intros Hs Hr Ho Hq n. pose proof (GC_reach _ _ _ _ n Hs Hr Ho) as HG.
  pose proof (quiescent_all_done _ Hq) as Hd. unfold GC, curb, curo in HG.
  assert (E1 : cur_ops (a_thr s) = None) by (apply cur_ops_none; eapply Forall_impl; [|exact Hd]; intros q ->; reflexivity).
  assert (E2 : asum n (a_thr s) = 0) by (clear -Hd; induction Hd as [|q l -> _ IH]; [reflexivity|]; rewrite asum_cons, IH; reflexivity).
  rewrite E1, E2, nb_user, no_user, nk_user_count in HG. lia.
Qed.

Corollary C01_C05_conservation_perm_thm c senders poisoners s :
  stopped_safe (a_cfg c) -> areach c (ainit senders poisoners) s -> a_oof s = false -> aquiescent s = true ->
  Permutation (sends_of (elog s)) (dlv (elog s) ++ ddl (elog s) ++ uenv (a_ring s)) /\
  (NoDup (sends_of (elog s)) -> NoDup (dlv (elog s))).
Proof.
  intros Hs Hr Ho Hq. pose proof (C01_C05_conservation_all_schedules_thm _ _ _ _ Hs Hr Ho Hq) as H. split.
  - apply (Permutation_count_occ Nat.eq_dec). intros n. rewrite !count_occ_app. rewrite (H n). lia.
  - intros Hnd. apply (NoDup_count_occ Nat.eq_dec). intros n.
    pose proof (proj1 (NoDup_count_occ Nat.eq_dec _) Hnd n). specialize (H n). lia.
Qed.

(* ------------------------------------------------------------------ *)
(** * C03 in the product: no lost wake-up; what is left in the ring at rest *)

Definition is_kick (op : mop) : bool := match op with MKick | MStartKick => true | _ => false end.
(* will still try to schedule a worker *)
Definition pk (p : apc) : bool :=
  match p with
  | SCas _ | QCas _ | WLen | WSched => true
  | PRun _ ops _ => existsb is_kick ops
  | _ => false
  end.

Definition WI (s : ast) : Prop := a_status s = Idle -> a_ring s <> [] -> 1 <= acnt pk (a_thr s).

Lemma astep_ext_pk c s i s' l p :
  astep c s i = Some (s', l) -> nth_error (a_thr s) i = Some p ->
  is_prun p = false -> p <> PAdd -> (p = WPop -> a_ring s = []) ->
  exists p' extra, a_thr s' = set_thr_list (a_thr s) i p' extra /\
    (a_status s' = Idle -> a_ring s' <> [] ->
       pk p' = true \/ (pk p = false /\ a_ring s' = a_ring s /\ a_status s = Idle)).
Proof.
  unfold astep. intros H Hn Hp1 Hp2 Hp3. rewrite Hn in H.
  assert (Hk : forall p', pk p = true ->
            (let '(s1, extra, l) := akick_status s in Some (with_thr s1 i p' extra, l)) = Some (s', l) ->
            exists p'0 extra, a_thr s' = set_thr_list (a_thr s) i p'0 extra /\
              (a_status s' = Idle -> a_ring s' <> [] -> pk p'0 = true \/ (pk p = false /\ a_ring s' = a_ring s /\ a_status s = Idle))).
  { intros p' Hpk Hkk. destruct (akick_cases s) as [[Ei E]|[Ei E]]; rewrite E in Hkk; injection Hkk as <- <-;
      eexists _, _; (split; [reflexivity|]); cbn [a_status with_thr with_status]; intros Hst; congruence. }
  assert (Hl : forall s1 p', a_thr s1 = a_thr s ->
            (a_status s1 = Idle -> a_ring s1 <> [] -> pk p' = true \/ (pk p = false /\ a_ring s1 = a_ring s /\ a_status s = Idle)) ->
            exists p'0 extra, a_thr (with_thr s1 i p' []) = set_thr_list (a_thr s) i p'0 extra /\
              (a_status (with_thr s1 i p' []) = Idle -> a_ring (with_thr s1 i p' []) <> [] ->
               pk p'0 = true \/ (pk p = false /\ a_ring (with_thr s1 i p' []) = a_ring s /\ a_status s = Idle))).
  { intros s1 p' E1 Hc. exists p', []. cbn [a_thr a_status a_ring with_thr]. rewrite E1. split; [reflexivity|exact Hc]. }
  Ltac same := intros; right; repeat split; assumption.
  destruct p as [ |k ops esc|m ms|m ms|ms|g k|g k|g k|k|k| | | | | | ]; cbn [astep_pc] in H; try discriminate H; try congruence; try discriminate Hp1.
  - destruct (a_reg s); injection H as <- <-; apply Hl; try reflexivity; cbn [a_status a_ring add_log]; same.
  - injection H as <- <-. apply Hl; [reflexivity|]. intros; left; reflexivity.
  - apply (Hk (next_send ms)); [reflexivity|exact H].
  - destruct (a_reg s); injection H as <- <-; apply Hl; try reflexivity; cbn [a_status a_ring add_log]; same.
  - destruct (a_reg s); injection H as <- <-; apply Hl; try reflexivity; cbn [a_status a_ring add_log]; same.
  - injection H as <- <-. apply Hl; [reflexivity|]. intros; left; reflexivity.
  - apply (Hk (QLook3 k)); [reflexivity|exact H].
  - destruct (a_reg s); injection H as <- <-; apply Hl; try reflexivity; cbn [a_status a_ring add_log]; same.
  - destruct (status_eqb (a_status s) Stopped); injection H as <- <-; apply Hl; try reflexivity; same.
  - rewrite (Hp3 eq_refl) in H. injection H as <- <-. apply Hl; [reflexivity|]. intros _ Hr. exfalso. apply Hr. apply Hp3. reflexivity.
  - destruct (status_eqb (a_status s) Running); injection H as <- <-.
    + exists WLen, []. cbn [a_thr with_thr with_status]. split; [reflexivity|]. intros; left; reflexivity.
    + apply Hl; try reflexivity; same.
  - destruct (a_ring s) eqn:Eq; injection H as <- <-; apply Hl; try reflexivity.
    + intros _ Hr. exfalso. apply Hr, Eq.
    + intros; left; reflexivity.
  - apply (Hk Done); [reflexivity|exact H].
Qed.

(* while the inbox is idle nobody runs the actor's code *)
Lemma AI_idle_no_holder s i p : AI s -> a_status s = Idle -> nth_error (a_thr s) i = Some p -> holds p = false.
Proof.
  intros HA Hst Hn. destruct (holds p) eqn:Hh; [|reflexivity]. exfalso.
  destruct HA as (p0 & cl & Hthr & Hok & Hp). rewrite Hthr in Hn. rewrite Hst in *.
  assert (Hnh : acnt wholder cl = 0 /\ holds p0 = false).
  { destruct p0 as [ |[] ops esc| | | | | | | | | | | | | | ]; cbn [P0] in Hp; try contradiction; rewrite ?Hst in Hp; cbn [OPn] in Hp.
    - destruct Hp as (? & _). discriminate.
    - destruct Hp as (_ & [(_ & ? & _)|[(_ & ? & _)|(-> & ?)]]); try discriminate. split; [assumption|reflexivity].
    - split; [exact Hp|reflexivity]. }
  destruct Hnh as [Hn0 Hp0]. destruct i as [|j]; cbn in Hn.
  - injection Hn as <-. congruence.
  - pose proof Hn as Hin. apply nth_error_In in Hin. rewrite Forall_forall in Hok. specialize (Hok _ Hin).
    rewrite (thr_ok_holds _ _ Hok) in Hh. pose proof (acnt_pos wholder cl j p Hn Hh). lia.
Qed.

Theorem WI_step c s i s' l : AI s -> WI s -> astep c s i = Some (s', l) -> WI s'.
Proof.
  intros HA HW H Hst Hr. pose proof H as H0.
  unfold astep in H. destruct (nth_error (a_thr s) i) as [p|] eqn:Hn; [|discriminate].
  assert (Hext : is_prun p = false -> p <> PAdd -> (p = WPop -> a_ring s = []) -> 1 <= acnt pk (a_thr s')).
  { intros Hp1 Hp2 Hp3. destruct (astep_ext_pk _ _ _ _ _ _ H0 Hn Hp1 Hp2 Hp3) as (p' & extra & Et & Hc).
    rewrite Et. destruct (Hc Hst Hr) as [Hp'|(Hpn & Er & Es)].
    - eapply acnt_pos; [eapply nth_set_same; exact Hn|exact Hp'].
    - rewrite Er in Hr. specialize (HW Es Hr).
      pose proof (acnt_set pk (a_thr s) i p p' extra Hn) as Ha. rewrite Hpn in Ha. cbn [b2n] in Ha. lia. }
  destruct p as [ |k ops esc|m ms|m ms|ms|g k|g k|g k|k|k| | | | | | ];
    try (apply Hext; [reflexivity|discriminate|discriminate]).
  - (* Spawn: the status is unchanged, and it is not idle *)
    cbn [astep_pc] in H. cbv zeta in H. injection H as <- <-. rewrite begin_call_status in Hst. cbn [a_status with_reg] in Hst.
    pose proof (AI_idle_no_holder _ _ _ HA Hst Hn). discriminate.
  - cbn [astep_pc] in H. destruct ops as [|op rest]; [discriminate|].
    destruct (op_effect c s op rest) as [[[[s1 rest'] extra] l1]|] eqn:He; [|discriminate]. injection H as <- <-.
    rewrite park_status in Hst. rewrite park_thr.
    (* the status word becomes (or stays) idle only through Inbox.Start's Swap or the final kick *)
    destruct op; cbn [op_effect] in He; try discriminate He.
    all: try (injection He as <- <- <- <-; cbn [a_status add_log push_ring with_status with_reg with_fl] in Hst;
              try discriminate Hst; pose proof (AI_idle_no_holder _ _ _ HA Hst Hn) as Hh; cbn [holds] in Hh;
              destruct k; try discriminate Hh; cbn [kick_only] in Hh; discriminate Hh).
    + (* MKick *) destruct (akick_cases s) as [[Ei E]|[Ei E]]; rewrite E in He; injection He as <- <- <- <-; cbn [a_status with_status] in Hst; try discriminate Hst. congruence.
    + (* MFlush *) destruct (a_ring s); injection He as <- <- <- <-; cbn [a_status add_log with_ring with_fl] in Hst;
        pose proof (AI_idle_no_holder _ _ _ HA Hst Hn) as Hh; cbn [holds] in Hh; destruct k; try discriminate Hh; cbn [kick_only] in Hh; discriminate Hh.
    + (* MStartCas *) destruct (status_eqb (a_status s) Stopped) eqn:Es; injection He as <- <- <- <-; cbn [a_status add_log with_status] in Hst; try discriminate Hst.
      pose proof (AI_idle_no_holder _ _ _ HA Hst Hn) as Hh; cbn [holds] in Hh; destruct k; try discriminate Hh; cbn [kick_only] in Hh; discriminate Hh.
    + (* MStartSwap: the kick is still to come *)
      injection He as <- <- <- <-. cbn [a_thr with_status].
      destruct (AI_nth _ _ _ HA Hn) as [(-> & cl & _ & Hp)|(j & -> & Hk)].
      * destruct k; [|contradiction]. destruct Hp as (_ & [(Hsh & _)|[(E & _)|(E & _)]]).
        -- destruct (sp_shape_head _ _ Hsh) as [Hx _]. congruence.
        -- injection E as ->. eapply acnt_pos; [eapply nth_set_same; exact Hn|reflexivity].
        -- discriminate E.
      * destruct k; [contradiction|]. destruct Hk as (_ & Hw & _). discriminate Hw.
    + (* MStartKick *) destruct (akick_cases s) as [[Ei E]|[Ei E]]; rewrite E in He; injection He as <- <- <- <-; cbn [a_status with_status] in Hst; try discriminate Hst. congruence.
  - (* WPop *)
    destruct (a_ring s) as [|e0 q0] eqn:Eq; [apply Hext; [reflexivity|discriminate|intros _; reflexivity]|].
    cbn [astep_pc] in H. rewrite Eq in H. cbv zeta in H. injection H as <- <-. rewrite begin_call_status in Hst. cbn [a_status with_ring] in Hst.
    pose proof (AI_idle_no_holder _ _ _ HA Hst Hn). discriminate.
Qed.

Lemma WI_init senders poisoners : WI (ainit senders poisoners).
Proof. intros H. discriminate H. Qed.

Theorem WI_reach c senders poisoners s :
  stopped_safe (a_cfg c) -> areach c (ainit senders poisoners) s -> a_oof s = false -> WI s.
Proof.
  intros Hs Hr. induction Hr as [|s i s' l Hr IH H]; intros Ho; [apply WI_init|].
  assert (Ho' : a_oof s = false).
  { destruct (a_oof s) eqn:E; [|reflexivity]. rewrite (astep_oof _ _ _ _ _ H E) in Ho. discriminate Ho. }
  destruct (AM_reach _ _ _ _ Hs Hr Ho') as [HA _]. eapply WI_step; try eassumption. apply IH, Ho'.
Qed.

(** No lost wake-up in the product, and where a message can be stranded: when
    everything has come to rest the inbox is idle with an empty ring, or it
    has been stopped — only the ring of a stopped inbox can be left non-empty. *)
Theorem C03_at_rest_idle_and_empty_or_stopped_thm c senders poisoners s :
  stopped_safe (a_cfg c) -> areach c (ainit senders poisoners) s -> a_oof s = false -> aquiescent s = true ->
  (a_status s = Idle /\ a_ring s = []) \/ a_status s = Stopped.
Proof.
  intros Hs Hr Ho Hq. destruct (AM_reach _ _ _ _ Hs Hr Ho) as [HA _]. pose proof (WI_reach _ _ _ _ Hs Hr Ho) as HW.
  pose proof (quiescent_all_done _ Hq) as Hd.
  assert (Hz : forall f, f Done = false -> acnt f (a_thr s) = 0).
  { intros f Hf. apply forall_acnt_zero. eapply Forall_impl; [|exact Hd]. intros q ->. exact Hf. }
  destruct (a_status s) eqn:Est; [right; reflexivity| | |].
  - (* starting: the spawner is between its CAS and its Swap *)
    exfalso. destruct HA as (p0 & cl & Hthr & _ & Hp). rewrite Hthr in Hd. inversion Hd as [|? ? E0 _]; subst.
    cbn [P0] in Hp. rewrite Est in Hp. exact Hp.
  - left. split; [reflexivity|]. destruct (a_ring s) as [|e q] eqn:Eq; [reflexivity|]. exfalso.
    unfold WI in HW. rewrite Eq in HW. specialize (HW Est ltac:(discriminate)). rewrite (Hz pk eq_refl) in HW. lia.
  - (* running: a worker holds the token *)
    exfalso. destruct HA as (p0 & cl & Hthr & _ & Hp). rewrite Hthr in Hd, Hz. inversion Hd as [|? ? E0 Hd']; subst.
    cbn [P0] in Hp. rewrite Est in Hp. cbn [OPn] in Hp.
    specialize (Hz wholder eq_refl). rewrite acnt_cons in Hz. cbn [wholder b2n] in Hz. lia.
Qed.
