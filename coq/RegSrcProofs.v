(** Translation tie of C10: the system built from the terms that tools/regtrans
    generates from the CURRENT actor/registry.go (HVSrc.RegSrc, semantics
    RegSrcSem.v) and the hand-written interleaving model Registry.v (ii)
    simulate each other step by step, with the same labels, for either lookup
    method (get, getByID) — so the theorems of PropsRegistry.v about reachable
    states of that model are theorems about every schedule of the translated
    code.

    NOT part of the main build (coq/_CoqProject): compiled on every run of the
    check C10 against the freshly generated RegSrc.v
    (coqc -Q /verif/coq HV -Q <work> HVSrc).

    The control states of the translated code at which a thread rests between
    two steps (about to call proc.Start(), about to broadcast the duplicate-id
    event, about to take the lock in Remove) are COMPUTED from the generated
    terms ([F_Start], [F_Dup], [F_Rem]); the label of a step that takes the
    mutex is derived by the semantics from what the critical section did to the
    map.  A rewrite of registry.go that keeps, per critical section, the same
    reads / writes / deletes under the same kind of lock re-proves unchanged
    (explicit Unlock instead of defer, get written like getByID, insert inlined
    into add); a check under the read lock followed by a write under the write
    lock, a map access after the unlock, a Broadcast inside the critical
    section make [sim_step] fail. *)
From stdpp Require Import list.
From Coq Require Import String.
From HV Require Import Registry RegistryProofs RegSrcSem.
From HVSrc Require Import RegSrc.
Local Open Scope string_scope.

Definition M : methods := src_methods.

Definition nfd (d : bool) (g : reg) (th : thread) : thread :=
  match norm norm_fuel M "get" d g th with Some (_, th') => th' | None => th end.
Definition dummy (ids : list id) (g : reg) : sst :=
  {| h_ids := ids; h_reg := g; h_won := []; h_started := []; h_stopped := []; h_removed := []; h_dup := [];
     h_gets := []; h_thr := [] |}.
(* from a resting thread: up to the visible operation, through it, and on to the next resting point *)
Definition adv (g : reg) (th : thread) : thread :=
  match visible (dummy [] g) (nfd true g th) with
  | Some (th1, _) => nfd false g th1
  | None => th
  end.

Definition F_Start := Eval vm_compute in
  (fun rest : list cop => frames (adv (fun _ => None) (fresh_thread [FClient (CAdd 0 :: rest)]))).
Definition F_Dup := Eval vm_compute in
  (fun rest : list cop => frames (adv (fun _ => Some 0) (fresh_thread [FClient (CAdd 0 :: rest)]))).
Definition F_Rem := Eval vm_compute in
  (fun rest : list cop => frames (nfd false (fun _ => None) (fresh_thread [FS (CallV "Remove"); FClient rest]))).
Definition F_Idle (prog : list cop) : list frame := match prog with [] => [] | _ => [FClient prog] end.

Section Sim.
Variable G : string.
Hypothesis HG : G = "get" \/ G = "getByID".

Definition R (m : Registry.thread) (th : RegSrcSem.thread) : Prop :=
  held th = None /\
  match m with
  | (MIdle, prog) => frames th = F_Idle prog
  | (MStart p, rest) => frames th = F_Start rest /\ tproc th = Some p
  | (MDup p, rest) => frames th = F_Dup rest /\ tproc th = Some p
  | (MRem p i, rest) => frames th = F_Rem rest /\ tproc th = Some p /\ tkey th = i /\ pend th = false
  end.

Definition Rst (s : cst) (t : sst) : Prop :=
  c_ids s = h_ids t /\ c_reg s = h_reg t /\ c_won s = h_won t /\ c_started s = h_started t /\
  c_stopped s = h_stopped t /\ c_removed s = h_removed t /\ c_dup s = h_dup t /\ c_gets s = h_gets t /\
  Forall2 R (c_thr s) (h_thr t).

Lemma Forall2_lookup_l' {A B} (P : A -> B -> Prop) l1 l2 i a :
  Forall2 P l1 l2 -> l1 !! i = Some a -> exists b, l2 !! i = Some b /\ P a b.
Proof. intros H Ha. destruct (Forall2_lookup_l _ _ _ _ _ H Ha) as [b [? ?]]; eauto. Qed.
Lemma Forall2_lookup_none {A B} (P : A -> B -> Prop) l1 l2 i :
  Forall2 P l1 l2 -> l1 !! i = None -> l2 !! i = None.
Proof.
  intros H Hn. apply lookup_ge_None. apply lookup_ge_None in Hn. rewrite <- (Forall2_length _ _ _ H). exact Hn.
Qed.

Lemma R_idle prog th : frames th = F_Idle prog -> held th = None -> R (MIdle, prog) th.
Proof. intros; split; assumption. Qed.

Ltac fin_rst := repeat split; cbn; try congruence; try reflexivity.

Ltac close Hthr :=
  eexists; split; [reflexivity|]; fin_rst; apply Forall2_insert; [exact Hthr|]; split; cbn; auto.
Ltac drest rest := destruct rest as [|[?|?|?] ?].

Theorem sim_step s t i :
  Rst s t ->
  match cstep s i with
  | Some (s', l) => exists t', src_step M G t i = Some (t', l) /\ Rst s' t'
  | None => src_step M G t i = None
  end.
Proof.
  intros (Hids & Hreg & Hwon & Hsta & Hsto & Hrem & Hdup & Hget & Hthr).
  unfold cstep, src_step.
  destruct (c_thr s !! i) as [[m prog]|] eqn:Hi.
  2:{ rewrite (Forall2_lookup_none _ _ _ _ Hthr Hi). reflexivity. }
  destruct (Forall2_lookup_l' _ _ _ _ _ Hthr Hi) as (th & Hth & (Hheld & HR)).
  rewrite Hth.
  destruct th as [fr k pr pe ok fo rb rv he lo]; cbn in Hheld, HR; subst he.
  rewrite Hreg, Hids, Hwon, Hsta, Hsto, Hrem, Hdup, Hget.
  destruct m as [|p|p|p j].
  - (* MIdle *)
    subst fr. destruct prog as [|[j|j|j] rest].
    + reflexivity.
    + (* CAdd: the critical section of insert *)
      destruct (h_reg t j) as [q|] eqn:Hj.
      * cbn. rewrite Hj. cbn. close Hthr.
      * cbn. rewrite Hj. cbn. close Hthr.
    + (* CStop: the environment's "handles Stopped" *)
      cbn. destruct (h_reg t j) as [q|] eqn:Hj.
      * destruct (mem q (h_started t) && negb (mem q (h_stopped t))) eqn:Hl.
        -- cbn. close Hthr.
        -- drest rest; cbn; close Hthr.
      * drest rest; cbn; close Hthr.
    + (* CGet: the critical section of get / getByID *)
      destruct HG as [-> | ->]; destruct (h_reg t j) as [q|] eqn:Hj;
        drest rest; cbn; rewrite ?Hj; cbn; close Hthr.
  - (* MStart: proc.Start() *)
    destruct HR as [-> ->]. drest prog; cbn; close Hthr.
  - (* MDup: BroadcastEvent *)
    destruct HR as [-> ->]. drest prog; cbn; close Hthr.
  - (* MRem: the critical section of Remove *)
    destruct HR as (-> & -> & -> & ->). drest prog; cbn; close Hthr.
Qed.
End Sim.

Section Transfer.
Variable G : string.
Hypothesis HG : G = "get" \/ G = "getByID".

Lemma init_related progs :
  exists t0, src_init M G progs = Some t0 /\ Rst (cinit progs) t0.
Proof.
  unfold src_init.
  assert (H : exists ths, client_threads M G progs = Some ths /\
                          Forall2 R (map (fun p => (MIdle, p)) progs) ths).
  { induction progs as [|p progs IH]; cbn.
    - eexists; split; [reflexivity|constructor].
    - destruct IH as (ths & -> & IH).
      destruct p as [|o p]; cbn; eexists; (split; [reflexivity|]); constructor; auto; split; reflexivity. }
  destruct H as (ths & -> & H). eexists; split; [reflexivity|].
  repeat split; cbn; auto.
Qed.

(* the two systems move in lock step: same thread choice, same label, related again *)
Lemma sim_fwd s t i s' l :
  Rst s t -> cstep s i = Some (s', l) -> exists t', src_step M G t i = Some (t', l) /\ Rst s' t'.
Proof. intros HR Hs. pose proof (sim_step G HG s t i HR) as H. rewrite Hs in H. exact H. Qed.

Lemma sim_bwd s t i t' l :
  Rst s t -> src_step M G t i = Some (t', l) -> exists s', cstep s i = Some (s', l) /\ Rst s' t'.
Proof.
  intros HR Ht. pose proof (sim_step G HG s t i HR) as H.
  destruct (cstep s i) as [[s' l']|].
  - destruct H as (t'' & Ht'' & HR'). rewrite Ht in Ht''. inversion Ht''; subst. eauto.
  - congruence.
Qed.

Theorem sim_reach progs t0 t :
  src_init M G progs = Some t0 -> src_reach M G t0 t -> exists s, creach (cinit progs) s /\ Rst s t.
Proof.
  intros H0 Hr. induction Hr as [|t i t' l Hr IH Hs].
  - destruct (init_related progs) as (t0' & H0' & HR). rewrite H0 in H0'. inversion H0'; subst.
    eexists; split; [constructor|exact HR].
  - destruct IH as (s & Hc & HR). destruct (sim_bwd _ _ _ _ _ HR Hs) as (s' & Hs' & HR').
    exists s'; split; [eapply creach_step; eassumption|exact HR'].
Qed.

Theorem sim_reach_model progs s :
  creach (cinit progs) s -> exists t0 t, src_init M G progs = Some t0 /\ src_reach M G t0 t /\ Rst s t.
Proof.
  intros Hc. destruct (init_related progs) as (t0 & H0 & HR0). exists t0.
  induction Hc as [|s i s' l Hc IH Hs].
  - exists t0; split; [exact H0|split; [apply src_reach_refl|exact HR0]].
  - destruct IH as (t & _ & Hr & HR). destruct (sim_fwd _ _ _ _ _ HR Hs) as (t' & Ht' & HR').
    exists t'; split; [exact H0|split; [eapply src_reach_step; eassumption|exact HR']].
Qed.

(* every schedule of the translated code yields the label sequence the model yields, and vice versa *)
Theorem sim_run s t sched :
  Rst s t ->
  match crun s sched with
  | Some (s', ls) => exists t', src_run M G t sched = Some (t', ls) /\ Rst s' t'
  | None => src_run M G t sched = None
  end.
Proof.
  revert s t; induction sched as [|i sched IH]; intros s t HR; cbn.
  - eauto.
  - pose proof (sim_step G HG s t i HR) as H.
    destruct (cstep s i) as [[s1 l]|].
    + destruct H as (t1 & -> & HR1). specialize (IH s1 t1 HR1).
      destruct (crun s1 sched) as [[s2 ls]|].
      * destruct IH as (t2 & -> & HR2). eauto.
      * rewrite IH. reflexivity.
    + rewrite H. reflexivity.
Qed.

Definition src_live (t : sst) (p : nat) : Prop := p ∈ h_started t /\ p ∉ h_stopped t.
Definition src_registered (t : sst) (p : nat) : Prop := exists i, h_ids t !! p = Some i /\ h_reg t i = Some p.

(* C10_unique_live, for every reachable state of the translated code *)
Theorem C10_src_unique_live progs t0 t :
  src_init M G progs = Some t0 -> src_reach M G t0 t ->
  (forall p q, src_live t p -> src_live t q -> h_ids t !! p = h_ids t !! q -> p = q) /\
  (forall p, src_live t p -> src_registered t p) /\
  (forall i p, h_reg t i = Some p -> h_ids t !! p = Some i /\ p ∈ h_won t /\ p ∉ h_removed t).
Proof.
  intros H0 Hr. destruct (sim_reach _ _ _ H0 Hr) as (s & Hc & HR).
  destruct HR as (Hids & Hreg & Hwon & Hsta & Hsto & Hrem & _).
  destruct (unique_live progs s Hc) as (A & B & C).
  unfold src_live, src_registered. rewrite <- Hids, <- Hreg, <- Hwon, <- Hsta, <- Hsto, <- Hrem.
  repeat split.
  - exact A.
  - exact B.
  - apply C; assumption.
  - apply (C i p); assumption.
  - apply (C i p); assumption.
Qed.

(* C10_getpid_iff_registered: what get / getByID return *)
Theorem C10_src_getpid_iff_registered progs t0 t i t' j r p :
  src_init M G progs = Some t0 -> src_reach M G t0 t ->
  src_step M G t i = Some (t', LGet j r) -> h_ids t !! p = Some j ->
  (r = Some p <-> src_registered t p).
Proof.
  intros H0 Hr Hs Hp. destruct (sim_reach _ _ _ H0 Hr) as (s & Hc & HR).
  destruct (sim_bwd _ _ _ _ _ HR Hs) as (s' & Hs' & _).
  destruct HR as (Hids & Hreg & _). unfold src_registered. rewrite <- Hids, <- Hreg. rewrite <- Hids in Hp.
  exact (get_iff_registered progs s i s' j r p Hc Hs' Hp).
Qed.

(* C10_one_winner, at any moment: of the adds of an id that nobody stops, once the
   first has taken the lock exactly one (w) has won and is the entry; it has run
   Start() or rests right before it; every other one has not won, never runs
   Start(), and has published its duplicate event or rests right before that *)
Theorem C10_src_one_winner progs t0 t i :
  (forall prog, prog ∈ progs -> i ∉ stops_of prog) ->
  src_init M G progs = Some t0 -> src_reach M G t0 t ->
  (exists p, h_ids t !! p = Some i) ->
  exists w, h_ids t !! w = Some i /\ w ∈ h_won t /\ h_reg t i = Some w /\
            (w ∈ h_started t \/ exists k th rest, h_thr t !! k = Some th /\ frames th = F_Start rest /\ tproc th = Some w) /\
            forall p, h_ids t !! p = Some i -> p <> w ->
                      p ∉ h_won t /\ p ∉ h_started t /\
                      (p ∈ h_dup t \/ exists k th rest, h_thr t !! k = Some th /\ frames th = F_Dup rest /\ tproc th = Some p).
Proof.
  intros Hns H0 Hr Hex. destruct (sim_reach _ _ _ H0 Hr) as (s & Hc & HR).
  destruct HR as (Hids & Hreg & Hwon & Hsta & Hsto & Hrem & Hdup & Hget & Hthr).
  rewrite <- Hids in Hex.
  destruct (one_winner progs i s Hns Hc Hex) as (w & A & B & C & D & E).
  exists w. rewrite <- Hids, <- Hreg, <- Hwon, <- Hsta, <- Hdup. split_and!; try assumption.
  - destruct D as [D|(k & rest & D)]; [left; exact D|right].
    destruct (Forall2_lookup_l' _ _ _ _ _ Hthr D) as (th & Hth & (_ & HF & HP)). eauto 6.
  - intros p Hp Hne. destruct (E p Hp Hne) as (E1 & E2 & E3). split_and!; try assumption.
    destruct E3 as [E3|(k & rest & E3)]; [left; exact E3|right].
    destruct (Forall2_lookup_l' _ _ _ _ _ Hthr E3) as (th & Hth & (_ & HF & HP)). eauto 6.
Qed.

(* a thread resting at the start of CAdd i stands for the model thread (MIdle, CAdd i :: rest) *)
Lemma R_at_add m th i rest : R m th -> frames th = [FClient (CAdd i :: rest)] -> m = (MIdle, CAdd i :: rest).
Proof.
  intros (_ & HR) Hf. destruct m as [[|p|p|p j] prog]; cbn in HR.
  - destruct prog as [|o prog]; cbn in HR; rewrite HR in Hf; [discriminate|]. inversion Hf. reflexivity.
  - destruct HR as [HR _]. rewrite HR in Hf. discriminate.
  - destruct HR as [HR _]. rewrite HR in Hf. discriminate.
  - destruct HR as [HR _]. rewrite HR in Hf. discriminate.
Qed.

(* C10, last sentence ("after an actor has stopped its ID can be spawned again"), on the
   translated code: the critical section of Remove frees the id of the stopped process, and an
   add that finds its id free — after a Remove or never taken — wins: it becomes the entry
   and goes on to proc.Start() *)
Theorem C10_src_respawn_after_remove progs t0 t :
  src_init M G progs = Some t0 -> src_reach M G t0 t ->
  (forall k t' p, src_step M G t k = Some (t', LRem p) ->
     exists i, h_ids t !! p = Some i /\ h_reg t i = Some p /\ h_reg t' i = None) /\
  (forall k th i rest, h_thr t !! k = Some th -> frames th = [FClient (CAdd i :: rest)] -> h_reg t i = None ->
     exists t' th', src_step M G t k = Some (t', LAdd i (List.length (h_ids t)) true) /\
                    h_reg t' i = Some (List.length (h_ids t)) /\
                    h_thr t' !! k = Some th' /\ frames th' = F_Start rest /\ tproc th' = Some (List.length (h_ids t))).
Proof.
  intros H0 Hr. destruct (sim_reach _ _ _ H0 Hr) as (s & Hc & HR). split.
  - intros k t' p Hs. destruct (sim_bwd _ _ _ _ _ HR Hs) as (s' & Hs' & HR').
    destruct (remove_frees s k s' p (Inv_reach _ _ Hc) Hs') as (i & A & B & C).
    destruct HR as (Hids & Hreg & _). destruct HR' as (_ & Hreg' & _).
    exists i. rewrite <- Hids, <- Hreg, <- Hreg'. auto.
  - intros k th i rest Hth Hf Hfree.
    assert (Hm : c_thr s !! k = Some (MIdle, CAdd i :: rest)).
    { destruct HR as (_ & _ & _ & _ & _ & _ & _ & _ & Hthr).
      destruct (Forall2_lookup_r _ _ _ _ _ Hthr Hth) as (m & Hm & HRm).
      rewrite (R_at_add _ _ _ _ HRm Hf) in Hm. exact Hm. }
    assert (Hfree' : c_reg s i = None) by (destruct HR as (_ & -> & _); exact Hfree).
    destruct (add_on_free_id_wins s k rest i Hm Hfree') as (s' & Hs' & A & B).
    destruct (sim_fwd _ _ _ _ _ HR Hs') as (t' & Ht' & HR').
    assert (Hlen : c_ids s = h_ids t) by (destruct HR as (-> & _); reflexivity).
    rewrite Hlen in *.
    destruct HR' as (_ & Hreg' & _ & _ & _ & _ & _ & _ & Hthr').
    destruct (Forall2_lookup_l' _ _ _ _ _ Hthr' B) as (th' & Hth' & (_ & HF & HP)).
    exists t', th'. rewrite <- Hreg'. auto.
Qed.

Lemma finished_idle m th : R m th -> finished th = true -> m = (MIdle, []).
Proof.
  intros (_ & HR) Hf. unfold finished in Hf. destruct m as [[|p|p|p j] prog]; cbn in HR.
  - destruct prog; [reflexivity|]. rewrite HR in Hf. discriminate.
  - destruct HR as [HR _]. rewrite HR in Hf. discriminate.
  - destruct HR as [HR _]. rewrite HR in Hf. discriminate.
  - destruct HR as [HR _]. rewrite HR in Hf. discriminate.
Qed.

Lemma terminal_related s t : Rst s t -> src_terminal t = true -> cterminal s = true.
Proof.
  intros (_ & _ & _ & _ & _ & _ & _ & _ & Hthr) Ht. unfold src_terminal in Ht. unfold cterminal.
  induction Hthr as [|m th ms ths Hm _ IH]; cbn in *; [reflexivity|].
  apply andb_prop in Ht. destruct Ht as [Hf Ht]. rewrite (finished_idle _ _ Hm Hf). cbn. apply IH. exact Ht.
Qed.

(* C10_one_winner_at_the_end: when every thread of the translated code has finished *)
Theorem C10_src_one_winner_at_the_end progs t0 t i :
  (forall prog, prog ∈ progs -> i ∉ stops_of prog) ->
  src_init M G progs = Some t0 -> src_reach M G t0 t -> src_terminal t = true ->
  0 < count_id i (flat_map adds_of progs) ->
  count_id i (h_ids t) = count_id i (flat_map adds_of progs) /\
  NoDup (h_dup t) /\ NoDup (h_won t) /\
  exists w, h_ids t !! w = Some i /\ w ∈ h_started t /\ h_reg t i = Some w /\
            forall p, h_ids t !! p = Some i -> p <> w -> p ∉ h_started t /\ p ∈ h_dup t.
Proof.
  intros Hns H0 Hr Ht Hn. destruct (sim_reach _ _ _ H0 Hr) as (s & Hc & HR).
  pose proof (terminal_related _ _ HR Ht) as Hct.
  destruct HR as (Hids & Hreg & Hwon & Hsta & Hsto & Hrem & Hdup & _).
  rewrite <- Hids, <- Hreg, <- Hwon, <- Hsta, <- Hdup.
  exact (one_winner_terminal progs i s Hns Hc Hct Hn).
Qed.

(* the registry never blocks anybody: in every reachable state every thread
   that has not finished can take its next step (the mutex is free between steps,
   no step is stuck) *)
Theorem C10_src_no_thread_blocks progs t0 t i th :
  src_init M G progs = Some t0 -> src_reach M G t0 t ->
  h_thr t !! i = Some th -> finished th = false -> exists t' l, src_step M G t i = Some (t', l).
Proof.
  intros H0 Hr Hth Hf. destruct (sim_reach _ _ _ H0 Hr) as (s & Hc & HR).
  assert (Hm : exists m, c_thr s !! i = Some m /\ R m th).
  { destruct HR as (_ & _ & _ & _ & _ & _ & _ & _ & Hthr).
    destruct (Forall2_lookup_r _ _ _ _ _ Hthr Hth) as (m & ? & ?). eauto. }
  destruct Hm as (m & Hm & HRm).
  assert (Hs : exists s' l, cstep s i = Some (s', l)).
  { unfold cstep. setoid_rewrite Hm. destruct m as [[|p|p|p j] prog]; try (eexists; eexists; reflexivity).
    destruct prog as [|[j|j|j] rest].
    - destruct HRm as (_ & HF). cbn in HF. unfold finished in Hf. rewrite HF in Hf. discriminate.
    - destruct (c_reg s j); eexists; eexists; reflexivity.
    - destruct (c_reg s j) as [q|]; [destruct (mem q (c_started s) && negb (mem q (c_stopped s)))|];
        eexists; eexists; reflexivity.
    - eexists; eexists; reflexivity. }
  destruct Hs as (s' & l & Hs). destruct (sim_fwd _ _ _ _ _ HR Hs) as (t' & Ht' & _). eauto.
Qed.
End Transfer.

(* non-vacuity: the generated system runs; two spawners of one id, a lookup, a stop, a respawn *)
Example src_run_example :
  exists t0 t, src_init M "get" [[CAdd 1; CGet 1; CStop 1; CGet 1; CAdd 1]; [CAdd 1; CGet 1]] = Some t0 /\
    src_run M "get" t0 [0;1;1;0;1;0;0;0;0;0;0] =
      Some (t, [LAdd 1 0 true; LAdd 1 1 false; LDup 1; LStart 0; LGet 1 (Some 0); LGet 1 (Some 0);
                LTry 1 (Some 0); LRem 0; LGet 1 None; LAdd 1 2 true; LStart 2]) /\
    src_terminal t = true /\ h_reg t 1 = Some 2.
Proof. eexists; eexists; split; [reflexivity|]. vm_compute. repeat split; reflexivity. Qed.

Example src_run_example_getByID :
  exists t0 t, src_init M "getByID" [[CAdd 1; CGet 1]; [CGet 1]] = Some t0 /\
    src_run M "getByID" t0 [1;0;0;0] = Some (t, [LGet 1 None; LAdd 1 0 true; LStart 0; LGet 1 (Some 0)]).
Proof. eexists; eexists; split; [reflexivity|]. vm_compute. reflexivity. Qed.

Goal True. idtac "@@BEGIN sim_step". Abort.
Print Assumptions sim_step.
Goal True. idtac "@@END". Abort.
Goal True. idtac "@@BEGIN sim_reach". Abort.
Print Assumptions sim_reach.
Goal True. idtac "@@END". Abort.
Goal True. idtac "@@BEGIN sim_reach_model". Abort.
Print Assumptions sim_reach_model.
Goal True. idtac "@@END". Abort.
Goal True. idtac "@@BEGIN sim_run". Abort.
Print Assumptions sim_run.
Goal True. idtac "@@END". Abort.
Goal True. idtac "@@BEGIN C10_src_unique_live". Abort.
Print Assumptions C10_src_unique_live.
Goal True. idtac "@@END". Abort.
Goal True. idtac "@@BEGIN C10_src_getpid_iff_registered". Abort.
Print Assumptions C10_src_getpid_iff_registered.
Goal True. idtac "@@END". Abort.
Goal True. idtac "@@BEGIN C10_src_one_winner_at_the_end". Abort.
Print Assumptions C10_src_one_winner_at_the_end.
Goal True. idtac "@@END". Abort.
Goal True. idtac "@@BEGIN C10_src_no_thread_blocks". Abort.
Print Assumptions C10_src_no_thread_blocks.
Goal True. idtac "@@END". Abort.
Goal True. idtac "@@BEGIN C10_src_one_winner". Abort.
Print Assumptions C10_src_one_winner.
Goal True. idtac "@@END". Abort.
Goal True. idtac "@@BEGIN C10_src_respawn_after_remove". Abort.
Print Assumptions C10_src_respawn_after_remove.
Goal True. idtac "@@END". Abort.
