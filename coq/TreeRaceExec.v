(** Executable side of the respawn-race part of C08: what the real engine
    showed at the end of the schedules of one configuration (family treerace,
    deterministic scheduler) against the outcomes of the model of the repaired
    code (TreeRace.v), and the property's predicate on the observation. *)
From Coq Require Import List Arith Bool.
Import ListNotations.
From HV Require Export TreeRace.

Record case := {
  c_requests : nat;                 (* "make sure the child is there" requests served by the parent *)
  c_stoppers : nat;                 (* Stop/Poison calls aimed at the child id *)
  c_obs : list (bool * bool);       (* distinct (registered, listed) at the end of a schedule *)
  c_deadlocks : nat }.

(* every outcome seen is an outcome of the model of the repaired code *)
Definition corr (c : case) : bool :=
  Nat.eqb (c_deadlocks c) 0 &&
  match outcomes repaired (c_requests c) (c_stoppers c) with
  | Some os => forallb (fun o => existsb (pair_eqb o) os) (c_obs c)
  | None => false
  end.

(* a child is registered at the end iff it is in its parent's map: no orphan, no stale entry *)
Definition oracle (c : case) : bool :=
  Nat.eqb (c_deadlocks c) 0 && forallb agree (c_obs c).

(* 1 a child is there at the end (kept or spawned anew), 2 none, 3 orphan seen, 4 stale entry seen *)
Definition branches (c : case) : list nat :=
  (if existsb (pair_eqb (true, true)) (c_obs c) then [1] else []) ++
  (if existsb (pair_eqb (false, false)) (c_obs c) then [2] else []) ++
  (if existsb (pair_eqb (true, false)) (c_obs c) then [3] else []) ++
  (if existsb (pair_eqb (false, true)) (c_obs c) then [4] else []).

Fixpoint failing {A} (f : A -> bool) (i : nat) (l : list A) : list nat :=
  match l with [] => [] | a :: l' => (if f a then [] else [i]) ++ failing f (S i) l' end.

Definition report (cs : list case) : list nat * list nat * list (list nat) :=
  (failing corr 0 cs, failing oracle 0 cs, map branches cs).

Example report_smoke :
  report [ {| c_requests := 2; c_stoppers := 1; c_obs := [(true, true); (false, false)]; c_deadlocks := 0 |};
           {| c_requests := 2; c_stoppers := 1; c_obs := [(true, true); (true, false)]; c_deadlocks := 0 |} ]
  = ([1], [1], [[1; 2]; [1; 3]]).
Proof. vm_compute. reflexivity. Qed.
