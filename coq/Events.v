(** L3 — send routing and the event stream (C09, C12).

    Model of: [Engine.send], [SendLocal], [BroadcastEvent], [Subscribe],
    [Unsubscribe] (actor/engine.go), [Registry.get] (actor/registry.go),
    [Context.Forward] (actor/context.go) and [eventStream.Receive]
    (actor/event_stream.go) in its REPAIRED form (fixes D5: subscribers keyed
    by address and id; D6: a subscriber that cannot be reached any more is
    dropped at the first forward).  The un-repaired behaviour is kept in the
    [..._pinned] definitions at the end, for the refutation examples only.

    Definitions only: this file must keep compiling and running when a proof
    breaks.  Proofs are in EventsProofs.v.

    Addresses and ids are interned to [nat]; a PID is the pair (address, id).
    The event stream is an ordinary actor: everything sent to it (subscribe,
    unsubscribe, broadcast) is serialised by its inbox (C01/C02), so its
    behaviour is a function of the *history* of messages in inbox order. *)
From stdpp Require Import list.

Definition pid : Type := nat * nat.          (* (address, id) *)

(** ** Messages and events.  An event is a message sent to the event stream;
    undeliverable-message events carry the original target, message and
    sender — and the message may itself be an event (an event forwarded to a
    subscriber that is gone). *)
Inductive msg :=
| EUser (n : nat)                                  (* any user payload / user event *)
| EStopped (p : pid)                               (* ActorStoppedEvent{PID}: published by the process layer *)
| ELife (k : nat) (p : pid)                        (* ActorInitializedEvent (k = 0) / ActorStartedEvent (k = 1) of a spawn *)
| EDead (t : pid) (m : msg) (s : option pid)       (* DeadLetterEvent{Target, Message, Sender} *)
| EMissing (t : pid) (m : msg) (s : option pid).   (* EngineRemoteMissingEvent{Target, Message, Sender} *)
Global Instance msg_eq_dec : EqDecision msg.
Proof. solve_decision. Defined.

(** ** What a send can see of the engine: its address, whether it has a
    remote, which local ids are registered. *)
Record view := { v_addr : nat; v_remote : bool; v_reg : list nat }.

(* isLocalMessage *)
Definition is_local (v : view) (p : pid) : bool := bool_decide (p.1 = v_addr v).
(* Registry.get(pid) != nil: the lookup is by ID alone *)
Definition registered (v : view) (p : pid) : bool := bool_decide (p.2 ∈ v_reg v).

(** ** Engine.send.  [Panicked] is what the harness reports when a send
    panics; the model never yields it ([C09_send_total]). *)
Inductive outcome :=
| Dropped                                            (* pid == nil: return *)
| ToInbox (p : pid) (m : msg) (s : option pid)       (* proc.Send: pushed on the target's inbox (never blocks: C14) *)
| DeadLetter (t : pid) (m : msg) (s : option pid)    (* BroadcastEvent(DeadLetterEvent{...}) *)
| RemoteMissing (t : pid) (m : msg) (s : option pid) (* BroadcastEvent(EngineRemoteMissingEvent{...}) *)
| ToRemote (p : pid) (m : msg) (s : option pid)      (* remote.Send *)
| Panicked.
Global Instance outcome_eq_dec : EqDecision outcome.
Proof. solve_decision. Defined.

Definition route (v : view) (t : option pid) (m : msg) (s : option pid) : outcome :=
  match t with
  | None => Dropped
  | Some p =>
      if is_local v p
      then (if registered v p then ToInbox p m s else DeadLetter p m s)
      else (if v_remote v then ToRemote p m s else RemoteMissing p m s)
  end.

(* the event a send puts on the event stream's inbox, if any *)
Definition outcome_event (o : outcome) : option msg :=
  match o with
  | DeadLetter t m s => Some (EDead t m s)
  | RemoteMissing t m s => Some (EMissing t m s)
  | _ => None
  end.

(* the delivery a send makes to a live local actor, if any *)
Definition outcome_delivery (o : outcome) : option (pid * msg * option pid) :=
  match o with ToInbox p m s => Some (p, m, s) | _ => None end.

(** ** The event stream actor (repaired).  [subs] is Go's
    [map[pidKey]*PID]: a duplicate-free list of PID values; Go's map
    iteration order is replaced by insertion order — everything proved below
    is about per-subscriber projections, which do not depend on it. *)
Inductive esmsg := Sub (p : pid) | Unsub (p : pid) | Ev (e : msg).
Global Instance esmsg_eq_dec : EqDecision esmsg.
Proof. solve_decision. Defined.

(* [unreachable] of the D6 repair *)
Definition unreachable (v : view) (p : pid) : bool :=
  if is_local v p then negb (registered v p) else negb (v_remote v).

Definition subs_add (p : pid) (subs : list pid) : list pid :=
  if decide (p ∈ subs) then subs else subs ++ [p].
Definition subs_del (p : pid) (subs : list pid) : list pid :=
  filter (λ q, q ≠ p) subs.

(* one message of the event stream's inbox; [es] is the event stream's own
   PID (the sender of every forward, Context.Forward).  Result: the new
   subscriber set and the forwards made, each with the outcome of its send. *)
Definition es_step (v : view) (es : pid) (subs : list pid) (m : esmsg)
    : list pid * list (pid * outcome) :=
  match m with
  | Sub p => (subs_add p subs, [])
  | Unsub p => (subs_del p subs, [])
  | Ev e => (filter (λ q, unreachable v q = false) subs,
             (λ q, (q, route v (Some q) e (Some es))) <$> subs)
  end.

(* a history in inbox order; the registry may change between messages, so
   every message comes with the view at the time it is handled *)
Fixpoint es_run (es : pid) (subs : list pid) (h : list (view * esmsg))
    : list pid * list (pid * outcome) :=
  match h with
  | [] => (subs, [])
  | (v, m) :: h' =>
      let '(subs1, f1) := es_step v es subs m in
      let '(subs2, f2) := es_run es subs1 h' in
      (subs2, f1 ++ f2)
  end.

(* what reaches actor [p]'s inbox out of a list of deliveries / forwards, in order *)
Definition deliveries_to (p : pid) (l : list (pid * msg * option pid)) : list msg :=
  omap (λ x, if decide (x.1.1 = p) then Some x.1.2 else None) l.
Definition delivered_to (p : pid) (fw : list (pid * outcome)) : list msg :=
  deliveries_to p (omap (λ x, outcome_delivery x.2) fw).

(* what is handed to [p] — pushed on its inbox if it is a local actor, given to
   the remote if it lives on another node *)
Definition handed_to (p : pid) (fw : list (pid * outcome)) : list msg :=
  omap (λ x, match x.2 with
             | ToInbox q e _ | ToRemote q e _ => if decide (q = p) then Some e else None
             | _ => None
             end) fw.

(* the events a forward list feeds back to the event stream *)
Definition fed_back (fw : list (pid * outcome)) : list msg := omap (λ x, outcome_event x.2) fw.

(** ** Specification of C12: the events that lie after a [Sub p] and before
    the next [Unsub p] (by value), in order. *)
Fixpoint between (p : pid) (on : bool) (h : list esmsg) : list msg :=
  match h with
  | [] => []
  | Sub q :: h' => between p (on || bool_decide (q = p)) h'
  | Unsub q :: h' => between p (on && negb (bool_decide (q = p))) h'
  | Ev e :: h' => (if on then [e] else []) ++ between p on h'
  end.

(* the same for a subscriber whose reachability changes along the history
   ([ok v p]: an event handled under view [v] gets through to [p]): it receives
   the events between a [Sub p] and the next [Unsub p] while it can be reached;
   the first event that cannot reach it ends the subscription (D6 repair) *)
Fixpoint between_g (ok : view → pid → bool) (p : pid) (on : bool) (h : list (view * esmsg)) : list msg :=
  match h with
  | [] => []
  | (_, Sub q) :: h' => between_g ok p (on || bool_decide (q = p)) h'
  | (_, Unsub q) :: h' => between_g ok p (on && negb (bool_decide (q = p))) h'
  | (v, Ev e) :: h' => (if on && ok v p then [e] else []) ++
                       between_g ok p (on && negb (unreachable v p)) h'
  end.
Definition reachable (v : view) (p : pid) : bool := negb (unreachable v p).
Definition liveb (v : view) (p : pid) : bool := is_local v p && registered v p.

(* [p] is alive whenever an event is handled while it is subscribed *)
Fixpoint live_while_on (p : pid) (on : bool) (h : list (view * esmsg)) : Prop :=
  match h with
  | [] => True
  | (_, Sub q) :: h' => live_while_on p (on || bool_decide (q = p)) h'
  | (_, Unsub q) :: h' => live_while_on p (on && negb (bool_decide (q = p))) h'
  | (v, Ev _) :: h' => (on = true → liveb v p = true) ∧ live_while_on p on h'
  end.

Definition events_of (h : list esmsg) : list msg :=
  omap (λ m, match m with Ev e => Some e | _ => None end) h.

(** ** The closed loop (C09): the event stream's inbox as a work queue.
    External steps put things on the queue; [LProc] lets the event stream
    handle the message at the head: an event is forwarded to every
    subscriber through [route], and every forward that comes back as a
    dead-letter / remote-missing event is appended to the queue. *)
Record wstate := {
  w_view : view;
  w_subs : list pid;
  w_q : list esmsg;                               (* the event stream's inbox *)
  w_done : list msg;                              (* events handled so far, in order *)
  w_inbox : list (pid * msg * option pid);        (* deliveries to live local actors: (target, message, sender) *)
  w_remote : list (pid * msg * option pid);       (* handed to the remote *)
}.

Inductive wlabel :=
| LSend (t : option pid) (m : msg) (s : option pid)   (* Engine.Send / SendWithSender, by anyone *)
| LBcast (e : msg)                                    (* Engine.BroadcastEvent *)
| LSub (p : pid) | LUnsub (p : pid)                   (* Engine.Subscribe / Unsubscribe *)
| LStop (id : nat)                                    (* a local actor stops: unregistered, then ActorStoppedEvent *)
| LProc.                                              (* the event stream handles one message *)
Global Instance wlabel_eq_dec : EqDecision wlabel.
Proof. solve_decision. Defined.

Definition enqueue (ms : list esmsg) (st : wstate) : wstate :=
  {| w_view := w_view st; w_subs := w_subs st; w_q := w_q st ++ ms; w_done := w_done st;
     w_inbox := w_inbox st; w_remote := w_remote st |}.

Definition outcome_remote (o : outcome) : option (pid * msg * option pid) :=
  match o with ToRemote p m s => Some (p, m, s) | _ => None end.

Definition apply_outcome (o : outcome) (st : wstate) : wstate :=
  {| w_view := w_view st; w_subs := w_subs st;
     w_q := w_q st ++ (Ev <$> option_list (outcome_event o)); w_done := w_done st;
     w_inbox := w_inbox st ++ option_list (outcome_delivery o);
     w_remote := w_remote st ++ option_list (outcome_remote o) |}.

Definition wq_proc (es : pid) (st : wstate) : wstate :=
  match w_q st with
  | [] => st
  | m :: q' =>
      let '(subs', fw) := es_step (w_view st) es (w_subs st) m in
      {| w_view := w_view st; w_subs := subs';
         w_q := q' ++ (Ev <$> fed_back fw);
         w_done := w_done st ++ match m with Ev e => [e] | _ => [] end;
         w_inbox := w_inbox st ++ omap (λ x, outcome_delivery x.2) fw;
         w_remote := w_remote st ++ omap (λ x, outcome_remote x.2) fw |}
  end.

Definition wq_step (es : pid) (st : wstate) (l : wlabel) : wstate :=
  match l with
  | LSend t m s => apply_outcome (route (w_view st) t m s) st
  | LBcast e => enqueue [Ev e] st
  | LSub p => enqueue [Sub p] st
  | LUnsub p => enqueue [Unsub p] st
  | LStop id =>
      let v := w_view st in
      enqueue [Ev (EStopped (v_addr v, id))]
        {| w_view := {| v_addr := v_addr v; v_remote := v_remote v;
                        v_reg := filter (λ i, i ≠ id) (v_reg v) |};
           w_subs := w_subs st; w_q := w_q st; w_done := w_done st;
           w_inbox := w_inbox st; w_remote := w_remote st |}
  | LProc => wq_proc es st
  end.

Definition wq_run (es : pid) (st : wstate) (ls : list wlabel) : wstate := foldl (wq_step es) st ls.

(* subscribers of [subs] a forward to which comes back as an event *)
Definition dead_subs (v : view) (subs : list pid) : list pid := filter (λ q, unreachable v q = true) subs.
(* [Sub] messages still queued *)
Definition nsubq (q : list esmsg) : nat :=
  length (filter (λ m, match m with Sub _ => true | _ => false end = true) q).

(* the termination measure: every [LProc] step on a non-empty queue lowers it *)
Definition wq_measure (st : wstate) : nat :=
  length (w_q st) + length (dead_subs (w_view st) (w_subs st)) + nsubq (w_q st).

(* let the event stream run until its inbox is empty (fuel = the measure) *)
Definition wq_drain (es : pid) (st : wstate) : wstate :=
  Nat.iter (wq_measure st) (wq_proc es) st.

(* every event that was ever put on the event stream's inbox *)
Definition events_total (st : wstate) : nat := length (w_done st) + length (events_of (w_q st)).

(* what each external step may add to the number of events: the event itself,
   and one more for a subscriber it makes unreachable *)
Definition label_cost (l : wlabel) : nat :=
  match l with LSend _ _ _ => 1 | LBcast _ => 1 | LSub _ => 1 | LUnsub _ => 0 | LStop _ => 2 | LProc => 0 end.
Definition cost (ls : list wlabel) : nat := foldr (λ l n, label_cost l + n) 0 ls.

(* a scenario as the harness runs it: each external step, then quiescence *)
Definition scn_run (es : pid) (st : wstate) (ops : list wlabel) : wstate :=
  foldl (λ st l, wq_drain es (wq_step es st l)) st ops.

Definition winit (v : view) (subs : list pid) : wstate :=
  {| w_view := v; w_subs := subs; w_q := []; w_done := []; w_inbox := []; w_remote := [] |}.

(* what a live subscriber has received *)
Definition inbox_of (p : pid) (st : wstate) : list msg := deliveries_to p (w_inbox st).

(** ** The un-repaired code (pinned tree), for the refutations only.

    D5: [subs] is a [map[*PID]bool]: the key is the object, not the value.  A
    PID reference is (object index, value). *)
Definition pref : Type := nat * pid.
Inductive esmsg_pinned := SubR (r : pref) | UnsubR (r : pref) | EvR (e : msg).

Definition es_step_pinned (v : view) (es : pid) (subs : list pref) (m : esmsg_pinned)
    : list pref * list (pid * outcome) :=
  match m with
  | SubR r => (if decide (r ∈ subs) then subs else subs ++ [r], [])
  | UnsubR r => (filter (λ q, q ≠ r) subs, [])
  | EvR e => (subs, (λ r, (r.2, route v (Some r.2) e (Some es))) <$> subs)    (* D6: nobody is ever dropped *)
  end.

Fixpoint es_run_pinned (v : view) (es : pid) (subs : list pref) (h : list esmsg_pinned)
    : list pref * list (pid * outcome) :=
  match h with
  | [] => (subs, [])
  | m :: h' =>
      let '(subs1, f1) := es_step_pinned v es subs m in
      let '(subs2, f2) := es_run_pinned v es subs1 h' in
      (subs2, f1 ++ f2)
  end.

(* D6: the work queue of the un-repaired event stream (events only) *)
Definition wq_proc_pinned (v : view) (es : pid) (st : list pid * list msg * nat) : list pid * list msg * nat :=
  let '(subs, q, n) := st in
  match q with
  | [] => st
  | e :: q' => (subs, q' ++ fed_back ((λ p, (p, route v (Some p) e (Some es))) <$> subs), S n)
  end.

(** ** What the harness runs and observes (EventsExec.v evaluates these on
    the implementation's observations; EventsProofs.v proves the oracles true
    of every model run). *)

Definition unum (e : msg) : nat := match e with EUser n => n | _ => 4999 end.

(** *** C12, sequential histories.  PID value [p < 50] is the local (0, p),
    a recording actor; [p >= 50] is (1, p - 50): the same id behind a foreign
    address (the engine then has a remote, which records what it is given).
    Every PID value is available through several objects ([obj]), which the
    repaired code must ignore.  [HStop p] poisons local actor [p] (it is
    unregistered, then its ActorStoppedEvent is published), [HSpawn p] spawns
    a new recording actor under the same id (registered, then its
    ActorInitializedEvent and ActorStartedEvent are published); each step is
    followed by quiescence.  Only user events ([HEv]) are logged. *)
Inductive hop := HSub (p obj : nat) | HUnsub (p obj : nat) | HEv (n : nat) | HStop (p : nat) | HSpawn (p : nat).

Definition es12 : pid := (0, 99).
Definition pid12 (p : nat) : pid := if decide (p < 50) then (0, p) else (1, p - 50).
Definition v12 (remote : bool) (reg : list nat) : view := {| v_addr := 0; v_remote := remote; v_reg := reg |}.
Definition reg12 (np : nat) : list nat := 99 :: seq 0 np.

(* the history the event stream handles: every message with the registry as
   it is then.  The dead letters that come back from a forward to a stopped
   subscriber are events too; they are left out here: they are handled right
   after the event that caused them, which has already dropped every
   unreachable subscriber (C09_dead_letter_exact: [w_subs st' = live_subs ..]),
   so they reach live subscribers only (who do not log them) and change
   nothing. *)
Fixpoint hist12 (remote : bool) (reg : list nat) (ops : list hop) : list (view * esmsg) :=
  match ops with
  | [] => []
  | HSub p _ :: ops' => (v12 remote reg, Sub (pid12 p)) :: hist12 remote reg ops'
  | HUnsub p _ :: ops' => (v12 remote reg, Unsub (pid12 p)) :: hist12 remote reg ops'
  | HEv n :: ops' => (v12 remote reg, Ev (EUser n)) :: hist12 remote reg ops'
  | HStop p :: ops' =>
      let reg' := filter (λ i, i ≠ p) reg in
      (v12 remote reg', Ev (EStopped (0, p))) :: hist12 remote reg' ops'
  | HSpawn p :: ops' =>
      let reg' := p :: reg in
      (v12 remote reg', Ev (ELife 0 (0, p))) :: (v12 remote reg', Ev (ELife 1 (0, p))) :: hist12 remote reg' ops'
  end.

Definition users (l : list msg) : list nat := omap (λ e, match e with EUser n => Some n | _ => None end) l.

(* the machine: what is handed to the local actors, and to the remote for the
   same ids behind the foreign address *)
Definition model12 (remote : bool) (np : nat) (ops : list hop) : list (list nat) * list (list nat) :=
  let fw := (es_run es12 [] (hist12 remote (reg12 np) ops)).2 in
  ((λ i, users (handed_to (pid12 i) fw)) <$> seq 0 np,
   (λ i, users (handed_to (pid12 (50 + i)) fw)) <$> seq 0 np).

(* the property, per PID value [p]: [reach] — the actor is alive (for a foreign
   PID: the engine has a remote); [on] — subscribed.  Events broadcast after its
   Subscribe and before its Unsubscribe, by value, each once, in order; an actor
   that stops is no subscriber any more (its own ActorStoppedEvent cannot be
   delivered), an actor spawned again under the id is one only once it
   subscribes again; a PID subscribed while nobody is registered under it is
   dropped by the first event that cannot be delivered *)
Fixpoint spec12_p (p : nat) (reach on : bool) (ops : list hop) : list nat :=
  match ops with
  | [] => []
  | HSub q _ :: ops' => spec12_p p reach (on || bool_decide (q = p)) ops'
  | HUnsub q _ :: ops' => spec12_p p reach (on && negb (bool_decide (q = p))) ops'
  | HEv n :: ops' => (if on && reach then [n] else []) ++ spec12_p p reach (on && reach) ops'
  | HStop q :: ops' =>
      let reach' := reach && negb (bool_decide (q = p) && bool_decide (p < 50)) in
      spec12_p p reach' (on && reach') ops'
  | HSpawn q :: ops' =>
      let reach' := reach || (bool_decide (q = p) && bool_decide (p < 50)) in
      spec12_p p reach' (on && reach') ops'
  end.
Definition spec12 (remote : bool) (np : nat) (ops : list hop) : list (list nat) * list (list nat) :=
  ((λ i, spec12_p i true false ops) <$> seq 0 np,
   (λ i, spec12_p (50 + i) remote false ops) <$> seq 0 np).
Definition oracle12_on (remote : bool) (np : nat) (ops : list hop) (obs robs : list (list nat)) : bool :=
  bool_decide ((obs, robs) = spec12 remote np ops).

(* histories the generator may produce: at most 50 PID values; only live local
   actors are stopped, only stopped ones are spawned again *)
Fixpoint wf12 (np : nat) (alive : list nat) (ops : list hop) : bool :=
  match ops with
  | [] => true
  | HStop p :: ops' => bool_decide (p ∈ alive) && wf12 np (filter (λ i, i ≠ p) alive) ops'
  | HSpawn p :: ops' => bool_decide (p < np) && bool_decide (p ∉ alive) && wf12 np (p :: alive) ops'
  | _ :: ops' => wf12 np alive ops'
  end.

(** *** C12, concurrent broadcasters.  [nsubs] actors (ids 0..) subscribe,
    then broadcaster [s] broadcasts the events [100*s + 0 .. 100*s + c_s - 1],
    all broadcasters concurrently; broadcaster [late_at.1] subscribes actor 50
    after its first [late_at.2] events (late), broadcaster [leave_at.1]
    unsubscribes actor 51, subscribed from the start, after its first
    [leave_at.2] events (leaver). *)
Definition src_of (n : nat) : nat := n / 100.
Definition expected_from (s c : nat) : list nat := (λ i, 100 * s + i) <$> seq 0 c.
Definition from_src (s : nat) (l : list nat) : list nat := filter (λ n, src_of n = s) l.

Definition is_suffix (l1 l2 : list nat) : bool := bool_decide (drop (length l2 - length l1) l2 = l1).
Definition is_prefix (l1 l2 : list nat) : bool := bool_decide (take (length l1) l2 = l1).

Definition indexed {A} (l : list A) : list (nat * A) := zip (seq 0 (length l)) l.

(* every full subscriber: each source's events exactly once and in order,
   nothing else; late: per source a suffix; leaver: per source a prefix; and
   everybody saw one and the same serialisation *)
Definition oracle12c_on (nsubs : nat) (counts : list nat) (late leave : option (list nat))
    (late_at leave_at : nat * nat) (obs : list (list nat)) : bool :=
  let total := foldr Nat.add 0 counts in
  let log0 := default [] (head obs) in
  bool_decide (length obs = nsubs) &&
  forallb (λ l, bool_decide (length l = total) &&
                forallb (λ sc, bool_decide (from_src sc.1 l = expected_from sc.1 sc.2)) (indexed counts)) obs &&
  forallb (λ l, bool_decide (l = log0)) obs &&
  match late with
  | None => true
  | Some l => forallb (λ sc, is_suffix (from_src sc.1 l) (expected_from sc.1 sc.2)) (indexed counts) &&
              bool_decide (length l = length (flat_map (λ sc, from_src sc.1 l) (indexed counts))) &&
              (bool_decide (nsubs = 0) || is_suffix l log0) &&
              (* the events its own source broadcast after the Subscribe call: all of them *)
              bool_decide (from_src late_at.1 l =
                           drop late_at.2 (expected_from late_at.1 (default 0 (counts !! late_at.1))))
  end &&
  match leave with
  | None => true
  | Some l => forallb (λ sc, is_prefix (from_src sc.1 l) (expected_from sc.1 sc.2)) (indexed counts) &&
              bool_decide (length l = length (flat_map (λ sc, from_src sc.1 l) (indexed counts))) &&
              (bool_decide (nsubs = 0) || is_prefix l log0) &&
              (* the events its own source broadcast before the Unsubscribe call: all of them, no other *)
              bool_decide (from_src leave_at.1 l =
                           take leave_at.2 (expected_from leave_at.1 (default 0 (counts !! leave_at.1))))
  end.

(* the machine on the serialisation that full subscriber 0 saw, with the late
   Sub and the leaver's Unsub placed where their logs say they were handled *)
Definition hist12c (nsubs : nat) (late leave : option (list nat)) (log0 : list nat) : list esmsg :=
  let n := length log0 in
  let pos_late := match late with Some l => n - length l | None => S n end in
  let pos_leave := match leave with Some l => length l | None => S n end in
  let at_ j := (if decide (j = pos_leave) then [Unsub (0, 51)] else []) ++
               (if decide (j = pos_late) then [Sub (0, 50)] else []) in
  ((λ i, Sub (0, i)) <$> seq 0 nsubs) ++ (if leave then [Sub (0, 51)] else []) ++
  flat_map (λ je, at_ je.1 ++ [Ev (EUser je.2)]) (indexed log0) ++ at_ n.

Definition v12c (nsubs : nat) : view := {| v_addr := 0; v_remote := false; v_reg := 99 :: 50 :: 51 :: seq 0 nsubs |}.

Definition model12c (nsubs : nat) (late leave : option (list nat)) (log0 : list nat)
    : list (list nat) * list nat * list nat :=
  let fw := (es_run es12 [] ((λ m, (v12c nsubs, m)) <$> hist12c nsubs late leave log0)).2 in
  ((λ i, unum <$> delivered_to (0, i) fw) <$> seq 0 nsubs,
   unum <$> delivered_to (0, 50) fw, unum <$> delivered_to (0, 51) fw).

(** *** C09, scenarios.  One engine without remote, address 0; actors with
    ids: monitors 0..nmon-1 (live, subscribed from the start), 3 and 4
    (recording actors that scenarios subscribe, unsubscribe and stop), 5 (a
    live recording target), 8 (a live actor used as sender), 9 (the event
    stream).  Ids 6 (an actor stopped before the scenario) and 7 (never
    spawned) are not registered; address 1 is foreign.  A scenario is a list
    of external steps ([wlabel] without [LProc]), each followed by
    quiescence. *)
Definition es09 : pid := (0, 9).
Definition v09 (nmon : nat) : view :=
  {| v_addr := 0; v_remote := false; v_reg := seq 0 nmon ++ [3; 4; 5; 8; 9] |}.
Definition subs09 (nmon : nat) : list pid := (λ i, (0, i)) <$> seq 0 nmon.
Definition recorders09 (nmon : nat) : list nat := seq 0 nmon ++ [3; 4; 5].

Definition entries_to (p : pid) (l : list (pid * msg * option pid)) : list (msg * option pid) :=
  omap (λ x, if decide (x.1.1 = p) then Some (x.1.2, x.2) else None) l.
Definition log_of (p : pid) (st : wstate) : list (msg * option pid) := entries_to p (w_inbox st).

Definition final09 (nmon : nat) (ops : list wlabel) : wstate := scn_run es09 (winit (v09 nmon) (subs09 nmon)) ops.
Definition model09 (nmon : nat) (ops : list wlabel) : list (nat * list (msg * option pid)) :=
  let st := final09 nmon ops in (λ i, (i, log_of (0, i) st)) <$> recorders09 nmon.

(* an event that reports a forward of the event stream itself *)
Definition is_bounce (e : msg) : bool :=
  match e with
  | EDead _ _ (Some s) | EMissing _ _ (Some s) => bool_decide (s = es09)
  | _ => false
  end.
Definition bounce_target (e : msg) : option pid :=
  match e with EDead t _ _ | EMissing t _ _ => Some t | _ => None end.
Definition bounce_msg (e : msg) : option msg :=
  match e with EDead _ m _ | EMissing _ m _ => Some m | _ => None end.

(* the events the external steps themselves put on the event stream, in
   order: one per undeliverable send (with the original target, message and
   sender), per broadcast and per stop *)
Fixpoint primaries (v : view) (ops : list wlabel) : list msg :=
  match ops with
  | [] => []
  | LSend t m s :: ops' => option_list (outcome_event (route v t m s)) ++ primaries v ops'
  | LBcast e :: ops' => e :: primaries v ops'
  | LStop id :: ops' =>
      EStopped (v_addr v, id) ::
      primaries {| v_addr := v_addr v; v_remote := v_remote v; v_reg := filter (λ i, i ≠ id) (v_reg v) |} ops'
  | _ :: ops' => primaries v ops'
  end.

(* user messages for the live target 5, in order *)
Definition sends_to (p : pid) (ops : list wlabel) : list (msg * option pid) :=
  omap (λ l, match l with LSend (Some t) m s => if decide (t = p) then Some (m, s) else None | _ => None end) ops.

Definition count_subs (q : pid) (ops : list wlabel) : nat :=
  length (filter (λ l, l = LSub q) ops).

(* scenarios the generator may produce: nobody pretends to be the event
   stream, nobody sends to a monitor or unsubscribes one, only actors 3 and 4
   are stopped, each at most once *)
Definition mon3 (p : pid) : Prop := p.1 = 0 ∧ p.2 < 3.
Definition wf_label (l : wlabel) : bool :=
  match l with
  | LSend t m s =>
      bool_decide (s ≠ Some es09) && negb (is_bounce m) &&
      match t with Some p => bool_decide (p ≠ es09) && bool_decide (¬ mon3 p) | None => true end
  | LBcast e => negb (is_bounce e)
  | LSub p => bool_decide (p ≠ es09)
  | LUnsub p => bool_decide (¬ mon3 p)
  | LStop id => bool_decide (id ∈ [3; 4])
  | LProc => false
  end.
Definition stops (ops : list wlabel) : list nat := omap (λ l, match l with LStop id => Some id | _ => None end) ops.
Definition wf09 (nmon : nat) (ops : list wlabel) : bool :=
  bool_decide (nmon ≤ 3) && forallb wf_label ops && bool_decide (NoDup (stops ops)).

Definition lookup_log (i : nat) (logs : list (nat * list (msg * option pid))) : list (msg * option pid) :=
  default [] (snd <$> head (filter (λ x, x.1 = i) logs)).

Fixpoint is_sublist (l1 l2 : list msg) {struct l2} : bool :=
  match l1 with
  | [] => true
  | x :: l1' =>
      match l2 with
      | [] => false
      | y :: l2' => if decide (x = y) then is_sublist l1' l2' else is_sublist l1 l2'
      end
  end.

(* the property, on what one monitor (live and subscribed throughout) received *)
Definition mon_ok (nmon : nat) (ops : list wlabel) (mon0 : list msg) (L : list (msg * option pid)) : bool :=
  (* every event comes through the event stream *)
  forallb (λ x, bool_decide (x.2 = Some es09)) L &&
  (* each undeliverable send, broadcast, stop: exactly once, original fields, in order *)
  bool_decide (filter (λ e, is_bounce e = false) L.*1 = primaries (v09 nmon) ops) &&
  (* anything else reports a forward of an event of this log to a subscriber; at most
     one per subscription of that PID *)
  forallb (λ e, negb (is_bounce e) ||
                (bool_decide (default e (bounce_msg e) ∈ L.*1) &&
                 bool_decide (length (filter (λ e', is_bounce e' = true ∧ bounce_target e' = bounce_target e) L.*1)
                              ≤ count_subs (default (0, 0) (bounce_target e)) ops))) L.*1 &&
  (* finitely many *)
  bool_decide (length L ≤ cost ops) &&
  (* one serialisation for all *)
  bool_decide (L.*1 = mon0).

(* the property, on an observation *)
Definition oracle09_on (nmon : nat) (ops : list wlabel)
    (logs : list (nat * list (msg * option pid))) (panicked diverged : bool) : bool :=
  let mon := (λ i, lookup_log i logs) <$> seq 0 nmon in
  let mon0 := (default [] (head mon)).*1 in
  negb panicked && negb diverged &&
  forallb (mon_ok nmon ops mon0) mon &&
  (* the live target got exactly what was sent to it *)
  bool_decide (filter (λ x, x.2 ≠ Some es09) (lookup_log 5 logs) = sends_to (0, 5) ops) &&
  (* actors 3 and 4: what the event stream forwarded to them is part of what the monitors saw *)
  forallb (λ i, bool_decide (nmon = 0) ||
                is_sublist (filter (λ x, x.2 = Some es09) (lookup_log i logs)).*1 mon0) [3; 4].
