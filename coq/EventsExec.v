(** Executable side of the C12 and C09 correspondence checks.  Three kinds of
    cases:
    - [K12]: a sequential history of subscribe / unsubscribe / broadcast over
      PID values held in several objects, and what each actor received;
    - [K12c]: concurrent broadcasters (plus a late subscriber and a leaver),
      and what each actor received;
    - [K09]: a scenario of sends / broadcasts / subscriptions / stops on an
      engine without remote, and what each recording actor received. *)
From stdpp Require Import list.
From HV Require Export Events.

Record case12 := { h_remote : bool; h_npids : nat; h_hist : list hop;
                   h_obs : list (list nat);     (* per local actor: the user events received *)
                   h_robs : list (list nat) }.  (* per id: the user events given to the remote for (foreign, id) *)
Record case12c := { k_nsubs : nat; k_counts : list nat;
                    k_late : option (list nat); k_leave : option (list nat);
                    k_late_at : nat * nat; k_leave_at : nat * nat;   (* (source, after how many of its events) *)
                    k_obs : list (list nat) }.
Record case09 := { u_nmon : nat; u_ops : list wlabel;
                   u_logs : list (nat * list (msg * option pid));
                   u_panicked : bool; u_diverged : bool }.
Inductive case := K12 (c : case12) | K12c (c : case12c) | K09 (c : case09).

(** ** correspondence: the machine computes what the implementation showed *)
Definition corr12 (c : case12) : bool :=
  bool_decide (h_npids c ≤ 50) && wf12 (h_npids c) (seq 0 (h_npids c)) (h_hist c) &&
  bool_decide (model12 (h_remote c) (h_npids c) (h_hist c) = (h_obs c, h_robs c)).

Definition corr12c (c : case12c) : bool :=
  let log0 := default [] (head (k_obs c)) in
  if decide (k_nsubs c = 0) then bool_decide (k_obs c = [])    (* no witness of the serialisation: oracle only *)
  else
  bool_decide (model12c (k_nsubs c) (k_late c) (k_leave c) log0
               = (k_obs c, default [] (k_late c), default [] (k_leave c))) &&
  bool_decide (length (k_obs c) = k_nsubs c) &&
  (* every event that was broadcast is in the serialisation *)
  bool_decide (length log0 = foldr Nat.add 0 (k_counts c)).

(* equality up to the order in which Go iterates over the subscriber map: the
   events one forward round feeds back come in any order *)
Definition count_in {A} `{EqDecision A} (x : A) (l : list A) : nat := length (filter (λ y, y = x) l).
Definition perm_eqb {A} `{EqDecision A} (l1 l2 : list A) : bool :=
  bool_decide (length l1 = length l2) && forallb (λ x, bool_decide (count_in x l1 = count_in x l2)) l1.

Definition corr09 (c : case09) : bool :=
  wf09 (u_nmon c) (u_ops c) && negb (u_panicked c) && negb (u_diverged c) &&
  let m := model09 (u_nmon c) (u_ops c) in
  bool_decide (m.*1 = (u_logs c).*1) &&
  forallb (λ x, perm_eqb x.1.2 x.2.2) (zip m (u_logs c)).

(** ** oracle: the property's predicate on what the implementation showed *)
Definition oracle12 (c : case12) : bool := oracle12_on (h_remote c) (h_npids c) (h_hist c) (h_obs c) (h_robs c).
Definition oracle12c (c : case12c) : bool :=
  oracle12c_on (k_nsubs c) (k_counts c) (k_late c) (k_leave c) (k_late_at c) (k_leave_at c) (k_obs c).
Definition oracle09 (c : case09) : bool :=
  oracle09_on (u_nmon c) (u_ops c) (u_logs c) (u_panicked c) (u_diverged c).

Definition corr (c : case) : bool :=
  match c with K12 c => corr12 c | K12c c => corr12c c | K09 c => corr09 c end.
Definition oracle (c : case) : bool :=
  match c with K12 c => oracle12 c | K12c c => oracle12c c | K09 c => oracle09 c end.

(** ** proof-relevant situations reached, for the evidence histogram *)

(* C12: 1 subscribe while subscribed, same object; 2 subscribe while
   subscribed, other object (D5); 3 unsubscribe through another object than
   the one subscribed with (D5); 4 unsubscribe while not subscribed; 5 event
   with two or more subscribers; 6 event with no subscriber; 7 subscribe
   again after an unsubscribe; 8 event delivered after a re-subscription;
   9 stop of a subscribed actor; 14 subscription of an actor spawned again
   under the id of one that was dropped; 15 two or more events to such a
   subscriber; 16 subscription of a PID nobody is registered under; 17 local
   and foreign PID with the same id both subscribed; 18 unsubscription of one
   of such a pair; 19 event to a foreign subscriber.
   [cur]: subscribed (PID value, object); [gone]: values unsubscribed before;
   [dead]: stopped ids; [dropped]: ids that were dropped as unreachable;
   [again]: respawned-and-resubscribed ids with the number of events since *)
Fixpoint branches12_run (cur : list (nat * nat)) (gone dead dropped : list nat) (again : list (nat * nat))
    (h : list hop) : list nat :=
  let twin p := if decide (p < 50) then 50 + p else p - 50 in
  match h with
  | [] => []
  | HSub p o :: h' =>
      (if decide (p ∈ dead) then [16] else []) ++
      (if decide (twin p ∈ cur.*1) then [17] else []) ++
      match filter (λ x, x.1 = p) cur with
      | [] => (if decide (p ∈ gone) then [7] else []) ++
              (if decide (p ∈ dropped ∧ p ∉ dead) then [14] else []) ++
              branches12_run (cur ++ [(p, o)]) gone dead dropped
                (if decide (p ∈ dropped ∧ p ∉ dead) then (p, 0) :: again else again) h'
      | x :: _ => (if decide (x.2 = o) then [1] else [2]) ++ branches12_run cur gone dead dropped again h'
      end
  | HUnsub p o :: h' =>
      (if decide (twin p ∈ cur.*1 ∧ p ∈ cur.*1) then [18] else []) ++
      match filter (λ x, x.1 = p) cur with
      | [] => 4 :: branches12_run cur gone dead dropped again h'
      | x :: _ => (if decide (x.2 = o) then [] else [3]) ++
                  branches12_run (filter (λ x, x.1 ≠ p) cur) (p :: gone) dead dropped
                    (filter (λ x, x.1 ≠ p) again) h'
      end
  | HEv _ :: h' =>
      let cur' := filter (λ x, x.1 ∉ dead) cur in
      (if decide (2 ≤ length cur') then [5] else []) ++ (if decide (cur' = []) then [6] else []) ++
      (if decide (Exists (λ x, x.1 ∈ gone) cur') then [8] else []) ++
      (if decide (Exists (λ x, 50 ≤ x.1) cur') then [19] else []) ++
      (if decide (Exists (λ x, 1 ≤ x.2) again) then [15] else []) ++
      branches12_run cur' gone dead (dropped ++ (filter (λ x, x.1 ∈ dead) cur).*1)
        ((λ x, (x.1, S x.2)) <$> again) h'
  | HStop p :: h' =>
      (if decide (p ∈ cur.*1) then [9] else []) ++
      let dead' := p :: dead in
      branches12_run (filter (λ x, x.1 ∉ dead') cur) gone dead' (dropped ++ (filter (λ x, x.1 ∈ dead') cur).*1)
        (filter (λ x, x.1 ≠ p) again) h'
  | HSpawn p :: h' =>
      let dead' := filter (λ i, i ≠ p) dead in
      branches12_run (filter (λ x, x.1 ∉ dead') cur) gone dead' (dropped ++ (filter (λ x, x.1 ∈ dead') cur).*1) again h'
  end.

(* C12 concurrent: 20 + number of broadcasters; 11 late subscriber got a
   proper, non-empty part; 12 leaver got a proper, non-empty part; 13 the
   serialisation interleaves the sources *)
Definition branches12c (c : case12c) : list nat :=
  let log0 := default [] (head (k_obs c)) in
  let proper (o : option (list nat)) := match o with Some l => bool_decide (0 < length l < length log0) | None => false end in
  [20 + length (k_counts c)] ++ (if proper (k_late c) then [11] else []) ++ (if proper (k_leave c) then [12] else []) ++
  (if decide (src_of <$> log0 = src_of <$> flat_map (λ sc, expected_from sc.1 sc.2) (indexed (k_counts c))) then [] else [13]).

(* C09: 1 dead letter (local target not registered); 2 remote missing; 3 nil
   target; 4 delivery to a live target; 5 a forward to a stopped subscriber
   came back as a dead letter; 6 a forward to a foreign subscriber came back
   as remote-missing; 7 two or more came back from one event; 8 a send
   carrying a sender; 9 a subscriber was dropped and subscribed again; 10 no
   monitor; 11 the stop of a subscribed actor *)
Definition is_dead (e : msg) : bool := match e with EDead _ _ _ => true | _ => false end.
Definition is_missing (e : msg) : bool := match e with EMissing _ _ _ => true | _ => false end.
Definition tag (b : bool) (n : nat) : list nat := if b then [n] else [].

Definition branches09 (c : case09) : list nat :=
  let st := final09 (u_nmon c) (u_ops c) in
  let prim := primaries (v09 (u_nmon c)) (u_ops c) in
  let bs := filter (λ e, is_bounce e = true) (w_done st) in
  tag (existsb is_dead prim) 1 ++
  tag (existsb is_missing prim) 2 ++
  tag (existsb (λ l, match l with LSend None _ _ => true | _ => false end) (u_ops c)) 3 ++
  tag (negb (bool_decide (sends_to (0, 5) (u_ops c) = []))) 4 ++
  tag (existsb is_dead bs) 5 ++
  tag (existsb is_missing bs) 6 ++
  tag (existsb (λ e, bool_decide (2 ≤ length (filter (λ e', bounce_msg e' = Some e) bs))) (w_done st)) 7 ++
  tag (existsb (λ l, match l with LSend _ _ (Some _) => true | _ => false end) (u_ops c)) 8 ++
  tag (existsb (λ e, bool_decide (2 ≤ length (filter (λ e', bounce_target e' = bounce_target e) bs))) bs) 9 ++
  tag (bool_decide (u_nmon c = 0)) 10 ++
  tag (existsb (λ e, match bounce_msg e with Some (EStopped _) => true | _ => false end) bs) 11.

Definition branches (c : case) : list nat :=
  match c with
  | K12 c => remove_dups (branches12_run [] [] [] [] [] (h_hist c))
  | K12c c => branches12c c
  | K09 c => (λ n, 30 + n) <$> branches09 c
  end.

Fixpoint failing {A} (f : A → bool) (i : nat) (l : list A) : list nat :=
  match l with [] => [] | a :: l' => (if f a then [] else [i]) ++ failing f (S i) l' end.

Definition report (cs : list case) : list nat * list nat * list (list nat) :=
  (failing corr 0 cs, failing oracle 0 cs, map branches cs).

(** ** smoke tests of the executable definitions *)
(** ** smoke tests of the executable definitions *)
Example report_smoke12 :
  report [ K12 {| h_remote := false; h_npids := 2;
                  h_hist := [HSub 0 0; HSub 0 1; HEv 1; HUnsub 0 1; HEv 2];
                  h_obs := [[1]; []]; h_robs := [[]; []] |};
           (* what the code keyed by *PID showed (D5) *)
           K12 {| h_remote := false; h_npids := 2;
                  h_hist := [HSub 0 0; HSub 0 1; HEv 1; HUnsub 0 1; HEv 2];
                  h_obs := [[1; 1; 2]; []]; h_robs := [[]; []] |};
           (* stop, respawn, subscribe again; the same id behind a foreign address *)
           K12 {| h_remote := true; h_npids := 2;
                  h_hist := [HSub 0 0; HSub 50 0; HEv 1; HStop 0; HEv 2; HSpawn 0; HEv 3; HSub 0 1; HEv 4; HEv 5;
                             HUnsub 50 0; HEv 6];
                  h_obs := [[1; 4; 5; 6]; []]; h_robs := [[1; 2; 3; 4; 5]; []] |};
           (* a fan-out that forgets to clear its list of dropped subscribers loses event 5 *)
           K12 {| h_remote := false; h_npids := 1;
                  h_hist := [HSub 0 0; HStop 0; HSpawn 0; HSub 0 0; HEv 4; HEv 5];
                  h_obs := [[4]]; h_robs := [[]] |} ]
  = ([1; 3], [1; 3], [[2; 3; 6]; [2; 3; 6]; [9; 17; 14; 5; 19; 18; 15]; [9; 14; 15]]).
Proof. by vm_compute. Qed.

Example report_smoke12c :
  report [ K12c {| k_nsubs := 2; k_counts := [2; 1]; k_late := Some [1; 100]; k_leave := Some [0];
                   k_late_at := (0, 1); k_leave_at := (1, 0);
                   k_obs := [[0; 1; 100]; [0; 1; 100]] |};
           (* source 0 out of order *)
           K12c {| k_nsubs := 1; k_counts := [2; 1]; k_late := None; k_leave := None;
                   k_late_at := (0, 0); k_leave_at := (0, 0);
                   k_obs := [[1; 0; 100]] |} ]
  = ([], [1], [[22; 11; 12]; [22]]).
Proof. by vm_compute. Qed.

Example report_smoke09 :
  report [ K09 {| u_nmon := 1;
                  u_ops := [LSub (0, 3); LStop 3; LSend (Some (0, 7)) (EUser 1) None;
                            LSend (Some (0, 5)) (EUser 2) (Some (0, 8)); LSend None (EUser 3) None;
                            LSend (Some (1, 7)) (EUser 4) None];
                  u_logs := [(0, [(EStopped (0, 3), Some es09);
                                  (EDead (0, 3) (EStopped (0, 3)) (Some es09), Some es09);
                                  (EDead (0, 7) (EUser 1) None, Some es09);
                                  (EMissing (1, 7) (EUser 4) None, Some es09)]);
                             (3, []); (4, []); (5, [(EUser 2, Some (0, 8))])];
                  u_panicked := false; u_diverged := false |};
           (* what the un-repaired code shows (D6) *)
           K09 {| u_nmon := 1; u_ops := [LSub (0, 7); LBcast (EUser 1)];
                  u_logs := [(0, []); (3, []); (4, []); (5, [])];
                  u_panicked := false; u_diverged := true |} ]
  = ([1], [1], [[31; 32; 33; 34; 35; 38; 41]; [35]]).
Proof. by vm_compute. Qed.
