(** Proofs about the supervision tree (C08): the sequential stop order
    (Tree.v (i)), the children map (Tree.v (ii)) and the predicates evaluated on
    the implementation (Tree.v (iii)).  The interleaving model is proved in
    TreeConcProofs.v. *)
From Coq Require Import List Arith Lia Bool Permutation.
Import ListNotations.
From HV Require Import Tree.

(** * Trees *)

Lemma stop_tree_eq i ks : stop_tree (Node i ks) = flat_map stop_tree ks ++ own_events i.
Proof. reflexivity. Qed.
Lemma ids_eq i ks : ids (Node i ks) = i :: flat_map ids ks.
Proof. reflexivity. Qed.
Lemma subtrees_eq i ks : subtrees (Node i ks) = Node i ks :: flat_map subtrees ks.
Proof. reflexivity. Qed.

(* nested induction principle *)
Lemma tree_ind' (P : tree -> Prop) :
  (forall i ks, Forall P ks -> P (Node i ks)) -> forall t, P t.
Proof.
  intros H. fix IH 1. intros [i ks]. apply H.
  induction ks as [|k ks IHks]; constructor; [apply IH | apply IHks].
Qed.

Lemma subtrees_subtree t s : In s (subtrees t) <-> subtree s t.
Proof.
  split.
  - revert s. induction t as [i ks IH] using tree_ind'. intros s. rewrite subtrees_eq. intros [<-|Hs].
    + constructor.
    + apply in_flat_map in Hs as (k & Hk & Hs). rewrite Forall_forall in IH.
      eapply sub_kid; eauto.
  - induction 1 as [t|s i ks k Hk Hs IH].
    + destruct t; rewrite subtrees_eq; left; reflexivity.
    + rewrite subtrees_eq. right. apply in_flat_map. eauto.
Qed.

Lemma subtree_trans a b c : subtree a b -> subtree b c -> subtree a c.
Proof. intros Hab Hbc. induction Hbc; [assumption|]. eapply sub_kid; eauto. Qed.

Lemma subtree_ids s t : subtree s t -> incl (ids s) (ids t).
Proof.
  induction 1 as [t|s i ks k Hk Hs IH]; [apply incl_refl|].
  intros x Hx. rewrite ids_eq. right. apply in_flat_map. eauto.
Qed.

Lemma root_in_ids t : In (root t) (ids t).
Proof. destruct t; left; reflexivity. Qed.

Lemma desc_in_ids t d : In d (desc t) -> In d (ids t).
Proof. destruct t as [i ks]. unfold desc; cbn [subs]. rewrite ids_eq. right; assumption. Qed.

(* the stop of a subtree is one contiguous piece of the stop of the tree *)
Lemma subtree_segment s t : subtree s t -> exists l1 l2, stop_tree t = l1 ++ stop_tree s ++ l2.
Proof.
  induction 1 as [t|s i ks k Hk Hs (l1 & l2 & IH)].
  - exists [], []. rewrite app_nil_r. reflexivity.
  - apply in_split in Hk as (ka & kb & ->).
    rewrite stop_tree_eq, flat_map_app. cbn [flat_map]. rewrite IH.
    exists (flat_map stop_tree ka ++ l1), (l2 ++ flat_map stop_tree kb ++ own_events i).
    rewrite <- !app_assoc. reflexivity.
Qed.

Lemma before_segment {A} (a b : A) l l1 l2 : before a b l -> before a b (l1 ++ l ++ l2).
Proof.
  intros (m1 & m2 & m3 & ->). exists (l1 ++ m1), m2, (m3 ++ l2).
  rewrite <- !app_assoc. cbn. rewrite <- !app_assoc. reflexivity.
Qed.

Lemma events_of_tree t e : In e (stop_tree t) -> exists d, In d (ids t) /\ In e (own_events d).
Proof.
  induction t as [i ks IH] using tree_ind'. rewrite stop_tree_eq, ids_eq, in_app_iff, in_flat_map.
  intros [(k & Hk & He) | He].
  - rewrite Forall_forall in IH. destruct (IH k Hk He) as (d & Hd & Hc).
    exists d. split; [|exact Hc]. right. apply in_flat_map. eauto.
  - exists i. split; [left; reflexivity|exact He].
Qed.

(* every actor of the tree performs all of its own events *)
Lemma desc_stopped t d : In d (ids t) -> incl (own_events d) (stop_tree t).
Proof.
  induction t as [i ks IH] using tree_ind'. rewrite ids_eq, stop_tree_eq. intros [<-|Hd] e He.
  - apply in_app_iff. right; exact He.
  - apply in_flat_map in Hd as (k & Hk & Hd). rewrite Forall_forall in IH.
    apply in_app_iff. left. apply in_flat_map. exists k. split; [exact Hk|]. apply (IH k Hk Hd). exact He.
Qed.

(* every event of a proper descendant precedes every event of the root *)
Lemma kids_before_own i ks e e' :
  In e (flat_map stop_tree ks) -> In e' (own_events i) -> before e e' (stop_tree (Node i ks)).
Proof.
  intros He He'. apply in_split in He as (l1 & l2 & Heq). apply in_split in He' as (m1 & m2 & Heq').
  exists l1, (l2 ++ m1), m2. rewrite stop_tree_eq, Heq, Heq'. rewrite <- !app_assoc. reflexivity.
Qed.

Lemma desc_events_before t d e e' :
  In d (desc t) -> In e (own_events d) -> In e' (own_events (root t)) -> before e e' (stop_tree t).
Proof.
  destruct t as [i ks]. unfold desc. cbn [subs root]. intros Hd He He'.
  apply kids_before_own; [|exact He'].
  apply in_flat_map in Hd as (k & Hk & Hd). apply in_flat_map. exists k. split; [exact Hk|].
  apply (desc_stopped k d Hd). exact He.
Qed.

(** ** [C08_children_first]: any depth, any fan-out.  [p] is any actor of the
    stopped tree [t] (the root included), [d] any proper descendant of [p]. *)
Theorem children_first t s d :
  subtree s t -> In d (desc s) ->
  let p := root s in let l := stop_tree t in
  before (X d) (X p) l /\ before (Unreg d) (X p) l /\
  before (X d) (Cancel p) l /\ before (Unreg d) (Cancel p) l /\
  before (DelParent d) (X p) l /\ before (Cancel d) (X p) l.
Proof.
  intros Hs Hd p l. destruct (subtree_segment s t Hs) as (l1 & l2 & Heq). subst l. rewrite Heq.
  repeat split; apply before_segment; apply (desc_events_before s d); auto; cbn; auto 6.
Qed.

(* and the order inside one actor: Stopped is handled while still registered,
   the parent's map is updated only afterwards, the caller is signalled last *)
Lemma own_order t s :
  subtree s t ->
  let p := root s in let l := stop_tree t in
  before (IStop p) (X p) l /\ before (X p) (Unreg p) l /\ before (Unreg p) (DelParent p) l /\
  before (DelParent p) (Cancel p) l.
Proof.
  intros Hs p l. destruct (subtree_segment s t Hs) as (l1 & l2 & Heq). subst l. rewrite Heq.
  destruct s as [i ks]. subst p. cbn [root]. rewrite stop_tree_eq. unfold own_events.
  repeat split; apply before_segment.
  - exists (flat_map stop_tree ks), [], [Unreg i; DelParent i; Cancel i]. reflexivity.
  - exists (flat_map stop_tree ks ++ [IStop i]), [], [DelParent i; Cancel i]. rewrite <- app_assoc. reflexivity.
  - exists (flat_map stop_tree ks ++ [IStop i; X i]), [], [Cancel i]. rewrite <- app_assoc. reflexivity.
  - exists (flat_map stop_tree ks ++ [IStop i; X i; Unreg i]), [], []. rewrite <- app_assoc. reflexivity.
Qed.

(** ** With distinct ids every event occurs once, so "before" is unambiguous *)

Lemma NoDup_app_intro {A} (l1 l2 : list A) :
  NoDup l1 -> NoDup l2 -> (forall x, In x l1 -> In x l2 -> False) -> NoDup (l1 ++ l2).
Proof.
  induction l1 as [|a l1 IH]; intros H1 H2 H; cbn; [assumption|].
  inversion H1; subst. constructor.
  - rewrite in_app_iff. intros [Hx|Hx]; [auto|]. eapply H; [left; reflexivity|exact Hx].
  - apply IH; auto. intros x Hx1 Hx2. eapply H; [right; exact Hx1|exact Hx2].
Qed.

Lemma NoDup_app_elim {A} (l1 l2 : list A) :
  NoDup (l1 ++ l2) -> NoDup l1 /\ NoDup l2 /\ (forall x, In x l1 -> In x l2 -> False).
Proof.
  induction l1 as [|a l1 IH]; cbn; intros H.
  - repeat split; [constructor|assumption|tauto].
  - inversion H; subst. destruct (IH H3) as (H1 & H2' & Hd). rewrite in_app_iff in H2.
    repeat split; [constructor; tauto|assumption|].
    intros x [<-|Hx] Hx2; [tauto|eauto].
Qed.

Lemma stop_tree_NoDup t : NoDup (ids t) -> NoDup (stop_tree t).
Proof.
  induction t as [i ks IH] using tree_ind'. rewrite ids_eq, stop_tree_eq. intros Hnd.
  inversion Hnd as [|? ? Hi Hks]; subst.
  apply NoDup_app_intro.
  - clear Hi Hnd. induction ks as [|k ks IHks]; cbn; [constructor|].
    cbn in Hks. apply NoDup_app_elim in Hks as (Hk & Hks & Hdis).
    inversion IH; subst. apply NoDup_app_intro; auto.
    intros e He1 He2. apply events_of_tree in He1 as (d1 & Hd1 & He1).
    apply in_flat_map in He2 as (k' & Hk' & He2). apply events_of_tree in He2 as (d2 & Hd2 & He2).
    assert (d1 = d2) as ->.
    { cbn in He1, He2. intuition (subst; congruence). }
    eapply Hdis; [exact Hd1|]. apply in_flat_map. eauto.
  - unfold own_events. repeat constructor; cbn; intuition congruence.
  - intros e He1 He2. apply in_flat_map in He1 as (k & Hk & He1).
    apply events_of_tree in He1 as (d & Hd & He1). apply Hi.
    assert (d = i) as -> by (cbn in He1, He2; intuition (subst; congruence)).
    apply in_flat_map. eauto.
Qed.

(** * The boolean order predicate *)

Section Index.
  Context {A : Type} (eqb : A -> A -> bool).
  Hypothesis eqb_spec : forall a b, eqb a b = true <-> a = b.

  Lemma index_of_none a l : ~ In a l -> index_of eqb a l = None.
  Proof.
    induction l as [|b l IH]; cbn; [reflexivity|]. intros H.
    destruct (eqb a b) eqn:E; [apply eqb_spec in E; subst; tauto|].
    rewrite IH; tauto.
  Qed.

  Lemma index_of_here a l1 l2 : ~ In a l1 -> index_of eqb a (l1 ++ a :: l2) = Some (length l1).
  Proof.
    induction l1 as [|b l1 IH]; cbn; intros H.
    - assert (eqb a a = true) as -> by (apply eqb_spec; reflexivity). reflexivity.
    - destruct (eqb a b) eqn:E; [apply eqb_spec in E; subst; tauto|].
      rewrite IH; tauto.
  Qed.

  Lemma index_of_some a l i : index_of eqb a l = Some i ->
    exists l1 l2, l = l1 ++ a :: l2 /\ length l1 = i /\ ~ In a l1.
  Proof.
    revert i. induction l as [|b l IH]; cbn; [discriminate|]. intros i.
    destruct (eqb a b) eqn:E.
    - apply eqb_spec in E. subst. intros [= <-]. exists [], l. cbn. tauto.
    - destruct (index_of eqb a l) as [j|]; [|discriminate]. intros [= <-].
      destruct (IH j eq_refl) as (l1 & l2 & -> & <- & Hn). exists (b :: l1), l2. cbn.
      repeat split; auto. intros [Hb|H]; [subst b|tauto].
      assert (eqb a a = true) by (apply eqb_spec; reflexivity). congruence.
  Qed.

  Lemma before_precedes a b l : NoDup l -> before a b l -> precedes eqb a b l = true.
  Proof.
    intros Hnd (l1 & l2 & l3 & ->). unfold precedes.
    assert (Ha : ~ In a l1).
    { apply NoDup_app_elim in Hnd as (_ & _ & H). intros Hin. eapply H; [exact Hin|left; reflexivity]. }
    rewrite index_of_here by exact Ha.
    replace (l1 ++ a :: l2 ++ b :: l3) with ((l1 ++ a :: l2) ++ b :: l3) in * by (rewrite <- app_assoc; reflexivity).
    assert (Hb : ~ In b (l1 ++ a :: l2)).
    { apply NoDup_app_elim in Hnd as (_ & _ & H). intros Hin. eapply H; [exact Hin|left; reflexivity]. }
    rewrite index_of_here by exact Hb. apply Nat.ltb_lt. rewrite app_length. cbn. lia.
  Qed.

  Lemma precedes_before a b l : precedes eqb a b l = true -> before a b l.
  Proof.
    unfold precedes. destruct (index_of eqb a l) as [i|] eqn:Ea; [|discriminate].
    destruct (index_of eqb b l) as [j|] eqn:Eb; [|discriminate]. intros Hlt. apply Nat.ltb_lt in Hlt.
    apply index_of_some in Ea as (l1 & l2 & -> & <- & Hna).
    apply index_of_some in Eb as (m1 & m2 & Heq & Hlen & Hnb).
    (* b's first occurrence is beyond l1 ++ [a] *)
    subst j.
    assert (exists m, m1 = l1 ++ a :: m) as (m & ->).
    { clear Hnb Hna. revert m1 Heq Hlt. induction l1 as [|c l1 IH]; cbn; intros m1 Heq Hlt.
      - destruct m1 as [|c m1]; cbn in *; [lia|]. injection Heq as <- _. eauto.
      - destruct m1 as [|c' m1]; cbn in *; [lia|]. injection Heq as <- Heq.
        destruct (IH m1 Heq ltac:(lia)) as (m & ->). eauto. }
    rewrite <- app_assoc in Heq. cbn in Heq. apply app_inv_head in Heq. injection Heq as ->.
    exists l1, m, m2. reflexivity.
  Qed.
End Index.

Lemma tev_eqb_spec a b : tev_eqb a b = true <-> a = b.
Proof.
  destruct a, b; cbn; try (split; [discriminate|congruence]);
    rewrite Nat.eqb_eq; split; congruence.
Qed.
Lemma oev_eqb_spec a b : oev_eqb a b = true <-> a = b.
Proof.
  destruct a, b; cbn; try (split; [discriminate|congruence]);
    rewrite Nat.eqb_eq; split; congruence.
Qed.

Lemma xevents_app l1 l2 : xevents (l1 ++ l2) = xevents l1 ++ xevents l2.
Proof.
  induction l1 as [|e l1 IH]; cbn; [reflexivity|]. destruct e; cbn; rewrite ?IH; reflexivity.
Qed.

Lemma xevents_in o l : In o (xevents l) -> exists i, In (X i) l /\ (o = EXB i \/ o = EXE i).
Proof.
  induction l as [|e l IH]; cbn; [tauto|].
  destruct e; cbn; try (intros H; destruct (IH H) as (j & ? & ?); eauto).
  intros [<-|[<-|H]]; eauto. destruct (IH H) as (j & ? & ?); eauto.
Qed.

Lemma xevents_NoDup l : NoDup l -> NoDup (xevents l).
Proof.
  induction l as [|e l IH]; cbn; [constructor|]. intros Hnd. inversion Hnd; subst.
  destruct e; auto. constructor; [|constructor]; auto.
  - cbn. intros [?|Hin]; [discriminate|]. apply xevents_in in Hin as (j & Hj & [[= <-]|?]); [tauto|discriminate].
  - intros Hin. apply xevents_in in Hin as (j & Hj & [?|[= <-]]); [discriminate|tauto].
Qed.

Lemma xevents_before d p l : before (X d) (X p) l -> before (EXE d) (EXB p) (xevents l).
Proof.
  intros (l1 & l2 & l3 & ->). rewrite xevents_app. cbn. rewrite xevents_app. cbn.
  exists (xevents l1 ++ [EXB d]), (xevents l2), (EXE p :: xevents l3). rewrite <- app_assoc. reflexivity.
Qed.

(* the order predicate that the check evaluates on the implementation's
   observation is true of the model's own order *)
Theorem order_ok_of_model t : NoDup (ids t) -> order_ok t (xevents (stop_tree t)) = true.
Proof.
  intros Hnd. unfold order_ok. apply forallb_forall. intros s Hs. apply subtrees_subtree in Hs.
  apply orb_true_iff. right. apply forallb_forall. intros d Hd.
  apply (before_precedes _ oev_eqb_spec).
  - apply xevents_NoDup, stop_tree_NoDup, Hnd.
  - apply xevents_before. apply (children_first t s d Hs Hd).
Qed.

(* conversely, a true verdict of the predicate means what it says *)
Lemma order_ok_sound t evs s d :
  order_ok t evs = true -> subtree s t -> In d (desc s) -> In (EXB (root s)) evs ->
  before (EXE d) (EXB (root s)) evs.
Proof.
  unfold order_ok. rewrite forallb_forall. intros H Hs Hd Hin. apply subtrees_subtree in Hs.
  specialize (H s Hs). apply orb_true_iff in H as [H|H].
  - apply negb_true_iff in H. exfalso. apply not_true_iff_false in H. apply H.
    apply existsb_exists. exists (EXB (root s)). split; [exact Hin|]. apply oev_eqb_spec. reflexivity.
  - rewrite forallb_forall in H. apply (precedes_before _ oev_eqb_spec). auto.
Qed.

(** * The children map (Tree.v (ii)) *)

Lemma brun_snoc h o : brun (h ++ [o]) = bstep (brun h) o.
Proof. unfold brun. rewrite fold_left_app. reflexivity. Qed.
Lemma srun_snoc h o : srun (h ++ [o]) = sstep (srun h) o.
Proof. unfold srun. rewrite fold_left_app. reflexivity. Qed.

Lemma hist_fresh_app s h1 h2 :
  hist_fresh s (h1 ++ h2) <-> hist_fresh s h1 /\ hist_fresh (fold_left sstep h1 s) h2.
Proof.
  revert s. induction h1 as [|o h1 IH]; intros s; cbn; [tauto|]. rewrite IH. tauto.
Qed.

Lemma hist_freshb_spec s h : hist_freshb s h = true <-> hist_fresh s h.
Proof.
  revert s. induction h as [|o h IH]; intros s; cbn; [tauto|].
  rewrite andb_true_iff, IH.
  assert (Hm : forall x l, memb x l = true <-> In x l).
  { intros x l. unfold memb. rewrite existsb_exists. split.
    - intros (y & Hy & E). apply Nat.eqb_eq in E. subst. exact Hy.
    - intros H. exists x. split; [exact H|apply Nat.eqb_refl]. }
  assert (Hn : forall x l, negb (memb x l) = true <-> ~ In x l).
  { intros x l. rewrite negb_true_iff, <- not_true_iff_false, Hm. tauto. }
  destruct o; cbn; rewrite ?andb_true_iff, ?Hn, ?Hm; tauto.
Qed.

Lemma memb_In x l : memb x l = true <-> In x l.
Proof.
  unfold memb. rewrite existsb_exists. split.
  - intros (y & Hy & E). apply Nat.eqb_eq in E. subst. exact Hy.
  - intros H. exists x. split; [exact H|apply Nat.eqb_refl].
Qed.

Lemma set_add_In c x l : In x (set_add c l) <-> x = c \/ In x l.
Proof.
  unfold set_add. destruct (memb c l) eqn:E.
  - apply memb_In in E. split; [tauto|]. intros [->|H]; assumption.
  - rewrite in_app_iff. cbn. intuition.
Qed.
Lemma set_del_In c x l : In x (set_del c l) <-> x <> c /\ In x l.
Proof.
  unfold set_del. rewrite filter_In, negb_true_iff, Nat.eqb_neq. tauto.
Qed.
Lemma set_add_NoDup c l : NoDup l -> NoDup (set_add c l).
Proof.
  unfold set_add. destruct (memb c l) eqn:E; [auto|]. intros H.
  apply NoDup_app_intro; [assumption|repeat constructor; cbn; tauto|].
  intros x Hx [<-|[]]. apply memb_In in Hx. congruence.
Qed.
Lemma set_del_NoDup c l : NoDup l -> NoDup (set_del c l).
Proof. apply NoDup_filter. Qed.

(* the invariant that ties the machine to the specification *)
Record binv (s : bstate) (sp : sstate) : Prop := {
  bi_alive : forall i, In i (s_alive sp) <-> exists cx, b_reg s i = Some cx;
  bi_ctx : forall i cx, b_reg s i = Some cx -> cx < b_next s /\ b_pid s cx = i;
  bi_parlt : forall i cx pc, b_reg s i = Some cx -> b_par s cx = Some pc -> pc < b_next s;
  bi_kids : forall p pc, b_reg s p = Some pc -> forall c, In c (b_kids s pc) <-> In (p, c) (s_rel sp);
  bi_nodup : forall p pc, b_reg s p = Some pc -> NoDup (b_kids s pc);
  bi_rel : forall p c, In (p, c) (s_rel sp) ->
             exists pc cc, b_reg s p = Some pc /\ b_reg s c = Some cc /\ b_par s cc = Some pc;
  bi_par : forall c cc, b_reg s c = Some cc ->
             forall p, In (c, p) (s_par sp) <-> exists pc, b_par s cc = Some pc /\ b_pid s pc = p;
  bi_par_alive : forall c p, In (c, p) (s_par sp) -> In c (s_alive sp) }.

Lemma binv_init : binv b_init s_init.
Proof.
  constructor; cbn; try discriminate; try tauto.
  intros i. split; [tauto|]. intros (cx & H). discriminate.
Qed.

Ltac upd_cases :=
  repeat match goal with
  | H : context [upd _ ?k _ ?x] |- _ => unfold upd in H; destruct (Nat.eqb_spec x k); subst
  | |- context [upd _ ?k _ ?x] => unfold upd; destruct (Nat.eqb_spec x k); subst
  end.

Lemma binv_step s sp o : binv s sp -> op_fresh sp o -> binv (bstep s o) (sstep sp o).
Proof.
  intros [Ha Hc Hpl Hk Hnd Hr Hp Hpa] Hf. destruct o as [i|p c|c]; cbn in Hf.
  - (* Spawn of a fresh id *)
    assert (Hi : b_reg s i = None).
    { destruct (b_reg s i) eqn:E; [|reflexivity]. exfalso. apply Hf, Ha. eauto. }
    cbn. rewrite Hi. constructor; cbn.
    + intros j. rewrite in_app_iff, Ha. cbn. unfold upd. destruct (Nat.eqb_spec j i); subst.
      * split; eauto.
      * split; [intros [H|[H|[]]]; [exact H|congruence]|tauto].
    + intros j cx. unfold upd. destruct (Nat.eqb_spec j i); subst.
      * intros [= <-]. rewrite Nat.eqb_refl. split; [lia|reflexivity].
      * intros H. destruct (Hc j cx H) as [Hlt Hpid]. split; [lia|].
        destruct (Nat.eqb_spec cx (b_next s)); [lia|assumption].
    + intros j cx pc. unfold upd. destruct (Nat.eqb_spec j i); subst.
      * intros [= <-]. rewrite Nat.eqb_refl. discriminate.
      * intros H. destruct (Hc j cx H) as [Hlt _]. destruct (Nat.eqb_spec cx (b_next s)); [lia|].
        intros H2. specialize (Hpl j cx pc H H2). lia.
    + intros p pc. unfold upd at 1. destruct (Nat.eqb_spec p i); subst.
      * intros [= <-] c. unfold upd. rewrite Nat.eqb_refl. cbn. split; [tauto|].
        intros H. apply Hr in H as (pc & cc & H1 & _). congruence.
      * intros H c. destruct (Hc p pc H) as [Hlt _]. unfold upd.
        destruct (Nat.eqb_spec pc (b_next s)); [lia|]. apply Hk; assumption.
    + intros p pc. unfold upd at 1. destruct (Nat.eqb_spec p i); subst.
      * intros [= <-]. unfold upd. rewrite Nat.eqb_refl. constructor.
      * intros H. destruct (Hc p pc H) as [Hlt _]. unfold upd.
        destruct (Nat.eqb_spec pc (b_next s)); [lia|]. eapply Hnd; eassumption.
    + intros p c H. destruct (Hr p c H) as (pc & cc & H1 & H2 & H3).
      exists pc, cc. unfold upd.
      destruct (Nat.eqb_spec p i); [congruence|]. destruct (Nat.eqb_spec c i); [congruence|].
      destruct (Hc c cc H2) as [Hlt _]. destruct (Nat.eqb_spec cc (b_next s)); [lia|]. auto.
    + intros c cc. unfold upd at 1. destruct (Nat.eqb_spec c i); subst.
      * intros [= <-] p. unfold upd. rewrite Nat.eqb_refl. split.
        -- intros H. apply Hpa in H. tauto.
        -- intros (pc & H & _). discriminate.
      * intros H p. destruct (Hc c cc H) as [Hlt _]. unfold upd at 1.
        destruct (Nat.eqb_spec cc (b_next s)); [lia|]. rewrite (Hp c cc H p).
        split; intros (pc & H1 & H2); exists pc; (split; [exact H1|]);
          specialize (Hpl c cc pc H H1); unfold upd in *; destruct (Nat.eqb_spec pc (b_next s)); try lia; auto.
    + intros c p H. apply in_app_iff. left. eauto.
  - (* SpawnChild of a fresh id by a live actor *)
    destruct Hf as [Hpalive Hcf].
    apply Ha in Hpalive as (pc & Hpc).
    assert (Hi : b_reg s c = None).
    { destruct (b_reg s c) eqn:E; [|reflexivity]. exfalso. apply Hcf, Ha. eauto. }
    assert (Hpcn : p <> c) by congruence.
    assert (Hpclt : pc < b_next s) by apply (Hc p pc Hpc).
    cbn. rewrite Hpc, Hi. constructor; cbn.
    + intros j. rewrite in_app_iff, Ha. cbn. unfold upd. destruct (Nat.eqb_spec j c); subst.
      * split; eauto.
      * split; [intros [H|[H|[]]]; [exact H|congruence]|tauto].
    + intros j cx. unfold upd. destruct (Nat.eqb_spec j c); subst.
      * intros [= <-]. rewrite Nat.eqb_refl. split; [lia|reflexivity].
      * intros H. destruct (Hc j cx H) as [Hlt Hpid]. split; [lia|].
        destruct (Nat.eqb_spec cx (b_next s)); [lia|assumption].
    + intros j cx pc'. unfold upd. destruct (Nat.eqb_spec j c); subst.
      * intros [= <-]. rewrite Nat.eqb_refl. intros [= <-]. lia.
      * intros H. destruct (Hc j cx H) as [Hlt _]. destruct (Nat.eqb_spec cx (b_next s)); [lia|].
        intros H2. specialize (Hpl j cx pc' H H2). lia.
    + intros p' pc'. unfold upd at 1. destruct (Nat.eqb_spec p' c); subst.
      * intros [= <-] c'. unfold upd. destruct (Nat.eqb_spec (b_next s) pc); [lia|]. rewrite Nat.eqb_refl. cbn.
        split; [tauto|]. rewrite in_app_iff. cbn. intros [H|[E|[]]]; [|injection E; congruence].
        apply Hr in H as (? & ? & H1 & _). congruence.
      * intros H c'. destruct (Hc p' pc' H) as [Hlt Hpid']. unfold upd.
        destruct (Nat.eqb_spec pc' pc) as [Epc|Epc]; [subst pc'|].
        -- assert (p' = p) as -> by (pose proof (proj2 (Hc p pc Hpc)); congruence).
           rewrite set_add_In, in_app_iff, (Hk p pc Hpc). cbn. split.
           ++ intros [->|H1]; auto.
           ++ intros [H1|[[= <-]|[]]]; auto.
        -- destruct (Nat.eqb_spec pc' (b_next s)); [lia|].
           rewrite in_app_iff, (Hk p' pc' H). cbn. split; [auto|].
           intros [H1|[[= <- <-]|[]]]; [exact H1|congruence].
    + intros p' pc'. unfold upd at 1. destruct (Nat.eqb_spec p' c); subst.
      * intros [= <-]. unfold upd. destruct (Nat.eqb_spec (b_next s) pc); [lia|]. rewrite Nat.eqb_refl. constructor.
      * intros H. destruct (Hc p' pc' H) as [Hlt _]. unfold upd.
        destruct (Nat.eqb_spec pc' pc); subst; [apply set_add_NoDup; eauto|].
        destruct (Nat.eqb_spec pc' (b_next s)); [lia|]. eauto.
    + intros p' c'. rewrite in_app_iff. cbn. intros [H|[[= <- <-]|[]]].
      * destruct (Hr p' c' H) as (pc' & cc & H1 & H2 & H3). exists pc', cc. unfold upd.
        destruct (Nat.eqb_spec p' c); [congruence|]. destruct (Nat.eqb_spec c' c); [congruence|].
        destruct (Hc c' cc H2) as [Hlt _]. destruct (Nat.eqb_spec cc (b_next s)); [lia|]. auto.
      * exists pc, (b_next s). unfold upd. destruct (Nat.eqb_spec p c); [congruence|].
        rewrite !Nat.eqb_refl. auto.
    + intros c' cc. unfold upd at 1. destruct (Nat.eqb_spec c' c); subst.
      * intros [= <-] p'. unfold upd. rewrite Nat.eqb_refl. rewrite in_app_iff. cbn.
        destruct (Nat.eqb_spec pc (b_next s)); [lia|]. split.
        -- intros [H|[[= <-]|[]]]; [apply Hpa in H; tauto|]. exists pc. split; [reflexivity|].
           destruct (Nat.eqb_spec pc (b_next s)); [lia|]. apply (Hc p pc Hpc).
        -- intros (pc' & [= <-] & <-). right. left. f_equal.
           destruct (Nat.eqb_spec pc (b_next s)); [lia|]. symmetry. apply (Hc p pc Hpc).
      * intros H p'. destruct (Hc c' cc H) as [Hlt _]. unfold upd at 1.
        destruct (Nat.eqb_spec cc (b_next s)); [lia|]. rewrite in_app_iff. cbn. rewrite (Hp c' cc H p').
        split.
        -- intros [(pc' & H1 & H2)|[[= <- _]|[]]]; [|congruence]. exists pc'. split; [exact H1|].
           specialize (Hpl c' cc pc' H H1). unfold upd. destruct (Nat.eqb_spec pc' (b_next s)); [lia|auto].
        -- intros (pc' & H1 & H2). left. exists pc'. split; [exact H1|].
           specialize (Hpl c' cc pc' H H1). unfold upd in H2. destruct (Nat.eqb_spec pc' (b_next s)); [lia|auto].
    + intros c' p'. rewrite !in_app_iff. cbn. intros [H|[[= <- _]|[]]]; eauto.
  - (* a live actor has stopped *)
    apply Ha in Hf as (cx & Hcx). cbn. rewrite Hcx.
    assert (Hkids : forall p pc, p <> c -> b_reg s p = Some pc -> forall c',
      In c' (match b_par s cx with Some pc0 => upd (b_kids s) pc0 (set_del c (b_kids s pc0)) | None => b_kids s end pc)
      <-> c' <> c /\ In (p, c') (s_rel sp)).
    { intros p pc Hne Hpc c'. destruct (b_par s cx) as [pc0|] eqn:Epar.
      - unfold upd. destruct (Nat.eqb_spec pc pc0); subst.
        + rewrite set_del_In, (Hk p pc0 Hpc). tauto.
        + rewrite (Hk p pc Hpc). split; [|tauto]. intros H. split; [|exact H]. intros ->.
          apply Hr in H as (pc' & cc & H1 & H2 & H3). congruence.
      - rewrite (Hk p pc Hpc). split; [|tauto]. intros H. split; [|exact H]. intros ->.
        apply Hr in H as (pc' & cc & H1 & H2 & H3). congruence. }
    constructor; cbn.
    + intros j. rewrite set_del_In, Ha. unfold upd. destruct (Nat.eqb_spec j c); subst.
      * split; [tauto|]. intros (? & ?). discriminate.
      * tauto.
    + intros j cx'. unfold upd. destruct (Nat.eqb_spec j c); [discriminate|]. apply Hc.
    + intros j cx' pc. unfold upd. destruct (Nat.eqb_spec j c); [discriminate|]. apply Hpl.
    + intros p pc. unfold upd at 1. destruct (Nat.eqb_spec p c); [discriminate|]. intros H c'.
      rewrite (Hkids p pc n H c'), filter_In. cbn. rewrite andb_true_iff, !negb_true_iff, !Nat.eqb_neq. tauto.
    + intros p pc. unfold upd at 1. destruct (Nat.eqb_spec p c); [discriminate|]. intros H.
      destruct (b_par s cx) as [pc0|]; [|eauto]. unfold upd.
      destruct (Nat.eqb_spec pc pc0); subst; [apply set_del_NoDup|]; eauto.
    + intros p c'. rewrite filter_In. cbn. rewrite andb_true_iff, !negb_true_iff, !Nat.eqb_neq.
      intros (H & Hn1 & Hn2). destruct (Hr p c' H) as (pc & cc & H1 & H2 & H3). exists pc, cc. unfold upd.
      destruct (Nat.eqb_spec p c); [congruence|]. destruct (Nat.eqb_spec c' c); [congruence|]. auto.
    + intros c' cc. unfold upd at 1. destruct (Nat.eqb_spec c' c); [discriminate|]. intros H p.
      rewrite filter_In. cbn. rewrite negb_true_iff, Nat.eqb_neq, (Hp c' cc H p). tauto.
    + intros c' p. rewrite filter_In, set_del_In. cbn. rewrite negb_true_iff, Nat.eqb_neq. intros [H Hn]. eauto.
Qed.

Lemma binv_run h : hist_fresh s_init h -> binv (brun h) (srun h).
Proof.
  induction h as [|o h IH] using rev_ind; intros Hf; [apply binv_init|].
  apply hist_fresh_app in Hf as [Hf1 Hf2]. cbn in Hf2.
  rewrite brun_snoc, srun_snoc. apply binv_step; [auto|]. apply Hf2.
Qed.

(* what the specification says, in terms of the history alone *)
Lemma spec_children_In sp p c : In c (spec_children sp p) <-> In (p, c) (s_rel sp).
Proof.
  unfold spec_children. rewrite in_map_iff. split.
  - intros ([p' c'] & <- & H). apply filter_In in H as [H E]. cbn in E. apply Nat.eqb_eq in E. subst. exact H.
  - intros H. exists (p, c). split; [reflexivity|]. apply filter_In. split; [exact H|apply Nat.eqb_refl].
Qed.

Lemma s_rel_history h p c :
  In (p, c) (s_rel (srun h)) <->
  exists h1 h2, h = h1 ++ BSpawnChild p c :: h2 /\ ~ In (BStopped c) h2 /\ ~ In (BStopped p) h2.
Proof.
  induction h as [|o h IH] using rev_ind.
  - cbn. split; [tauto|]. intros (h1 & h2 & H & _). destruct h1; discriminate.
  - rewrite srun_snoc. split.
    + destruct o as [i|p' c'|c']; cbn.
      * intros H. apply IH in H as (h1 & h2 & -> & H1 & H2). exists h1, (h2 ++ [BSpawnTop i]).
        rewrite <- app_assoc. split; [reflexivity|]. rewrite !in_app_iff. cbn. intuition congruence.
      * rewrite in_app_iff. cbn. intros [H|[[= -> ->]|[]]].
        -- apply IH in H as (h1 & h2 & -> & H1 & H2). exists h1, (h2 ++ [BSpawnChild p' c']).
           rewrite <- app_assoc. split; [reflexivity|]. rewrite !in_app_iff. cbn. intuition congruence.
        -- exists h, []. cbn. tauto.
      * rewrite filter_In. cbn. rewrite andb_true_iff, !negb_true_iff, !Nat.eqb_neq. intros (H & Hn1 & Hn2).
        apply IH in H as (h1 & h2 & -> & H1 & H2). exists h1, (h2 ++ [BStopped c']).
        rewrite <- app_assoc. split; [reflexivity|]. rewrite !in_app_iff. cbn. intuition congruence.
    + intros (h1 & h2 & Heq & H1 & H2). destruct h2 as [|o' h2 _] using rev_ind.
      * apply app_inj_tail in Heq as [-> ->]. cbn. apply in_app_iff. right. left. reflexivity.
      * rewrite app_comm_cons, app_assoc in Heq. apply app_inj_tail in Heq as [-> ->].
        rewrite in_app_iff in H1, H2. cbn in H1, H2.
        assert (Hin : In (p, c) (s_rel (srun (h1 ++ BSpawnChild p c :: h2)))).
        { apply IH. exists h1, h2. tauto. }
        destruct o' as [i|p' c'|c']; cbn.
        -- exact Hin.
        -- apply in_app_iff. tauto.
        -- apply filter_In. split; [exact Hin|]. cbn. rewrite andb_true_iff, !negb_true_iff, !Nat.eqb_neq.
           split; intros ->; tauto.
Qed.

(** ** [C08_children_listing] *)
Theorem children_listing h :
  hist_fresh s_init h ->
  forall p, In p (s_alive (srun h)) ->
    NoDup (children (brun h) p) /\
    forall c, In c (children (brun h) p) <->
              exists h1 h2, h = h1 ++ BSpawnChild p c :: h2 /\ ~ In (BStopped c) h2 /\ ~ In (BStopped p) h2.
Proof.
  intros Hf p Hp. pose proof (binv_run h Hf) as I. apply (bi_alive _ _ I) in Hp as (pc & Hpc).
  unfold children. rewrite Hpc. split; [eapply bi_nodup; eassumption|].
  intros c. rewrite (bi_kids _ _ I p pc Hpc). apply s_rel_history.
Qed.

(* the form used by the executable check *)
Lemma children_spec h p :
  hist_fresh s_init h -> In p (s_alive (srun h)) ->
  forall c, In c (children (brun h) p) <-> In c (spec_children (srun h) p).
Proof.
  intros Hf Hp c. pose proof (binv_run h Hf) as I. apply (bi_alive _ _ I) in Hp as (pc & Hpc).
  unfold children. rewrite Hpc, spec_children_In. eapply bi_kids; eassumption.
Qed.

Lemma s_par_history h c p :
  In (c, p) (s_par (srun h)) <->
  exists h1 h2, h = h1 ++ BSpawnChild p c :: h2 /\ ~ In (BStopped c) h2.
Proof.
  induction h as [|o h IH] using rev_ind.
  - cbn. split; [tauto|]. intros (h1 & h2 & H & _). destruct h1; discriminate.
  - rewrite srun_snoc. split.
    + destruct o as [i|p' c'|c']; cbn.
      * intros H. apply IH in H as (h1 & h2 & -> & H1). exists h1, (h2 ++ [BSpawnTop i]).
        rewrite <- app_assoc. split; [reflexivity|]. rewrite !in_app_iff. cbn. intuition congruence.
      * rewrite in_app_iff. cbn. intros [H|[[= -> ->]|[]]].
        -- apply IH in H as (h1 & h2 & -> & H1). exists h1, (h2 ++ [BSpawnChild p' c']).
           rewrite <- app_assoc. split; [reflexivity|]. rewrite !in_app_iff. cbn. intuition congruence.
        -- exists h, []. cbn. tauto.
      * rewrite filter_In. cbn. rewrite negb_true_iff, Nat.eqb_neq. intros (H & Hn1).
        apply IH in H as (h1 & h2 & -> & H1). exists h1, (h2 ++ [BStopped c']).
        rewrite <- app_assoc. split; [reflexivity|]. rewrite !in_app_iff. cbn. intuition congruence.
    + intros (h1 & h2 & Heq & H1). destruct h2 as [|o' h2 _] using rev_ind.
      * apply app_inj_tail in Heq as [-> ->]. cbn. apply in_app_iff. right. left. reflexivity.
      * rewrite app_comm_cons, app_assoc in Heq. apply app_inj_tail in Heq as [-> ->].
        rewrite in_app_iff in H1. cbn in H1.
        assert (Hin : In (c, p) (s_par (srun (h1 ++ BSpawnChild p c :: h2)))).
        { apply IH. exists h1, h2. tauto. }
        destruct o' as [i|p' c'|c']; cbn.
        -- exact Hin.
        -- apply in_app_iff. tauto.
        -- apply filter_In. split; [exact Hin|]. cbn. rewrite negb_true_iff, Nat.eqb_neq. intros ->; tauto.
Qed.

(** ** [C08_parent]: Parent() names the actor whose SpawnChild created the
    caller, for as long as the caller lives (None for a top-level actor) *)
Theorem parent_names_spawner h :
  hist_fresh s_init h ->
  forall c, In c (s_alive (srun h)) ->
  forall p, parent (brun h) c = Some p <->
            exists h1 h2, h = h1 ++ BSpawnChild p c :: h2 /\ ~ In (BStopped c) h2.
Proof.
  intros Hf c Hc p. pose proof (binv_run h Hf) as I. apply (bi_alive _ _ I) in Hc as (cc & Hcc).
  rewrite <- s_par_history, (bi_par _ _ I c cc Hcc p). unfold parent. rewrite Hcc.
  destruct (b_par (brun h) cc) as [pc|]; cbn.
  - split; [intros [= <-]; eauto|]. intros (pc' & [= <-] & <-). reflexivity.
  - split; [discriminate|]. intros (? & ? & _). discriminate.
Qed.

(** ** Restarts: the Context, and with it the children map, outlives the
    incarnation, so a restart marker anywhere in the history changes nothing *)
Lemma ops_of_app h1 h2 : ops_of (h1 ++ h2) = ops_of h1 ++ ops_of h2.
Proof. unfold ops_of. apply flat_map_app. Qed.

Lemma hrun_restart h1 n h2 : hrun (h1 ++ HRestart n :: h2) = hrun (h1 ++ h2).
Proof. unfold hrun. rewrite !ops_of_app. reflexivity. Qed.

Theorem restart_keeps_children h1 n h2 :
  hist_fresh s_init (ops_of (h1 ++ h2)) ->
  forall p, In p (s_alive (srun (ops_of (h1 ++ h2)))) ->
    NoDup (children (hrun (h1 ++ HRestart n :: h2)) p) /\
    (forall c, In c (children (hrun (h1 ++ HRestart n :: h2)) p) <->
               exists o1 o2, ops_of (h1 ++ h2) = o1 ++ BSpawnChild p c :: o2 /\
                             ~ In (BStopped c) o2 /\ ~ In (BStopped p) o2) /\
    parent (hrun (h1 ++ HRestart n :: h2)) p = parent (hrun (h1 ++ h2)) p.
Proof.
  intros Hf p Hp. rewrite hrun_restart. unfold hrun.
  destruct (children_listing _ Hf p Hp) as [H1 H2]. repeat split; auto; apply H2.
Qed.

(** ** SpawnChild under an id that is taken.  Since D21 it changes nothing: the
    incumbent is not recorded in the caller's map.  Before (children.Set was
    unconditional) the incumbent was adopted: listed by the caller although
    no child was started, not knowing the caller as its parent, and listed
    still after it had stopped. *)
Lemma duplicate_spawn_noop :
  let h := [BSpawnTop 1; BSpawnTop 5; BSpawnChild 1 5] in
  ~ hist_fresh s_init h /\
  children (brun h) 1 = [] /\ parent (brun h) 5 = None /\
  children (brun (h ++ [BStopped 5])) 1 = [].
Proof.
  split; [|vm_compute; auto]. cbn. intros (_ & _ & (_ & H) & _). apply H. auto.
Qed.

Lemma adoption_witness :
  let h := [BSpawnTop 1; BSpawnTop 5; BSpawnChild 1 5] in
  children (brun_pinned h) 1 = [5] /\ parent (brun_pinned h) 5 = None /\
  children (brun_pinned (h ++ [BStopped 5])) 1 = [5] /\ b_reg (brun_pinned (h ++ [BStopped 5])) 5 = None.
Proof. vm_compute. auto. Qed.

(** the "signalled last" predicate holds of the model's run too: the stop
    context of the poisoned actor is done after every actor of the tree has
    left its Stopped handler *)
Lemma find_sub_root t : find_sub t (root t) = Some t.
Proof. destruct t as [i ks]. unfold find_sub. rewrite subtrees_eq. cbn. rewrite Nat.eqb_refl. reflexivity. Qed.

Lemma xevents_X_in d l : In (X d) l -> In (EXE d) (xevents l).
Proof.
  induction l as [|e l IH]; cbn; [tauto|]. intros [->|H]; [cbn; auto|].
  destruct e; cbn; auto.
Qed.

Theorem done_ok_of_model t k :
  NoDup (ids t) -> done_ok t (root t) k (xevents (stop_tree t) ++ [EDone k]) = true.
Proof.
  intros Hnd. unfold done_ok. apply orb_true_iff. right. unfold closure. rewrite find_sub_root.
  apply forallb_forall. intros d Hd. apply (before_precedes _ oev_eqb_spec).
  - apply NoDup_app_intro.
    + apply xevents_NoDup, stop_tree_NoDup, Hnd.
    + repeat constructor. cbn. tauto.
    + intros x Hx [<-|[]]. apply xevents_in in Hx as (i & _ & [H|H]); discriminate.
  - assert (Hin : In (EXE d) (xevents (stop_tree t))).
    { apply xevents_X_in. apply (desc_stopped t d Hd). cbn. auto. }
    apply in_split in Hin as (l1 & l2 & ->). exists l1, l2, []. rewrite <- app_assoc. reflexivity.
Qed.
