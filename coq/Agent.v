(** L5 — model of the membership part of cluster/agent.go (one node's agent):
    [handleMembers], [MemberSet.Except], [memberJoin], [memberLeave],
    [rebuildKinds] (cluster/agent.go:203-265,291-301; member_set.go).

    Definitions only: this file must keep compiling and running when a proof
    breaks.  Proofs are in AgentProofs.v.

    Identifiers (member ids, hosts, kind names) are interned to [nat] by the
    harness.  A [MemberSet] (Go: map[string]*Member keyed by member.ID) is a
    [gmap nat member]; Go's map iteration order is replaced by std++'s
    canonical order — [handle_members_order_irrelevant] (AgentProofs) shows
    that the resulting state and the multiset of events do not depend on it. *)
From stdpp Require Import gmap list sorting.

Record member := { mid : nat; mhost : nat; mkinds : list nat }.
Global Instance member_eq_dec : EqDecision member.
Proof. solve_decision. Defined.

Inductive event := Join (m : member) | Leave (m : member).
Global Instance event_eq_dec : EqDecision event.
Proof. solve_decision. Defined.

(* Agent{members, kinds}: the view and the cluster-wide kind index *)
Record astate := { members : gmap nat member; kinds : gset nat }.

Definition kset (m : member) : gset nat := list_to_set (mkinds m).

(* s.members[member.ID] = member for each, in order: a later entry with the
   same id overwrites an earlier one  (NewMemberSet, and the local map [m] of
   Except) *)
Definition insert_all (acc : gmap nat member) (l : list member) : gmap nat member :=
  foldl (λ acc m, <[mid m := m]> acc) acc l.
Definition member_set (l : list member) : gmap nat member := insert_all ∅ l.

(* MemberSet.Slice *)
Definition slice (s : gmap nat member) : list member := (map_to_list s).*2.

(* s.Except(l): the members of s whose ID is not the ID of an element of l *)
Definition except (s : gmap nat member) (l : list member) : list member :=
  let m := member_set l in
  slice (filter (λ kv, m !! mid kv.2 = None) s).

(* rebuildKinds: clear, then every kind of every member *)
Definition kinds_of (s : gmap nat member) : gset nat := ⋃ (kset <$> slice s).

(* memberJoin: members.Add(member); every kind of the member is added to
   [kinds]; MemberJoinEvent{member} *)
Definition member_join (a : astate) (m : member) : astate :=
  {| members := <[mid m := m]> (members a); kinds := kset m ∪ kinds a |}.

(* memberLeave: members.Remove(member); rebuildKinds(); MemberLeaveEvent{member} *)
Definition member_leave (a : astate) (m : member) : astate :=
  let ms := delete (mid m) (members a) in
  {| members := ms; kinds := kinds_of ms |}.

(* the two loops of handleMembers, for given iteration orders *)
Definition handle_members_ord (a : astate) (js ls : list member) : astate * list event :=
  (foldl member_leave (foldl member_join a js) ls, (Join <$> js) ++ (Leave <$> ls)).

(* joined := NewMemberSet(members...).Except(a.members.Slice())
   left   := a.members.Except(members) *)
Definition joined (a : astate) (snap : list member) : list member :=
  except (member_set snap) (slice (members a)).
Definition left_ (a : astate) (snap : list member) : list member :=
  except (members a) snap.

Definition handle_members (a : astate) (snap : list member) : astate * list event :=
  handle_members_ord a (joined a snap) (left_ a snap).

(* NewAgent: empty view, [kinds] pre-loaded with the node's own kinds *)
Definition init (own : gset nat) : astate := {| members := ∅; kinds := own |}.

(* a history of snapshots: per snapshot (state before, state after, events) *)
Fixpoint run (a : astate) (hist : list (list member)) : list (astate * astate * list event) :=
  match hist with
  | [] => []
  | snap :: hist' =>
      let r := handle_members a snap in (a, r.1, r.2) :: run r.1 hist'
  end.

(* the observables *)
Definition has_kind (k : nat) (a : astate) : bool := bool_decide (k ∈ kinds a).
Definition view_ids (a : astate) : gset nat := dom (members a).
Definition ev_id (e : event) : nat := match e with Join m | Leave m => mid m end.
Definition join_ids (ev : list event) : list nat :=
  omap (λ e, match e with Join m => Some (mid m) | Leave _ => None end) ev.
Definition leave_ids (ev : list event) : list nat :=
  omap (λ e, match e with Leave m => Some (mid m) | Join _ => None end) ev.

(** * Specification *)

(* the entry of a snapshot that counts for an id: the last one *)
Definition entry (snap : list member) (i : nat) : option member :=
  last (filter (λ m, mid m = i) snap).

(* the view after a snapshot: exactly the ids of the snapshot; a member that
   was already in the view keeps the Member value the view held (whatever the
   snapshot says about its host and kinds), a new one gets the snapshot's
   (last) entry *)
Definition spec_view (v : gmap nat member) (snap : list member) : gmap nat member :=
  merge (λ old new, match new with None => None | Some n => Some (default n old) end)
        v (member_set snap).
Definition spec_joined (v : gmap nat member) (snap : list member) : gmap nat member :=
  filter (λ kv, v !! kv.1 = None) (member_set snap).
Definition spec_left (v : gmap nat member) (snap : list member) : gmap nat member :=
  filter (λ kv, member_set snap !! kv.1 = None) v.

(* every member's key is its id (representation invariant of MemberSet) *)
Definition keyed (s : gmap nat member) : Prop := ∀ k m, s !! k = Some m → mid m = k.

(* the kind index says exactly what the view's members advertise *)
Definition kinds_exact (a : astate) : Prop := kinds a = kinds_of (members a).

(* "the snapshot contains the observing node": an entry with the node's id,
   and every entry with that id advertises (at least) the node's own kinds *)
Definition has_self (self : nat) (own : gset nat) (snap : list member) : Prop :=
  (∃ m, m ∈ snap ∧ mid m = self) ∧ ∀ m, m ∈ snap → mid m = self → own ⊆ kset m.

(* a member's advertised kinds are a function of its id throughout the history *)
Definition kinds_stable (K : nat → gset nat) (hist : list (list member)) : Prop :=
  ∀ snap m, snap ∈ hist → m ∈ snap → kset m = K (mid m).

(* what C18 says about one step *)
Definition step_ok (pre post : astate) (ev : list event) (snap : list member) : Prop :=
  (* (a) Members() = the snapshot, by id *)
  view_ids post = list_to_set (mid <$> snap) ∧
  (* (b) at most one event per id; a Join exactly for the ids new to the
     view, a Leave exactly for the ids that dropped out *)
  NoDup (ev_id <$> ev) ∧
  (∀ i, i ∈ join_ids ev ↔ i ∈ mid <$> snap ∧ i ∉ view_ids pre) ∧
  (∀ i, i ∈ leave_ids ev ↔ i ∈ view_ids pre ∧ i ∉ mid <$> snap) ∧
  (* (c) HasKind(k) iff some member of the view lists k *)
  (∀ k, has_kind k post = true ↔ ∃ i m, members post !! i = Some m ∧ k ∈ mkinds m) ∧
  (* which Member values the view and the events hold *)
  (∀ i m, members post !! i = Some m ↔
          (members pre !! i = Some m ∧ i ∈ mid <$> snap) ∨
          (members pre !! i = None ∧ entry snap i = Some m)) ∧
  (∀ m, Join m ∈ ev → entry snap (mid m) = Some m) ∧
  (∀ m, Leave m ∈ ev → members pre !! mid m = Some m).

(** * Observations (what the harness sees after each snapshot) *)
Definition nsort : list nat → list nat := merge_sort Nat.le.
Definition kuniv : list nat := [0; 1; 2].

(* sorted Members() ids; sorted ids of the MemberJoinEvents / MemberLeaveEvents
   published since the previous snapshot; HasKind(k) for k in the universe *)
Record obs := { o_ids : list nat; o_joins : list nat; o_leaves : list nat; o_kinds : list bool }.

Definition model_obs (r : astate * astate * list event) : obs :=
  {| o_ids := nsort (map_to_list (members r.1.2)).*1;
     o_joins := nsort (join_ids r.2);
     o_leaves := nsort (leave_ids r.2);
     o_kinds := (λ k, has_kind k r.1.2) <$> kuniv |}.
Definition model_run (own : list nat) (hist : list (list member)) : list obs :=
  model_obs <$> run (init (list_to_set own)) hist.

(* what the specification predicts *)
Definition spec_obs (v : gmap nat member) (snap : list member) : obs :=
  {| o_ids := nsort (map_to_list (spec_view v snap)).*1;
     o_joins := nsort (map_to_list (spec_joined v snap)).*1;
     o_leaves := nsort (map_to_list (spec_left v snap)).*1;
     o_kinds := (λ k, bool_decide (k ∈ kinds_of (spec_view v snap))) <$> kuniv |}.
Fixpoint spec_run (v : gmap nat member) (hist : list (list member)) : list obs :=
  match hist with
  | [] => []
  | snap :: hist' => spec_obs v snap :: spec_run (spec_view v snap) hist'
  end.

(* clause (c) is claimed only when every snapshot contains the node itself *)
Definition has_selfb (self : nat) (own : gset nat) (snap : list member) : bool :=
  bool_decide (Exists (λ m, mid m = self) snap ∧ Forall (λ m, mid m = self → own ⊆ kset m) snap).

Definition obs_eqb (ck : bool) (a b : obs) : bool :=
  bool_decide (o_ids a = o_ids b) && bool_decide (o_joins a = o_joins b) &&
  bool_decide (o_leaves a = o_leaves b) && (negb ck || bool_decide (o_kinds a = o_kinds b)).

Fixpoint all2 {A} (f : A → A → bool) (l1 l2 : list A) : bool :=
  match l1, l2 with
  | [], [] => true
  | a :: l1', b :: l2' => f a b && all2 f l1' l2'
  | _, _ => false
  end.

(* the C18 predicate on a sequence of observations *)
Definition oracle_on (self : nat) (own : list nat) (hist : list (list member)) (os : list obs) : bool :=
  all2 (obs_eqb (forallb (has_selfb self (list_to_set own)) hist)) (spec_run ∅ hist) os.
