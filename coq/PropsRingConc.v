(** The property theorems of the concurrent part of C14 (ring buffer under
    interleaved Push / Pop / PopN / Len of any number of goroutines).  Nothing
    else lives here: each is closed by [exact <lemma>] and followed by
    [Print Assumptions].

    Reading guide.  [init dflt r0 progs] = one shared ring r0, mutex free, one
    client thread per program (a list of Ring.op).  [reach dflt s0 s] = some
    schedule leads from s0 to s; a step is one scheduling point of the real
    code (call, Lock, AddInt64(len), LoadInt64(len), the yield behind Unlock).
    Ghost fields of a state: [lin s] = the linearization points passed so far,
    in the order they happened, each an [entry] (thread, operation, the result
    the list queue gives there, time); [outs t] = the completed operations of
    thread t, each a [done] (result the client got, time of call, of the
    linearization point, of the return).  [key e] = (e_res e, e_time e),
    [dkey d] = (d_res d, d_lp d); [lin_of i l] = the entries of thread i;
    [remaining t] = the operations of t whose linearization point is still to
    come; [pending t] = result and LP time of an operation past its LP that
    has not returned yet. *)
From stdpp Require Import list list_numbers.
From Coq Require Import ZArith Sorted.
From HV Require Import Ring RingProofs RingConc RingConcProofs.
From HV Require RingConcExec.

(** * C14 — linearizable FIFO queue, for every schedule *)

(* Fresh ring of any capacity >= 1, any number of threads, any programs, any
   schedule, any reachable state: the results recorded at the linearization
   points are those of [run_fifo] on the operations in linearization order;
   the order is that of (strictly increasing) time; per thread, the
   linearized operations are a prefix of its program in program order, the
   client's results are those recorded at the LPs, and every LP lies strictly
   between the operation's call and its return. *)
Theorem C14_linearizable :
  forall (T : Type) (dflt : T) (size : nat) (progs : list (list (op T))) (s : st T),
    1 <= size -> reach dflt (init dflt (new dflt size) progs) s ->
    e_res <$> lin s = run_fifo (e_op <$> lin s) /\
    StronglySorted lt (e_time <$> lin s) /\
    forall i t, thr s !! i = Some t ->
      progs !! i = Some ((e_op <$> lin_of i (lin s)) ++ remaining t) /\
      key <$> lin_of i (lin s) = (dkey <$> outs t) ++ pending t /\
      Forall (fun d => d_inv d < d_lp d /\ d_lp d < d_ret d) (outs t).
Proof.
  intros T dflt size progs s H Hr.
  exact (ring_conc_linearizable dflt (new dflt size) progs s (wf_new dflt size H) Hr).
Qed.
Print Assumptions C14_linearizable.

(* the same from any well-formed ring (e.g. one filled, wrapped and grown by a
   sequential prefix: [prefilled_ok]); the list queue then starts from [abs r0] *)
Theorem C14_linearizable_from :
  forall (T : Type) (dflt : T) (r0 : ring T) (progs : list (list (op T))) (s : st T),
    wf r0 -> reach dflt (init dflt r0 progs) s ->
    e_res <$> lin s = run step_fifo (abs dflt r0) (e_op <$> lin s) /\
    StronglySorted lt (e_time <$> lin s) /\
    forall i t, thr s !! i = Some t ->
      progs !! i = Some ((e_op <$> lin_of i (lin s)) ++ remaining t) /\
      key <$> lin_of i (lin s) = (dkey <$> outs t) ++ pending t /\
      Forall (fun d => d_inv d < d_lp d /\ d_lp d < d_ret d) (outs t).
Proof. exact @ring_conc_linearizable. Qed.
Print Assumptions C14_linearizable_from.

Theorem C14_prefilled_ring_ok :
  forall (T : Type) (dflt : T) (size : nat) (pre : list (op T)), 1 <= size ->
    wf (prefilled dflt size pre) /\ abs dflt (prefilled dflt size pre) = fin [] pre.
Proof. exact @prefilled_ok. Qed.
Print Assumptions C14_prefilled_ring_ok.

(* complete executions: every client got, for every operation of its program,
   exactly the result of the list queue at that operation's linearization point *)
Theorem C14_linearizable_complete :
  forall (T : Type) (dflt : T) (r0 : ring T) (progs : list (list (op T))) (s : st T),
    wf r0 -> reach dflt (init dflt r0 progs) s -> complete s = true ->
    e_res <$> lin s = run step_fifo (abs dflt r0) (e_op <$> lin s) /\
    forall i t, thr s !! i = Some t ->
      progs !! i = Some (e_op <$> lin_of i (lin s)) /\
      key <$> lin_of i (lin s) = dkey <$> outs t.
Proof. exact @ring_conc_linearizable_complete. Qed.
Print Assumptions C14_linearizable_complete.

(* real-time order is respected: an operation that returned before another (of
   any thread) was called is linearized before it *)
Theorem C14_real_time_order :
  forall (T : Type) (dflt : T) (r0 : ring T) (progs : list (list (op T))) (s : st T)
         (i j : nat) (ti tj : thread T) (d1 d2 : done T),
    wf r0 -> reach dflt (init dflt r0 progs) s ->
    thr s !! i = Some ti -> thr s !! j = Some tj -> d1 ∈ outs ti -> d2 ∈ outs tj ->
    d_ret d1 <= d_inv d2 ->
    exists l1 e1 l2 e2 l3, lin s = l1 ++ e1 :: l2 ++ e2 :: l3 /\
      e_tid e1 = i /\ key e1 = dkey d1 /\ e_tid e2 = j /\ key e2 = dkey d2.
Proof. exact @ring_conc_real_time. Qed.
Print Assumptions C14_real_time_order.

(* mutual exclusion *)
Theorem C14_at_most_one_in_critical_section :
  forall (T : Type) (dflt : T) (r0 : ring T) (progs : list (list (op T))) (s : st T)
         (i j : nat) (ti tj : thread T),
    wf r0 -> reach dflt (init dflt r0 progs) s ->
    thr s !! i = Some ti -> thr s !! j = Some tj ->
    crit (pcs ti) = true -> crit (pcs tj) = true -> i = j.
Proof. exact @ring_conc_mutex. Qed.
Print Assumptions C14_at_most_one_in_critical_section.

(* whenever the mutex is free the ring is well-formed (so no index leaves the
   slice: C14_no_out_of_bounds) and holds exactly the abstract queue *)
Theorem C14_free_ring_is_queue :
  forall (T : Type) (dflt : T) (r0 : ring T) (progs : list (list (op T))) (s : st T),
    wf r0 -> reach dflt (init dflt r0 progs) s ->
    lk s = None -> wf (rg s) /\ abs dflt (rg s) = gq s.
Proof. exact @ring_conc_free_abs. Qed.
Print Assumptions C14_free_ring_is_queue.

(* the len field (what Len returns, at any moment) is a count: the length of
   the abstract queue = initial length + pushes - popped elements over the
   operations linearized so far *)
Theorem C14_len_never_negative :
  forall (T : Type) (dflt : T) (r0 : ring T) (progs : list (list (op T))) (s : st T),
    wf r0 -> reach dflt (init dflt r0 progs) s ->
    len (rg s) = length (gq s) /\
    gq s = fin (abs dflt r0) (e_op <$> lin s) /\
    length (abs dflt r0) + pushes (e_op <$> lin s) = popped (e_res <$> lin s) + len (rg s).
Proof. exact @ring_conc_len. Qed.
Print Assumptions C14_len_never_negative.

(* the linearizability oracle that judges the implementation's histories
   (RingConcExec.lin_ok: every operation completed, and some order compatible
   with program order and real-time order makes the list queue return the
   observed results) holds of every complete execution of the model *)
Theorem C14_oracle_sound :
  forall (cap : nat) (pre : list RingConcExec.zop) (progs : list (list RingConcExec.zop))
         (sched : list nat) (s : st Z) (ls : list (label Z)),
    1 <= cap ->
    run_sched 0%Z (init 0%Z (prefilled 0%Z cap pre) progs) sched = Some (s, ls) ->
    complete s = true ->
    RingConcExec.lin_ok pre progs (RingConcExec.model_obs s) = true.
Proof. exact ring_conc_oracle_sound. Qed.
Print Assumptions C14_oracle_sound.
