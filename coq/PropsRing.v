(** The property theorems of the ring layer (C14).  Nothing else lives here: each is closed by
    [exact <lemma>] and followed by [Print Assumptions]. *)
From stdpp Require Import list list_numbers.
From Coq Require Import ZArith.
From HV Require Import Ring RingProofs.

(** * C14 — RingBuffer is an unbounded FIFO queue (sequential semantics; the
      interleaving part is RingConc) *)

(* Every operation sequence on a ring of any initial capacity >= 1 returns
   exactly what the list queue returns: elements come out once, in push
   order, however often the ring grows and wraps. *)
Theorem C14_ring_refines_fifo :
  forall (T : Type) (dflt : T) (size : nat) (ops : list (op T)),
    1 <= size -> run_ring dflt size ops = run_fifo ops.
Proof. exact @ring_refines_fifo. Qed.
Print Assumptions C14_ring_refines_fifo.

(* no reachable state can make an index leave the slice *)
Theorem C14_no_out_of_bounds :
  forall (T : Type) (dflt : T) (size : nat) (ops : list (op T)) (o : op T),
    1 <= size ->
    op_in_bounds (fold_left (fun r o => (step_ring dflt r o).1) ops (new dflt size)) o.
Proof. intros T dflt size ops o H. apply ring_no_oob. exact (reach_wf dflt size ops H). Qed.
Print Assumptions C14_no_out_of_bounds.

(* Len = pushes - popped elements (as an equation over nat: never negative) *)
Theorem C14_len_is_pushes_minus_popped :
  forall (T : Type) (ops : list (op T)),
    pushes ops = popped (run_fifo ops) + length (fold_left (fun q o => (step_fifo q o).1) ops []).
Proof. intros T ops. exact (fifo_len_count [] ops). Qed.
Print Assumptions C14_len_is_pushes_minus_popped.

(* Pop / PopN report false exactly when the queue is empty *)
Theorem C14_pop_false_iff_empty :
  forall (T : Type) (q : list T) (n : nat),
    ((step_fifo q Pop).2 = RPop None <-> q = []) /\ ((step_fifo q (PopN n)).2 = RPopN None <-> q = []).
Proof. exact @fifo_false_iff_empty. Qed.
Print Assumptions C14_pop_false_iff_empty.

(* PopN(n) returns the first min(n, Len) elements and leaves the rest *)
Theorem C14_popN_first_min_n_len :
  forall (T : Type) (q : list T) (n : nat), q <> [] ->
    step_fifo q (PopN n) = (drop (n `min` length q) q, RPopN (Some (take (n `min` length q) q))).
Proof. exact @fifo_popN_prefix. Qed.
Print Assumptions C14_popN_first_min_n_len.
