(** Executable side of the C20 correspondence check: a case is the node
    itself, a history of provider messages and what the implementation showed
    at start-up and after each message. *)
From stdpp Require Import gmap list sorting.
From Coq Require Import Bool.
From HV Require Export Provider.

Record case := { c_self : member; c_hist : list pmsg; c_obs : list pobs }.

(* correspondence: the transcription of SelfManaged.Receive (repaired)
   computes what the implementation showed.  Where several members sit
   behind the reported address, the member GetByHost picks is the one the
   observation shows disappearing ([model_prun_driven]); with at most one
   member per address this is the canonical run [model_prun]. *)
Definition corr (c : case) : bool :=
  all2 pobs_eqb (model_prun_driven (c_self c) (c_hist c) (c_obs c)) (c_obs c).

(* oracle: the implementation's observations are those of the id ↦ address
   reference under the same reading of the choice
   ([poracle_holds_of_model] in ProviderProofs: true of every model run,
   whatever GetByHost chooses) *)
Definition oracle (c : case) : bool := poracle_on (c_self c) (c_hist c) (c_obs c).

(* proof-relevant situations reached, for the evidence histogram:
   1 handshake from a new peer, 2 handshake from a known peer, 3 list that
   adds a member, 4 list that adds nothing, 5 report for a member's address,
   6 report for an address never seen, 7 report for the address of a node
   that is not (or no longer) in the list, 8 known id offered under another
   address (ignored), 9 report for the node's own address, 10 empty list,
   11 report for an address with two or more members behind it, 12 report
   for a shared address (two or more ids of the directory) that is down to
   its last member *)
Definition branches_step (self : member) (dir : list member) (s : pstate) (msg : pmsg) : list nat :=
  let stale m := match s !! mid m with Some x => negb (mhost x =? mhost m) | None => false end in
  match msg with
  | Handshake m _ =>
      (if decide (is_Some (s !! mid m)) then [2] else [1]) ++ (if stale m then [8] else [])
  | MembersMsg l =>
      (if decide (add_members s l = s) then [4] else [3]) ++
      (if existsb stale l then [8] else []) ++ (if decide (l = []) then [10] else [])
  | LeaveAddr a =>
      match get_by_host s a with
      | Some m => [5] ++ (if decide (a = mhost self) then [9] else []) ++
                  (if decide (2 ≤ size (behind a s)) then [11] else
                   if decide (2 ≤ size (member_set (filter (λ x, mhost x = a) dir))) then [12] else [])
      | None => if decide (a ∈ mhost <$> dir) then [7] else [6]
      end
  end.

Fixpoint branches_run (self : member) (dir : list member) (s : pstate) (hist : list pmsg)
    (os : list pobs) : list nat :=
  match hist with
  | [] => []
  | msg :: hist' =>
      branches_step self dir s msg ++
      branches_run self dir (pstep_ch (hd_choice_of (sids s) os) s msg).1 hist' (tail os)
  end.

Definition branches (c : case) : list nat :=
  remove_dups (branches_run (c_self c) (directory (c_self c) (c_hist c)) (pinit (c_self c)) (c_hist c)
                            (tail (c_obs c))).

Fixpoint failing {A} (f : A → bool) (i : nat) (l : list A) : list nat :=
  match l with [] => [] | a :: l' => (if f a then [] else [i]) ++ failing f (S i) l' end.

Definition report (cs : list case) : list nat * list nat * list (list nat) :=
  (failing corr 0 cs, failing oracle 0 cs, map branches cs).

(* smoke test of the executable definitions: the repaired behaviour passes,
   the pinned tree's observation (panic, list reset) fails both *)
Example report_smoke :
  let self := {| mid := 0; mhost := 0; mkinds := [] |} in
  let peer := {| mid := 1; mhost := 1; mkinds := [] |} in
  let q i := {| mid := i; mhost := 7; mkinds := [] |} in
  let o a r l p := {| p_agent := a; p_reply := r; p_list := l; p_panic := p |} in
  report [ {| c_self := self; c_hist := [Handshake peer 1; LeaveAddr 9];
              c_obs := [o [[0]] None [0] false; o [[0; 1]] (Some [0; 1]) [0; 1] false;
                        o [] None [0; 1] false] |};
           {| c_self := self; c_hist := [Handshake peer 1; LeaveAddr 9];
              c_obs := [o [[0]] None [0] false; o [[0; 1]] (Some [0; 1]) [0; 1] false;
                        o [[0]] None [0] true] |};
           (* two ids behind address 7, two reports: either order is fine ... *)
           {| c_self := self; c_hist := [MembersMsg [q 1; q 2]; LeaveAddr 7; LeaveAddr 7];
              c_obs := [o [[0]] None [0] false; o [[0; 1; 2]] None [0; 1; 2] false;
                        o [[0; 2]] None [0; 2] false; o [[0]] None [0] false] |};
           {| c_self := self; c_hist := [MembersMsg [q 1; q 2]; LeaveAddr 7; LeaveAddr 7];
              c_obs := [o [[0]] None [0] false; o [[0; 1; 2]] None [0; 1; 2] false;
                        o [[0; 1]] None [0; 1] false; o [[0]] None [0] false] |};
           (* ... but the second report must remove the other one *)
           {| c_self := self; c_hist := [MembersMsg [q 1; q 2]; LeaveAddr 7; LeaveAddr 7];
              c_obs := [o [[0]] None [0] false; o [[0; 1; 2]] None [0; 1; 2] false;
                        o [[0; 1]] None [0; 1] false; o [] None [0; 1] false] |};
           (* and a report may not remove a member at another address *)
           {| c_self := self; c_hist := [MembersMsg [q 2; peer]; LeaveAddr 7];
              c_obs := [o [[0]] None [0] false; o [[0; 1; 2]] None [0; 1; 2] false;
                        o [[0; 2]] None [0; 2] false] |} ]
  = ([1; 4; 5], [1; 4; 5], [[1; 6]; [1; 6]; [3; 11; 5; 12]; [3; 11; 5; 12]; [3; 11; 5; 12]; [3; 5]]).
Proof. by vm_compute. Qed.
