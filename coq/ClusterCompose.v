(** L5 — one node = the self-managed provider (Provider.v, C20) and the agent
    (Agent.v, C18) together: every [Members] message the provider sends to
    the local agent ([ToAgent l]) is handled by the agent as a membership
    snapshot, in order (selfmanaged.go: sendMembersToAgent → agent.go:
    handleMembers).

    Definitions only.  Proofs are in ClusterComposeProofs.v. *)
From stdpp Require Import gmap list sorting.
From HV Require Export Agent Provider.

(* the snapshots among a provider step's outputs *)
Definition snapshots_of (outs : list out) : list (list member) :=
  omap (λ o, match o with ToAgent l => Some l | _ => None end) outs.

(* the agent handles them one after the other *)
Fixpoint feed (a : astate) (snaps : list (list member)) : astate * list event :=
  match snaps with
  | [] => (a, [])
  | snap :: snaps' =>
      let h := handle_members a snap in
      let f := feed h.1 snaps' in (f.1, h.2 ++ f.2)
  end.

Record node := { n_prov : pstate; n_agent : astate }.

(* Cluster.Start: the agent is created with the node's own kinds pre-loaded,
   the provider's Started handler puts the node into its list and sends it *)
Definition nstart (self : member) : node * list event :=
  let f := feed (init (kset self)) (snapshots_of (pstart self).2) in
  ({| n_prov := (pstart self).1; n_agent := f.1 |}, f.2).

Definition nstep (n : node) (msg : pmsg) : node * list event :=
  let r := pstep (n_prov n) msg in
  let f := feed (n_agent n) (snapshots_of r.2) in
  ({| n_prov := r.1; n_agent := f.1 |}, f.2).

(* per provider message: node before, node after, events the agent published *)
Fixpoint nrun (n : node) (hist : list pmsg) : list (node * node * list event) :=
  match hist with
  | [] => []
  | msg :: hist' => let r := nstep n msg in (n, r.1, r.2) :: nrun r.1 hist'
  end.
Definition nafter (self : member) (hist : list pmsg) : node :=
  foldl (λ n msg, (nstep n msg).1) (nstart self).1 hist.

(* every snapshot the provider sends during a history, in order *)
Definition all_snaps (self : member) (hist : list pmsg) : list (list member) :=
  snapshots_of (pstart self).2 ++ concat ((λ r, snapshots_of r.2) <$> prun (pinit self) hist).

(** * Observations: after start-up and after each provider message, what the
      agent shows (sorted Members() ids, ids of the MemberJoin / MemberLeave
      events since the previous observation, HasKind over the kind universe) *)
Definition nobs (post : node) (ev : list event) : obs := model_obs (n_agent post, n_agent post, ev).
Definition node_model_run (self : member) (hist : list pmsg) : list obs :=
  nobs (nstart self).1 (nstart self).2 :: ((λ r, nobs r.1.2 r.2) <$> nrun (nstart self).1 hist).

(* what the composed theorem predicts from the provider's list before (s) and
   after (s') the message alone: the view is s'; one Join per id of s' not in
   s, one Leave per id of s not in s'; HasKind from the members of s' *)
Definition nspec_obs (s s' : pstate) : obs :=
  {| o_ids := nsort (map_to_list s').*1;
     o_joins := nsort (map_to_list (filter (λ kv, s !! kv.1 = None) s')).*1;
     o_leaves := nsort (map_to_list (filter (λ kv, s' !! kv.1 = None) s)).*1;
     o_kinds := (λ k, bool_decide (k ∈ kinds_of s')) <$> kuniv |}.
Fixpoint nspec_run (s : pstate) (hist : list pmsg) : list obs :=
  match hist with
  | [] => []
  | msg :: hist' => let s' := (pstep s msg).1 in nspec_obs s s' :: nspec_run s' hist'
  end.
Definition node_spec_run (self : member) (hist : list pmsg) : list obs :=
  nspec_obs ∅ (pinit self) :: nspec_run (pinit self) hist.

Definition noracle_on (self : member) (hist : list pmsg) (os : list obs) : bool :=
  all2 (obs_eqb true) (node_spec_run self hist) os.

(* the invariant that ties the two layers *)
Definition ninv (n : node) : Prop :=
  members (n_agent n) = n_prov n ∧ keyed (n_prov n) ∧ kinds_exact (n_agent n).

(* what the composition says about one provider message *)
Definition nstep_ok (pre post : node) (ev : list event) : Prop :=
  let s := n_prov pre in let s' := n_prov post in
  members (n_agent post) = s' ∧
  NoDup (ev_id <$> ev) ∧
  (∀ i, i ∈ join_ids ev ↔ i ∈ dom s' ∧ i ∉ dom s) ∧
  (∀ i, i ∈ leave_ids ev ↔ i ∈ dom s ∧ i ∉ dom s') ∧
  (∀ m, Join m ∈ ev → s' !! mid m = Some m) ∧
  (∀ m, Leave m ∈ ev → s !! mid m = Some m) ∧
  (∀ k, has_kind k (n_agent post) = true ↔ ∃ i m, s' !! i = Some m ∧ k ∈ mkinds m).
