(** Executable checks for request/response (C11, family `reqresp`): concurrent
    requesters against scripted responders on the real engine.  Wall-clock time
    enters the observation only as bounds, so the correspondence compares the
    deterministic consequences of the model (ResponseProofs) and the oracle is
    the property's predicate on what the implementation did. *)
From stdpp Require Import list.
From HV Require Export Response.

(* delay classes of a scripted responder *)
Inductive dclass := DNow | DHalf | DDouble | DAfter.

Record oreply := { or_k : nat;
                   or_late : bool;             (* Respond called after the requester's Result() had returned *)
                   or_done : bool;             (* Respond returned *)
                   or_dead : nat;              (* DeadLetterEvents carrying this reply *)
                   or_dead_target_ok : bool }. (* ... all addressed to this request's response PID *)

Record oreq := { q_replies : nat;              (* scripted number of replies *)
                 q_class : dclass;
                 q_fan : bool;                 (* replies come from q_replies helper actors, one each *)
                 q_handled : bool;             (* the responder received the request *)
                 q_sender_ok : bool;           (* and saw the response PID as its sender *)
                 q_value : option (nat * nat); (* (request, k) of the reply Result() returned *)
                 q_foreign : bool;             (* Result() returned something that is no reply *)
                 q_err : bool;
                 q_elapsed_ok : bool;          (* Result() took at least the timeout *)
                 q_overrun : bool;             (* Result() took more than timeout + 5 s *)
                 q_unregistered : bool;        (* after Result(): the response PID is not registered *)
                 q_in_time : bool;             (* some Respond for this request returned >= 20 ms before Result()'s deadline *)
                 q_obs : list oreply }.

(* stress runs (families `reqstorm`, `reqboundary`): counts over many requests.
   Probabilistic detectors; every judged field is a logical fact about a
   completed Request/Result pair, never a bound on elapsed time. *)
Record stress := { s_kind : nat;               (* 0 = reqstorm, 1 = reqboundary *)
                   s_hrequests : nat;          (* completed Request+Result pairs, in hundreds *)
                   s_values : bool;            (* some Result() returned its own token *)
                   s_errors : bool;            (* some Result() returned the timeout error (recorded, never judged) *)
                   s_wrong : nat;              (* Result() returned the token of another request *)
                   s_wrong_unexplained : nat;  (* ... although the two response PIDs differ *)
                   s_foreign : nat;            (* Result() returned something that is no token *)
                   s_still_registered : nat;   (* after Result(): the Response is still the registry entry of its PID *)
                   s_collisions : nat;         (* ActorDuplicateIdEvents for response PIDs: two outstanding requests drew one id *)
                   s_panics : nat }.

Record case := { c_reqs : list oreq; c_dupids : nat; c_stuck : nat; c_stress : option stress }.

Definition has_value (q : oreq) : bool := match q_value q with Some _ => true | None => false end.

(** the property's predicate (clauses of C11) on one request *)
Definition req_ok (r : nat) (q : oreq) : bool :=
  (* Result() returns exactly one of a reply and the error *)
  xorb (has_value q) (q_err q) && negb (q_foreign q) &&
  (* correlated: the value is a reply the responder sent for this very request *)
  match q_value q with
  | Some (r', k) => Nat.eqb r' r && Nat.leb 1 k && Nat.leb k (q_replies q) &&
                    existsb (fun o => Nat.eqb (or_k o) k && Nat.eqb (or_dead o) 0) (q_obs q)
  | None => true
  end &&
  (* a reply that arrived within the timeout is returned *)
  (if q_in_time q then has_value q else true) &&
  (* the error only once the timeout has passed; Result() bounded by the timeout *)
  (if q_err q then q_elapsed_ok q else true) && negb (q_overrun q) &&
  (* unregistered afterwards, whichever of reply and timeout won *)
  q_unregistered q &&
  (* a late reply becomes one dead letter for the response PID; no reply is reported twice *)
  forallb (fun o => (if or_late o then Nat.eqb (or_dead o) 1 && or_done o else Nat.leb (or_dead o) 1) &&
                    or_dead_target_ok o) (q_obs q) &&
  (* the request is a send with the response PID as sender *)
  (if q_handled q then q_sender_ok q else true) &&
  (* replying never blocks the responder (C09: sending never blocks the caller) *)
  forallb or_done (q_obs q).

(* the clauses on a stress run:
   - C11_correlated: every returned value is a reply to that very request; a
     foreign token is excused only when the two requests drew the same response
     id (outside the theorem's premise) ...
   - ... and that premise is the implementation's to establish: a 31-bit uniform
     draw makes two outstanding requests collide about once in 10^8 requests, so
     more than one collision in a run (<= 10^6 requests) is a defect of the id
     source (false-alarm probability below 10^-6 per run);
   - C11_unregistered_after_result / C11_unregistered_by_the_return_step: after
     every Result() the response PID is not registered *)
Definition stress_ok (t : stress) : bool :=
  Nat.eqb (s_wrong_unexplained t) 0 && Nat.eqb (s_foreign t) 0 &&
  Nat.leb (s_collisions t) 1 &&
  Nat.eqb (s_still_registered t) 0 &&
  Nat.eqb (s_panics t) 0.

(* deterministic consequences of the model: the return step unregisters
   whatever the ids (return_step_unregisters); with distinct ids no cross-talk
   (correlated) *)
Definition stress_corr (t : stress) : bool :=
  Nat.eqb (s_still_registered t) 0 &&
  (if Nat.eqb (s_collisions t) 0 then Nat.eqb (s_wrong t) 0 else true).

Definition oracle (c : case) : bool :=
  match c_stress c with Some t => stress_ok t | None => true end &&
  Nat.eqb (c_stuck c) 0 &&
  if negb (Nat.eqb (c_dupids c) 0) then true        (* an id collision: outside the NoDup premise *)
  else forallb (fun x : nat * oreq => req_ok x.1 x.2) (imap (fun i q => (i, q)) (c_reqs c)).

(** correspondence: the deterministic consequences of the model
    - nobody answers (or only after Result() returned): Result() returns the error
      (ResponseProofs.no_reply_no_value, late_reply_dead_letters);
    - a reply put before the deadline decides for the value (put_to_waiting_decides,
      begin_takes_buffered); one responder answering in sequence: it is its first reply;
    - every reply issued after Result() returned is dead-lettered *)
Definition is_after (d : dclass) : bool := match d with DAfter => true | _ => false end.

Definition req_corr (r : nat) (q : oreq) : bool :=
  (if Nat.eqb (q_replies q) 0 || negb (q_handled q) || is_after (q_class q) then q_err q && negb (has_value q) else true) &&
  (if is_after (q_class q) then forallb or_late (q_obs q) else true) &&
  (if q_in_time q then has_value q else true) &&
  match q_value q with
  | Some (r', k) => Nat.eqb r' r && (if q_fan q then true else Nat.eqb k 1)
  | None => true
  end.

Definition corr (c : case) : bool :=
  match c_stress c with Some t => stress_corr t | None => true end &&
  if negb (Nat.eqb (c_dupids c) 0) then true
  else forallb (fun x : nat * oreq => req_corr x.1 x.2) (imap (fun i q => (i, q)) (c_reqs c)).

(* situations reached: 1 value returned, 2 timeout, 3 late reply dead-lettered,
   4 further reply swallowed silently (looked up while registered, never read),
   5 reply dead-lettered without being flagged late (raced with the return),
   6 a Respond that never returned, 7 timeout although a reply was sent (not provably in time),
   8 value after a delayed reply, 9 eight or more concurrent requesters, 10 id collision seen *)
Definition req_tags (q : oreq) : list nat :=
  (if has_value q then [1] else []) ++ (if q_err q then [2] else []) ++
  (if existsb (fun o => or_late o && Nat.eqb (or_dead o) 1) (q_obs q) then [3] else []) ++
  (if existsb (fun o => negb (or_late o) && or_done o && Nat.eqb (or_dead o) 0 &&
                        match q_value q with Some (_, k) => negb (Nat.eqb k (or_k o)) | None => true end) (q_obs q)
   then [4] else []) ++
  (if existsb (fun o => negb (or_late o) && Nat.eqb (or_dead o) 1) (q_obs q) then [5] else []) ++
  (if existsb (fun o => negb (or_done o)) (q_obs q) then [6] else []) ++
  (if q_err q && negb (Nat.eqb (length (q_obs q)) 0) && negb (is_after (q_class q)) then [7] else []) ++
  (if has_value q && match q_class q with DHalf => true | _ => false end then [8] else []).

Fixpoint dedup (l : list nat) : list nat :=
  match l with [] => [] | x :: l' => if existsb (Nat.eqb x) l' then dedup l' else x :: dedup l' end.

Definition branches (c : case) : list nat :=
  dedup (flat_map req_tags (c_reqs c) ++ (if Nat.leb 8 (length (c_reqs c)) then [9] else []) ++
         (if Nat.eqb (c_dupids c) 0 then [] else [10]) ++
         match c_stress c with
         | None => []
         | Some t => (if Nat.eqb (s_kind t) 0 then [11] else [12]) ++
                     (if s_values t && s_errors t then [13] else []) ++
                     (if Nat.eqb (s_collisions t) 0 then [] else [14]) ++
                     (if Nat.leb 500 (s_hrequests t) then [15] else [])
         end).

Fixpoint failing {A} (f : A -> bool) (i : nat) (l : list A) : list nat :=
  match l with [] => [] | a :: l' => (if f a then [] else [i]) ++ failing f (S i) l' end.

Definition report (cs : list case) : list nat * list nat * list (list nat) :=
  (failing corr 0 cs, failing oracle 0 cs, map branches cs).

Definition ok_value (r : nat) : oreq :=
  {| q_replies := 2; q_class := DNow; q_fan := false; q_handled := true; q_sender_ok := true; q_value := Some (r, 1);
     q_foreign := false; q_err := false; q_elapsed_ok := false; q_overrun := false; q_unregistered := true; q_in_time := true;
     q_obs := [ {| or_k := 1; or_late := false; or_done := true; or_dead := 0; or_dead_target_ok := true |};
                {| or_k := 2; or_late := true; or_done := true; or_dead := 1; or_dead_target_ok := true |} ] |}.
Definition ok_timeout : oreq :=
  {| q_replies := 0; q_class := DNow; q_fan := false; q_handled := true; q_sender_ok := true; q_value := None;
     q_foreign := false; q_err := true; q_elapsed_ok := true; q_overrun := false; q_unregistered := true; q_in_time := false;
     q_obs := [] |}.

Example good_case : report [ {| c_reqs := [ok_value 0; ok_timeout; ok_value 2]; c_dupids := 0; c_stuck := 0; c_stress := None |} ]
  = ([], [], [[2; 1; 3]]).
Proof. by vm_compute. Qed.

(* the seeded defects, as observations *)
Example timeout_leaves_pid_registered :
  oracle {| c_reqs := [ {| q_replies := 0; q_class := DNow; q_fan := false; q_handled := true; q_sender_ok := true;
                           q_value := None; q_foreign := false; q_err := true; q_elapsed_ok := true; q_overrun := false;
                           q_unregistered := false; q_in_time := false; q_obs := [] |} ]; c_dupids := 0; c_stuck := 0; c_stress := None |} = false.
Proof. by vm_compute. Qed.
Example blocked_responder :
  oracle {| c_reqs := [ {| q_replies := 3; q_class := DNow; q_fan := false; q_handled := true; q_sender_ok := true;
                           q_value := Some (0, 1); q_foreign := false; q_err := false; q_elapsed_ok := false; q_overrun := false;
                           q_unregistered := true; q_in_time := true;
                           q_obs := [ {| or_k := 1; or_late := false; or_done := true; or_dead := 0; or_dead_target_ok := true |};
                                      {| or_k := 2; or_late := false; or_done := true; or_dead := 0; or_dead_target_ok := true |};
                                      {| or_k := 3; or_late := false; or_done := false; or_dead := 0; or_dead_target_ok := true |} ] |} ];
            c_dupids := 0; c_stuck := 1; c_stress := None |} = false.
Proof. by vm_compute. Qed.
Example reply_to_the_wrong_request :
  oracle {| c_reqs := [ok_value 1]; c_dupids := 0; c_stuck := 0; c_stress := None |} = false.
Proof. by vm_compute. Qed.

(* stress observations: a clean storm, colliding response ids, a PID left registered *)
Definition clean_storm : stress :=
  {| s_kind := 0; s_hrequests := 1000; s_values := true; s_errors := false; s_wrong := 0; s_wrong_unexplained := 0;
     s_foreign := 0; s_still_registered := 0; s_collisions := 0; s_panics := 0 |}.
Example storm_cases :
  report [ {| c_reqs := []; c_dupids := 0; c_stuck := 0; c_stress := Some clean_storm |};
           {| c_reqs := []; c_dupids := 0; c_stuck := 0;
              c_stress := Some {| s_kind := 0; s_hrequests := 150; s_values := true; s_errors := true; s_wrong := 1;
                                  s_wrong_unexplained := 0; s_foreign := 0; s_still_registered := 0; s_collisions := 2;
                                  s_panics := 0 |} |};
           {| c_reqs := []; c_dupids := 0; c_stuck := 0;
              c_stress := Some {| s_kind := 1; s_hrequests := 0; s_values := true; s_errors := true; s_wrong := 0;
                                  s_wrong_unexplained := 0; s_foreign := 0; s_still_registered := 1; s_collisions := 0;
                                  s_panics := 0 |} |} ]
  = ([2], [1; 2], [[11; 15]; [11; 13; 14]; [12; 13]]).
Proof. by vm_compute. Qed.
