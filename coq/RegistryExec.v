(** Executable checks for the interleaving model of Registry.add/get/Remove
    (C10, family `regsched`): lock-step replay of schedules explored on the
    real registry.go under the deterministic scheduler, and the property's
    predicate evaluated on the observations of the implementation. *)
From stdpp Require Import list.
From HV Require Export Registry.

Definition list_eqb {A} (f : A -> A -> bool) := fix go (l1 l2 : list A) : bool :=
  match l1, l2 with
  | [], [] => true
  | a :: l1', b :: l2' => f a b && go l1' l2'
  | _, _ => false
  end.
Definition opt_eqb (a b : option nat) : bool :=
  match a, b with Some x, Some y => Nat.eqb x y | None, None => true | _, _ => false end.
Definition pair_eqb (a b : id * option nat) : bool := Nat.eqb a.1 b.1 && opt_eqb a.2 b.2.

Definition clabel_eqb (a b : clabel) : bool :=
  match a, b with
  | LAdd i p w, LAdd i' p' w' => Nat.eqb i i' && Nat.eqb p p' && Bool.eqb w w'
  | LStart p, LStart p' => Nat.eqb p p'
  | LDup p, LDup p' => Nat.eqb p p'
  | LTry i r, LTry i' r' => Nat.eqb i i' && opt_eqb r r'
  | LRem p, LRem p' => Nat.eqb p p'
  | LGet i r, LGet i' r' => Nat.eqb i i' && opt_eqb r r'
  | _, _ => false
  end.

(* what the harness reads off the real Registry and its recording Processers;
   processes are numbered in the order in which their add took the lock *)
Record obs := { o_ids : list id;                   (* id of each process *)
                o_reg : list (id * option nat);    (* final Registry.get for every id of the case *)
                o_started : list nat;              (* Start() calls, in execution order *)
                o_stopped : list nat;              (* processes that handled Stopped, in order *)
                o_dup : list nat;                  (* ActorDuplicateIdEvents received by the event stream, in order *)
                o_gets : list (id * option nat);   (* lookups and their results, in order *)
                o_overlap : bool;                  (* a Start() ran while another process of the same id was live *)
                o_deadlock : bool;
                o_terminal : bool }.

Record case := { c_progs : list (list cop);
                 c_sched : list nat; c_labels : list clabel;   (* empty for terminal-only cases *)
                 c_replay : bool;
                 c_obs : obs }.

Definition ids_of_prog (p : list cop) : list id :=
  map (fun o => match o with CAdd i => i | CStop i => i | CGet i => i end) p.
Fixpoint dedup (l : list nat) : list nat :=
  match l with [] => [] | x :: l' => if mem x l' then dedup l' else x :: dedup l' end.
(* ids in the order of their first mention *)
Definition universe (c : case) : list id := rev (dedup (rev (flat_map ids_of_prog (c_progs c)))).

(* correspondence: the model, driven by the same thread choices, performs the
   same operations with the same results and ends in the same observable state *)
Definition corr (c : case) : bool :=
  if negb (c_replay c) then true else
  match crun (cinit (c_progs c)) (c_sched c) with
  | None => false
  | Some (s, ls) =>
      let o := c_obs c in
      list_eqb clabel_eqb ls (c_labels c) &&
      list_eqb Nat.eqb (c_ids s) (o_ids o) &&
      list_eqb pair_eqb (map (fun i => (i, c_reg s i)) (universe c)) (o_reg o) &&
      list_eqb Nat.eqb (rev (c_started s)) (o_started o) &&
      list_eqb Nat.eqb (rev (c_stopped s)) (o_stopped o) &&
      list_eqb Nat.eqb (rev (c_dup s)) (o_dup o) &&
      list_eqb pair_eqb (c_gets s) (o_gets o) &&
      Bool.eqb (cterminal s) (o_terminal o) && negb (o_deadlock o) && negb (o_overlap o)
  end.

(* the property's predicate on an implementation observation *)
Definition id_of (o : obs) (p : nat) : option id := o_ids o !! p.
Definition has_id (o : obs) (i : id) (p : nat) : bool :=
  match id_of o p with Some j => Nat.eqb i j | None => false end.
Definition count_with (o : obs) (i : id) (l : list nat) : nat := length (filter (fun p => has_id o i p = true) l).
Fixpoint count_eq (i : id) (l : list id) : nat :=
  match l with [] => 0 | j :: l' => (if Nat.eqb j i then 1 else 0) + count_eq i l' end.
Fixpoint nodupb (l : list nat) : bool :=
  match l with [] => true | x :: l' => negb (mem x l') && nodupb l' end.

Definition oracle (c : case) : bool :=
  let o := c_obs c in
  let adds := flat_map adds_of (c_progs c) in
  let stops := flat_map stops_of (c_progs c) in
  (* at most one live actor per id at any moment *)
  negb (o_overlap o) && negb (o_deadlock o) &&
  (* a Producer runs at most once per process; a loser runs nothing *)
  nodupb (o_started o) && nodupb (o_dup o) &&
  forallb (fun p => negb (mem p (o_dup o))) (o_started o) &&
  (* a lookup returns a process of that id *)
  forallb (fun g : id * option nat => match g.2 with Some p => has_id o g.1 p | None => true end) (o_gets o) &&
  (if o_terminal o then
     forallb (fun i =>
       let k := count_eq i adds in
       let st := count_with o i (o_started o) in
       let sp := count_with o i (o_stopped o) in
       (* every add either ran Start or published the duplicate event *)
       Nat.eqb (st + count_with o i (o_dup o)) k && Nat.eqb (count_eq i (o_ids o)) k &&
       (* exactly one winner among the adds of an id nobody stops *)
       (if mem i stops then true else if Nat.eqb k 0 then true else Nat.eqb st 1) &&
       (* winners beyond the first need a stop in between *)
       Nat.leb st (S sp) &&
       (* the final registry holds the live process of the id, if any *)
       match list_find (fun g : id * option nat => g.1 = i) (o_reg o) with
       | Some (_, (_, Some p)) => has_id o i p && mem p (o_started o) && negb (mem p (o_stopped o)) && Nat.eqb st (S sp)
       | Some (_, (_, None)) => Nat.eqb st sp
       | None => false
       end) (universe c)
   else true).

(* proof-relevant situations reached by a replayed schedule: 1 an add loses,
   2 an add finds the id free after a Remove (respawn), 3 a lookup between
   insertion and Start, 4 a lookup returns nothing, 5 a try-stop finds a live
   actor, 6 a try-stop finds the entry of a process that has not started yet,
   7 an add loses against a process that has not started yet *)
Fixpoint tags (ls : list clabel) (removed : bool) (unstarted : list nat) (entry : list (id * nat)) : list nat :=
  match ls with
  | [] => []
  | l :: ls' =>
    match l with
    | LAdd i p false =>
        [1] ++ (match list_find (fun e : id * nat => e.1 = i) entry with
                | Some (_, (_, q)) => if mem q unstarted then [7] else []
                | None => [] end) ++ tags ls' removed unstarted entry
    | LAdd i p true => (if removed then [2] else []) ++ tags ls' removed (p :: unstarted) ((i, p) :: entry)
    | LStart p => tags ls' removed (set_del p unstarted) entry
    | LGet i (Some p) => (if mem p unstarted then [3] else []) ++ tags ls' removed unstarted entry
    | LGet i None => [4] ++ tags ls' removed unstarted entry
    | LTry i (Some _) => [5] ++ tags ls' removed unstarted entry
    | LTry i None =>
        (match list_find (fun e : id * nat => e.1 = i) entry with
         | Some (_, (_, q)) => if mem q unstarted then [6] else []
         | None => [] end) ++ tags ls' removed unstarted entry
    | LRem p => tags ls' true unstarted (filter (fun e : id * nat => negb (Nat.eqb e.2 p)) entry)
    | LDup _ => tags ls' removed unstarted entry
    end
  end.

Definition branches (c : case) : list nat := dedup (tags (c_labels c) false [] []).

Fixpoint failing {A} (f : A -> bool) (i : nat) (l : list A) : list nat :=
  match l with [] => [] | a :: l' => (if f a then [] else [i]) ++ failing f (S i) l' end.

Definition report (cs : list case) : list nat * list nat * list (list nat) :=
  (failing corr 0 cs, failing oracle 0 cs, map branches cs).

(* the observation the model itself yields at the end of a run *)
Definition obs_of (c_universe : list id) (s : cst) : obs :=
  {| o_ids := c_ids s; o_reg := map (fun i => (i, c_reg s i)) c_universe;
     o_started := rev (c_started s); o_stopped := rev (c_stopped s); o_dup := rev (c_dup s);
     o_gets := c_gets s; o_overlap := false; o_deadlock := false; o_terminal := cterminal s |}.

Example replay_agrees :
  report [ {| c_progs := [[CAdd 7]; [CAdd 7]; [CAdd 7]; [CStop 7]; [CGet 7]];
              c_sched := [1; 0; 2; 1; 4; 3; 0; 2; 3];
              c_labels := [LAdd 7 0 true; LAdd 7 1 false; LAdd 7 2 false; LStart 0; LGet 7 (Some 0);
                           LTry 7 (Some 0); LDup 1; LDup 2; LRem 0];
              c_replay := true;
              c_obs := {| o_ids := [7; 7; 7]; o_reg := [(7, None)]; o_started := [0]; o_stopped := [0];
                          o_dup := [1; 2]; o_gets := [(7, Some 0)]; o_overlap := false; o_deadlock := false;
                          o_terminal := true |} |} ]
  = ([], [], [[1; 7; 5]]).
Proof. by vm_compute. Qed.

(* the observation of a check-then-insert race: two Starts under one id *)
Example race_is_flagged :
  oracle {| c_progs := [[CAdd 7]; [CAdd 7]]; c_sched := []; c_labels := []; c_replay := false;
            c_obs := {| o_ids := [7; 7]; o_reg := [(7, Some 1)]; o_started := [0; 1]; o_stopped := [];
                        o_dup := []; o_gets := []; o_overlap := true; o_deadlock := false; o_terminal := true |} |}
  = false.
Proof. by vm_compute. Qed.
