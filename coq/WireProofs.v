(** L4 proofs: the repaired writer/reader pair round-trips every batch (C15),
    the repaired reader is total and delivers only what the message's own
    valid indices name (C16); witnesses refuting both for the pinned pair. *)
From Coq Require Import List Arith Bool ZArith Lia.
From HV Require Import Wire WireExec.
Import ListNotations.

(** * equality tests *)
Lemma str_eqb_eq a b : str_eqb a b = true <-> a = b.
Proof.
  revert b; induction a as [|x a IH]; intros [|y b]; cbn; try (split; [discriminate|discriminate]).
  - split; reflexivity.
  - rewrite andb_true_iff, Nat.eqb_eq, IH. split; [intros [-> ->]; reflexivity|intros [= -> ->]; auto].
Qed.

Lemma pid_eqb_eq a b : pid_eqb a b = true <-> a = b.
Proof.
  destruct a, b; unfold pid_eqb; cbn. rewrite andb_true_iff, !str_eqb_eq.
  split; [intros [-> ->]; reflexivity|intros [= -> ->]; auto].
Qed.

(** * tables *)
Section tables.
Context {A : Type} (eqb : A -> A -> bool) (eqb_eq : forall a b, eqb a b = true <-> a = b).

Lemma index_of_nth x l i : index_of eqb x l = Some i -> nth_error l i = Some x.
Proof.
  revert i; induction l as [|y l IH]; cbn; [discriminate|]. intros i.
  destruct (eqb x y) eqn:E.
  - intros [= <-]. apply eqb_eq in E. subst; reflexivity.
  - destruct (index_of eqb x l); [|discriminate]. cbn. intros [= <-]. cbn. auto.
Qed.

(* the index returned by a lookup addresses the element in the returned table *)
Lemma intern_nth x l : nth_error (snd (intern eqb x l)) (fst (intern eqb x l)) = Some x.
Proof.
  unfold intern. destruct (index_of eqb x l) eqn:E; cbn.
  - eauto using index_of_nth.
  - rewrite nth_error_app2 by lia. rewrite Nat.sub_diag. reflexivity.
Qed.

(* tables only grow *)
Lemma intern_ext x l : exists ext, snd (intern eqb x l) = l ++ ext.
Proof. unfold intern. destruct (index_of eqb x l); cbn; [exists []; now rewrite app_nil_r | eauto]. Qed.
End tables.

Lemma nth_error_ext {A} (l ext : list A) i x : nth_error l i = Some x -> nth_error (l ++ ext) i = Some x.
Proof. intros H. rewrite nth_error_app1; auto. apply nth_error_Some. congruence. Qed.

Lemma in_range_spec z n : in_range z n = true <-> (0 <= z < Z.of_nat n)%Z.
Proof. unfold in_range. rewrite andb_true_iff, Z.leb_le, Z.ltb_lt. tauto. Qed.

Lemma in_range_of_nat {A} (l : list A) i x : nth_error l i = Some x -> in_range (Z.of_nat i) (length l) = true.
Proof. intros H. apply in_range_spec. assert (i < length l) by (apply nth_error_Some; congruence). lia. Qed.

(* an index inside the slice never panics and reads the element at that position *)
Lemma go_index_in_range {A} (l : list A) z :
  in_range z (length l) = true -> exists x, go_index l z = Some x.
Proof.
  intros H. unfold go_index. rewrite H. apply in_range_spec in H.
  destruct (nth_error l (Z.to_nat z)) eqn:E; [eauto|]. apply nth_error_None in E. lia.
Qed.

Lemma go_index_out {A} (l : list A) z : in_range z (length l) = false -> go_index l z = None.
Proof. intros H. unfold go_index. now rewrite H. Qed.

Lemma go_index_Some {A} (l : list A) z x :
  go_index l z = Some x -> exists i, z = Z.of_nat i /\ nth_error l i = Some x.
Proof.
  unfold go_index. destruct (in_range z (length l)) eqn:E; [|discriminate].
  apply in_range_spec in E. intros H. exists (Z.to_nat z). split; [lia|assumption].
Qed.

Lemma go_index_of_nat {A} (l : list A) i x : nth_error l i = Some x -> go_index l (Z.of_nat i) = Some x.
Proof. intros H. unfold go_index. rewrite (in_range_of_nat _ _ _ H), Nat2Z.id. exact H. Qed.

Lemma go_index_ext {A} (l ext : list A) z x : go_index l z = Some x -> go_index (l ++ ext) z = Some x.
Proof.
  intros H. apply go_index_Some in H as (i & -> & H). apply go_index_of_nat, nth_error_ext, H.
Qed.

Section wire.
Context {value data : Type}.
Context (tyname_of : value -> option tyname) (ser : value -> option data)
        (deser : tyname -> data -> option value).

Notation deliver := (deliver value).
Notation wmsg := (wmsg data).
Notation envelope := (envelope data).
Notation delivery := (delivery value).
Notation result := (result value).
Notation read1 := (read1 deser).
Notation resolve := (resolve deser).
Notation spec_msgs := (spec_msgs deser).
Notation spec_decode := (spec_decode deser).
Notation spec_stream := (spec_stream deser).
Notation decode := (decode deser).
Notation decode_stream := (decode_stream deser).
Notation encode := (encode tyname_of ser).
Notation enc := (enc tyname_of ser).
Notation expected := (expected tyname_of ser).
Notation serialisable := (serialisable tyname_of ser).
Notation addressed := (addressed deser).

(** * C16: the reader refines its panic-free specification *)

Lemma read1_resolve tn tg sd (m : wmsg) :
  read1 tn tg sd m = match resolve tn tg sd m with Some d => Deliver d | None => Stop Err end.
Proof.
  unfold Wire.read1, Wire.resolve.
  destruct (in_range (m_tyi m) (length tn)) eqn:Ety; cbn [negb orb];
    [|rewrite (go_index_out _ _ Ety); reflexivity].
  destruct (go_index_in_range _ _ Ety) as (t & ->).
  destruct (in_range (m_ti m) (length tg)) eqn:Etg; cbn [negb];
    [|rewrite (go_index_out _ _ Etg); reflexivity].
  destruct (go_index_in_range _ _ Etg) as (g & ->).
  destruct (deser t (m_data m)) as [v|]; [|reflexivity].
  destruct (Z.leb_spec 0 (m_si m)) as [Hs|Hs].
  - destruct (Z.ltb_spec (m_si m) 0); [lia|].
    destruct (in_range (m_si m) (length sd)) eqn:Esd; cbn [negb].
    + destruct (go_index_in_range _ _ Esd) as (s & ->). reflexivity.
    + rewrite (go_index_out _ _ Esd). destruct sd; reflexivity.
  - destruct (Z.ltb_spec (m_si m) 0); [reflexivity|lia].
Qed.

Lemma reads_spec tn tg sd (ms : list wmsg) : reads (read1 tn tg sd) ms = spec_msgs tn tg sd ms.
Proof.
  induction ms as [|m ms IH]; cbn; [reflexivity|]. rewrite read1_resolve.
  destruct (resolve tn tg sd m); [rewrite IH|]; reflexivity.
Qed.

Lemma decode_spec (e : envelope) : decode e = spec_decode e.
Proof. apply reads_spec. Qed.

Lemma stream_ext (f g : envelope -> result) es : (forall e, f e = g e) -> stream f es = stream g es.
Proof. intros H. induction es as [|e es IH]; cbn; [reflexivity|]. rewrite H, IH. reflexivity. Qed.

Theorem decode_stream_spec (es : list envelope) : decode_stream es = spec_stream es.
Proof. apply stream_ext, decode_spec. Qed.

Lemma spec_msgs_no_panic tn tg sd (ms : list wmsg) : out (spec_msgs tn tg sd ms) <> Panic.
Proof. induction ms as [|m ms IH]; cbn; [discriminate|]. destruct (resolve tn tg sd m); cbn; [assumption|discriminate]. Qed.

Lemma stream_no_panic (f : envelope -> result) es : (forall e, out (f e) <> Panic) -> out (stream f es) <> Panic.
Proof.
  intros H. induction es as [|e es IH]; cbn; [discriminate|].
  destruct (out (f e)) eqn:E; cbn; [assumption|congruence|]. exfalso; exact (H e E).
Qed.

(* whatever arrives, no index expression of the reader panics *)
Theorem reader_total (es : list envelope) : out (decode_stream es) <> Panic.
Proof.
  rewrite decode_stream_spec. apply stream_no_panic. intros e. apply spec_msgs_no_panic.
Qed.

Theorem decode_total (e : envelope) : out (decode e) <> Panic.
Proof. rewrite decode_spec. apply spec_msgs_no_panic. Qed.

(* a resolved message is delivered to the target, with the type and sender, that its indices name *)
Lemma resolve_addressed (e : envelope) (m : wmsg) (d : delivery) :
  resolve_in deser e m = Some d -> addressed e m d.
Proof.
  unfold resolve_in, Wire.resolve, Wire.addressed.
  destruct (go_index (e_tnames e) (m_tyi m)) as [t|] eqn:E1; [|discriminate].
  destruct (go_index (e_targets e) (m_ti m)) as [g|] eqn:E2; [|discriminate].
  apply go_index_Some in E1, E2.
  destruct (deser t (m_data m)) as [v|] eqn:E3; [|discriminate].
  destruct (Z.ltb_spec (m_si m) 0) as [Hs|Hs].
  - intros [= <-]; cbn. repeat split; auto.
  - destruct (go_index (e_senders e) (m_si m)) as [s|] eqn:E4.
    + apply go_index_Some in E4. intros [= <-]; cbn. repeat split; auto.
    + destruct (e_senders e) eqn:E5; [|discriminate]. intros [= <-]; cbn. repeat split; auto.
Qed.

Lemma spec_msgs_In tn tg sd (ms : list wmsg) d :
  In d (delivered (spec_msgs tn tg sd ms)) -> exists m, In m ms /\ resolve tn tg sd m = Some d.
Proof.
  induction ms as [|m ms IH]; cbn; [tauto|].
  destruct (resolve tn tg sd m) as [d'|] eqn:E; cbn; [|tauto].
  intros [<-|H]; [eauto|]. destruct (IH H) as (m' & ? & ?). eauto.
Qed.

Lemma stream_In (f : envelope -> result) es d :
  In d (delivered (stream f es)) -> exists e, In e es /\ In d (delivered (f e)).
Proof.
  induction es as [|e es IH]; cbn; [tauto|].
  destruct (out (f e)); cbn; [|eauto..].
  rewrite in_app_iff. intros [H|H]; [eauto|]. destruct (IH H) as (e' & ? & ?). eauto.
Qed.

Theorem deliveries_addressed (es : list envelope) (d : delivery) :
  In d (delivered (decode_stream es)) ->
  exists e m, In e es /\ In m (e_msgs e) /\ addressed e m d.
Proof.
  rewrite decode_stream_spec. intros H.
  apply stream_In in H as (e & He & H). apply spec_msgs_In in H as (m & Hm & H).
  exists e, m. split; [assumption|]. split; [assumption|]. apply resolve_addressed. exact H.
Qed.

Lemma spec_msgs_prefix tn tg sd (pre : list wmsg) m post :
  (forall x, In x pre -> resolve tn tg sd x <> None) -> resolve tn tg sd m = None ->
  exists ds, Forall2 (fun x d => resolve tn tg sd x = Some d) pre ds /\
             spec_msgs tn tg sd (pre ++ m :: post) = {| delivered := ds; out := Err |}.
Proof.
  intros Hpre Hm. induction pre as [|x pre IH]; cbn.
  - exists []. rewrite Hm. split; [constructor|reflexivity].
  - destruct (resolve tn tg sd x) as [d|] eqn:E; [|exfalso; apply (Hpre x); cbn; auto].
    destruct IH as (ds & HF & ->); [intros y Hy; apply Hpre; cbn; auto|].
    exists (d :: ds). split; [constructor; assumption|reflexivity].
Qed.

(* the first bad message ends the stream with an error: everything before it
   was delivered, nothing from it on is *)
Theorem first_bad_ends_stream (e : envelope) pre m post :
  e_msgs e = pre ++ m :: post ->
  (forall x, In x pre -> resolve_in deser e x <> None) -> resolve_in deser e m = None ->
  exists ds, Forall2 (fun x d => resolve_in deser e x = Some d) pre ds /\
             decode e = {| delivered := ds; out := Err |}.
Proof.
  intros He Hpre Hm. rewrite decode_spec. unfold Wire.spec_decode. rewrite He.
  apply spec_msgs_prefix; assumption.
Qed.

Lemma spec_msgs_all tn tg sd (ms : list wmsg) :
  (forall x, In x ms -> resolve tn tg sd x <> None) ->
  exists ds, Forall2 (fun x d => resolve tn tg sd x = Some d) ms ds /\
             spec_msgs tn tg sd ms = {| delivered := ds; out := Ok |}.
Proof.
  intros H. induction ms as [|x ms IH]; cbn.
  - exists []. split; [constructor|reflexivity].
  - destruct (resolve tn tg sd x) as [d|] eqn:E; [|exfalso; apply (H x); cbn; auto].
    destruct IH as (ds & HF & ->); [intros y Hy; apply H; cbn; auto|].
    exists (d :: ds). split; [constructor; assumption|reflexivity].
Qed.

Theorem all_good_all_delivered (e : envelope) :
  (forall x, In x (e_msgs e) -> resolve_in deser e x <> None) ->
  exists ds, Forall2 (fun x d => resolve_in deser e x = Some d) (e_msgs e) ds /\
             decode e = {| delivered := ds; out := Ok |}.
Proof. intros H. rewrite decode_spec. apply spec_msgs_all. exact H. Qed.

(* an envelope that ends in an error ends the whole stream *)
Theorem stream_ends_at_first_error (es1 : list envelope) e es2 :
  Forall (fun e => out (decode e) = Ok) es1 -> out (decode e) <> Ok ->
  decode_stream (es1 ++ e :: es2) =
  {| delivered := flat_map (fun e => delivered (decode e)) es1 ++ delivered (decode e);
     out := out (decode e) |}.
Proof.
  intros H1 He. unfold Wire.decode_stream. induction H1 as [|e1 es1 H1 _ IH]; cbn.
  - destruct (decode e) as [ds o] eqn:E; cbn in *. destruct o; [congruence|reflexivity..].
  - fold (decode e1). rewrite H1, IH. cbn. rewrite app_assoc. reflexivity.
Qed.

(** * C15: round trip *)

(* a message with a non-negative sender index was encoded when the sender
   table was non-empty (the compatibility rule of the reader never fires) *)
Definition okm (sd : list pid) (m : wmsg) : Prop := sd = [] -> (m_si m < 0)%Z.

Lemma resolve_ext tn tg sd e1 e2 e3 (m : wmsg) d :
  okm sd m -> resolve tn tg sd m = Some d -> resolve (tn ++ e1) (tg ++ e2) (sd ++ e3) m = Some d.
Proof.
  unfold Wire.resolve. intros Hs.
  destruct (go_index tn (m_tyi m)) as [t|] eqn:E1; [|discriminate].
  destruct (go_index tg (m_ti m)) as [g|] eqn:E2; [|discriminate].
  rewrite (go_index_ext _ e1 _ _ E1), (go_index_ext _ e2 _ _ E2).
  destruct (deser t (m_data m)) as [v|]; [|discriminate].
  destruct (Z.ltb_spec (m_si m) 0) as [H|H]; [auto|].
  destruct (go_index sd (m_si m)) as [s|] eqn:E4.
  - now rewrite (go_index_ext _ e3 _ _ E4).
  - destruct sd; [|discriminate]. specialize (Hs eq_refl). lia.
Qed.

Lemma spec_msgs_ext tn tg sd e1 e2 e3 (ms : list wmsg) ds :
  Forall (okm sd) ms -> spec_msgs tn tg sd ms = {| delivered := ds; out := Ok |} ->
  spec_msgs (tn ++ e1) (tg ++ e2) (sd ++ e3) ms = {| delivered := ds; out := Ok |}.
Proof.
  revert ds; induction ms as [|m ms IH]; cbn; intros ds HF H; [assumption|].
  inversion HF as [|? ? Hm HF']; subst.
  destruct (resolve tn tg sd m) as [d|] eqn:E; [|discriminate].
  rewrite (resolve_ext _ _ _ e1 e2 e3 _ _ Hm E).
  destruct (spec_msgs tn tg sd ms) as [ds' o] eqn:E2. cbn in H. injection H as <- ->.
  rewrite (IH _ HF' eq_refl). reflexivity.
Qed.

Lemma spec_msgs_app tn tg sd (a b : list wmsg) da db :
  spec_msgs tn tg sd a = {| delivered := da; out := Ok |} ->
  spec_msgs tn tg sd b = {| delivered := db; out := Ok |} ->
  spec_msgs tn tg sd (a ++ b) = {| delivered := da ++ db; out := Ok |}.
Proof.
  revert da; induction a as [|m a IH]; cbn; intros da Ha Hb.
  - injection Ha as <-. exact Hb.
  - destruct (resolve tn tg sd m); [|discriminate].
    destruct (spec_msgs tn tg sd a) as [ds' o] eqn:E. cbn in Ha. injection Ha as <- ->.
    rewrite (IH _ eq_refl Hb). reflexivity.
Qed.

Lemma okm_ext sd e (m : wmsg) : okm sd m -> okm (sd ++ e) m.
Proof. unfold okm. intros H Hn. apply app_eq_nil in Hn as [-> _]. auto. Qed.

(* the codec oracle: what was serialised under a type name decodes, under that name, to itself *)
Hypothesis codec : forall v t d, tyname_of v = Some t -> ser v = Some d -> deser t d = Some v.

Lemma enc_spec (b : list deliver) : forall tn tg sd acc ds,
  spec_msgs tn tg sd acc = {| delivered := ds; out := Ok |} -> Forall (okm sd) acc ->
  spec_decode (enc b tn tg sd acc) = {| delivered := ds ++ expected b; out := Ok |}.
Proof.
  unfold tyname in *. induction b as [|d b IH]; intros tn tg sd acc ds Hd HF.
  - cbn. unfold Wire.spec_decode; cbn. now rewrite app_nil_r.
  - cbn [Wire.enc Wire.expected]. unfold Wire.serialisable.
    destruct (tyname_of (s_msg d)) as [t|] eqn:Et; [|apply IH; assumption].
    destruct (ser (s_msg d)) as [bytes|] eqn:Eb; [|apply IH; assumption].
    pose proof (intern_nth Nat.eqb Nat.eqb_eq t tn) as Hty.
    pose proof (intern_ext Nat.eqb t tn) as [e1 He1].
    pose proof (intern_nth pid_eqb pid_eqb_eq (s_target d) tg) as Htg.
    pose proof (intern_ext pid_eqb (s_target d) tg) as [e2 He2].
    destruct (intern Nat.eqb t tn) as [tyid tn'] eqn:Ety. cbn [fst snd] in *.
    destruct (intern pid_eqb (s_target d) tg) as [tid tg'] eqn:Etg. cbn [fst snd] in *.
    subst tn' tg'.
    replace (ds ++ to_delivery t d :: expected b) with ((ds ++ [to_delivery t d]) ++ expected b)
      by (rewrite <- app_assoc; reflexivity).
    unfold lookup_sender.
    destruct (s_sender d) as [s|] eqn:Esd.
    + pose proof (intern_nth pid_eqb pid_eqb_eq s sd) as Hsd.
      pose proof (intern_ext pid_eqb s sd) as [e3 He3].
      destruct (intern pid_eqb s sd) as [sid sd'] eqn:Esi. cbn [fst snd] in *. subst sd'.
      apply IH.
      * apply spec_msgs_app; [apply spec_msgs_ext; assumption|].
        cbn. unfold Wire.resolve; cbn [m_tyi m_ti m_si m_data]. unfold tyname in *.
        rewrite (go_index_of_nat _ _ _ Hty), (go_index_of_nat _ _ _ Htg), (codec _ _ _ Et Eb).
        destruct (Z.ltb_spec (Z.of_nat sid) 0); [lia|]. rewrite (go_index_of_nat _ _ _ Hsd).
        unfold to_delivery. rewrite Esd. reflexivity.
      * apply Forall_app; split.
        -- eapply Forall_impl; [|exact HF]. intros m. apply okm_ext.
        -- constructor; [|constructor]. unfold okm; cbn. intros Hn. exfalso.
           rewrite Hn in Hsd. destruct sid; discriminate.
    + apply IH.
      * apply spec_msgs_app.
        -- rewrite <- (app_nil_r sd). apply spec_msgs_ext; assumption.
        -- cbn. unfold Wire.resolve; cbn [m_tyi m_ti m_si m_data]. unfold tyname in *.
           rewrite (go_index_of_nat _ _ _ Hty), (go_index_of_nat _ _ _ Htg), (codec _ _ _ Et Eb). cbn.
           unfold to_delivery. rewrite Esd. reflexivity.
      * apply Forall_app; split; [assumption|]. constructor; [|constructor]. unfold okm; cbn. lia.
Qed.

(* every batch round-trips: the receiving node makes exactly the expected
   SendLocal calls, in order, and the stream stays up (no error, no panic) *)
Theorem roundtrip (b : list deliver) :
  decode (encode b) = {| delivered := expected b; out := Ok |}.
Proof.
  rewrite decode_spec. unfold Wire.encode.
  apply (enc_spec b [] [] [] [] []); [reflexivity|constructor].
Qed.

End wire.

(** [expected] spelled out (no codec needed): one delivery per serialisable
    message, in order, same target, same sender (none stays none), same
    payload, under the message's own type name *)
Section expected.
Context {value data : Type} (tyname_of : value -> option tyname) (ser : value -> option data).

Definition same_message (d : deliver value) (x : delivery value) : Prop :=
  d_target x = s_target d /\ d_sender x = s_sender d /\ d_msg x = s_msg d /\
  tyname_of (s_msg d) = Some (d_ty x).

Theorem expected_is_filter (b : list (deliver value)) :
  Forall2 same_message (filter (fun d => serialisable tyname_of ser (s_msg d)) b) (expected tyname_of ser b).
Proof.
  induction b as [|d b IH]; cbn; [constructor|].
  destruct (tyname_of (s_msg d)) as [t|] eqn:Et.
  - destruct (serialisable tyname_of ser (s_msg d)); [|assumption].
    constructor; [|assumption]. unfold same_message; cbn. auto.
  - replace (serialisable tyname_of ser (s_msg d)) with false
      by (unfold serialisable; rewrite Et; reflexivity).
    assumption.
Qed.

Lemma enc_app (b1 b2 : list (deliver value)) : forall tn tg sd acc,
  enc tyname_of ser (b1 ++ b2) tn tg sd acc =
  let e := enc tyname_of ser b1 tn tg sd acc in
  enc tyname_of ser b2 (e_tnames e) (e_targets e) (e_senders e) (e_msgs e).
Proof.
  induction b1 as [|d b1 IH]; intros tn tg sd acc; [reflexivity|]. cbn [app enc].
  destruct (tyname_of (s_msg d)); [|apply IH]. destruct (ser (s_msg d)); [|apply IH].
  destruct (intern Nat.eqb t tn), (lookup_sender (s_sender d) sd), (intern pid_eqb (s_target d) tg).
  apply IH.
Qed.

(* an unserialisable message is dropped on its own: the envelope on the wire
   is the one of the batch without it *)
Theorem unserialisable_dropped_alone (b1 b2 : list (deliver value)) d :
  serialisable tyname_of ser (s_msg d) = false ->
  encode tyname_of ser (b1 ++ d :: b2) = encode tyname_of ser (b1 ++ b2).
Proof.
  intros H. unfold encode. rewrite !enc_app. cbn zeta. cbn [enc].
  unfold serialisable in H. destruct (tyname_of (s_msg d)); [|reflexivity].
  destruct (ser (s_msg d)); [discriminate|reflexivity].
Qed.
End expected.

(** * the executable instance: its codec satisfies the law, and the oracle of
      WireExec holds of every model run *)
Lemma x_codec v t d : x_tyname_of v = Some t -> x_ser v = Some d -> x_deser t d = Some v.
Proof.
  destruct v as [ty p ok|]; [|discriminate]. cbn [x_tyname_of x_ser]. intros [= <-].
  destruct ok; [|discriminate]. cbn [andb]. destruct (known ty) eqn:K; [|discriminate].
  intros [= <-]. unfold x_deser. rewrite K. cbn [negb dk dp]. rewrite Nat.eqb_refl. reflexivity.
Qed.

Lemma str_eqb_refl a : str_eqb a a = true.
Proof. now apply str_eqb_eq. Qed.
Lemma pid_eqb_refl a : pid_eqb a a = true.
Proof. now apply pid_eqb_eq. Qed.
Lemma xvalue_eqb_refl v : xvalue_eqb v v = true.
Proof. destruct v as [t p o|]; cbn; [|reflexivity]. rewrite Nat.eqb_refl, Z.eqb_refl, eqb_reflx. reflexivity. Qed.
Lemma xdelivery_eqb_refl d : xdelivery_eqb d d = true.
Proof.
  unfold xdelivery_eqb. rewrite pid_eqb_refl, Nat.eqb_refl, xvalue_eqb_refl.
  destruct (d_sender d); cbn; [rewrite pid_eqb_refl|]; reflexivity.
Qed.
Lemma all2_refl {A} (f : A -> A -> bool) l : (forall a, f a a = true) -> all2 f l l = true.
Proof. intros H. induction l; cbn; [reflexivity|]. now rewrite H, IHl. Qed.
Lemma xresult_eqb_refl r : xresult_eqb r r = true.
Proof. unfold xresult_eqb. rewrite (all2_refl _ _ xdelivery_eqb_refl). destruct (out r); reflexivity. Qed.

Theorem x_roundtrip_expected b : x_roundtrip b = x_expected b.
Proof. apply (roundtrip x_tyname_of x_ser x_deser x_codec). Qed.

(* for every input, the oracle is true of what the model does (so a run of the
   implementation on which [corr] holds satisfies the oracle, and an oracle
   failure is a deviation from the proved behaviour) *)
Theorem oracle_sound c : oracle_on c (model_of c) = true.
Proof.
  destruct c as [b obs|es obs]; cbn.
  - rewrite x_roundtrip_expected. apply xresult_eqb_refl.
  - unfold x_spec_stream, x_decode_stream. rewrite <- decode_stream_spec, xresult_eqb_refl. cbn.
    pose proof (reader_total x_deser es) as H. destruct (out (decode_stream x_deser es)); cbn; congruence.
Qed.

(** * non-vacuity: a mixed batch (nil sender after a real one, split-ambiguous
      senders, an unserialisable and a non-proto message in the middle) *)
Definition w_t1 : pid := ([114], [116; 49]).           (* r/t1 *)
Definition w_t2 : pid := ([114], [116; 50]).           (* r/t2 *)
Definition w_s1 : pid := ([120], [115; 49]).           (* x/s1 *)
Definition w_ab_c : pid := ([97; 98], [99]).           (* ab/c *)
Definition w_a_bc : pid := ([97], [98; 99]).           (* a/bc *)
Definition mk (t : pid) (s : option pid) (v : xvalue) : xdeliver :=
  {| s_target := t; s_sender := s; s_msg := v |}.

Definition ex_batch : list xdeliver :=
  [ mk w_t1 None (XMsg 0 10 true); mk w_t2 (Some w_s1) (XMsg 1 11 true);
    mk w_t1 (Some w_ab_c) (XMsg 0 12 true); mk w_t1 (Some w_s1) (XMsg 0 13 false);
    mk w_t2 None XOther; mk w_t1 (Some w_a_bc) (XMsg 1 14 true); mk w_t2 None (XMsg 0 15 true) ].

Example roundtrip_ex :
  x_roundtrip ex_batch = x_expected ex_batch /\
  map (@d_sender _) (delivered (x_roundtrip ex_batch)) = [None; Some w_s1; Some w_ab_c; Some w_a_bc; None] /\
  map (@m_si _) (e_msgs (x_encode ex_batch)) = [-1; 0; 1; 2; -1]%Z.
Proof. vm_compute. auto. Qed.

Definition ex_good : xwmsg := {| m_data := {| dk := 1; dp := 7 |}; m_ti := 0; m_si := 0; m_tyi := 0 |}.
Definition ex_env (ms : list xwmsg) : xenvelope :=
  {| e_tnames := [0; 5]; e_targets := [w_t1]; e_senders := [w_s1]; e_msgs := ms |}.

(* a good message, a message with a target index out of range, a good one:
   one delivery, an error, nothing after it *)
Example first_bad_ends_stream_ex :
  x_decode (ex_env [ex_good; {| m_data := {| dk := 1; dp := 8 |}; m_ti := 1; m_si := 0; m_tyi := 0 |}; ex_good]) =
  {| delivered := [{| d_target := w_t1; d_sender := Some w_s1; d_ty := 0; d_msg := XMsg 0 7 true |}]; out := Err |}.
Proof. vm_compute. reflexivity. Qed.

(* the hypotheses of [stream_ends_at_first_error] / [all_good_all_delivered] are satisfiable:
   a fully delivered envelope, then one that ends the stream, then one never looked at *)
Example stream_ends_at_first_error_ex :
  let good := ex_env [ex_good; ex_good] in
  let bad := ex_env [ex_good; {| m_data := {| dk := 0; dp := 0 |}; m_ti := 0; m_si := 0; m_tyi := 0 |}] in
  out (x_decode good) = Ok /\ length (delivered (x_decode good)) = 2 /\ out (x_decode bad) = Err /\
  length (delivered (x_decode_stream [good; bad; good])) = 3 /\ out (x_decode_stream [good; bad; good]) = Err.
Proof. vm_compute. auto 6. Qed.

(* an unserialisable message in the middle changes nothing on the wire *)
Example unserialisable_dropped_alone_ex :
  x_encode [mk w_t1 (Some w_s1) (XMsg 0 1 true); mk w_t2 (Some w_ab_c) (XMsg 0 2 false); mk w_t2 None (XMsg 1 3 true)] =
  x_encode [mk w_t1 (Some w_s1) (XMsg 0 1 true); mk w_t2 None (XMsg 1 3 true)].
Proof. vm_compute. reflexivity. Qed.

(** * the pinned tree: witnesses (D8 a–d, D9) *)

(* D8a: a message without a sender, in a batch that also has a real sender, arrives with that sender *)
Example pinned_nil_sender_refuted :
  let b := [mk w_t1 None (XMsg 0 1 true); mk w_t1 (Some w_s1) (XMsg 0 2 true); mk w_t1 None (XMsg 0 3 true)] in
  map (@d_sender _) (delivered (x_roundtrip_pinned b)) = [Some w_s1; Some w_s1; Some w_s1] /\
  x_roundtrip_pinned b <> x_expected b.
Proof. vm_compute. split; [reflexivity|discriminate]. Qed.

(* D8b: ("ab","c") and ("a","bc") share a table slot *)
Example pinned_split_key_refuted :
  let b := [mk w_t1 (Some w_ab_c) (XMsg 0 1 true); mk w_t1 (Some w_a_bc) (XMsg 0 2 true)] in
  map (@d_sender _) (delivered (x_roundtrip_pinned b)) = [Some w_ab_c; Some w_ab_c] /\
  x_roundtrip_pinned b <> x_expected b.
Proof. vm_compute. split; [reflexivity|discriminate]. Qed.

(* D8c: a non-protobuf value kills the sending node *)
Example pinned_non_proto_refuted :
  let b := [mk w_t1 None (XMsg 0 1 true); mk w_t1 None XOther] in
  out (x_roundtrip_pinned b) = Panic /\ x_expected b = {| delivered := [to_delivery 0 (mk w_t1 None (XMsg 0 1 true))]; out := Ok |}.
Proof. vm_compute. auto. Qed.

(* D8d: an unserialisable message is replaced by an empty message to targets[0] of typeNames[0] *)
Example pinned_unserialisable_refuted :
  let b := [mk w_t1 None (XMsg 0 1 true); mk w_t2 None (XMsg 1 2 false)] in
  length (delivered (x_roundtrip_pinned b)) = 2 /\ length (delivered (x_expected b)) = 1 /\
  nth_error (delivered (x_roundtrip_pinned b)) 1 =
    Some {| d_target := w_t1; d_sender := None; d_ty := 0; d_msg := XMsg 0 (-1) true |}.
Proof. vm_compute. auto. Qed.

(* D9: four envelopes, four panics of the receiving node *)
Definition bad (ti si tyi : Z) : xwmsg := {| m_data := {| dk := 1; dp := 7 |}; m_ti := ti; m_si := si; m_tyi := tyi |}.
Example pinned_reader_panics_refuted :
  out (x_decode_pinned (ex_env [bad 0 0 2])) = Panic /\      (* type index past the table *)
  out (x_decode_pinned (ex_env [bad 1 0 0])) = Panic /\      (* target index past the table *)
  out (x_decode_pinned (ex_env [bad 0 1 0])) = Panic /\      (* sender index past the table *)
  out (x_decode_pinned (ex_env [bad 0 (-1) 0])) = Panic /\   (* negative sender index *)
  out (x_decode_pinned {| e_tnames := []; e_targets := []; e_senders := []; e_msgs := [bad 0 0 0] |}) = Panic.
Proof. vm_compute. auto 6. Qed.

(* the repaired reader on the same envelopes: four errors and a no-sender delivery *)
Example repaired_reader_on_witnesses :
  map (fun m => out (x_decode (ex_env [m]))) [bad 0 0 2; bad 1 0 0; bad 0 1 0; bad 0 (-1) 0] = [Err; Err; Err; Ok] /\
  out (x_decode {| e_tnames := []; e_targets := []; e_senders := []; e_msgs := [bad 0 0 0] |}) = Err.
Proof. vm_compute. auto. Qed.
