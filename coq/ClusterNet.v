(** L5 — n cluster nodes and the notifications between their agents: model of
    the activation part of cluster/agent.go ([activate],
    [handleActivationRequest], [handleActivation], [handleDeactivation],
    [handleActorTopology], the activation bookkeeping of [memberJoin] /
    [memberLeave], [bcast]) and of [Cluster.Activate], [Cluster.Deactivate],
    [Cluster.Spawn], [GetActiveByID], [GetActiveByKind], [HasKind]
    (cluster/cluster.go), on top of the membership model of Agent.v.

    Definitions only: this file must keep compiling and running when a proof
    breaks.  Proofs are in ClusterNetProofs.v.

    A history is a list of operations; each operation puts notifications in
    the network, and all of them (and those they cause) are delivered — in an
    order chosen by an arbitrary choice list — before the next operation: the
    quiescent histories of C19.

    Member ids, hosts and kind *names* are interned to [nat]; the id of an
    activated actor ("kind/id", the ID part of its PID) is a string, i.e. a
    [list nat] of character codes, because [GetActiveByKind] recovers the kind
    by splitting that string at the first '/'.  [spell] gives the spelling of
    a kind name. *)
From stdpp Require Import gmap list sorting.
From HV Require Export Agent.

Definition key := list nat.
Definition slash : nat := 47.

(* the configuration: address of each node, the kinds each node registered
   (RegisterKind before Start), spelling of the kind names *)
Record config := { host : nat → nat; nkinds : nat → list nat; spell : nat → list nat }.

(* Cluster.Member() of node i *)
Definition mk_member (cfg : config) (i : nat) : member :=
  {| mid := i; mhost := host cfg i; mkinds := nkinds cfg i |}.

(* id := kind + "/" + config.id *)
Definition akey (cfg : config) (kind : nat) (id : list nat) : key := spell cfg kind ++ slash :: id.

(* strings.Split(id, "/")[0] *)
Fixpoint key_kind (k : key) : list nat :=
  match k with
  | [] => []
  | c :: k' => if decide (c = slash) then [] else c :: key_kind k'
  end.

(** * Messages between agents, events *)
Inductive msg :=
  | MMembers (snap : list member)          (* *Members, from the provider *)
  | MTopology (l : list (key * nat))       (* *ActorTopology: PIDs as (ID, address) *)
  | MActivation (k : key) (h : nat)        (* *Activation{PID} *)
  | MDeactivation (k : key) (h : nat).     (* *Deactivation{PID} *)
Global Instance msg_eq_dec : EqDecision msg.
Proof. solve_decision. Defined.

Inductive cev := EvA (k : key) (h : nat) | EvD (k : key) (h : nat).
Global Instance cev_eq_dec : EqDecision cev.
Proof. solve_decision. Defined.

(** * One node: the agent's state, the engine's registry (restricted to the
      actors spawned through the cluster) and two ghost logs of the current
      operation: events published, actors stopped *)
Record node := {
  ag : astate;                  (* Agent.members, Agent.kinds *)
  activated : gmap key nat;     (* Agent.activated: PID.ID -> PID.Address *)
  local_kinds : list nat;       (* Agent.localKinds *)
  registry : gset key;          (* engine.Registry *)
  evs : list cev;
  stops : list key;
}.

Definition fresh (cfg : config) (i : nat) : node :=
  {| ag := init (list_to_set (nkinds cfg i)); activated := ∅; local_kinds := nkinds cfg i;
     registry := ∅; evs := []; stops := [] |}.

(* addActivated: only if the ID is not known yet *)
Definition add_activated (act : gmap key nat) (p : key * nat) : gmap key nat :=
  match act !! p.1 with Some _ => act | None => <[p.1 := p.2]> act end.

(* the loop of memberLeave: every PID whose address is the leaver's host *)
Definition purge_host (act : gmap key nat) (h : nat) : gmap key nat :=
  filter (λ kv, kv.2 ≠ h) act.

(* Agent.Receive for the four notifications: new node state, messages sent
   (destination = member id of the addressed agent) *)
Definition handle (nd : node) (m : msg) : node * list (nat * msg) :=
  match m with
  | MActivation k h =>
      (* handleActivation: addActivated; ActivationEvent *)
      ({| ag := ag nd; activated := add_activated (activated nd) (k, h); local_kinds := local_kinds nd;
          registry := registry nd; evs := evs nd ++ [EvA k h]; stops := stops nd |}, [])
  | MDeactivation k h =>
      (* handleDeactivation: removeActivated (by ID); engine.Poison(pid) —
         Registry.get looks the process up by ID only, so the local actor of
         that ID is stopped whatever the address says; DeactivationEvent *)
      ({| ag := ag nd; activated := delete k (activated nd); local_kinds := local_kinds nd;
          registry := registry nd ∖ {[k]}; evs := evs nd ++ [EvD k h];
          stops := stops nd ++ (if decide (k ∈ registry nd) then [k] else []) |}, [])
  | MTopology l =>
      (* handleActorTopology *)
      ({| ag := ag nd; activated := foldl add_activated (activated nd) l; local_kinds := local_kinds nd;
          registry := registry nd; evs := evs nd; stops := stops nd |}, [])
  | MMembers snap =>
      (* handleMembers: memberJoin for every joined member (our ActorTopology
         is sent to it when we know at least one actor), then memberLeave for
         every member that left (purge by host) *)
      let js := joined (ag nd) snap in
      let ls := left_ (ag nd) snap in
      let out := if decide (activated nd = ∅) then []
                 else (λ m, (mid m, MTopology (map_to_list (activated nd)))) <$> js in
      ({| ag := (handle_members (ag nd) snap).1;
          activated := foldl (λ act m, purge_host act (mhost m)) (activated nd) ls;
          local_kinds := local_kinds nd; registry := registry nd; evs := evs nd; stops := stops nd |}, out)
  end.

(** * The cluster *)
Record state := {
  nodes : gmap nat node;          (* the live nodes, by member id *)
  net : list (nat * msg);         (* notifications in flight: (destination, message) *)
  started : list (nat * key);     (* ghost: actors started by the current operation *)
}.

Definition init_state : state := {| nodes := ∅; net := []; started := [] |}.

(* delivery of the i-th message in flight; a message for a node that does not
   exist is lost *)
Definition deliver1 (i : nat) (s : state) : state :=
  match net s !! i with
  | None => s
  | Some (dst, m) =>
      let rest := delete i (net s) in
      match nodes s !! dst with
      | None => {| nodes := nodes s; net := rest; started := started s |}
      | Some nd =>
          let r := handle nd m in
          {| nodes := <[dst := r.1]> (nodes s); net := rest ++ r.2; started := started s |}
      end
  end.

(* a bound on the number of deliveries still to come *)
Definition weight (m : msg) : nat :=
  match m with MMembers snap => S (length snap) | _ => 1 end.
Definition net_weight (l : list (nat * msg)) : nat := sum_list (weight <$> l.*2).

(* deliver everything; the next message is chosen by the head of [order]
   (modulo the number of messages in flight; the first one when [order] is
   exhausted) *)
Fixpoint deliver_fuel (fuel : nat) (order : list nat) (s : state) : state :=
  match fuel with
  | 0 => s
  | S f =>
      match net s with
      | [] => s
      | _ :: _ =>
          deliver_fuel f (tail order) (deliver1 (default 0 (head order) `mod` length (net s)) s)
      end
  end.
Definition deliver_all (order : list nat) (s : state) : state :=
  deliver_fuel (net_weight (net s)) order s.

(** * Operations *)
Inductive op :=
  | Activate (a : nat) (kind : nat) (id : list nat) (sel : nat)
      (* Cluster.Activate on node a; the select function returns the sel-th of
         the offered members in id order, nil if there is none *)
  | Deactivate (a : nat) (ph : option nat) (kind : nat) (id : list nat)
      (* Cluster.Deactivate(pid) on node a, pid = (ph, kind/id); ph = None:
         the PID GetActiveByID(kind/id) returns on a (nothing if nil) *)
  | Spawn (a : nat) (kind : nat) (id : list nat)
      (* Cluster.Spawn(producer, kind, WithID(id)) on node a *)
  | Snap (ids : list nat).
      (* a new membership: nodes not listed are gone, new ones start afresh,
         and every listed node's agent is sent the member list *)

Inductive res := RNil | RPid (h : nat) (k : key) | RPanic.
Global Instance res_eq_dec : EqDecision res.
Proof. solve_decision. Defined.

(* engine.Spawn(..., WithID): a second process under an ID that is taken is
   not started *)
Definition spawn_on (t : nat) (k : key) (s : state) : state :=
  match nodes s !! t with
  | None => s
  | Some nd =>
      if decide (k ∈ registry nd) then s
      else {| nodes := <[t := {| ag := ag nd; activated := activated nd; local_kinds := local_kinds nd;
                                 registry := {[k]} ∪ registry nd; evs := evs nd; stops := stops nd |}]> (nodes s);
              net := net s; started := started s ++ [(t, k)] |}
  end.

Definition nsortm (v : gmap nat member) : list member := omap (v !!.) (nsort (map_to_list v).*1).

(* bcast: one message per member of the sender's view *)
Definition bcast (v : gmap nat member) (m : msg) : list (nat * msg) := (λ x, (mid x, m)) <$> slice v.

Definition send (l : list (nat * msg)) (s : state) : state :=
  {| nodes := nodes s; net := net s ++ l; started := started s |}.

(* Agent.activate *)
Definition activate (cfg : config) (a kind : nat) (id : list nat) (sel : nat) (s : state) : state * res :=
  match nodes s !! a with
  | None => (s, RNil)
  | Some na =>
      let k := akey cfg kind id in
      match activated na !! k with
      | Some _ => (s, RNil)                          (* duplicated actor id across the cluster *)
      | None =>
          (* FilterByKind; the harness's select function sorts by id *)
          let offered := filter (λ m, kind ∈ mkinds m) (nsortm (members (ag na))) in
          match offered with
          | [] => (s, RNil)                          (* no member with that kind *)
          | _ :: _ =>
              match offered !! sel with
              | None => (s, RNil)                    (* select returned nil *)
              | Some m =>
                  if decide (mhost m = host cfg a) then
                    (* local activation: handleActivationRequest on this node;
                       its answer is used unchecked *)
                    if decide (kind ∈ local_kinds na) then
                      (send (bcast (members (ag na)) (MActivation k (host cfg a))) (spawn_on a k s),
                       RPid (host cfg a) k)
                    else (s, RPanic)                 (* Activation{PID: nil}: nil dereference *)
                  else
                    (* remote activation: request to the agent cluster/<id> at the member's host *)
                    match nodes s !! mid m with
                    | None => (s, RNil)              (* time-out *)
                    | Some nt =>
                        if decide (kind ∈ local_kinds nt) then
                          match activated nt !! k with
                          | Some _ => (s, RNil)        (* the asked member knows the id is taken (repair D26): Success: false *)
                          | None =>
                          (send (bcast (members (ag na)) (MActivation k (host cfg (mid m))))
                                (spawn_on (mid m) k s),
                           RPid (host cfg (mid m)) k)
                          end
                        else (s, RNil)               (* Success: false *)
                    end
              end
          end
      end
  end.

Definition reset_node (nd : node) : node :=
  {| ag := ag nd; activated := activated nd; local_kinds := local_kinds nd; registry := registry nd;
     evs := []; stops := [] |}.
Definition reset (s : state) : state :=
  {| nodes := reset_node <$> nodes s; net := net s; started := [] |}.

Definition issue (cfg : config) (o : op) (s : state) : state * res :=
  match o with
  | Activate a kind id sel => activate cfg a kind id sel s
  | Spawn a kind id =>
      match nodes s !! a with
      | None => (s, RNil)
      | Some na =>
          let k := akey cfg kind id in
          (send (bcast (members (ag na)) (MActivation k (host cfg a))) (spawn_on a k s), RPid (host cfg a) k)
      end
  | Deactivate a ph kind id =>
      match nodes s !! a with
      | None => (s, RNil)
      | Some na =>
          let k := akey cfg kind id in
          match (match ph with Some h => Some h | None => activated na !! k end) with
          | None => (s, RNil)
          | Some h => (send (bcast (members (ag na)) (MDeactivation k h)) s, RNil)
          end
      end
  | Snap ids =>
      ({| nodes := list_to_map ((λ i, (i, default (fresh cfg i) (nodes s !! i))) <$> ids);
          net := net s ++ ((λ i, (i, MMembers (mk_member cfg <$> ids))) <$> ids);
          started := started s |}, RNil)
  end.

(* one operation and the delivery of everything it causes *)
Definition run_op (cfg : config) (o : op) (order : list nat) (s : state) : state * res :=
  let r := issue cfg o (reset s) in (deliver_all order r.1, r.2).

(* a history: operations with the delivery order of each *)
Fixpoint crun (cfg : config) (s : state) (h : list (op * list nat)) : list (state * res) :=
  match h with
  | [] => []
  | (o, order) :: h' => let r := run_op cfg o order s in r :: crun cfg r.1 h'
  end.
Definition cafter (cfg : config) (s : state) (h : list (op * list nat)) : state :=
  foldl (λ s oo, (run_op cfg oo.1 oo.2 s).1) s h.

(** * Queries *)
Definition get_by_id (nd : node) (k : key) : option nat := activated nd !! k.

Fixpoint lex_leb (a b : list nat) : bool :=
  match a, b with
  | [], _ => true
  | _ :: _, [] => false
  | x :: a', y :: b' => if decide (x = y) then lex_leb a' b' else bool_decide (x < y)
  end.
Definition pid_le (p q : key * nat) : Prop :=
  (if decide (p.1 = q.1) then bool_decide (p.2 ≤ q.2) else lex_leb p.1 q.1) = true.
Global Instance pid_le_dec p q : Decision (pid_le p q).
Proof. unfold pid_le. apply _. Defined.
Definition psort : list (key * nat) → list (key * nat) := merge_sort pid_le.

(* handleGetActive{kind}: the PIDs whose ID starts with kind + "/" (or is the
   kind itself) *)
Definition by_kind_of (G : gmap key nat) (ks : list nat) : list (key * nat) :=
  psort (filter (λ kv, key_kind kv.1 = ks) (map_to_list G)).
Definition get_by_kind (cfg : config) (nd : node) (kind : nat) : list (key * nat) :=
  by_kind_of (activated nd) (spell cfg kind).

(** * Observations (what the harness records after each operation) *)
Definition kuniv4 : list nat := [0; 1; 2; 3].

Record nobs := {
  no_n : nat;
  no_byid : list (option nat);            (* GetActiveByID per key of the case *)
  no_bykind : list (list (key * nat));    (* GetActiveByKind per kind, sorted *)
  no_haskind : list bool;
  no_reg : list bool;                     (* the node's registry holds the key *)
  no_events : list cev;
}.
Global Instance nobs_eq_dec : EqDecision nobs.
Proof. solve_decision. Defined.

Record oobs := {
  oo_res : res;
  oo_started : list (nat * key);
  oo_stopped : list (nat * key);
  oo_nodes : list nobs;
}.
Global Instance oobs_eq_dec : EqDecision oobs.
Proof. solve_decision. Defined.

Definition node_ids (s : state) : list nat := nsort (map_to_list (nodes s)).*1.

Definition node_obs (cfg : config) (keys : list key) (n : nat) (nd : node) : nobs :=
  {| no_n := n;
     no_byid := get_by_id nd <$> keys;
     no_bykind := get_by_kind cfg nd <$> kuniv4;
     no_haskind := (λ k, has_kind k (ag nd)) <$> kuniv4;
     no_reg := (λ k, bool_decide (k ∈ registry nd)) <$> keys;
     no_events := evs nd |}.

Definition state_obs (cfg : config) (keys : list key) (r : state * res) : oobs :=
  let ns := omap (λ n, (λ nd, (n, nd)) <$> nodes r.1 !! n) (node_ids r.1) in
  {| oo_res := r.2;
     oo_started := started r.1;
     oo_stopped := ns ≫= (λ p, (λ k, (p.1, k)) <$> stops p.2);
     oo_nodes := (λ p, node_obs cfg keys p.1 p.2) <$> ns |}.

Definition op_keys (cfg : config) (o : op) : list key :=
  match o with
  | Activate _ kind id _ | Deactivate _ _ kind id | Spawn _ kind id => [akey cfg kind id]
  | Snap _ => []
  end.
(* in order of first use *)
Definition case_keys (cfg : config) (ops : list op) : list key :=
  reverse (remove_dups (reverse (ops ≫= op_keys cfg))).

Definition cmodel_run (cfg : config) (h : list (op * list nat)) : list oobs :=
  state_obs cfg (case_keys cfg h.*1) <$> crun cfg init_state h.

(** * Specification: the cluster as one map *)
Record sstate := { sG : gmap key nat; sM : gset nat }.
Definition sinit : sstate := {| sG := ∅; sM := ∅ |}.

Definition offered_ids (cfg : config) (M : gset nat) (kind : nat) : list nat :=
  filter (λ i, kind ∈ nkinds cfg i) (nsort (elements M)).

(* outcome of one operation: new state, value returned, actors started, the id
   being deactivated (its actor is stopped on the node that hosts it), the
   events every member publishes *)
Record sout := { so_st : sstate; so_res : res; so_started : list (nat * key);
                 so_dk : option key; so_events : list cev }.

Definition quiet (st : sstate) : sout :=
  {| so_st := st; so_res := RNil; so_started := []; so_dk := None; so_events := [] |}.

(* the actors node t stops when id dk is deactivated in the cluster G *)
Definition spec_stops (cfg : config) (G : gmap key nat) (dk : option key) (t : nat) : list key :=
  match dk with
  | Some k => if decide (G !! k = Some (host cfg t)) then [k] else []
  | None => []
  end.

Definition spec_step (cfg : config) (st : sstate) (o : op) : sout :=
  match o with
  | Activate a kind id sel =>
      let k := akey cfg kind id in
      match sG st !! k with
      | Some _ => quiet st
      | None =>
          match offered_ids cfg (sM st) kind !! sel with
          | None => quiet st
          | Some t =>
              {| so_st := {| sG := <[k := host cfg t]> (sG st); sM := sM st |};
                 so_res := RPid (host cfg t) k; so_started := [(t, k)]; so_dk := None;
                 so_events := [EvA k (host cfg t)] |}
          end
      end
  | Spawn a kind id =>
      let k := akey cfg kind id in
      {| so_st := {| sG := <[k := host cfg a]> (sG st); sM := sM st |};
         so_res := RPid (host cfg a) k; so_started := [(a, k)]; so_dk := None;
         so_events := [EvA k (host cfg a)] |}
  | Deactivate a ph kind id =>
      let k := akey cfg kind id in
      match (match ph with Some h => Some h | None => sG st !! k end) with
      | None => quiet st
      | Some h =>
          {| so_st := {| sG := delete k (sG st); sM := sM st |};
             so_res := RNil; so_started := []; so_dk := Some k; so_events := [EvD k h] |}
      end
  | Snap ids =>
      let gone := filter (λ i, i ∉ ids) (elements (sM st)) in
      quiet {| sG := foldl (λ g l, purge_host g (host cfg l)) (sG st) gone; sM := list_to_set ids |}
  end.

Definition spec_node_obs (cfg : config) (keys : list key) (st : sstate) (ev : list cev) (n : nat) : nobs :=
  {| no_n := n;
     no_byid := (sG st !!.) <$> keys;
     no_bykind := (λ kind, by_kind_of (sG st) (spell cfg kind)) <$> kuniv4;
     no_haskind := (λ k, bool_decide (Exists (λ i, k ∈ nkinds cfg i) (elements (sM st)))) <$> kuniv4;
     no_reg := (λ k, bool_decide (sG st !! k = Some (host cfg n))) <$> keys;
     no_events := ev |}.

Definition cspec_obs (cfg : config) (keys : list key) (pre : sstate) (o : sout) : oobs :=
  let ms := nsort (elements (sM (so_st o))) in
  {| oo_res := so_res o; oo_started := so_started o;
     oo_stopped := ms ≫= (λ t, (λ k, (t, k)) <$> spec_stops cfg (sG pre) (so_dk o) t);
     oo_nodes := spec_node_obs cfg keys (so_st o) (so_events o) <$> ms |}.

Fixpoint cspec_run (cfg : config) (keys : list key) (st : sstate) (ops : list op) : list oobs :=
  match ops with
  | [] => []
  | o :: ops' => let r := spec_step cfg st o in cspec_obs cfg keys st r :: cspec_run cfg keys (so_st r) ops'
  end.

(** * The histories C19 speaks about *)
(* a snapshot is the join of one new node or the leave of one member; every
   operation is issued on a member; cluster-Spawn uses an id the cluster does
   not know *)
Definition wf_op (cfg : config) (st : sstate) (o : op) : bool :=
  match o with
  | Activate a _ _ _ | Deactivate a _ _ _ => bool_decide (a ∈ sM st)
  | Spawn a kind id => bool_decide (a ∈ sM st) && bool_decide (sG st !! akey cfg kind id = None)
  | Snap ids =>
      bool_decide (NoDup ids) &&
      match filter (λ i, i ∉ sM st) ids, filter (λ i, i ∉ ids) (elements (sM st)) with
      | [_], [] | [], [_] => true
      | _, _ => false
      end
  end.
Fixpoint wf_hist (cfg : config) (st : sstate) (ops : list op) : bool :=
  match ops with
  | [] => true
  | o :: ops' => wf_op cfg st o && wf_hist cfg (so_st (spec_step cfg st o)) ops'
  end.
Definition spec_after (cfg : config) (st : sstate) (ops : list op) : sstate :=
  foldl (λ st o, so_st (spec_step cfg st o)) st ops.

(* hosts pairwise distinct *)
Definition host_inj (cfg : config) : Prop := ∀ i j, host cfg i = host cfg j → i = j.
(* kind names contain no '/' and are pairwise distinct *)
Definition spell_ok (cfg : config) : Prop :=
  (∀ k, slash ∉ spell cfg k) ∧ (∀ k k', spell cfg k = spell cfg k' → k = k').

(* the C19 predicate on the observations of a history *)
Definition coracle_on (cfg : config) (ops : list op) (os : list oobs) : bool :=
  negb (wf_hist cfg sinit ops) || bool_decide (cspec_run cfg (case_keys cfg ops) sinit ops = os).
