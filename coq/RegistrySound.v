(** The oracle of RegistryExec (family `regsched`) holds of every run of the
    interleaving model: a second invariant (no process starts or stops twice,
    lookups return processes of the id asked for, a stopped process is removed
    or about to be) and the counting argument at the end of a run. *)
From stdpp Require Import list sets.
From HV Require Import Registry RegistryProofs RegistryExec.

Record Inv2 (s : cst) : Prop := {
  i2_started : NoDup (c_started s);
  i2_stopped : NoDup (c_stopped s);
  i2_gets : forall i p, (i, Some p) ∈ c_gets s -> c_ids s !! p = Some i;
  i2_rem : forall p, p ∈ c_stopped s ->
                     p ∈ c_removed s \/ exists t i rest, c_thr s !! t = Some (MRem p i, rest)
}.

Lemma Inv2_init progs : Inv2 (cinit progs).
Proof. split; simpl; try apply NoDup_nil_2; intros; set_solver. Qed.

Lemma keep_rem (s : cst) t th' p :
  (forall i rest, c_thr s !! t <> Some (MRem p i, rest)) ->
  (p ∈ c_removed s \/ exists t0 i rest, c_thr s !! t0 = Some (MRem p i, rest)) ->
  p ∈ c_removed s \/ exists t0 i rest, <[t := th']> (c_thr s) !! t0 = Some (MRem p i, rest).
Proof.
  intros Hnot [?|(t0 & i & rest & H0)]; [by left|]. right. exists t0, i, rest.
  rewrite list_lookup_insert_ne; [done|]. intros ->. by eapply Hnot.
Qed.

Lemma Inv2_step s t s' l : Inv s -> Inv2 s -> cstep s t = Some (s', l) -> Inv2 s'.
Proof.
  intros I J Hs. unfold cstep in Hs.
  destruct (c_thr s !! t) as [[m prog]|] eqn:Ht; [|done].
  Ltac keep J Ht := intros p' Hp'; apply keep_rem; [intros ? ?; rewrite Ht; congruence | by apply (i2_rem _ J)].
  destruct m as [| p | p | p i].
  - destruct prog as [|[i|i|i] rest]; [done| | |].
    + destruct (c_reg s i) as [q|] eqn:Hr; injection Hs as <- <-; split; simpl; try apply J.
      * intros i' p' H. by apply lookup_app_l_Some, (i2_gets _ J).
      * keep J Ht.
      * intros i' p' H. by apply lookup_app_l_Some, (i2_gets _ J).
      * keep J Ht.
    + destruct (c_reg s i) as [p|] eqn:Hr.
      * destruct (mem p (c_started s) && negb (mem p (c_stopped s))) eqn:Hlive; injection Hs as <- <-.
        -- apply andb_true_iff in Hlive as [Hst Hns]. apply negb_true_iff, mem_false in Hns.
           split; simpl; try apply J.
           ++ apply NoDup_cons. split; [done|apply J].
           ++ intros p' [->|H]%elem_of_cons.
              ** right. exists t, i, rest. apply list_lookup_insert. by eapply lookup_lt_Some.
              ** apply keep_rem; [intros ? ?; rewrite Ht; congruence | by apply (i2_rem _ J)].
        -- split; simpl; try apply J. keep J Ht.
      * injection Hs as <- <-. split; simpl; try apply J. keep J Ht.
    + injection Hs as <- <-. split; simpl; try apply J.
      * intros i' p' [H|H]%elem_of_app; [by apply (i2_gets _ J)|].
        apply elem_of_list_singleton in H. injection H as -> Hq. symmetry in Hq. by apply (inv_reg _ I) in Hq as [? _].
      * keep J Ht.
  - injection Hs as <- <-. destruct (inv_mstart _ I _ _ _ Ht) as [_ Hns]. split; simpl; try apply J.
    + apply NoDup_cons. split; [done|apply J].
    + keep J Ht.
  - injection Hs as <- <-. split; simpl; try apply J. keep J Ht.
  - injection Hs as <- <-. split; simpl; try apply J.
    intros p' H. destruct (decide (p' = p)) as [->|Hne]; [left; set_solver|].
    destruct (i2_rem _ J _ H) as [?|(t0 & i0 & r0 & H0)]; [left; set_solver|]. right. exists t0, i0, r0.
    rewrite list_lookup_insert_ne; [done|]. intros ->. congruence.
Qed.

Lemma Inv2_reach progs s : creach (cinit progs) s -> Inv2 s.
Proof.
  induction 1; [apply Inv2_init|]. eapply Inv2_step; [|done|done]. by eapply Inv_reach.
Qed.

(** * the oracle of RegistryExec holds of every run of the model *)

Lemma nodupb_true l : NoDup l -> nodupb l = true.
Proof.
  induction 1 as [|x l Hx _ IH]; [done|]. simpl. rewrite IH, andb_true_r.
  apply negb_true_iff. by apply mem_false.
Qed.

Lemma rev_perm {A} (l : list A) : rev l ≡ₚ l.
Proof. symmetry. apply Permutation_rev. Qed.

Definition cw (s : cst) (i : id) (l : list nat) : nat := length (filter (fun p => c_ids s !! p = Some i) l).

Lemma has_id_obs U s i p : has_id (obs_of U s) i p = true <-> c_ids s !! p = Some i.
Proof.
  unfold has_id, id_of. simpl. destruct (c_ids s !! p) as [j|]; [|done].
  rewrite Nat.eqb_eq. split; congruence.
Qed.

Lemma count_with_cw U s i l : count_with (obs_of U s) i l = cw s i l.
Proof. unfold count_with, cw. f_equal. apply list_filter_iff. intros p. apply has_id_obs. Qed.

Lemma cw_perm s i l k : l ≡ₚ k -> cw s i l = cw s i k.
Proof. intros H. unfold cw. by rewrite H. Qed.

Lemma cw_app s i l k : cw s i (l ++ k) = cw s i l + cw s i k.
Proof. unfold cw. by rewrite filter_app, app_length. Qed.

Lemma count_eq_id i l : count_eq i l = count_id i l.
Proof. induction l as [|j l IH]; simpl; [done|]. by rewrite IH. Qed.

Lemma count_eq_app i l k : count_eq i (l ++ k) = count_eq i l + count_eq i k.
Proof. induction l as [|j l IH]; simpl; [done|]. rewrite IH. lia. Qed.

(* the processes created for id i, counted over all process numbers *)
Lemma filter_seq_count (pre l : list id) i :
  length (filter (fun p => (pre ++ l) !! p = Some i) (seq (length pre) (length l))) = count_eq i l.
Proof.
  revert pre. induction l as [|x l IH]; intros pre; [done|]. simpl.
  rewrite filter_cons. rewrite (list_lookup_middle pre l x (length pre) eq_refl).
  specialize (IH (pre ++ [x])). rewrite app_length in IH. simpl in IH. rewrite Nat.add_1_r, <- app_assoc in IH. simpl in IH.
  destruct (Nat.eqb_spec x i) as [->|Hne].
  - rewrite decide_True by done. simpl. by rewrite IH.
  - rewrite decide_False by congruence. by rewrite IH.
Qed.

Lemma cw_seq s i : cw s i (seq 0 (length (c_ids s))) = count_eq i (c_ids s).
Proof. apply (filter_seq_count [] (c_ids s) i). Qed.

Lemma filter_len_zero (P : nat -> Prop) `{forall x, Decision (P x)} (l : list nat) :
  (forall x, x ∈ l -> ~ P x) -> length (filter P l) = 0.
Proof.
  induction l as [|x l IH]; [done|]. intros Hall. rewrite filter_cons.
  rewrite decide_False by (apply Hall; left). apply IH. intros y Hy. apply Hall. by right.
Qed.

Lemma filter_len_one (P : nat -> Prop) `{forall x, Decision (P x)} (l : list nat) w :
  NoDup l -> w ∈ l -> P w -> (forall x, x ∈ l -> P x -> x = w) -> length (filter P l) = 1.
Proof.
  induction 1 as [|x l Hx Hnd IH]; [set_solver|]. intros Hw Pw Hall. rewrite filter_cons.
  destruct (decide (x = w)) as [->|Hne].
  - rewrite decide_True by done. simpl. f_equal. apply filter_len_zero.
    intros y Hy Py. assert (y = w) by (apply Hall; [by right|done]). subst. done.
  - rewrite decide_False.
    + apply IH; [set_solver|done|]. intros y Hy. apply Hall. by right.
    + intros Px. apply Hne, Hall; [left|done].
Qed.

Lemma filter_len_le_one (P : nat -> Prop) `{forall x, Decision (P x)} (l : list nat) :
  NoDup l -> (forall x y, x ∈ l -> y ∈ l -> P x -> P y -> x = y) -> length (filter P l) <= 1.
Proof.
  intros Hnd Hall. destruct (filter P l) as [|w k] eqn:E; [simpl; lia|].
  assert (Hw : w ∈ filter P l) by (rewrite E; left). apply elem_of_list_filter in Hw as [Pw Hw].
  rewrite <- E. rewrite (filter_len_one P l w); try done. intros x Hx Px. by apply Hall.
Qed.

Lemma list_find_map_fst (f : id -> option nat) (U : list id) i :
  i ∈ U -> exists k, list_find (fun g : id * option nat => g.1 = i) (map (fun j => (j, f j)) U) = Some (k, (i, f i)).
Proof.
  intros Hi.
  destruct (list_find_elem_of (fun g : id * option nat => g.1 = i) (map (fun j => (j, f j)) U) (i, f i)) as [[k y] Hk].
  - apply elem_of_list_fmap. by exists i.
  - done.
  - exists k. rewrite Hk. apply list_find_Some in Hk as (Hl & Hy & _).
    apply elem_of_list_lookup_2, elem_of_list_fmap in Hl as (j & -> & _). simpl in Hy. by subst.
Qed.

Section at_the_end.
  Context (progs : list (list cop)) (s : cst).
  Context (R : creach (cinit progs) s) (T : cterminal s = true).
  Let I : Inv s := Inv_reach _ _ R.
  Let J : Inv2 s := Inv2_reach _ _ R.

  Lemma t_won_started p : p ∈ c_won s -> p ∈ c_started s.
  Proof.
    intros Hw. destruct (inv_winner _ I _ Hw) as [?|(t & rest & Ht)]; [done|].
    by apply (terminal_threads _ _ _ _ T) in Ht as [? _].
  Qed.

  Lemma t_loser_dup p : p < length (c_ids s) -> p ∉ c_won s -> p ∈ c_dup s.
  Proof.
    intros Hlt Hnw. destruct (inv_loser _ I _ Hlt Hnw) as [?|(t & rest & Ht)]; [done|].
    by apply (terminal_threads _ _ _ _ T) in Ht as [? _].
  Qed.

  Lemma t_stopped_removed p : p ∈ c_stopped s -> p ∈ c_removed s.
  Proof.
    intros Hs. destruct (i2_rem _ J _ Hs) as [?|(t & i & rest & Ht)]; [done|].
    by apply (terminal_threads _ _ _ _ T) in Ht as [? _].
  Qed.

  Lemma t_partition : c_started s ++ c_dup s ≡ₚ seq 0 (length (c_ids s)).
  Proof.
    apply NoDup_Permutation.
    - apply NoDup_app. split_and!; [apply J| |apply I].
      intros x Hx Hd. apply (inv_started _ I) in Hx. by apply (inv_dup _ I) in Hd as [? _].
    - apply NoDup_seq.
    - intros x. rewrite elem_of_app, elem_of_seq. split.
      + intros [H|H]; split; try lia.
        * by apply (inv_won_lt _ I), (inv_started _ I).
        * by apply (inv_dup _ I) in H as [_ ?].
      + intros [_ Hlt]. destruct (decide (x ∈ c_won s)); [left; by apply t_won_started|right; by apply t_loser_dup].
  Qed.

  Lemma t_split : exists rest, c_started s ≡ₚ c_stopped s ++ rest /\ NoDup rest /\
                               (forall x, x ∈ rest <-> x ∈ c_started s /\ x ∉ c_stopped s).
  Proof.
    assert (Hsub : c_stopped s ⊆+ c_started s).
    { apply NoDup_submseteq; [apply J|]. apply (inv_stopped _ I). }
    apply submseteq_Permutation in Hsub as [rest Hp]. exists rest. split; [done|].
    assert (Hnd : NoDup (c_stopped s ++ rest)) by (rewrite <- Hp; apply J).
    apply NoDup_app in Hnd as (_ & Hdisj & Hnr). split; [done|].
    intros x. split.
    - intros Hx. split; [rewrite Hp; set_solver|]. intros Hs. by apply (Hdisj x).
    - intros [Hst Hns]. rewrite Hp in Hst. set_solver.
  Qed.

  Lemma t_rest_count rest i :
    NoDup rest -> (forall x, x ∈ rest <-> x ∈ c_started s /\ x ∉ c_stopped s) ->
    cw s i rest = match c_reg s i with Some _ => 1 | None => 0 end.
  Proof.
    intros Hnd Hrest. unfold cw.
    assert (Hent : forall x, x ∈ rest -> c_ids s !! x = Some i -> c_reg s i = Some x).
    { intros x Hx Hi. apply Hrest in Hx as [Hst Hns]. apply (inv_entry _ I); [by apply (inv_started _ I)| |done].
      intros Hr. by apply Hns, (inv_removed _ I). }
    destruct (c_reg s i) as [p|] eqn:Hr.
    - destruct (inv_reg _ I _ _ Hr) as (Hid & Hw & Hnr).
      apply (filter_len_one _ _ p); [done| |done|].
      + apply Hrest. split; [by apply t_won_started|]. intros Hs. by apply Hnr, t_stopped_removed.
      + intros x Hx Hi. specialize (Hent x Hx Hi). congruence.
    - apply filter_len_zero. intros x Hx Hi. specialize (Hent x Hx Hi). congruence.
  Qed.

  Lemma t_counts i :
    cw s i (c_started s) + cw s i (c_dup s) = count_eq i (flat_map adds_of progs) /\
    count_eq i (c_ids s) = count_eq i (flat_map adds_of progs) /\
    cw s i (c_started s) = cw s i (c_stopped s) + match c_reg s i with Some _ => 1 | None => 0 end.
  Proof.
    assert (Hk : count_eq i (c_ids s) = count_eq i (flat_map adds_of progs)).
    { rewrite (count_eq_id i (c_ids s)), (count_eq_id i (flat_map adds_of progs)). pose proof (adds_conserved_reach i _ _ R) as Hc.
      rewrite (terminal_no_pending _ _ T) in Hc. lia. }
    split_and!; [|done|].
    - rewrite <- cw_app, (cw_perm _ _ _ _ t_partition), cw_seq. done.
    - destruct t_split as (rest & Hp & Hnd & Hrest).
      rewrite (cw_perm _ _ _ _ Hp), cw_app. f_equal. by apply t_rest_count.
  Qed.
End at_the_end.

Lemma NoDup_rev' (l : list nat) : NoDup l -> NoDup (rev l).
Proof. intros H. by rewrite rev_perm. Qed.

Lemma elem_of_rev' (l : list nat) x : x ∈ rev l <-> x ∈ l.
Proof. by rewrite rev_perm. Qed.

Lemma mem_rev x l : mem x (rev l) = mem x l.
Proof.
  destruct (mem x l) eqn:E.
  - apply mem_true. apply elem_of_rev'. by apply mem_true.
  - apply mem_false. rewrite elem_of_rev'. by apply mem_false.
Qed.

Definition model_case (progs : list (list cop)) (s : cst) : case :=
  {| c_progs := progs; c_sched := []; c_labels := []; c_replay := false;
     c_obs := obs_of (rev (dedup (rev (flat_map ids_of_prog progs)))) s |}.

Lemma mem_stops_false i progs :
  mem i (flat_map stops_of progs) = false -> forall prog, prog ∈ progs -> i ∉ stops_of prog.
Proof.
  intros H prog Hp Hi. apply mem_false in H. apply H. apply elem_of_list_In, in_flat_map.
  exists prog. split; by apply elem_of_list_In.
Qed.

Theorem oracle_holds_of_model progs s :
  creach (cinit progs) s -> oracle (model_case progs s) = true.
Proof.
  intros R. pose proof (Inv_reach _ _ R) as I. pose proof (Inv2_reach _ _ R) as J.
  unfold oracle, model_case. cbn [c_obs c_progs o_overlap o_deadlock o_started o_dup o_gets o_terminal obs_of negb andb].
  repeat (apply andb_true_intro; split).
  - apply nodupb_true, NoDup_rev', J.
  - apply nodupb_true, NoDup_rev', I.
  - apply forallb_forall. intros p Hp. apply negb_true_iff. rewrite mem_rev. apply mem_false.
    apply elem_of_list_In in Hp. rewrite elem_of_rev' in Hp. intros Hd. apply (inv_dup _ I) in Hd as [Hnw _].
    by apply Hnw, (inv_started _ I).
  - apply forallb_forall. intros [i [p|]] Hg; [|done]. simpl. apply has_id_obs.
    apply (i2_gets _ J). by apply elem_of_list_In.
  - destruct (cterminal s) eqn:T; [|done].
    apply forallb_forall. intros i Hi. apply elem_of_list_In in Hi.
    rewrite !count_with_cw.
    rewrite (cw_perm _ _ _ _ (rev_perm (c_started s))), (cw_perm _ _ _ _ (rev_perm (c_stopped s))),
            (cw_perm _ _ _ _ (rev_perm (c_dup s))).
    destruct (t_counts progs s R T i) as (H1 & H2 & H3).
    set (k := count_eq i (flat_map adds_of progs)) in *.
    repeat (apply andb_true_intro; split).
    + apply Nat.eqb_eq. done.
    + apply Nat.eqb_eq. done.
    + destruct (mem i (flat_map stops_of progs)) eqn:Hst; [done|].
      destruct (Nat.eqb_spec k 0) as [|Hk]; [done|]. apply Nat.eqb_eq.
      destruct (one_winner_terminal progs i s (mem_stops_false _ _ Hst) R T) as (_ & _ & _ & w & Hid & Hw & _ & Hoth).
      { rewrite <- count_eq_id. fold k. lia. }
      apply (filter_len_one _ _ w); [apply J|done|done|].
      intros x Hx Hxi. destruct (decide (x = w)) as [|Hne]; [done|]. by destruct (Hoth x Hxi Hne) as [? _].
    + apply Nat.leb_le. rewrite H3. destruct (c_reg s i); lia.
    + unfold universe in Hi. cbn [c_progs] in Hi. cbn [o_reg obs_of c_obs].
      destruct (list_find_map_fst (c_reg s) _ i Hi) as [n ->].
      destruct (c_reg s i) as [p|] eqn:Hr.
      * destruct (inv_reg _ I _ _ Hr) as (Hid & Hw & Hnr). cbn [o_started o_stopped obs_of c_obs].
        repeat (apply andb_true_intro; split).
        -- by apply has_id_obs.
        -- rewrite mem_rev. apply mem_true. by apply (t_won_started progs s R T).
        -- apply negb_true_iff. rewrite mem_rev. apply mem_false. intros Hs.
           by apply Hnr, (t_stopped_removed progs s R T).
        -- apply Nat.eqb_eq. lia.
      * apply Nat.eqb_eq. lia.
Qed.
