(** The oracle of RegistryExec (family `regsched`) holds of every run of the
    interleaving model: a second invariant (no process starts or stops twice,
    lookups return processes of the id asked for, a stopped process is removed
    or about to be) and the counting argument at the end of a run. *)
From stdpp Require Import list sets.
From HV Require Import Registry RegistryProofs RegistryExec.

Record Inv2 (s : cst) : Prop := {
  i2_started : NoDup (c_started s);
  i2_stopped : NoDup (c_stopped s);
  i2_gets : forall i p, (i, Some p) ∈ c_gets s -> c_ids s !! p = Some i;
  i2_rem : forall p, p ∈ c_stopped s ->
                     p ∈ c_removed s \/ exists t i rest, c_thr s !! t = Some (MRem p i, rest)
}.

Lemma Inv2_init progs : Inv2 (cinit progs).
Proof. split; simpl; try apply NoDup_nil_2; intros; set_solver. Qed.

Lemma keep_rem (s : cst) t th' p :
  (forall i rest, c_thr s !! t <> Some (MRem p i, rest)) ->
  (p ∈ c_removed s \/ exists t0 i rest, c_thr s !! t0 = Some (MRem p i, rest)) ->
  p ∈ c_removed s \/ exists t0 i rest, <[t := th']> (c_thr s) !! t0 = Some (MRem p i, rest).
Proof.
  intros Hnot [?|(t0 & i & rest & H0)]; [by left|]. right. exists t0, i, rest.
  rewrite list_lookup_insert_ne; [done|]. intros ->. by eapply Hnot.
Qed.

Lemma Inv2_step s t s' l : Inv s -> Inv2 s -> cstep s t = Some (s', l) -> Inv2 s'.
Proof.
  intros I J Hs. unfold cstep in Hs.
  destruct (c_thr s !! t) as [[m prog]|] eqn:Ht; [|done].
  Ltac keep J Ht := intros p' Hp'; apply keep_rem; [intros ? ?; rewrite Ht; congruence | by apply (i2_rem _ J)].
  destruct m as [| p | p | p i].
  - destruct prog as [|[i|i|i] rest]; [done| | |].
    + destruct (c_reg s i) as [q|] eqn:Hr; injection Hs as <- <-; split; simpl; try apply J.
      * intros i' p' H. by apply lookup_app_l_Some, (i2_gets _ J).
      * keep J Ht.
      * intros i' p' H. by apply lookup_app_l_Some, (i2_gets _ J).
      * keep J Ht.
    + destruct (c_reg s i) as [p|] eqn:Hr.
      * destruct (mem p (c_started s) && negb (mem p (c_stopped s))) eqn:Hlive; injection Hs as <- <-.
        -- apply andb_true_iff in Hlive as [Hst Hns]. apply negb_true_iff, mem_false in Hns.
           split; simpl; try apply J.
           ++ apply NoDup_cons. split; [done|apply J].
           ++ intros p' [->|H]%elem_of_cons.
              ** right. exists t, i, rest. apply list_lookup_insert. by eapply lookup_lt_Some.
              ** apply keep_rem; [intros ? ?; rewrite Ht; congruence | by apply (i2_rem _ J)].
        -- split; simpl; try apply J. keep J Ht.
      * injection Hs as <- <-. split; simpl; try apply J. keep J Ht.
    + injection Hs as <- <-. split; simpl; try apply J.
      * intros i' p' [H|H]%elem_of_app; [by apply (i2_gets _ J)|].
        apply elem_of_list_singleton in H. injection H as -> Hq. symmetry in Hq. by apply (inv_reg _ I) in Hq as [? _].
      * keep J Ht.
  - injection Hs as <- <-. destruct (inv_mstart _ I _ _ _ Ht) as [_ Hns]. split; simpl; try apply J.
    + apply NoDup_cons. split; [done|apply J].
    + keep J Ht.
  - injection Hs as <- <-. split; simpl; try apply J. keep J Ht.
  - injection Hs as <- <-. split; simpl; try apply J.
    intros p' H. destruct (decide (p' = p)) as [->|Hne]; [left; set_solver|].
    destruct (i2_rem _ J _ H) as [?|(t0 & i0 & r0 & H0)]; [left; set_solver|]. right. exists t0, i0, r0.
    rewrite list_lookup_insert_ne; [done|]. intros ->. congruence.
Qed.

Lemma Inv2_reach progs s : creach (cinit progs) s -> Inv2 s.
Proof.
  induction 1; [apply Inv2_init|]. eapply Inv2_step; [|done|done]. by eapply Inv_reach.
Qed.

(** * the oracle of RegistryExec holds of every run of the model *)

Lemma nodupb_true l : NoDup l -> nodupb l = true.
Proof.
  induction 1 as [|x l Hx _ IH]; [done|]. simpl. rewrite IH, andb_true_r.
  apply negb_true_iff. by apply mem_false.
Qed.

Lemma rev_perm {A} (l : list A) : rev l ≡ₚ l.
Proof. symmetry. apply Permutation_rev. Qed.

Definition cw (s : cst) (i : id) (l : list nat) : nat := length (filter (fun p => c_ids s !! p = Some i) l).

Lemma has_id_obs U s i p : has_id (obs_of U s) i p = true <-> c_ids s !! p = Some i.
Proof.
  unfold has_id, id_of. simpl. destruct (c_ids s !! p) as [j|]; [|done].
  rewrite Nat.eqb_eq. split; congruence.
Qed.

Lemma count_with_cw U s i l : count_with (obs_of U s) i l = cw s i l.
Proof. unfold count_with, cw. f_equal. apply list_filter_iff. intros p. apply has_id_obs. Qed.

Lemma cw_perm s i l k : l ≡ₚ k -> cw s i l = cw s i k.
Proof. intros H. unfold cw. by rewrite H. Qed.

Lemma cw_app s i l k : cw s i (l ++ k) = cw s i l + cw s i k.
Proof. unfold cw. by rewrite filter_app, app_length. Qed.

Lemma count_eq_id i l : count_eq i l = count_id i l.
Proof. induction l as [|j l IH]; simpl; [done|]. by rewrite IH. Qed.

Lemma count_eq_app i l k : count_eq i (l ++ k) = count_eq i l + count_eq i k.
Proof. induction l as [|j l IH]; simpl; [done|]. rewrite IH. lia. Qed.

(* the processes created for id i, counted over all process numbers *)
Lemma filter_seq_count (pre l : list id) i :
  length (filter (fun p => (pre ++ l) !! p = Some i) (seq (length pre) (length l))) = count_eq i l.
Proof.
  revert pre. induction l as [|x l IH]; intros pre; [done|]. simpl.
  rewrite filter_cons. rewrite (list_lookup_middle pre l x (length pre) eq_refl).
  specialize (IH (pre ++ [x])). rewrite app_length in IH. simpl in IH. rewrite Nat.add_1_r, <- app_assoc in IH. simpl in IH.
  destruct (Nat.eqb_spec x i) as [->|Hne].
  - rewrite decide_True by done. simpl. by rewrite IH.
  - rewrite decide_False by congruence. by rewrite IH.
Qed.

Lemma cw_seq s i : cw s i (seq 0 (length (c_ids s))) = count_eq i (c_ids s).
Proof. apply (filter_seq_count [] (c_ids s) i). Qed.

Lemma filter_len_zero (P : nat -> Prop) `{forall x, Decision (P x)} (l : list nat) :
  (forall x, x ∈ l -> ~ P x) -> length (filter P l) = 0.
Proof.
  induction l as [|x l IH]; [done|]. intros Hall. rewrite filter_cons.
  rewrite decide_False by (apply Hall; left). apply IH. intros y Hy. apply Hall. by right.
Qed.

Lemma filter_len_one (P : nat -> Prop) `{forall x, Decision (P x)} (l : list nat) w :
  NoDup l -> w ∈ l -> P w -> (forall x, x ∈ l -> P x -> x = w) -> length (filter P l) = 1.
Proof.
  induction 1 as [|x l Hx Hnd IH]; [set_solver|]. intros Hw Pw Hall. rewrite filter_cons.
  destruct (decide (x = w)) as [->|Hne].
  - rewrite decide_True by done. simpl. f_equal. apply filter_len_zero.
    intros y Hy Py. assert (y = w) by (apply Hall; [by right|done]). subst. done.
  - rewrite decide_False.
    + apply IH; [set_solver|done|]. intros y Hy. apply Hall. by right.
    + intros Px. apply Hne, Hall; [left|done].
Qed.

Lemma filter_len_le_one (P : nat -> Prop) `{forall x, Decision (P x)} (l : list nat) :
  NoDup l -> (forall x y, x ∈ l -> y ∈ l -> P x -> P y -> x = y) -> length (filter P l) <= 1.
Proof.
  intros Hnd Hall. destruct (filter P l) as [|w k] eqn:E; [simpl; lia|].
  assert (Hw : w ∈ filter P l) by (rewrite E; left). apply elem_of_list_filter in Hw as [Pw Hw].
  rewrite <- E. rewrite (filter_len_one P l w); try done. intros x Hx Px. by apply Hall.
Qed.

Lemma list_find_map_fst (f : id -> option nat) (U : list id) i :
  i ∈ U -> exists k, list_find (fun g : id * option nat => g.1 = i) (map (fun j => (j, f j)) U) = Some (k, (i, f i)).
Proof.
  intros Hi.
  destruct (list_find_elem_of (fun g : id * option nat => g.1 = i) (map (fun j => (j, f j)) U) (i, f i)) as [[k y] Hk].
  - apply elem_of_list_fmap. by exists i.
  - done.
  - exists k. rewrite Hk. apply list_find_Some in Hk as (Hl & Hy & _).
    apply elem_of_list_lookup_2, elem_of_list_fmap in Hl as (j & -> & _). simpl in Hy. by subst.
Qed.

Section at_the_end.
  Context (progs : list (list cop)) (s : cst).
  Context (R : creach (cinit progs) s) (T : cterminal s = true).
  Let I : Inv s := Inv_reach _ _ R.
  Let J : Inv2 s := Inv2_reach _ _ R.

  Lemma t_won_started p : p ∈ c_won s -> p ∈ c_started s.
  Proof.
    intros Hw. destruct (inv_winner _ I _ Hw) as [?|(t & rest & Ht)]; [done|].
    by apply (terminal_threads _ _ _ _ T) in Ht as [? _].
  Qed.

  Lemma t_loser_dup p : p < length (c_ids s) -> p ∉ c_won s -> p ∈ c_dup s.
  Proof.
    intros Hlt Hnw. destruct (inv_loser _ I _ Hlt Hnw) as [?|(t & rest & Ht)]; [done|].
    by apply (terminal_threads _ _ _ _ T) in Ht as [? _].
  Qed.

  Lemma t_stopped_removed p : p ∈ c_stopped s -> p ∈ c_removed s.
  Proof.
    intros Hs. destruct (i2_rem _ J _ Hs) as [?|(t & i & rest & Ht)]; [done|].
    by apply (terminal_threads _ _ _ _ T) in Ht as [? _].
  Qed.

  Lemma t_partition : c_started s ++ c_dup s ≡ₚ seq 0 (length (c_ids s)).
  Proof.
    apply NoDup_Permutation.
    - apply NoDup_app. split_and!; [apply J| |apply I].
      intros x Hx Hd. apply (inv_started _ I) in Hx. by apply (inv_dup _ I) in Hd as [? _].
    - apply NoDup_seq.
    - intros x. rewrite elem_of_app, elem_of_seq. split.
      + intros [H|H]; split; try lia.
        * by apply (inv_won_lt _ I), (inv_started _ I).
        * by apply (inv_dup _ I) in H as [_ ?].
      + intros [_ Hlt]. destruct (decide (x ∈ c_won s)); [left; by apply t_won_started|right; by apply t_loser_dup].
  Qed.

  Lemma t_split : exists rest, c_started s ≡ₚ c_stopped s ++ rest /\ NoDup rest /\
                               (forall x, x ∈ rest <-> x ∈ c_started s /\ x ∉ c_stopped s).
  Proof.
    assert (Hsub : c_stopped s ⊆+ c_started s).
    { apply NoDup_submseteq; [apply J|]. apply (inv_stopped _ I). }
    apply submseteq_Permutation in Hsub as [rest Hp]. exists rest. split; [done|].
    assert (Hnd : NoDup (c_stopped s ++ rest)) by (rewrite <- Hp; apply J).
    apply NoDup_app in Hnd as (_ & Hdisj & Hnr). split; [done|].
    intros x. split.
    - intros Hx. split; [rewrite Hp; set_solver|]. intros Hs. by apply (Hdisj x).
    - intros [Hst Hns]. rewrite Hp in Hst. set_solver.
  Qed.

  Lemma t_rest_count rest i :
    NoDup rest -> (forall x, x ∈ rest <-> x ∈ c_started s /\ x ∉ c_stopped s) ->
    cw s i rest = match c_reg s i with Some _ => 1 | None => 0 end.
  Proof.
    intros Hnd Hrest. unfold cw.
    assert (Hent : forall x, x ∈ rest -> c_ids s !! x = Some i -> c_reg s i = Some x).
    { intros x Hx Hi. apply Hrest in Hx as [Hst Hns]. apply (inv_entry _ I); [by apply (inv_started _ I)| |done].
      intros Hr. by apply Hns, (inv_removed _ I). }
    destruct (c_reg s i) as [p|] eqn:Hr.
    - destruct (inv_reg _ I _ _ Hr) as (Hid & Hw & Hnr).
      apply (filter_len_one _ _ p); [done| |done|].
      + apply Hrest. split; [by apply t_won_started|]. intros Hs. by apply Hnr, t_stopped_removed.
      + intros x Hx Hi. specialize (Hent x Hx Hi). congruence.
    - apply filter_len_zero. intros x Hx Hi. specialize (Hent x Hx Hi). congruence.
  Qed.

  Lemma t_counts i :
    cw s i (c_started s) + cw s i (c_dup s) = count_eq i (flat_map adds_of progs) /\
    count_eq i (c_ids s) = count_eq i (flat_map adds_of progs) /\
    cw s i (c_started s) = cw s i (c_stopped s) + match c_reg s i with Some _ => 1 | None => 0 end.
  Proof.
    assert (Hk : count_eq i (c_ids s) = count_eq i (flat_map adds_of progs)).
    { rewrite (count_eq_id i (c_ids s)), (count_eq_id i (flat_map adds_of progs)). pose proof (adds_conserved_reach i _ _ R) as Hc.
      rewrite (terminal_no_pending _ _ T) in Hc. lia. }
    split_and!; [|done|].
    - rewrite <- cw_app, (cw_perm _ _ _ _ t_partition), cw_seq. done.
    - destruct t_split as (rest & Hp & Hnd & Hrest).
      rewrite (cw_perm _ _ _ _ Hp), cw_app. f_equal. by apply t_rest_count.
  Qed.
End at_the_end.

Lemma NoDup_rev' (l : list nat) : NoDup l -> NoDup (rev l).
Proof. intros H. by rewrite rev_perm. Qed.

Lemma elem_of_rev' (l : list nat) x : x ∈ rev l <-> x ∈ l.
Proof. by rewrite rev_perm. Qed.

Lemma mem_rev x l : mem x (rev l) = mem x l.
Proof.
  destruct (mem x l) eqn:E.
  - apply mem_true. apply elem_of_rev'. by apply mem_true.
  - apply mem_false. rewrite elem_of_rev'. by apply mem_false.
Qed.

Definition model_case (progs : list (list cop)) (s : cst) : case :=
  {| c_progs := progs; c_sched := []; c_labels := []; c_replay := false;
     c_obs := obs_of (rev (dedup (rev (flat_map ids_of_prog progs)))) s |}.

Lemma mem_stops_false i progs :
  mem i (flat_map stops_of progs) = false -> forall prog, prog ∈ progs -> i ∉ stops_of prog.
Proof.
  intros H prog Hp Hi. apply mem_false in H. apply H. apply elem_of_list_In, in_flat_map.
  exists prog. split; by apply elem_of_list_In.
Qed.

Theorem oracle_holds_of_model progs s :
  creach (cinit progs) s -> oracle (model_case progs s) = true.
Proof.
  intros R. pose proof (Inv_reach _ _ R) as I. pose proof (Inv2_reach _ _ R) as J.
  unfold oracle, model_case. cbn [c_obs c_progs o_overlap o_deadlock o_started o_dup o_gets o_terminal obs_of negb andb].
  repeat (apply andb_true_intro; split).
  - apply nodupb_true, NoDup_rev', J.
  - apply nodupb_true, NoDup_rev', I.
  - apply forallb_forall. intros p Hp. apply negb_true_iff. rewrite mem_rev. apply mem_false.
    apply elem_of_list_In in Hp. rewrite elem_of_rev' in Hp. intros Hd. apply (inv_dup _ I) in Hd as [Hnw _].
    by apply Hnw, (inv_started _ I).
  - apply forallb_forall. intros [i [p|]] Hg; [|done]. simpl. apply has_id_obs.
    apply (i2_gets _ J). by apply elem_of_list_In.
  - destruct (cterminal s) eqn:T; [|done].
    apply forallb_forall. intros i Hi. apply elem_of_list_In in Hi.
    rewrite !count_with_cw.
    rewrite (cw_perm _ _ _ _ (rev_perm (c_started s))), (cw_perm _ _ _ _ (rev_perm (c_stopped s))),
            (cw_perm _ _ _ _ (rev_perm (c_dup s))).
    destruct (t_counts progs s R T i) as (H1 & H2 & H3).
    set (k := count_eq i (flat_map adds_of progs)) in *.
    repeat (apply andb_true_intro; split).
    + apply Nat.eqb_eq. done.
    + apply Nat.eqb_eq. done.
    + destruct (mem i (flat_map stops_of progs)) eqn:Hst; [done|].
      destruct (Nat.eqb_spec k 0) as [|Hk]; [done|]. apply Nat.eqb_eq.
      destruct (one_winner_terminal progs i s (mem_stops_false _ _ Hst) R T) as (_ & _ & _ & w & Hid & Hw & _ & Hoth).
      { rewrite <- count_eq_id. fold k. lia. }
      apply (filter_len_one _ _ w); [apply J|done|done|].
      intros x Hx Hxi. destruct (decide (x = w)) as [|Hne]; [done|]. by destruct (Hoth x Hxi Hne) as [? _].
    + apply Nat.leb_le. rewrite H3. destruct (c_reg s i); lia.
    + unfold universe in Hi. cbn [c_progs] in Hi. cbn [o_reg obs_of c_obs].
      destruct (list_find_map_fst (c_reg s) _ i Hi) as [n ->].
      destruct (c_reg s i) as [p|] eqn:Hr.
      * destruct (inv_reg _ I _ _ Hr) as (Hid & Hw & Hnr). cbn [o_started o_stopped obs_of c_obs].
        repeat (apply andb_true_intro; split).
        -- by apply has_id_obs.
        -- rewrite mem_rev. apply mem_true. by apply (t_won_started progs s R T).
        -- apply negb_true_iff. rewrite mem_rev. apply mem_false. intros Hs.
           by apply Hnr, (t_stopped_removed progs s R T).
        -- apply Nat.eqb_eq. lia.
      * apply Nat.eqb_eq. lia.
Qed.

(** * the sequential machine and the interleaving model

    The registry fragment of the sequential machine — Spawn at top level,
    Stop, GetPID on actors without children, none held in a handler — is what
    the interleaving model does when calls do not overlap: whichever threads
    issue them, if every call runs to completion (its one or two lock-level
    steps) before the next one starts, the lock-level state projects onto the
    state of the sequential machine run on the same calls in the same order. *)

Definition tr (o : cop) : sop :=
  match o with CAdd i => OSpawn i | CStop i => OStop i | CGet i => OGet i end.

(* thread t runs its next call to completion *)
Definition complete (s : cst) (t : nat) : option cst :=
  match cstep s t with
  | None => None
  | Some (s1, LAdd _ _ _) | Some (s1, LTry _ (Some _)) => option_map fst (cstep s1 t)
  | Some (s1, _) => Some s1
  end.

(* executions without overlap, and the calls they consist of in order *)
Inductive nonoverlap : cst -> list sop -> cst -> Prop :=
| no_nil s : nonoverlap s [] s
| no_cons s t o rest s1 h s2 :
    c_thr s !! t = Some (MIdle, o :: rest) -> complete s t = Some s1 -> nonoverlap s1 h s2 ->
    nonoverlap s (tr o :: h) s2.

Definition cwl (ids0 : list id) (i : id) (l : list nat) : nat := length (filter (fun p => ids0 !! p = Some i) l).

Lemma cwl_snoc ids0 j i l :
  (forall p, p ∈ l -> p < length ids0) -> cwl (ids0 ++ [j]) i l = cwl ids0 i l.
Proof.
  unfold cwl. induction l as [|p l IH]; [done|]. intros Hlt. rewrite !filter_cons.
  rewrite lookup_app_l by (apply Hlt; left).
  destruct (decide (ids0 !! p = Some i)); simpl; rewrite IH; try done; intros q Hq; apply Hlt; by right.
Qed.

Lemma cwl_cons_new ids0 j i l :
  cwl (ids0 ++ [j]) i (length ids0 :: l) = (if Nat.eqb j i then 1 else 0) + cwl (ids0 ++ [j]) i l.
Proof.
  unfold cwl. rewrite filter_cons, lookup_app_r, Nat.sub_diag by lia. simpl.
  destruct (Nat.eqb_spec j i) as [->|Hne].
  - by rewrite decide_True.
  - rewrite decide_False; [done|congruence].
Qed.

Record Rel (q : sst) (s : cst) : Prop := {
  rl_idle : forall t m prog, c_thr s !! t = Some (m, prog) -> m = MIdle;
  rl_live : forall i, is_live q i = match c_reg s i with Some _ => true | None => false end;
  rl_entry : forall i p, c_reg s i = Some p -> c_ids s !! p = Some i /\ p ∈ c_started s /\ p ∉ c_stopped s;
  rl_runs : forall i, runs q i = cwl (c_ids s) i (c_started s);      (* Producer runs = Start() calls for the id *)
  rl_dups : forall i, dups q i = cwl (c_ids s) i (c_dup s);          (* duplicate events = losing adds of the id *)
  rl_lt : forall p, p ∈ c_started s \/ p ∈ c_dup s -> p < length (c_ids s);
  rl_stopped : forall p, p ∈ c_stopped s -> p ∈ c_started s;
  rl_flat : forall i r, procs q i = Some r -> p_parent r = None /\ p_blocked r = false /\ p_stopping r = false;
  rl_kids : forall i, kids q i = [];
  rl_bad : bad q = false
}.

Lemma Rel_init progs : Rel sinit (cinit progs).
Proof.
  split; simpl; try done.
  - intros t m prog H. apply list_lookup_fmap_inv in H as (? & [= -> _] & _). done.
  - intros p [H|H]; by apply elem_of_nil in H.
Qed.

Lemma lookup_insert_same_len {A} (l : list A) t x y : l !! t = Some x -> <[t := y]> l !! t = Some y.
Proof. intros H. apply list_lookup_insert. by eapply lookup_lt_Some. Qed.

Lemma link_step q s t o rest :
  Rel q s -> c_thr s !! t = Some (MIdle, o :: rest) ->
  exists s', complete s t = Some s' /\ Rel (sstep q (tr o)) s' /\ c_thr s' = <[t := (MIdle, rest)]> (c_thr s).
Proof.
  intros H Ht.
  assert (Hidle : forall (thr' : list thread), thr' = <[t := (MIdle, rest)]> (c_thr s) ->
            forall t0 m prog, thr' !! t0 = Some (m, prog) -> m = MIdle).
  { intros thr' -> t0 m prog H0. apply list_lookup_insert_Some in H0 as [(_ & [= <- _] & _)|(_ & H0)]; [done|].
    by eapply (rl_idle _ _ H). }
  destruct o as [i|i|i]; unfold complete, cstep; rewrite Ht; simpl tr.
  - (* Spawn / add *)
    destruct (c_reg s i) as [p0|] eqn:Hr.
    + (* the id is taken: the add loses, the duplicate event is published *)
      cbn [cstep c_thr]. unfold cstep. cbn [c_thr]. rewrite (lookup_insert_same_len _ _ _ _ Ht). cbn.
      eexists. split; [done|]. split; [|by rewrite list_insert_insert].
      assert (Hl : is_live q i = true) by (by rewrite (rl_live _ _ H), Hr).
      simpl. unfold spawn. rewrite Hl.
      split; simpl.
      * apply Hidle. by rewrite list_insert_insert.
      * apply (rl_live _ _ H).
      * intros i' p' Hr'. destruct (rl_entry _ _ H _ _ Hr') as (?&?&?). split_and!; try done. by apply lookup_app_l_Some.
      * intros i'. rewrite cwl_snoc; [apply (rl_runs _ _ H)|]. intros p Hp. apply (rl_lt _ _ H). by left.
      * intros i'. rewrite cwl_cons_new, cwl_snoc by (intros p Hp; apply (rl_lt _ _ H); by right).
        unfold fupd. rewrite Nat.eqb_sym. destruct (Nat.eqb_spec i i') as [->|?]; rewrite (rl_dups _ _ H); lia.
      * intros p. rewrite app_length. simpl. intros [Hp|[->|Hp]%elem_of_cons]; [|lia|].
        -- pose proof (rl_lt _ _ H p (or_introl Hp)). lia.
        -- pose proof (rl_lt _ _ H p (or_intror Hp)). lia.
      * apply (rl_stopped _ _ H).
      * apply (rl_flat _ _ H).
      * apply (rl_kids _ _ H).
      * apply (rl_bad _ _ H).
    + (* the id is free: the add wins and Start() runs *)
      cbn [cstep c_thr]. unfold cstep. cbn [c_thr]. rewrite (lookup_insert_same_len _ _ _ _ Ht). cbn.
      eexists. split; [done|]. split; [|by rewrite list_insert_insert].
      assert (Hl : is_live q i = false) by (by rewrite (rl_live _ _ H), Hr).
      simpl. unfold spawn. rewrite Hl.
      split; simpl.
      * apply Hidle. by rewrite list_insert_insert.
      * intros i'. unfold is_live. simpl. unfold fupd. destruct (Nat.eqb_spec i' i) as [->|?]; [done|]. apply (rl_live _ _ H).
      * intros i' p'. unfold fupd. destruct (Nat.eqb_spec i' i) as [->|?].
        -- intros [= <-]. split_and!; [by rewrite lookup_app_r, Nat.sub_diag by lia|left|].
           intros Hs. apply (rl_stopped _ _ H) in Hs. pose proof (rl_lt _ _ H _ (or_introl Hs)). lia.
        -- intros Hr'. destruct (rl_entry _ _ H _ _ Hr') as (?&?&?). split_and!; [by apply lookup_app_l_Some|by right|done].
      * intros i'. rewrite cwl_cons_new, cwl_snoc by (intros p Hp; apply (rl_lt _ _ H); by left).
        unfold fupd. rewrite Nat.eqb_sym. destruct (Nat.eqb_spec i i') as [->|?]; rewrite (rl_runs _ _ H); lia.
      * intros i'. rewrite cwl_snoc; [apply (rl_dups _ _ H)|]. intros p Hp. apply (rl_lt _ _ H). by right.
      * intros p. rewrite app_length. simpl. intros [[->|Hp]%elem_of_cons|Hp]; [lia| |].
        -- pose proof (rl_lt _ _ H p (or_introl Hp)). lia.
        -- pose proof (rl_lt _ _ H p (or_intror Hp)). lia.
      * intros p Hp. right. by apply (rl_stopped _ _ H).
      * intros i' r. unfold fupd. destruct (Nat.eqb_spec i' i) as [->|?]; [by intros [= <-]|apply (rl_flat _ _ H)].
      * intros i'. unfold fupd. destruct (Nat.eqb_spec i' i); [done|apply (rl_kids _ _ H)].
      * apply (rl_bad _ _ H).
  - (* Stop *)
    remember (sstep q (OStop i)) as q' eqn:Eq'.
    destruct (c_reg s i) as [p|] eqn:Hr.
    + destruct (rl_entry _ _ H _ _ Hr) as (Hid & Hst & Hns).
      assert (Hm : mem p (c_started s) && negb (mem p (c_stopped s)) = true).
      { apply andb_true_intro. split; [by apply mem_true|]. apply negb_true_iff. by apply mem_false. }
      rewrite Hm. cbn [cstep c_thr]. unfold cstep. cbn [c_thr]. rewrite (lookup_insert_same_len _ _ _ _ Ht). cbn.
      eexists. split; [done|]. split; [|by rewrite list_insert_insert].
      assert (Hl : is_live q i = true) by (by rewrite (rl_live _ _ H), Hr).
      unfold is_live in Hl. destruct (procs q i) as [r|] eqn:Hq; [|done].
      destruct (rl_flat _ _ H _ _ Hq) as (Hpar & Hbl & Hsp).
      assert (Hstop : sstep q (OStop i) =
                {| procs := fupd (procs q) i None; kids := fupd (kids q) i []; runs := runs q; dups := dups q;
                   recvd := recvd q; gate := gate q; bad := bad q |}).
      { simpl. unfold busy. rewrite Hq, Hbl, Hsp. simpl. rewrite FUEL_S, stop_tree_S, Hq, Hbl, Hsp. simpl.
        rewrite (rl_kids _ _ H). simpl. by rewrite Hpar. }
      rewrite Eq', Hstop. split; simpl.
      * apply Hidle. by rewrite list_insert_insert.
      * intros i'. unfold is_live. simpl. unfold fupd. destruct (Nat.eqb_spec i' i) as [->|?]; [done|]. apply (rl_live _ _ H).
      * intros i' p'. unfold fupd. destruct (Nat.eqb_spec i' i) as [->|?]; [done|]. intros Hr'.
        destruct (rl_entry _ _ H _ _ Hr') as (?&?&?). split_and!; try done.
        intros [->|?]%elem_of_cons; [congruence|done].
      * apply (rl_runs _ _ H).
      * apply (rl_dups _ _ H).
      * apply (rl_lt _ _ H).
      * intros p' [->|?]%elem_of_cons; [done|by apply (rl_stopped _ _ H)].
      * intros i' r'. unfold fupd. destruct (Nat.eqb_spec i' i); [done|apply (rl_flat _ _ H)].
      * intros i'. unfold fupd. destruct (Nat.eqb_spec i' i); [done|apply (rl_kids _ _ H)].
      * apply (rl_bad _ _ H).
    + cbn. eexists. split; [done|]. split; [|done].
      assert (Hl : is_live q i = false) by (by rewrite (rl_live _ _ H), Hr).
      unfold is_live in Hl. destruct (procs q i) as [r|] eqn:Hq; [done|].
      assert (Hstop : sstep q (OStop i) = q).
      { simpl. unfold busy. rewrite Hq. by rewrite FUEL_S, stop_tree_S, Hq. }
      rewrite Eq', Hstop. split; simpl; try apply H. by apply Hidle.
  - (* GetPID *)
    cbn. eexists. split; [done|]. split; [|done]. split; simpl; try apply H. by apply Hidle.
Qed.

Lemma nonoverlap_creach s h s' : nonoverlap s h s' -> creach s s'.
Proof.
  induction 1 as [|s t o rest s1 h s2 Ht Hc _ IH]; [apply creach_refl|].
  assert (creach s s1).
  { unfold complete in Hc. destruct (cstep s t) as [[sa l]|] eqn:E1; [|done].
    assert (creach s sa) by (eapply creach_step; [apply creach_refl|done]).
    destruct l as [? ? ?| | |? [?|]| |]; try (injection Hc as <-; done);
      destruct (cstep sa t) as [[sb l2]|] eqn:E2; try done; injection Hc as <-; by eapply creach_step. }
  clear -H IH. induction IH; [done|]. by eapply creach_step.
Qed.

(* every execution of the interleaving model in which calls do not overlap
   projects onto the run of the sequential machine on the same calls *)
Theorem nonoverlapping_runs_are_sequential q s h s' :
  Rel q s -> nonoverlap s h s' -> Rel (srun q h) s'.
Proof.
  intros HR Hn. revert q HR. induction Hn as [|s t o rest s1 h s2 Ht Hc _ IH]; intros q HR; [done|].
  destruct (link_step q s t o rest HR Ht) as (s1' & Hc' & HR' & _). rewrite Hc in Hc'. injection Hc' as <-.
  apply (IH _ HR').
Qed.

(* and every history of the registry fragment is such an execution: one thread
   issuing the calls one after the other, each run to completion *)
Theorem sequential_histories_are_nonoverlapping_runs (prog : list cop) :
  exists s, nonoverlap (cinit [prog]) (map tr prog) s /\ Rel (srun sinit (map tr prog)) s /\ cterminal s = true.
Proof.
  assert (G : forall q s rest, Rel q s -> c_thr s = [(MIdle, rest)] ->
            exists s', nonoverlap s (map tr rest) s' /\ Rel (srun q (map tr rest)) s' /\ cterminal s' = true).
  { intros q s rest. revert q s. induction rest as [|o rest IH]; intros q s HR Hthr.
    - exists s. split_and!; [constructor|done|]. unfold cterminal. by rewrite Hthr.
    - assert (Ht : c_thr s !! 0 = Some (MIdle, o :: rest)) by (by rewrite Hthr).
      destruct (link_step q s 0 o rest HR Ht) as (s1 & Hc & HR1 & Hthr1). rewrite Hthr in Hthr1. simpl in Hthr1.
      destruct (IH _ _ HR1 Hthr1) as (s' & Hn & HR' & HT). exists s'. split_and!; [|done|done].
      simpl. by eapply no_cons. }
  apply (G sinit (cinit [prog]) prog); [apply Rel_init|done].
Qed.

(* C10_duplicate_is_noop at lock level: a Spawn that does not overlap another
   call and finds its id taken changes nothing but the count of duplicate
   events — the registry, the Start() calls, the stopped processes are the same *)
Corollary nonoverlapping_duplicate_add q s t i rest :
  Rel q s -> c_thr s !! t = Some (MIdle, CAdd i :: rest) -> is_live q i = true ->
  exists s', complete s t = Some s' /\ Rel (sstep q (OSpawn i)) s' /\
             c_reg s' = c_reg s /\ c_started s' = c_started s /\ c_stopped s' = c_stopped s /\
             c_dup s' = length (c_ids s) :: c_dup s /\
             procs (sstep q (OSpawn i)) = procs q /\ runs (sstep q (OSpawn i)) = runs q.
Proof.
  intros HR Ht Hl. destruct (link_step q s t (CAdd i) rest HR Ht) as (s' & Hc & HR' & _).
  exists s'. split; [done|]. split; [done|].
  destruct (duplicate_is_noop q i Hl) as (Hp & _ & Hru & _).
  unfold complete, cstep in Hc. rewrite Ht in Hc.
  rewrite (rl_live _ _ HR) in Hl. destruct (c_reg s i) as [p0|] eqn:Hr; [|done].
  cbn [cstep c_thr] in Hc. unfold cstep in Hc. cbn [c_thr] in Hc. rewrite (lookup_insert_same_len _ _ _ _ Ht) in Hc.
  cbn in Hc. injection Hc as <-. simpl. split_and!; done.
Qed.
