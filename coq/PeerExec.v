(** Oracle for envelopes a network peer addresses to the node's own internal
    actors (stream writer, router, event stream, response mailbox).  Wire.v
    models the reader; what the addressed actor does with a well-formed but
    unexpected message is not modelled, so there is nothing to replay: the
    clause of C16 evaluated here is "the receiving node neither panics nor
    exits" on what the implementation did. *)
From Coq Require Import List Arith Bool.
Import ListNotations.

(* target: 0 user actor, 1 stream writer, 2 router, 3 event stream, 4 response mailbox;
   outcome: 0 ok, 1 stream ended with an error, 2 panic (the process died) *)
Record case := { c_target : nat; c_count : nat; c_outcome : nat }.

Definition oracle (c : case) : bool := negb (Nat.eqb (c_outcome c) 2).
Definition corr (c : case) : bool := true.
Definition branches (c : case) : list nat := if Nat.eqb (c_target c) 0 then [] else [c_target c].

Fixpoint failing {A} (f : A -> bool) (i : nat) (l : list A) : list nat :=
  match l with [] => [] | a :: l' => (if f a then [] else [i]) ++ failing f (S i) l' end.

Definition report (cs : list case) : list nat * list nat * list (list nat) :=
  (failing corr 0 cs, failing oracle 0 cs, map branches cs).
