(** Executable side of the C18 correspondence check: a case is the observing
    node (id, own kinds), a history of snapshots and what the implementation
    showed after each one. *)
From stdpp Require Import gmap list sorting.
From Coq Require Import Bool.
From HV Require Export Agent.

Record case := { c_self : nat; c_own : list nat; c_hist : list (list member); c_obs : list obs }.

(* correspondence: the transcription of handleMembers computes what the
   implementation showed *)
Definition corr (c : case) : bool :=
  all2 (obs_eqb true) (model_run (c_own c) (c_hist c)) (c_obs c).

(* oracle: the implementation's observations are those the specification
   predicts ([oracle_holds_of_model] in AgentProofs: true of every model run) *)
Definition oracle (c : case) : bool := oracle_on (c_self c) (c_own c) (c_hist c) (c_obs c).

(* proof-relevant situations reached, for the evidence histogram:
   1 join, 2 leave, 3 join and leave in one snapshot, 4 duplicate id inside a
   snapshot, 5 a staying member whose snapshot entry differs from the value
   the view holds, 6 a kind dropped by rebuildKinds, 7 snapshot changes
   nothing (non-empty view), 8 snapshot without the observing node,
   9 empty snapshot *)
Definition branches_step (self : nat) (own : gset nat)
    (r : astate * astate * list event) (snap : list member) : list nat :=
  let '(pre, post, ev) := r in
  let ms := member_set snap in
  (if decide (join_ids ev = []) then [] else [1]) ++
  (if decide (leave_ids ev = []) then [] else [2]) ++
  (if decide (join_ids ev = [] ∨ leave_ids ev = []) then [] else [3]) ++
  (if decide (length snap = size ms) then [] else [4]) ++
  (if decide (map_Forall (λ i m, default m (members pre !! i) = m) ms) then [] else [5]) ++
  (if decide (Forall (λ k, has_kind k pre = true → has_kind k post = true) kuniv) then [] else [6]) ++
  (if decide (ev = [] ∧ members pre ≠ ∅) then [7] else []) ++
  (if has_selfb self own snap then [] else [8]) ++
  (if decide (snap = []) then [9] else []).

Fixpoint branches_run (self : nat) (own : gset nat)
    (rs : list (astate * astate * list event)) (hist : list (list member)) : list nat :=
  match rs, hist with
  | r :: rs', snap :: hist' => branches_step self own r snap ++ branches_run self own rs' hist'
  | _, _ => []
  end.

Definition branches (c : case) : list nat :=
  let own := list_to_set (c_own c) in
  remove_dups (branches_run (c_self c) own (run (init own) (c_hist c)) (c_hist c)).

Fixpoint failing {A} (f : A → bool) (i : nat) (l : list A) : list nat :=
  match l with [] => [] | a :: l' => (if f a then [] else [i]) ++ failing f (S i) l' end.

Definition report (cs : list case) : list nat * list nat * list (list nat) :=
  (failing corr 0 cs, failing oracle 0 cs, map branches cs).

(* smoke test of the executable definitions *)
Example report_smoke :
  report [ {| c_self := 0; c_own := [1];
              c_hist := [[ {| mid := 0; mhost := 0; mkinds := [1] |};
                           {| mid := 3; mhost := 3; mkinds := [2] |} ];
                         [ {| mid := 0; mhost := 0; mkinds := [1] |} ]];
              c_obs := [ {| o_ids := [0; 3]; o_joins := [0; 3]; o_leaves := []; o_kinds := [false; true; true] |};
                         {| o_ids := [0]; o_joins := []; o_leaves := [3]; o_kinds := [false; true; false] |} ] |} ]
  = ([], [], [[1; 2; 6]]).
Proof. by vm_compute. Qed.
