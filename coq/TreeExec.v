(** Executable side of the C08 check: a case is a tree shape, a scenario
    (stops of arbitrary nodes by the harness, by the node itself or by a crash,
    gates that hold a Stopped handler open, probes of Children()/Parent()) and
    what the implementation showed.  [corr] compares with the model's
    predictions (Tree.v), [oracle] is the property's predicate on the
    observation alone. *)
From Coq Require Import List Arith Bool.
Import ListNotations.
From HV Require Export Tree.

Inductive sstep :=
| SPoison (n : nat) | SStop (n : nat) | SSelf (n : nat) | SCrash (n : nat)   (* each creates the next stop handle *)
| SAwait (k : nat)
| SWaitGate (g : nat) | SRelease (g : nat) | SHold (k c m : nat)
| SProbe (n : nat)
| SSpawn (p c : nat)       (* p spawns child c on demand, from a Receive *)
| SRestart (n : nat).      (* n panics with restart budget left: new incarnation, same process and Context *)

Record xinfo := { xi_n : nat; xi_self_reg : bool; xi_desc_reg : list nat; xi_kids : list nat;
                  xi_parent : option nat }.
Record ohandle := { oh_kind : nat;          (* 0 poison, 1 stop, 2 self, 3 crash *)
                    oh_target : nat; oh_at_return : bool; oh_done : bool; oh_alive : list nat }.
Record oprobe := { op_n : nat; op_answered : bool; op_kids : list nat; op_parent : option nat }.
Record obs := { o_events : list oev; o_xinfo : list xinfo; o_started : list (nat * option nat);
                o_handles : list ohandle; o_probes : list oprobe; o_hang : bool; o_gate_timeout : bool;
                o_rstops : nat }.    (* Stopped deliveries to incarnations that a restart replaced *)

Record case := { c_tree : tree; c_maxr : nat; c_gates : list nat; c_steps : list sstep; c_obs : obs }.

(** ** Replaying the scenario *)

(* [c_tree] is the tree at the END of the scenario: the scripted nodes and, where
   the scenario spawns them, the children spawned on demand ([SSpawn p c]: c is a
   leaf-or-inner node of [c_tree] whose parent is p).  A node spawned on demand
   exists from its spawn step on ([m_born]).

   A restart is not an event of the children-map machine: the process keeps its
   Context, and with it the children map and parentCtx, across incarnations
   (process.Start only replaces the receiver).  So [SRestart] leaves [m_book]
   alone; see [hrun_restart] in TreeProofs.v. *)
Record mstate := {
  m_born : list nat;                 (* the actors that exist so far *)
  m_handles : list (nat * nat);      (* kind, target; in creation order *)
  m_stopping : list nat;             (* actors inside a subtree that was told to stop *)
  m_stopped : list nat;              (* actors known to have finished stopping (an await returned) *)
  m_closed : list nat;               (* gates still closed *)
  m_book : bstate;                   (* the children maps *)
  m_spawned : bstate;                (* the children maps with the spawns only (who spawned whom) *)
  m_at_return : list (option bool);  (* per handle: predicted "done on return" (None: depends on the schedule) *)
  m_probes : list (nat * list nat * option nat);        (* model answers *)
  m_spec_probes : list (nat * list nat * option nat);   (* specification answers *)
  m_restarted : list nat;            (* one entry per restart *)
  m_tags : list nat }.

Definition option_nat_eqb (a b : option nat) : bool :=
  match a, b with Some x, Some y => Nat.eqb x y | None, None => true | _, _ => false end.

Definition blocked (t : tree) (closed : list nat) (n : nat) : bool :=
  existsb (fun g => memb g (closure t n)) closed.

Definition add_all (l acc : list nat) : list nat :=
  fold_left (fun a x => if memb x a then a else a ++ [x]) l acc.

(* the X order of the stop of p's subtree *)
Definition post (t : tree) (p : nat) : list nat :=
  match find_sub t p with Some s => xs_of (stop_tree s) | None => [] end.

(* the actors of [p]'s subtree that have not been recorded as stopped yet, in stop order *)
Definition newly_stopped (t : tree) (stopped : list nat) (p : nat) : list bop :=
  map BStopped (filter (fun c => negb (memb c stopped)) (post t p)).

Definition upd_m (m : mstate) (handles : list (nat * nat)) (stopping stopped : list nat)
    (at_return : list (option bool)) (tags : list nat) : mstate :=
  {| m_born := m_born m; m_handles := handles; m_stopping := stopping; m_stopped := stopped;
     m_closed := m_closed m; m_book := m_book m; m_spawned := m_spawned m; m_at_return := at_return;
     m_probes := m_probes m; m_spec_probes := m_spec_probes m; m_restarted := m_restarted m;
     m_tags := m_tags m ++ tags |}.

Definition do_await (t : tree) (m : mstate) (k : nat) : mstate :=
  match nth_error (m_handles m) k with
  | None => m
  | Some (_, p) =>
    {| m_born := m_born m; m_handles := m_handles m; m_stopping := m_stopping m;
       m_stopped := add_all (post t p) (m_stopped m);
       m_closed := m_closed m;
       m_book := fold_left bstep (newly_stopped t (m_stopped m) p) (m_book m);
       m_spawned := m_spawned m;
       m_at_return := m_at_return m; m_probes := m_probes m; m_spec_probes := m_spec_probes m;
       m_restarted := m_restarted m; m_tags := m_tags m |}
  end.

Definition new_handle (t : tree) (m : mstate) (kind n : nat) : mstate :=
  (* done on return: certainly when the target is known to have stopped, certainly not when a
     closed gate keeps its subtree from finishing; otherwise it depends on the schedule (the
     target may run its whole cleanup between the push and the caller's look at the context) *)
  let pred := if memb n (m_stopped m) then Some true
              else if blocked t (m_closed m) n then Some false
              else None in
  let tags :=
    (if memb n (m_stopping m) && negb (memb n (m_stopped m)) then [4] else []) ++
    (if existsb (fun d => memb d (m_stopping m) && negb (memb d (m_stopped m))) (desc_of t n)
        && negb (memb n (m_stopping m)) then [5] else []) ++
    (if memb n (m_stopped m) then [11] else []) ++
    (if existsb (fun r => memb r (closure t n)) (m_restarted m) then [16] else []) ++
    match kind with
    | 1 => [9] | 2 => [10]
    | 3 => 8 :: (if memb n (m_restarted m) then [17] else [])
    | _ => [] end in
  upd_m m (m_handles m ++ [(kind, n)]) (add_all (closure t n) (m_stopping m)) (m_stopped m)
        (m_at_return m ++ [if Nat.eqb kind 3 then Some false else pred]) tags.

(* the children of n that exist and have not stopped *)
Definition spec_kids (t : tree) (m : mstate) (n : nat) : list nat :=
  filter (fun c => memb c (m_born m) && negb (memb c (m_stopped m))) (kids_of t n).

Definition do_probe (t : tree) (m : mstate) (n : nat) : mstate :=
  let sk := spec_kids t m n in
  {| m_born := m_born m; m_handles := m_handles m; m_stopping := m_stopping m; m_stopped := m_stopped m;
     m_closed := m_closed m; m_book := m_book m; m_spawned := m_spawned m; m_at_return := m_at_return m;
     m_probes := m_probes m ++ [(n, children (m_book m) n, parent (m_book m) n)];
     m_spec_probes := m_spec_probes m ++ [(n, sk, parent_in t n)];
     m_restarted := m_restarted m;
     m_tags := m_tags m ++
               (if Nat.eqb (length sk) (length (filter (fun c => memb c (m_born m)) (kids_of t n))) then [] else [7]) ++
               (if memb n (m_restarted m) && negb (Nat.eqb (length sk) 0) then [18] else []) |}.

Definition do_spawn (m : mstate) (p c : nat) : mstate :=
  {| m_born := m_born m ++ [c]; m_handles := m_handles m; m_stopping := m_stopping m;
     m_stopped := m_stopped m; m_closed := m_closed m;
     m_book := bstep (m_book m) (BSpawnChild p c); m_spawned := bstep (m_spawned m) (BSpawnChild p c);
     m_at_return := m_at_return m; m_probes := m_probes m; m_spec_probes := m_spec_probes m;
     m_restarted := m_restarted m; m_tags := m_tags m ++ [19] |}.

Definition mstep (t : tree) (m : mstate) (s : sstep) : mstate :=
  match s with
  | SPoison n => new_handle t m 0 n
  | SStop n => new_handle t m 1 n
  | SSelf n => new_handle t m 2 n
  | SCrash n => new_handle t m 3 n
  | SAwait k => do_await t m k
  | SWaitGate g => upd_m m (m_handles m) (m_stopping m) (m_stopped m) (m_at_return m) [3]
  | SRelease g =>
      {| m_born := m_born m; m_handles := m_handles m; m_stopping := m_stopping m; m_stopped := m_stopped m;
         m_closed := set_del g (m_closed m); m_book := m_book m; m_spawned := m_spawned m;
         m_at_return := m_at_return m; m_probes := m_probes m; m_spec_probes := m_spec_probes m;
         m_restarted := m_restarted m; m_tags := m_tags m |}
  | SHold _ _ _ => m
  | SProbe n => do_probe t m n
  | SSpawn p c => do_spawn m p c
  | SRestart n =>
      {| m_born := m_born m; m_handles := m_handles m; m_stopping := m_stopping m; m_stopped := m_stopped m;
         m_closed := m_closed m; m_book := m_book m; m_spawned := m_spawned m;
         m_at_return := m_at_return m; m_probes := m_probes m; m_spec_probes := m_spec_probes m;
         m_restarted := m_restarted m ++ [n];
         m_tags := m_tags m ++ (15 :: if Nat.eqb (length (filter (fun c => memb c (m_born m)) (kids_of t n))) 0
                                      then [] else [20]) |}
  end.

(* the ids that the scenario spawns on demand, and the spawns that build the scripted part of the tree *)
Definition dyn_ids (steps : list sstep) : list nat :=
  flat_map (fun s => match s with SSpawn _ c => [c] | _ => [] end) steps.
Definition init_ops (t : tree) (dyn : list nat) : list bop :=
  filter (fun o => match o with BSpawnChild _ c => negb (memb c dyn) | _ => true end) (spawn_ops t).

Definition m_init (t : tree) (gates dyn : list nat) : mstate :=
  {| m_born := filter (fun n => negb (memb n dyn)) (ids t); m_handles := []; m_stopping := []; m_stopped := [];
     m_closed := gates;
     m_book := brun (init_ops t dyn); m_spawned := brun (init_ops t dyn); m_at_return := [];
     m_probes := []; m_spec_probes := []; m_restarted := []; m_tags := [] |}.

Definition mrun_steps (t : tree) (gates : list nat) (steps all_steps : list sstep) : mstate :=
  fold_left (mstep t) steps (m_init t gates (dyn_ids all_steps)).
Definition mrun (c : case) : mstate := mrun_steps (c_tree c) (c_gates c) (c_steps c) (c_steps c).

(** ** Well-formed scenarios: what the generators guarantee ([simulate] in
    vlib/props/c08.py accepts exactly these).  A scenario never makes the harness
    wait for something the property does not promise, never reads something
    that depends on the schedule, and uses every id once. *)
Fixpoint edges (t : tree) : list (nat * nat) :=
  match t with Node i ks => flat_map (fun k => (i, root k) :: edges k) ks end.

Definition count_of (n : nat) (l : list nat) : nat := length (filter (Nat.eqb n) l).
Definition target_of (m : mstate) (k : nat) : option nat := option_map snd (nth_error (m_handles m) k).

Definition wf_handle (t : tree) (maxr : nat) (m : mstate) (kind n : nat) : bool :=
  memb n (m_born m) &&
  (* everything below the target exists already (nothing is spawned under a stopping actor) *)
  subsetb (closure t n) (m_born m) &&
  (* Poison(self) and a crash need an actor that serves its inbox *)
  (if Nat.leb 2 kind then negb (memb n (m_stopping m)) else true) &&
  (* a crash is a panic with the restart budget used up *)
  (if Nat.eqb kind 3 then Nat.eqb (count_of n (m_restarted m)) maxr else true).

Definition wf_step (t : tree) (maxr : nat) (m : mstate) (waited : list nat) (s : sstep) : bool :=
  match s with
  | SPoison n => wf_handle t maxr m 0 n
  | SStop n => wf_handle t maxr m 1 n
  | SSelf n => wf_handle t maxr m 2 n
  | SCrash n => wf_handle t maxr m 3 n
  | SAwait k =>
      match target_of m k with
      | Some p => negb (blocked t (m_closed m) p)      (* no wait behind a closed gate *)
      | None => false
      end
  | SWaitGate g =>
      memb g (m_closed m) && memb g (m_stopping m) &&
      negb (existsb (fun x => memb x (m_closed m)) (desc_of t g))
  | SRelease g => memb g (m_closed m)
  | SHold k c _ =>
      match target_of m k with
      | Some p => memb c (m_born m) && memb c (desc_of t p) &&
                  existsb (fun g => memb g waited && memb g (m_closed m)) (closure t c)
      | None => false
      end
  | SProbe n =>
      memb n (m_born m) && negb (memb n (m_stopping m)) &&
      forallb (fun c => negb (memb c (m_stopping m)) || memb c (m_stopped m) || blocked t (m_closed m) c)
              (kids_of t n)
  | SSpawn p c =>
      memb p (m_born m) && negb (memb p (m_stopping m)) && negb (memb c (m_born m)) &&
      memb c (ids t) && option_nat_eqb (parent_in t c) (Some p)
  | SRestart n =>
      memb n (m_born m) && negb (memb n (m_stopping m)) && Nat.ltb (count_of n (m_restarted m)) maxr
  end.

Fixpoint wf_steps (t : tree) (maxr : nat) (m : mstate) (waited : list nat) (steps : list sstep) : bool :=
  match steps with
  | [] => true
  | s :: rest =>
      wf_step t maxr m waited s &&
      wf_steps t maxr (mstep t m s) (match s with SWaitGate g => g :: waited | _ => waited end) rest
  end.

Definition wfb (c : case) : bool :=
  let t := c_tree c in let dyn := dyn_ids (c_steps c) in
  nodupb (ids t) && nodupb dyn && subsetb dyn (ids t) && negb (memb (root t) dyn) &&
  (* below a node spawned on demand everything is spawned on demand *)
  forallb (fun e => negb (memb (fst e) dyn) || memb (snd e) dyn) (edges t) &&
  (* gates: scripted nodes, on one root-to-leaf path *)
  nodupb (c_gates c) && forallb (fun g => memb g (ids t) && negb (memb g dyn)) (c_gates c) &&
  forallb (fun a => forallb (fun b => memb a (closure t b) || memb b (closure t a)) (c_gates c)) (c_gates c) &&
  wf_steps t (c_maxr c) (m_init t (c_gates c) dyn) [] (c_steps c).

(* everything that was told to stop: the union of the subtrees of the handles' targets *)
Definition stop_set (t : tree) (m : mstate) : list nat :=
  fold_left (fun acc h => add_all (closure t (snd h)) acc) (m_handles m) [].

(** ** Pieces shared by [corr] and [oracle] *)

Definition xb_nodes (evs : list oev) : list nat :=
  flat_map (fun e => match e with EXB i => [i] | _ => [] end) evs.
Definition xe_nodes (evs : list oev) : list nat :=
  flat_map (fun e => match e with EXE i => [i] | _ => [] end) evs.

Fixpoint all2 {A B} (f : A -> B -> bool) (l1 : list A) (l2 : list B) : bool :=
  match l1, l2 with
  | [], [] => true
  | a :: l1', b :: l2' => f a b && all2 f l1' l2'
  | _, _ => false
  end.

Fixpoint indexed {A} (i : nat) (l : list A) : list (nat * A) :=
  match l with [] => [] | a :: l' => (i, a) :: indexed (S i) l' end.

Definition find_xinfo (o : obs) (n : nat) : option xinfo :=
  find (fun x => Nat.eqb (xi_n x) n) (o_xinfo o).

(* what the model's event order says an actor sees inside its Stopped handler *)
Definition model_xinfo (t : tree) (n : nat) : xinfo :=
  match find_sub t n with
  | None => {| xi_n := n; xi_self_reg := false; xi_desc_reg := []; xi_kids := []; xi_parent := None |}
  | Some s =>
    let evs := stop_tree s in
    {| xi_n := n;
       xi_self_reg := negb (precedes tev_eqb (Unreg n) (X n) evs);
       xi_desc_reg := filter (fun d => negb (precedes tev_eqb (Unreg d) (X n) evs)) (desc s);
       xi_kids := filter (fun c => negb (precedes tev_eqb (DelParent c) (X n) evs)) (child_ids s);
       xi_parent := parent_in t n |}
  end.

Definition xinfo_eqb (a b : xinfo) : bool :=
  Nat.eqb (xi_n a) (xi_n b) && Bool.eqb (xi_self_reg a) (xi_self_reg b) &&
  seteqb (xi_desc_reg a) (xi_desc_reg b) && seteqb (xi_kids a) (xi_kids b) &&
  option_nat_eqb (xi_parent a) (xi_parent b).

(* a single stop of one node, everything idle, no gate: the X order is exactly a
   post-order of the subtree *)
Definition sequential_target (c : case) : option nat :=
  match c_gates c, filter (fun s => match s with SAwait _ | SProbe _ | SSpawn _ _ | SRestart _ => false | _ => true end) (c_steps c) with
  | [], [SPoison n] | [], [SStop n] | [], [SSelf n] | [], [SCrash n] => Some n
  | _, _ => None
  end.

(** ** Correspondence: the model's predictions against the observation *)
Definition corr (c : case) : bool :=
  let o := c_obs c in let m := mrun c in let t := c_tree c in
  let stops := stop_set t m in
  wfb c &&       (* the scenario is one the theorems speak about *)
  negb (o_hang o) && negb (o_gate_timeout o) &&
  (* handles: created as scripted, all done, done-on-return as predicted *)
  all2 (fun h oh => Nat.eqb (fst h) (oh_kind oh) && Nat.eqb (snd h) (oh_target oh) && oh_done oh &&
                    match oh_alive oh with [] => true | _ => false end)
       (m_handles m) (o_handles o) &&
  all2 (fun p oh => match p with Some b => Bool.eqb b (oh_at_return oh) | None => true end)
       (m_at_return m) (o_handles o) &&
  (* exactly the actors told to stop handled Stopped, once *)
  seteqb (xb_nodes (o_events o)) stops && nodupb (xb_nodes (o_events o)) &&
  seteqb (xe_nodes (o_events o)) stops && nodupb (xe_nodes (o_events o)) &&
  (* the order facts of the model: descendants first; the caller is signalled last *)
  order_ok t (o_events o) &&
  forallb (fun kh => done_ok t (snd (snd kh)) (fst kh) (o_events o)) (indexed 0 (m_handles m)) &&
  match sequential_target c with
  | Some n => match find_sub t n with
              | Some s => postorder_ok s (xb_nodes (o_events o)) && postorder_ok s (xe_nodes (o_events o))
              | None => false end
  | None => true
  end &&
  (* what each actor saw inside Stopped *)
  Nat.eqb (length (o_xinfo o)) (length stops) &&
  forallb (fun n => match find_xinfo o n with
                    | Some x => xinfo_eqb x (model_xinfo t n)
                    | None => false end) stops &&
  (* Parent() at Started, for every incarnation of every node; one Stopped per replaced incarnation *)
  Nat.eqb (length (o_started o)) (length (ids t) + length (m_restarted m)) &&
  forallb (fun n => existsb (fun sp => Nat.eqb (fst sp) n) (o_started o)) (ids t) &&
  forallb (fun sp => option_nat_eqb (snd sp) (parent (m_spawned m) (fst sp))) (o_started o) &&
  Nat.eqb (o_rstops o) (length (m_restarted m)) &&
  (* probes *)
  all2 (fun mp op => Nat.eqb (fst (fst mp)) (op_n op) && op_answered op &&
                     seteqb (snd (fst mp)) (op_kids op) && nodupb (op_kids op) &&
                     option_nat_eqb (snd mp) (op_parent op))
       (m_probes m) (o_probes o).

(** ** The property's predicate, on the observation *)
Definition oracle (c : case) : bool :=
  let o := c_obs c in let m := mrun c in let t := c_tree c in
  (* no hang: every stop context becomes done (and every gated Stopped handler was reached) *)
  negb (o_hang o) && negb (o_gate_timeout o) && forallb oh_done (o_handles o) &&
  (* every descendant has handled Stopped before the ancestor starts handling its own *)
  order_ok t (o_events o) &&
  (* ... and before the stop context of the ancestor is done; nobody of the subtree is registered then *)
  forallb (fun koh => done_ok t (oh_target (snd koh)) (fst koh) (o_events o) &&
                      match oh_alive (snd koh) with [] => true | _ => false end)
          (indexed 0 (o_handles o)) &&
  (* inside Stopped: still registered oneself (a Stop/Poison racing with it must wait), every
     descendant unregistered, no child left in Children(), Parent() still the spawner *)
  forallb (fun x => xi_self_reg x && match xi_desc_reg x with [] => true | _ => false end &&
                    match xi_kids x with [] => true | _ => false end &&
                    option_nat_eqb (xi_parent x) (parent_in t (xi_n x)))
          (o_xinfo o) &&
  forallb (fun n => existsb (fun x => Nat.eqb (xi_n x) n) (o_xinfo o)) (xb_nodes (o_events o)) &&
  (* Parent() names the spawner, in every incarnation *)
  forallb (fun n => existsb (fun sp => Nat.eqb (fst sp) n) (o_started o)) (ids t) &&
  forallb (fun sp => option_nat_eqb (snd sp) (parent_in t (fst sp))) (o_started o) &&
  (* Children() lists exactly the children that have not stopped *)
  all2 (fun sp op => Nat.eqb (fst (fst sp)) (op_n op) && op_answered op &&
                     seteqb (snd (fst sp)) (op_kids op) && nodupb (op_kids op) &&
                     option_nat_eqb (snd sp) (op_parent op))
       (m_spec_probes m) (o_probes o).

(** proof-relevant situations reached, for the evidence histogram:
    1 depth >= 3, 2 fan-out >= 3, 3 a gated Stopped handler held open, 4 a stop
    for an actor that is already stopping, 5 an ancestor told to stop while a
    descendant is already stopping (D11's window), 7 a probe after a child
    stopped on its own, 8 crash, 9 Stop (not graceful), 10 Poison(self),
    11 a stop for an actor that has already stopped, 12 depth 4, 13 fan-out 4,
    14 two or more handles, 15 restart, 16 a stop whose subtree holds a restarted actor,
    17 restart budget exhausted (crash after restarts), 18 probe of a restarted actor that
    has children, 19 child spawned on demand, 20 restart of an actor that has children *)
Fixpoint dedup (l : list nat) : list nat :=
  match l with [] => [] | x :: l' => if memb x l' then dedup l' else x :: dedup l' end.
Definition branches (c : case) : list nat :=
  let t := c_tree c in
  dedup ((if Nat.leb 3 (depth t) then [1] else []) ++ (if Nat.leb 3 (fanout t) then [2] else []) ++
         (if Nat.leb 4 (depth t) then [12] else []) ++ (if Nat.leb 4 (fanout t) then [13] else []) ++
         (if Nat.leb 2 (length (m_handles (mrun c))) then [14] else []) ++
         m_tags (mrun c)).

Fixpoint failing {A} (f : A -> bool) (i : nat) (l : list A) : list nat :=
  match l with [] => [] | a :: l' => (if f a then [] else [i]) ++ failing f (S i) l' end.

Definition report (cs : list case) : list nat * list nat * list (list nat) :=
  (failing corr 0 cs, failing oracle 0 cs, map branches cs).

(** smoke tests *)
Definition T3 := Node 0 [Node 1 [Node 3 []]; Node 2 []].
Definition mk_x n p := {| xi_n := n; xi_self_reg := true; xi_desc_reg := []; xi_kids := []; xi_parent := p |}.
Definition obs_seq : obs :=
  {| o_events := [EXB 3; EXE 3; EXB 1; EXE 1; EXB 2; EXE 2; EXB 0; EXE 0; EDone 0];
     o_xinfo := [mk_x 0 None; mk_x 1 (Some 0); mk_x 2 (Some 0); mk_x 3 (Some 1)];
     o_started := [(0, None); (1, Some 0); (2, Some 0); (3, Some 1)];
     o_handles := [{| oh_kind := 0; oh_target := 0; oh_at_return := false; oh_done := true; oh_alive := [] |}];
     o_probes := []; o_hang := false; o_gate_timeout := false; o_rstops := 0 |}.
Example report_smoke :
  report [ {| c_tree := T3; c_maxr := 0; c_gates := []; c_steps := [SPoison 0]; c_obs := obs_seq |} ] = ([], [], [[1]]).
Proof. vm_compute. reflexivity. Qed.

(* what the D11 tree shows: the parent handles Stopped while the gated grandchild is still inside its own *)
Definition obs_d11 : obs :=
  {| o_events := [EXB 3; EXB 2; EXE 2; EXB 0; EXE 0; EDone 1; EXE 3; EXB 1; EXE 1; EDone 0];
     o_xinfo := [{| xi_n := 0; xi_self_reg := true; xi_desc_reg := [1; 3]; xi_kids := []; xi_parent := None |};
                 mk_x 1 (Some 0); mk_x 2 (Some 0); mk_x 3 (Some 1)];
     o_started := [(0, None); (1, Some 0); (2, Some 0); (3, Some 1)];
     o_handles := [{| oh_kind := 0; oh_target := 1; oh_at_return := false; oh_done := true; oh_alive := [] |};
                   {| oh_kind := 0; oh_target := 0; oh_at_return := false; oh_done := true; oh_alive := [1; 3] |}];
     o_probes := []; o_hang := false; o_gate_timeout := false; o_rstops := 0 |}.
Example report_d11 :
  report [ {| c_tree := T3; c_maxr := 0; c_gates := [3];
              c_steps := [SPoison 1; SWaitGate 3; SPoison 0; SHold 1 1 1; SRelease 3; SAwait 1; SAwait 0];
              c_obs := obs_d11 |} ] = ([0], [0], [[1; 14; 3; 5]]).
Proof. vm_compute. reflexivity. Qed.

(* a restarted actor keeps its children: child 10 spawned on demand under 1, 1 restarts, is probed and poisoned *)
Definition T3d := Node 0 [Node 1 [Node 3 []; Node 10 []]; Node 2 []].
Definition obs_restart (probe_kids : list nat) (evs : list oev) (alive : list nat) : obs :=
  {| o_events := evs;
     o_xinfo := map (fun n => mk_x n (parent_in T3d n)) (xb_nodes evs);
     o_started := [(0, None); (1, Some 0); (1, Some 0); (2, Some 0); (3, Some 1); (10, Some 1)];
     o_handles := [{| oh_kind := 0; oh_target := 1; oh_at_return := false; oh_done := true; oh_alive := alive |}];
     o_probes := [{| op_n := 1; op_answered := true; op_kids := probe_kids; op_parent := Some 0 |}];
     o_hang := false; o_gate_timeout := false; o_rstops := 1 |}.
Definition steps_restart := [SSpawn 1 10; SRestart 1; SProbe 1; SPoison 1].
Example report_restart_ok :
  report [ {| c_tree := T3d; c_maxr := 1; c_gates := []; c_steps := steps_restart;
              c_obs := obs_restart [3; 10] [EXB 3; EXE 3; EXB 10; EXE 10; EXB 1; EXE 1; EDone 0] [] |} ]
  = ([], [], [[1; 19; 15; 20; 18; 16]]).
Proof. vm_compute. reflexivity. Qed.
(* what the seeded change shows: Children() empty after the restart, the children left running *)
Example report_restart_children_lost :
  report [ {| c_tree := T3d; c_maxr := 1; c_gates := []; c_steps := steps_restart;
              c_obs := obs_restart [] [EXB 1; EXE 1; EDone 0] [3; 10] |} ]
  = ([0], [0], [[1; 19; 15; 20; 18; 16]]).
Proof. vm_compute. reflexivity. Qed.
