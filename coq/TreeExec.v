(** Executable side of the C08 check: a case is a tree shape, a scenario
    (stops of arbitrary nodes by the harness, by the node itself or by a crash,
    gates that hold a Stopped handler open, probes of Children()/Parent()) and
    what the implementation showed.  [corr] compares with the model's
    predictions (Tree.v), [oracle] is the property's predicate on the
    observation alone. *)
From Coq Require Import List Arith Bool.
Import ListNotations.
From HV Require Export Tree.

Inductive sstep :=
| SPoison (n : nat) | SStop (n : nat) | SSelf (n : nat) | SCrash (n : nat)   (* each creates the next stop handle *)
| SAwait (k : nat)
| SWaitGate (g : nat) | SRelease (g : nat) | SHold (k c m : nat)
| SProbe (n : nat)
| SSpawn (p c : nat)       (* p spawns child c on demand, from a Receive *)
| SRestart (n : nat).      (* n panics with restart budget left: new incarnation, same process and Context *)

Record xinfo := { xi_n : nat; xi_self_reg : bool; xi_desc_reg : list nat; xi_kids : list nat;
                  xi_parent : option nat }.
Record ohandle := { oh_kind : nat;          (* 0 poison, 1 stop, 2 self, 3 crash *)
                    oh_target : nat; oh_at_return : bool; oh_done : bool; oh_alive : list nat }.
Record oprobe := { op_n : nat; op_answered : bool; op_kids : list nat; op_parent : option nat }.
Record obs := { o_events : list oev; o_xinfo : list xinfo; o_started : list (nat * option nat);
                o_handles : list ohandle; o_probes : list oprobe; o_hang : bool; o_gate_timeout : bool;
                o_rstops : nat }.    (* Stopped deliveries to incarnations that a restart replaced *)

Record case := { c_tree : tree; c_maxr : nat; c_gates : list nat; c_steps : list sstep; c_obs : obs }.

(** ** Replaying the scenario *)

(* A restart is not an event of the children-map machine: the process keeps its
   Context, and with it the children map and parentCtx, across incarnations
   (process.Start only replaces the receiver).  So [SRestart] leaves [m_book]
   alone; see [hrun_restart] in TreeProofs.v. *)
Record mstate := {
  m_tree : tree;                     (* the tree so far: the scripted one plus the children spawned on demand *)
  m_handles : list (nat * nat);      (* kind, target; in creation order *)
  m_stopping : list nat;             (* actors inside a subtree that was told to stop *)
  m_stopped : list nat;              (* actors known to have finished stopping (an await returned) *)
  m_closed : list nat;               (* gates still closed *)
  m_book : bstate;                   (* the children maps *)
  m_spawned : bstate;                (* the children maps with the spawns only (who spawned whom) *)
  m_at_return : list (option bool);  (* per handle: predicted "done on return" (None: depends on the schedule) *)
  m_probes : list (nat * list nat * option nat);        (* model answers *)
  m_spec_probes : list (nat * list nat * option nat);   (* specification answers *)
  m_restarted : list nat;            (* one entry per restart *)
  m_tags : list nat }.

Definition option_nat_eqb (a b : option nat) : bool :=
  match a, b with Some x, Some y => Nat.eqb x y | None, None => true | _, _ => false end.

Definition blocked (t : tree) (closed : list nat) (n : nat) : bool :=
  existsb (fun g => memb g (closure t n)) closed.

Definition add_all (l acc : list nat) : list nat :=
  fold_left (fun a x => if memb x a then a else a ++ [x]) l acc.

(* a new leaf c under p *)
Fixpoint add_kid (p c : nat) (t : tree) : tree :=
  match t with
  | Node i ks => Node i (map (add_kid p c) ks ++ (if Nat.eqb i p then [Node c []] else []))
  end.

(* the actors of [p]'s subtree that have not been recorded as stopped yet, in stop order *)
Definition newly_stopped (t : tree) (stopped : list nat) (p : nat) : list bop :=
  match find_sub t p with
  | None => []
  | Some s => filter (fun o => match o with BStopped c => negb (memb c stopped) | _ => true end)
                     (stopped_ops (stop_tree s))
  end.

Definition upd_m (m : mstate) (handles : list (nat * nat)) (stopping stopped : list nat)
    (at_return : list (option bool)) (tags : list nat) : mstate :=
  {| m_tree := m_tree m; m_handles := handles; m_stopping := stopping; m_stopped := stopped;
     m_closed := m_closed m; m_book := m_book m; m_spawned := m_spawned m; m_at_return := at_return;
     m_probes := m_probes m; m_spec_probes := m_spec_probes m; m_restarted := m_restarted m;
     m_tags := m_tags m ++ tags |}.

Definition do_await (m : mstate) (k : nat) : mstate :=
  let t := m_tree m in
  match nth_error (m_handles m) k with
  | None => m
  | Some (_, p) =>
    {| m_tree := t; m_handles := m_handles m; m_stopping := m_stopping m;
       m_stopped := add_all (closure t p) (m_stopped m);
       m_closed := m_closed m;
       m_book := fold_left bstep (newly_stopped t (m_stopped m) p) (m_book m);
       m_spawned := m_spawned m;
       m_at_return := m_at_return m; m_probes := m_probes m; m_spec_probes := m_spec_probes m;
       m_restarted := m_restarted m; m_tags := m_tags m |}
  end.

Definition new_handle (m : mstate) (kind n : nat) : mstate :=
  let t := m_tree m in
  (* done on return: certainly when the target is known to have stopped, certainly not when a
     closed gate keeps its subtree from finishing; otherwise it depends on the schedule (the
     target may run its whole cleanup between the push and the caller's look at the context) *)
  let pred := if memb n (m_stopped m) then Some true
              else if blocked t (m_closed m) n then Some false
              else None in
  let tags :=
    (if memb n (m_stopping m) && negb (memb n (m_stopped m)) then [4] else []) ++
    (if existsb (fun d => memb d (m_stopping m) && negb (memb d (m_stopped m))) (desc_of t n)
        && negb (memb n (m_stopping m)) then [5] else []) ++
    (if memb n (m_stopped m) then [11] else []) ++
    (if existsb (fun r => memb r (closure t n)) (m_restarted m) then [16] else []) ++
    match kind with
    | 1 => [9] | 2 => [10]
    | 3 => 8 :: (if memb n (m_restarted m) then [17] else [])
    | _ => [] end in
  upd_m m (m_handles m ++ [(kind, n)]) (add_all (closure t n) (m_stopping m)) (m_stopped m)
        (m_at_return m ++ [if Nat.eqb kind 3 then Some false else pred]) tags.

Definition do_probe (m : mstate) (n : nat) : mstate :=
  let t := m_tree m in
  let spec_kids := filter (fun c => negb (memb c (m_stopped m))) (kids_of t n) in
  {| m_tree := t; m_handles := m_handles m; m_stopping := m_stopping m; m_stopped := m_stopped m;
     m_closed := m_closed m; m_book := m_book m; m_spawned := m_spawned m; m_at_return := m_at_return m;
     m_probes := m_probes m ++ [(n, children (m_book m) n, parent (m_book m) n)];
     m_spec_probes := m_spec_probes m ++ [(n, spec_kids, parent_in t n)];
     m_restarted := m_restarted m;
     m_tags := m_tags m ++ (if Nat.eqb (length spec_kids) (length (kids_of t n)) then [] else [7]) ++
               (if memb n (m_restarted m) && negb (Nat.eqb (length spec_kids) 0) then [18] else []) |}.

Definition do_spawn (m : mstate) (p c : nat) : mstate :=
  {| m_tree := add_kid p c (m_tree m); m_handles := m_handles m; m_stopping := m_stopping m;
     m_stopped := m_stopped m; m_closed := m_closed m;
     m_book := bstep (m_book m) (BSpawnChild p c); m_spawned := bstep (m_spawned m) (BSpawnChild p c);
     m_at_return := m_at_return m; m_probes := m_probes m; m_spec_probes := m_spec_probes m;
     m_restarted := m_restarted m; m_tags := m_tags m ++ [19] |}.

Definition mstep (m : mstate) (s : sstep) : mstate :=
  match s with
  | SPoison n => new_handle m 0 n
  | SStop n => new_handle m 1 n
  | SSelf n => new_handle m 2 n
  | SCrash n => new_handle m 3 n
  | SAwait k => do_await m k
  | SWaitGate g => upd_m m (m_handles m) (m_stopping m) (m_stopped m) (m_at_return m) [3]
  | SRelease g =>
      {| m_tree := m_tree m; m_handles := m_handles m; m_stopping := m_stopping m; m_stopped := m_stopped m;
         m_closed := set_del g (m_closed m); m_book := m_book m; m_spawned := m_spawned m;
         m_at_return := m_at_return m; m_probes := m_probes m; m_spec_probes := m_spec_probes m;
         m_restarted := m_restarted m; m_tags := m_tags m |}
  | SHold _ _ _ => m
  | SProbe n => do_probe m n
  | SSpawn p c => do_spawn m p c
  | SRestart n =>
      {| m_tree := m_tree m; m_handles := m_handles m; m_stopping := m_stopping m; m_stopped := m_stopped m;
         m_closed := m_closed m; m_book := m_book m; m_spawned := m_spawned m;
         m_at_return := m_at_return m; m_probes := m_probes m; m_spec_probes := m_spec_probes m;
         m_restarted := m_restarted m ++ [n];
         m_tags := m_tags m ++ (15 :: if Nat.eqb (length (kids_of (m_tree m) n)) 0 then [] else [20]) |}
  end.

Definition m_init (t : tree) (gates : list nat) : mstate :=
  {| m_tree := t; m_handles := []; m_stopping := []; m_stopped := []; m_closed := gates;
     m_book := brun (spawn_ops t); m_spawned := brun (spawn_ops t); m_at_return := [];
     m_probes := []; m_spec_probes := []; m_restarted := []; m_tags := [] |}.

Definition mrun (c : case) : mstate := fold_left mstep (c_steps c) (m_init (c_tree c) (c_gates c)).

(* everything that was told to stop: the union of the subtrees of the handles' targets *)
Definition stop_set (t : tree) (m : mstate) : list nat :=
  fold_left (fun acc h => add_all (closure t (snd h)) acc) (m_handles m) [].

(** ** Pieces shared by [corr] and [oracle] *)

Definition xb_nodes (evs : list oev) : list nat :=
  flat_map (fun e => match e with EXB i => [i] | _ => [] end) evs.
Definition xe_nodes (evs : list oev) : list nat :=
  flat_map (fun e => match e with EXE i => [i] | _ => [] end) evs.

Fixpoint all2 {A B} (f : A -> B -> bool) (l1 : list A) (l2 : list B) : bool :=
  match l1, l2 with
  | [], [] => true
  | a :: l1', b :: l2' => f a b && all2 f l1' l2'
  | _, _ => false
  end.

Fixpoint indexed {A} (i : nat) (l : list A) : list (nat * A) :=
  match l with [] => [] | a :: l' => (i, a) :: indexed (S i) l' end.

Definition find_xinfo (o : obs) (n : nat) : option xinfo :=
  find (fun x => Nat.eqb (xi_n x) n) (o_xinfo o).

(* what the model's event order says an actor sees inside its Stopped handler *)
Definition model_xinfo (t : tree) (n : nat) : xinfo :=
  match find_sub t n with
  | None => {| xi_n := n; xi_self_reg := false; xi_desc_reg := []; xi_kids := []; xi_parent := None |}
  | Some s =>
    let evs := stop_tree s in
    {| xi_n := n;
       xi_self_reg := negb (precedes tev_eqb (Unreg n) (X n) evs);
       xi_desc_reg := filter (fun d => negb (precedes tev_eqb (Unreg d) (X n) evs)) (desc s);
       xi_kids := filter (fun c => negb (precedes tev_eqb (DelParent c) (X n) evs)) (child_ids s);
       xi_parent := parent_in t n |}
  end.

Definition xinfo_eqb (a b : xinfo) : bool :=
  Nat.eqb (xi_n a) (xi_n b) && Bool.eqb (xi_self_reg a) (xi_self_reg b) &&
  seteqb (xi_desc_reg a) (xi_desc_reg b) && seteqb (xi_kids a) (xi_kids b) &&
  option_nat_eqb (xi_parent a) (xi_parent b).

(* a single stop of one node, everything idle, no gate: the X order is exactly a
   post-order of the subtree *)
Definition sequential_target (c : case) : option nat :=
  match c_gates c, filter (fun s => match s with SAwait _ | SProbe _ | SSpawn _ _ | SRestart _ => false | _ => true end) (c_steps c) with
  | [], [SPoison n] | [], [SStop n] | [], [SSelf n] | [], [SCrash n] => Some n
  | _, _ => None
  end.

(** ** Correspondence: the model's predictions against the observation *)
Definition corr (c : case) : bool :=
  let o := c_obs c in let m := mrun c in let t := m_tree m in
  let stops := stop_set t m in
  negb (o_hang o) && negb (o_gate_timeout o) &&
  (* handles: created as scripted, all done, done-on-return as predicted *)
  all2 (fun h oh => Nat.eqb (fst h) (oh_kind oh) && Nat.eqb (snd h) (oh_target oh) && oh_done oh &&
                    match oh_alive oh with [] => true | _ => false end)
       (m_handles m) (o_handles o) &&
  all2 (fun p oh => match p with Some b => Bool.eqb b (oh_at_return oh) | None => true end)
       (m_at_return m) (o_handles o) &&
  (* exactly the actors told to stop handled Stopped, once *)
  seteqb (xb_nodes (o_events o)) stops && nodupb (xb_nodes (o_events o)) &&
  seteqb (xe_nodes (o_events o)) stops && nodupb (xe_nodes (o_events o)) &&
  (* the order facts of the model: descendants first; the caller is signalled last *)
  order_ok t (o_events o) &&
  forallb (fun kh => done_ok t (snd (snd kh)) (fst kh) (o_events o)) (indexed 0 (m_handles m)) &&
  match sequential_target c with
  | Some n => match find_sub t n with
              | Some s => postorder_ok s (xb_nodes (o_events o)) && postorder_ok s (xe_nodes (o_events o))
              | None => false end
  | None => true
  end &&
  (* what each actor saw inside Stopped *)
  Nat.eqb (length (o_xinfo o)) (length stops) &&
  forallb (fun n => match find_xinfo o n with
                    | Some x => xinfo_eqb x (model_xinfo t n)
                    | None => false end) stops &&
  (* Parent() at Started, for every incarnation of every node; one Stopped per replaced incarnation *)
  Nat.eqb (length (o_started o)) (length (ids t) + length (m_restarted m)) &&
  forallb (fun n => existsb (fun sp => Nat.eqb (fst sp) n) (o_started o)) (ids t) &&
  forallb (fun sp => option_nat_eqb (snd sp) (parent (m_spawned m) (fst sp))) (o_started o) &&
  Nat.eqb (o_rstops o) (length (m_restarted m)) &&
  (* probes *)
  all2 (fun mp op => Nat.eqb (fst (fst mp)) (op_n op) && op_answered op &&
                     seteqb (snd (fst mp)) (op_kids op) && nodupb (op_kids op) &&
                     option_nat_eqb (snd mp) (op_parent op))
       (m_probes m) (o_probes o).

(** ** The property's predicate, on the observation *)
Definition oracle (c : case) : bool :=
  let o := c_obs c in let m := mrun c in let t := m_tree m in
  (* no hang: every stop context becomes done (and every gated Stopped handler was reached) *)
  negb (o_hang o) && negb (o_gate_timeout o) && forallb oh_done (o_handles o) &&
  (* every descendant has handled Stopped before the ancestor starts handling its own *)
  order_ok t (o_events o) &&
  (* ... and before the stop context of the ancestor is done; nobody of the subtree is registered then *)
  forallb (fun koh => done_ok t (oh_target (snd koh)) (fst koh) (o_events o) &&
                      match oh_alive (snd koh) with [] => true | _ => false end)
          (indexed 0 (o_handles o)) &&
  (* inside Stopped: still registered oneself (a Stop/Poison racing with it must wait), every
     descendant unregistered, no child left in Children(), Parent() still the spawner *)
  forallb (fun x => xi_self_reg x && match xi_desc_reg x with [] => true | _ => false end &&
                    match xi_kids x with [] => true | _ => false end &&
                    option_nat_eqb (xi_parent x) (parent_in t (xi_n x)))
          (o_xinfo o) &&
  forallb (fun n => existsb (fun x => Nat.eqb (xi_n x) n) (o_xinfo o)) (xb_nodes (o_events o)) &&
  (* Parent() names the spawner, in every incarnation *)
  forallb (fun n => existsb (fun sp => Nat.eqb (fst sp) n) (o_started o)) (ids t) &&
  forallb (fun sp => option_nat_eqb (snd sp) (parent_in t (fst sp))) (o_started o) &&
  (* Children() lists exactly the children that have not stopped *)
  all2 (fun sp op => Nat.eqb (fst (fst sp)) (op_n op) && op_answered op &&
                     seteqb (snd (fst sp)) (op_kids op) && nodupb (op_kids op) &&
                     option_nat_eqb (snd sp) (op_parent op))
       (m_spec_probes m) (o_probes o).

(** proof-relevant situations reached, for the evidence histogram:
    1 depth >= 3, 2 fan-out >= 3, 3 a gated Stopped handler held open, 4 a stop
    for an actor that is already stopping, 5 an ancestor told to stop while a
    descendant is already stopping (D11's window), 7 a probe after a child
    stopped on its own, 8 crash, 9 Stop (not graceful), 10 Poison(self),
    11 a stop for an actor that has already stopped, 12 depth 4, 13 fan-out 4,
    14 two or more handles, 15 restart, 16 a stop whose subtree holds a restarted actor,
    17 restart budget exhausted (crash after restarts), 18 probe of a restarted actor that
    has children, 19 child spawned on demand, 20 restart of an actor that has children *)
Fixpoint dedup (l : list nat) : list nat :=
  match l with [] => [] | x :: l' => if memb x l' then dedup l' else x :: dedup l' end.
Definition branches (c : case) : list nat :=
  let t := m_tree (mrun c) in
  dedup ((if Nat.leb 3 (depth t) then [1] else []) ++ (if Nat.leb 3 (fanout t) then [2] else []) ++
         (if Nat.leb 4 (depth t) then [12] else []) ++ (if Nat.leb 4 (fanout t) then [13] else []) ++
         (if Nat.leb 2 (length (m_handles (mrun c))) then [14] else []) ++
         m_tags (mrun c)).

Fixpoint failing {A} (f : A -> bool) (i : nat) (l : list A) : list nat :=
  match l with [] => [] | a :: l' => (if f a then [] else [i]) ++ failing f (S i) l' end.

Definition report (cs : list case) : list nat * list nat * list (list nat) :=
  (failing corr 0 cs, failing oracle 0 cs, map branches cs).

(** smoke tests *)
Definition T3 := Node 0 [Node 1 [Node 3 []]; Node 2 []].
Definition mk_x n p := {| xi_n := n; xi_self_reg := true; xi_desc_reg := []; xi_kids := []; xi_parent := p |}.
Definition obs_seq : obs :=
  {| o_events := [EXB 3; EXE 3; EXB 1; EXE 1; EXB 2; EXE 2; EXB 0; EXE 0; EDone 0];
     o_xinfo := [mk_x 0 None; mk_x 1 (Some 0); mk_x 2 (Some 0); mk_x 3 (Some 1)];
     o_started := [(0, None); (1, Some 0); (2, Some 0); (3, Some 1)];
     o_handles := [{| oh_kind := 0; oh_target := 0; oh_at_return := false; oh_done := true; oh_alive := [] |}];
     o_probes := []; o_hang := false; o_gate_timeout := false; o_rstops := 0 |}.
Example report_smoke :
  report [ {| c_tree := T3; c_maxr := 0; c_gates := []; c_steps := [SPoison 0]; c_obs := obs_seq |} ] = ([], [], [[1]]).
Proof. vm_compute. reflexivity. Qed.

(* what the D11 tree shows: the parent handles Stopped while the gated grandchild is still inside its own *)
Definition obs_d11 : obs :=
  {| o_events := [EXB 3; EXB 2; EXE 2; EXB 0; EXE 0; EDone 1; EXE 3; EXB 1; EXE 1; EDone 0];
     o_xinfo := [{| xi_n := 0; xi_self_reg := true; xi_desc_reg := [1; 3]; xi_kids := []; xi_parent := None |};
                 mk_x 1 (Some 0); mk_x 2 (Some 0); mk_x 3 (Some 1)];
     o_started := [(0, None); (1, Some 0); (2, Some 0); (3, Some 1)];
     o_handles := [{| oh_kind := 0; oh_target := 1; oh_at_return := false; oh_done := true; oh_alive := [] |};
                   {| oh_kind := 0; oh_target := 0; oh_at_return := false; oh_done := true; oh_alive := [1; 3] |}];
     o_probes := []; o_hang := false; o_gate_timeout := false; o_rstops := 0 |}.
Example report_d11 :
  report [ {| c_tree := T3; c_maxr := 0; c_gates := [3];
              c_steps := [SPoison 1; SWaitGate 3; SPoison 0; SHold 1 1 1; SRelease 3; SAwait 1; SAwait 0];
              c_obs := obs_d11 |} ] = ([0], [0], [[1; 14; 3; 5]]).
Proof. vm_compute. reflexivity. Qed.

(* a restarted actor keeps its children: child 10 spawned on demand under 1, 1 restarts, is probed and poisoned *)
Definition obs_restart (probe_kids : list nat) (evs : list oev) (alive : list nat) : obs :=
  {| o_events := evs;
     o_xinfo := map (fun n => mk_x n (parent_in (add_kid 1 10 T3) n)) (xb_nodes evs);
     o_started := [(0, None); (1, Some 0); (1, Some 0); (2, Some 0); (3, Some 1); (10, Some 1)];
     o_handles := [{| oh_kind := 0; oh_target := 1; oh_at_return := false; oh_done := true; oh_alive := alive |}];
     o_probes := [{| op_n := 1; op_answered := true; op_kids := probe_kids; op_parent := Some 0 |}];
     o_hang := false; o_gate_timeout := false; o_rstops := 1 |}.
Definition steps_restart := [SSpawn 1 10; SRestart 1; SProbe 1; SPoison 1].
Example report_restart_ok :
  report [ {| c_tree := T3; c_maxr := 1; c_gates := []; c_steps := steps_restart;
              c_obs := obs_restart [3; 10] [EXB 3; EXE 3; EXB 10; EXE 10; EXB 1; EXE 1; EDone 0] [] |} ]
  = ([], [], [[1; 19; 15; 20; 18; 16]]).
Proof. vm_compute. reflexivity. Qed.
(* what the seeded change shows: Children() empty after the restart, the children left running *)
Example report_restart_children_lost :
  report [ {| c_tree := T3; c_maxr := 1; c_gates := []; c_steps := steps_restart;
              c_obs := obs_restart [] [EXB 1; EXE 1; EDone 0] [3; 10] |} ]
  = ([0], [0], [[1; 19; 15; 20; 18; 16]]).
Proof. vm_compute. reflexivity. Qed.
