(** The property theorems of the cluster-activation layer (C19).  Nothing else
    lives here: each is closed by [exact <lemma>] and followed by
    [Print Assumptions].

    Reading guide.  [cfg] = addresses, registered kinds and kind spellings of
    the nodes; [h] = a history of operations, each paired with the order in
    which its notifications are delivered (an arbitrary choice list);
    [cafter cfg init_state h] = the cluster after [h];
    [spec_after cfg sinit h.*1] = (G, M): the one activation map and the
    member set the specification assigns to the same operations.
    Premises: [host_inj] — hosts pairwise distinct; [wf_hist] — every snapshot
    is the join of one new node or the leave of one member, operations are
    issued on members, cluster-Spawn uses an id the cluster does not know.
    Quiescence is built into [run_op] (all notifications of an operation are
    delivered before the next), the delivery order is universally quantified.
    Each premise is shown necessary by an Example in ClusterNetProofs.v. *)
From stdpp Require Import gmap list sorting.
From HV Require Import Agent AgentProofs ClusterNet ClusterNetProofs.

(** * C19 — cluster activations: unique, placed on a capable member, known everywhere *)

(* Activate returns nil, starts nothing and changes no view and no registry if
   some member already resolves kind/id — which, by
   C19_views_agree_after_delivery, is the same as: every member does — or if
   no member advertises the kind *)
Theorem C19_activate_refuses_known_or_unhostable :
  forall (cfg : config), host_inj cfg ->
  forall (h : list (op * list nat)), wf_hist cfg sinit h.*1 = true ->
  forall (a kind : nat) (id : list nat) (sel : nat) (order : list nat),
    let s := cafter cfg init_state h in
    let st := spec_after cfg sinit h.*1 in
    a ∈ sM st ->
    (exists n nd, nodes s !! n = Some nd /\ get_by_id nd (akey cfg kind id) <> None) \/
    (forall i, i ∈ sM st -> kind ∉ nkinds cfg i) ->
    let r := run_op cfg (Activate a kind id sel) order s in
    r.2 = RNil /\ started r.1 = [] /\ dom (nodes r.1) = dom (nodes s) /\
    forall n nd nd', nodes s !! n = Some nd -> nodes r.1 !! n = Some nd' ->
      activated nd' = activated nd /\ registry nd' = registry nd /\ stops nd' = [].
Proof. exact activate_refuses_known_or_unhostable. Qed.
Print Assumptions C19_activate_refuses_known_or_unhostable.

(* otherwise — no member resolves kind/id, and the select function returns the
   sel-th offered member t — exactly one actor is started, on t, which is a
   member that registered the kind; its PID is returned; once the
   notifications are delivered (any order) every member resolves kind/id to
   that PID and lists it under the kind (kind name without '/'), nothing else
   changed, and the actor is in the registry of t and of no other member *)
Theorem C19_activate_spawns_one_on_selected :
  forall (cfg : config), host_inj cfg ->
  forall (h : list (op * list nat)), wf_hist cfg sinit h.*1 = true ->
  forall (a kind : nat) (id : list nat) (sel t : nat) (order : list nat),
    let s := cafter cfg init_state h in
    let st := spec_after cfg sinit h.*1 in
    a ∈ sM st ->
    (forall n nd, nodes s !! n = Some nd -> get_by_id nd (akey cfg kind id) = None) ->
    offered_ids cfg (sM st) kind !! sel = Some t ->
    let k := akey cfg kind id in
    let r := run_op cfg (Activate a kind id sel) order s in
    t ∈ sM st /\ kind ∈ nkinds cfg t /\
    r.2 = RPid (host cfg t) k /\ started r.1 = [(t, k)] /\ net r.1 = [] /\ dom (nodes r.1) = sM st /\
    forall n nd', nodes r.1 !! n = Some nd' ->
      get_by_id nd' k = Some (host cfg t) /\
      (forall k', k' <> k -> get_by_id nd' k' = sG st !! k') /\
      (k ∈ registry nd' <-> n = t) /\ stops nd' = [] /\
      (slash ∉ spell cfg kind -> (k, host cfg t) ∈ get_by_kind cfg nd' kind).
Proof. exact activate_spawns_one_on_selected. Qed.
Print Assumptions C19_activate_spawns_one_on_selected.

(* after every quiescent history, for every delivery order of every operation:
   nothing is in flight, the live nodes are the members, every member answers
   GetActiveByID / GetActiveByKind from the same map G, and a registry holds
   an id exactly when G places it on that node *)
Theorem C19_views_agree_after_delivery :
  forall (cfg : config), host_inj cfg ->
  forall (h : list (op * list nat)), wf_hist cfg sinit h.*1 = true ->
    let s := cafter cfg init_state h in
    let st := spec_after cfg sinit h.*1 in
    net s = [] /\ dom (nodes s) = sM st /\
    (forall n nd, nodes s !! n = Some nd ->
       (forall k, get_by_id nd k = sG st !! k) /\
       (forall kind, get_by_kind cfg nd kind = by_kind_of (sG st) (spell cfg kind)) /\
       (forall k, k ∈ registry nd <-> sG st !! k = Some (host cfg n))) /\
    (forall n n' nd nd', nodes s !! n = Some nd -> nodes s !! n' = Some nd' ->
       (forall k, get_by_id nd k = get_by_id nd' k) /\
       (forall kind, get_by_kind cfg nd kind = get_by_kind cfg nd' kind)).
Proof. exact views_agree_after_delivery. Qed.
Print Assumptions C19_views_agree_after_delivery.

(* a node j that joins (a snapshot whose only change is j) learns all active
   actors: once the member lists and the topologies they trigger are
   delivered, in any order, j — a fresh node hosting nothing — and every old
   member resolve every id as the members did before *)
Theorem C19_joiner_learns_all :
  forall (cfg : config), host_inj cfg ->
  forall (h : list (op * list nat)), wf_hist cfg sinit h.*1 = true ->
  forall (ids : list nat) (j : nat) (order : list nat),
    let s := cafter cfg init_state h in
    let st := spec_after cfg sinit h.*1 in
    NoDup ids -> filter (fun i => i ∉ sM st) ids = [j] -> filter (fun i => i ∉ ids) (elements (sM st)) = [] ->
    let r := run_op cfg (Snap ids) order s in
    net r.1 = [] /\ dom (nodes r.1) = sM st ∪ {[j]} /\ nodes s !! j = None /\
    (exists ndj, nodes r.1 !! j = Some ndj /\ registry ndj = ∅) /\
    forall n nd', nodes r.1 !! n = Some nd' ->
      (forall k, get_by_id nd' k = sG st !! k) /\
      (forall kind, get_by_kind cfg nd' kind = by_kind_of (sG st) (spell cfg kind)).
Proof. exact joiner_learns_all. Qed.
Print Assumptions C19_joiner_learns_all.

(* Deactivate of a known actor removes the entry on every member (and no
   other entry), the member at the PID's address — there is one — stops the
   actor and nobody else stops anything; afterwards no registry holds the id *)
Theorem C19_deactivate_removes_everywhere_and_stops :
  forall (cfg : config), host_inj cfg ->
  forall (h : list (op * list nat)), wf_hist cfg sinit h.*1 = true ->
  forall (a kind : nat) (id : list nat) (hh : nat) (order : list nat),
    let s := cafter cfg init_state h in
    let st := spec_after cfg sinit h.*1 in
    a ∈ sM st -> sG st !! akey cfg kind id = Some hh ->
    let k := akey cfg kind id in
    let r := run_op cfg (Deactivate a None kind id) order s in
    net r.1 = [] /\ dom (nodes r.1) = sM st /\ started r.1 = [] /\
    (exists t, t ∈ sM st /\ host cfg t = hh) /\
    forall n nd', nodes r.1 !! n = Some nd' ->
      get_by_id nd' k = None /\ (forall k', k' <> k -> get_by_id nd' k' = sG st !! k') /\
      k ∉ registry nd' /\ stops nd' = (if decide (host cfg n = hh) then [k] else []).
Proof. exact deactivate_removes_everywhere_and_stops. Qed.
Print Assumptions C19_deactivate_removes_everywhere_and_stops.

(* when member l leaves (a snapshot whose only change is l), every activation
   hosted on l disappears from the view of every remaining member, and every
   other activation stays *)
Theorem C19_leave_purges_hosted :
  forall (cfg : config), host_inj cfg ->
  forall (h : list (op * list nat)), wf_hist cfg sinit h.*1 = true ->
  forall (ids : list nat) (l : nat) (order : list nat),
    let s := cafter cfg init_state h in
    let st := spec_after cfg sinit h.*1 in
    NoDup ids -> filter (fun i => i ∉ sM st) ids = [] -> filter (fun i => i ∉ ids) (elements (sM st)) = [l] ->
    let r := run_op cfg (Snap ids) order s in
    net r.1 = [] /\ dom (nodes r.1) = sM st ∖ {[l]} /\
    forall n nd', nodes r.1 !! n = Some nd' ->
      forall k, get_by_id nd' k =
                match sG st !! k with
                | Some hh => if decide (hh = host cfg l) then None else Some hh
                | None => None
                end.
Proof. exact leave_purges_hosted. Qed.
Print Assumptions C19_leave_purges_hosted.

(* cluster-Spawn of an id the cluster does not know: one actor is started, on
   the spawning node; every member resolves the id to it *)
Theorem C19_spawn_registers_everywhere :
  forall (cfg : config) (h : list (op * list nat)) (a kind : nat) (id : list nat) (order : list nat),
    host_inj cfg -> wf_hist cfg sinit h.*1 = true ->
    let s := cafter cfg init_state h in
    let st := spec_after cfg sinit h.*1 in
    a ∈ sM st -> sG st !! akey cfg kind id = None ->
    let k := akey cfg kind id in
    let r := run_op cfg (Spawn a kind id) order s in
    r.2 = RPid (host cfg a) k /\ started r.1 = [(a, k)] /\ net r.1 = [] /\ dom (nodes r.1) = sM st /\
    forall n nd', nodes r.1 !! n = Some nd' ->
      get_by_id nd' k = Some (host cfg a) /\ (forall k', k' <> k -> get_by_id nd' k' = sG st !! k') /\
      (k ∈ registry nd' <-> n = a).
Proof. exact spawn_registers_everywhere. Qed.
Print Assumptions C19_spawn_registers_everywhere.

(* the master statement: on the histories of the property, whatever the
   delivery orders, everything the harness observes (return values, actors
   started and stopped, and on every member GetActiveByID, GetActiveByKind,
   HasKind, registry, events) is what the one-map specification predicts *)
Theorem C19_quiescent_history_refines_spec :
  forall (cfg : config) (h : list (op * list nat)),
    host_inj cfg -> wf_hist cfg sinit h.*1 = true ->
    cmodel_run cfg h = cspec_run cfg (case_keys cfg h.*1) sinit h.*1.
Proof. exact quiescent_history_refines_spec. Qed.
Print Assumptions C19_quiescent_history_refines_spec.

(* the kind-name premise of the GetActiveByKind clause, and its boundary *)
Theorem C19_by_kind_lists_the_activation :
  (forall (cfg : config) (G : gmap key nat) (kind : nat) (id : list nat) (hh : nat),
     slash ∉ spell cfg kind -> G !! akey cfg kind id = Some hh ->
     (akey cfg kind id, hh) ∈ by_kind_of G (spell cfg kind)) /\
  (let kx := [107; 48; 47; 120; 47; 49] in
   let hist := [(Snap [0], []); (Activate 0 3 [49] 0, [])] in
   wf_hist slash_cfg sinit hist.*1 = true /\
   ((fun nd => (get_by_id nd kx, get_by_kind slash_cfg nd 3, get_by_kind slash_cfg nd 0))
      <$> nodes (cafter slash_cfg init_state hist) !! 0) = Some (Some 0, [], [(kx, 0)])).
Proof. split; [exact by_kind_lists_the_activation|exact (conj (proj1 slash_kind_is_misfiled) (proj1 (proj2 slash_kind_is_misfiled)))]. Qed.
Print Assumptions C19_by_kind_lists_the_activation.

(* the predicate evaluated on the implementation is true of every model run *)
Theorem C19_oracle_holds_of_model :
  forall (cfg : config) (h : list (op * list nat)),
    host_inj cfg -> coracle_on cfg h.*1 (cmodel_run cfg h) = true.
Proof. exact oracle_holds_of_model. Qed.
Print Assumptions C19_oracle_holds_of_model.

(* the premises are needed (witnesses; see ClusterNetProofs.v for the readings) *)
Theorem C19_premises_needed :
  (* hosts pairwise distinct *)
  (let hh := [(Snap [0], []); (Snap [0; 1], []); (Snap [0; 1; 2], []); (Activate 0 0 [49] 0, []); (Snap [0; 1], [])] in
   wf_hist shared_host_cfg sinit hh.*1 = true /\
   show (cafter shared_host_cfg init_state hh) = [(0, [], [k01]); (1, [], [])]) /\
  (* cluster-Spawn of a known id *)
  (let hh := [(Snap [0], []); (Snap [0; 1], []); (Activate 0 0 [49] 0, []); (Spawn 1 0 [49], [])] in
   wf_hist (ecfg eK) sinit (take 3 hh).*1 = true /\
   show (cafter (ecfg eK) init_state hh) = [(0, [(k01, 0)], [k01]); (1, [(k01, 0)], [k01])]) /\
  (* quiescence *)
  (let s2 := cafter (ecfg eK) init_state [(Snap [0], []); (Snap [0; 1], [])] in
   let s3 := (issue (ecfg eK) (Activate 0 0 [49] 0) s2).1 in
   let r4 := issue (ecfg eK) (Activate 1 0 [49] 1) s3 in
   r4.2 = RPid 1 k01 /\ started r4.1 = [(0, k01); (1, k01)]) /\
  (* one member change per snapshot *)
  (let hh := [(Snap [0], []); (Snap [0; 1], []); (Activate 0 1 [49] 0, []); (Snap [0; 2], [])] in
   wf_hist (ecfg eK) sinit (take 3 hh).*1 = true /\
   show (cafter (ecfg eK) init_state hh) = [(0, [], []); (2, [(k11, 1)], [])]).
Proof.
  exact (conj hosts_distinct_needed
        (conj (conj (proj1 (proj2 spawn_known_id_breaks_uniqueness)) (proj2 (proj2 spawn_known_id_breaks_uniqueness)))
        (conj (conj (proj1 (proj2 quiescence_needed)) (proj1 (proj2 (proj2 quiescence_needed))))
              (conj (proj1 (proj2 combined_change_breaks_agreement)) (proj2 (proj2 combined_change_breaks_agreement)))))).
Qed.
Print Assumptions C19_premises_needed.

(** * C19 — "a member that joins later learns all active actors", while the
    membership change is still spreading *)
From HV Require JoinSpread StaggerExec JoinSpreadProofs.

(* Model JoinSpread.v: m old members, a joiner, any list of operations — the new
   member list reaches the agents in any order and grouping (Tell), old members
   activate in between (Act), those that know the joiner already broadcasting
   to it and the others not.  If the n-th operation is an activation that
   returned the PID on host h, then, once every old member has been told, every
   old member and the joiner resolve that key to host h. *)
Theorem C19_join_that_spreads_everyone_learns :
  forall (m : nat) (ops : list JoinSpread.op) (n who k sel h : nat),
    nth_error ops n = Some (JoinSpread.Act who k sel) ->
    nth_error (snd (JoinSpread.run m JoinSpread.init ops)) n = Some (JoinSpread.RPid h) ->
    let s := fst (JoinSpread.run m JoinSpread.init ops) in
    JoinSpread.all_told m s = true ->
    (forall i, i < m -> JoinSpread.omaps s i k = Some h) /\ JoinSpread.jmap s k = Some h.
Proof. exact JoinSpreadProofs.join_spread_everyone_learns. Qed.
Print Assumptions C19_join_that_spreads_everyone_learns.

(* the same in the vocabulary of the observation the check compares (GetActiveByID per member,
   host + 1): what StaggerExec.oracle demands of the implementation holds of every model run *)
Theorem C19_join_that_spreads_views :
  forall (m nk : nat) (ops : list JoinSpread.op) (n who k sel h : nat),
    nth_error ops n = Some (JoinSpread.Act who k sel) ->
    nth_error (snd (JoinSpread.run m JoinSpread.init ops)) n = Some (JoinSpread.RPid h) ->
    k < nk -> JoinSpread.all_told m (fst (JoinSpread.run m JoinSpread.init ops)) = true ->
    forall v, In v (JoinSpread.views m nk (fst (JoinSpread.run m JoinSpread.init ops))) -> nth_error v k = Some (S h).
Proof. exact JoinSpreadProofs.join_spread_views. Qed.
Print Assumptions C19_join_that_spreads_views.

(* the predicate part [stagger] evaluates on the implementation's observations (every member's final
   GetActiveByID view = the PIDs the activations returned) is true of every model run in which every
   old member has been told — so a failure of it on the implementation is a failure of the property,
   not of the oracle *)
Theorem C19_stagger_oracle_holds_of_model :
  forall (m nk : nat) (ops : list JoinSpread.op),
    0 < m -> JoinSpread.all_told m (fst (JoinSpread.run m JoinSpread.init ops)) = true ->
    StaggerExec.oracle (StaggerExec.model_case m nk ops) = true /\
    StaggerExec.corr (StaggerExec.model_case m nk ops) = true.
Proof. intros m nk ops Hm Hall. split; [exact (JoinSpreadProofs.stagger_oracle_sound m nk ops Hm Hall)|exact (JoinSpreadProofs.stagger_corr_refl m nk ops)]. Qed.
Print Assumptions C19_stagger_oracle_holds_of_model.

(* "Activate returns nil and spawns nothing if an actor kind/id is already known to the cluster",
   while a join is spreading: once an activation of a key has returned a PID, every later
   activation of that key — by an old member or by the joiner, whatever it has heard so far, and
   whoever it asks — returns nil.  For the joiner this rests on the asked member's own check
   (repair D26; JoinSpreadProofs.joiner_duplicate_before_D26 is the witness without it). *)
Theorem C19_join_that_spreads_no_second_activation :
  forall (m : nat) (ops : list JoinSpread.op) (n1 n2 who1 who2 k sel1 sel2 h : nat),
    n1 < n2 ->
    nth_error ops n1 = Some (JoinSpread.Act who1 k sel1) ->
    nth_error (snd (JoinSpread.run m JoinSpread.init ops)) n1 = Some (JoinSpread.RPid h) ->
    nth_error ops n2 = Some (JoinSpread.Act who2 k sel2) ->
    nth_error (snd (JoinSpread.run m JoinSpread.init ops)) n2 = Some JoinSpread.RNil.
Proof. exact JoinSpreadProofs.join_spread_no_second_activation. Qed.
Print Assumptions C19_join_that_spreads_no_second_activation.
