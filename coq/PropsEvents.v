(** The property theorems of the event-stream layer (C12, C09).  Nothing else
    lives here: each is closed by [exact <lemma>] and followed by
    [Print Assumptions].

    The model (Events.v) is the REPAIRED code (fixes D5, D6).  The engine's
    own lifecycle events (last sentence of C12) are emitted by the process
    layer: Proc.v's [EvInitialized]/[EvStarted]/[EvStopped]/[EvRestarted]/
    [EvMaxRestarts] and the dead letters of [flush] are checked by C04-C07;
    here an event is whatever reaches the event stream's inbox. *)
From stdpp Require Import list.
From HV Require Import Events EventsProofs.

(** * C12 — each event once to each current subscriber, in order *)

(* [h] is the history of the event stream's inbox in the order it is handled
   (the inbox serialises Subscribe, Unsubscribe and broadcasts: C01/C02), each
   message with the registry as it is at that moment; [subs] is any
   duplicate-free initial subscriber set; [p] is any PID whose actor is alive
   whenever an event is handled between a [Sub p] and the next [Unsub p]
   ([live_while_on]; it may be dead, or not yet spawned, at any other time).
   The events that reach [p]'s inbox are exactly the events that lie after a
   [Sub p] and before the next [Unsub p] — PIDs compared by address and id —
   each once, in that order; whatever else subscribes, unsubscribes, stops or
   is spawned meanwhile. *)
Theorem C12_once_between_sub_and_unsub :
  forall (es p : pid) (h : list (view * esmsg)) (subs : list pid),
    NoDup subs -> live_while_on p (bool_decide (p ∈ subs)) h ->
    delivered_to p (es_run es subs h).2 = between p (bool_decide (p ∈ subs)) (h.*2).
Proof. exact once_between_while_subscribed. Qed.
Print Assumptions C12_once_between_sub_and_unsub.

(* in particular for an actor that is alive throughout *)
Theorem C12_once_between_sub_and_unsub_alive :
  forall (es p : pid) (h : list (view * esmsg)) (subs : list pid),
    NoDup subs -> Forall (fun x => live x.1 p) h ->
    delivered_to p (es_run es subs h).2 = between p (bool_decide (p ∈ subs)) (h.*2).
Proof. exact once_between_sub_and_unsub. Qed.
Print Assumptions C12_once_between_sub_and_unsub_alive.

(* with no premise on [p] at all — actors that stop while subscribed, actors
   spawned again under the same id, PIDs on another node: what is handed to [p]
   (pushed on its inbox, or given to the remote for a foreign address) are the
   events between a [Sub p] and the next [Unsub p] that are handled while [p]
   can be reached; the first event that cannot reach it ends the subscription,
   and a new actor under the same id receives nothing until a new [Sub p].
   The second statement is the same for inbox deliveries alone. *)
Theorem C12_subscription_follows_the_actor :
  (forall es p h subs, NoDup subs ->
     handed_to p (es_run es subs h).2 = between_g reachable p (bool_decide (p ∈ subs)) h) /\
  (forall es p h subs, NoDup subs ->
     delivered_to p (es_run es subs h).2 = between_g liveb p (bool_decide (p ∈ subs)) h).
Proof. split; [exact handed_between_g | exact delivered_between_g]. Qed.
Print Assumptions C12_subscription_follows_the_actor.

(* subscribing the same PID twice changes nothing: not the subscriber set
   (first statement), hence not a single later forward (second) *)
Theorem C12_sub_idempotent :
  (forall v1 v2 es subs p,
     es_step v2 es (es_step v1 es subs (Sub p)).1 (Sub p) = ((es_step v1 es subs (Sub p)).1, [])) /\
  (forall es subs h1 v1 v2 p h2,
     es_run es subs (h1 ++ (v1, Sub p) :: (v2, Sub p) :: h2) = es_run es subs (h1 ++ (v1, Sub p) :: h2)).
Proof. split; [exact sub_idempotent_step | exact sub_idempotent]. Qed.
Print Assumptions C12_sub_idempotent.

(* after Unsubscribe of a PID with that address and id the actor is not a
   subscriber, and receives nothing until it subscribes again *)
Theorem C12_unsub_by_value :
  (forall v es subs p, p ∉ (es_step v es subs (Unsub p)).1) /\
  (forall es subs v p h,
     NoDup subs -> Forall (fun x => live x.1 p) ((v, Unsub p) :: h) -> Forall (fun m => m <> Sub p) (h.*2) ->
     delivered_to p (es_run es subs ((v, Unsub p) :: h)).2 = []).
Proof. split; [exact unsub_by_value_step | exact unsub_by_value]. Qed.
Print Assumptions C12_unsub_by_value.

(* order: for any set [f] of events (those of one broadcasting goroutine, whose
   broadcasts enter the inbox in program order by C01), what [p] receives of
   them is, in order, a sub-sequence of what entered the inbox; and all of it,
   in the same order, while [p] stays subscribed *)
Theorem C12_broadcast_order :
  forall es p h subs (f : msg -> bool),
    NoDup subs -> Forall (fun x => live x.1 p) h ->
    sublist (filter (fun e => f e = true) (delivered_to p (es_run es subs h).2))
            (filter (fun e => f e = true) (events_of (h.*2))) /\
    (p ∈ subs -> Forall (fun m => m <> Unsub p) (h.*2) ->
     delivered_to p (es_run es subs h).2 = events_of (h.*2)).
Proof. exact broadcast_order. Qed.
Print Assumptions C12_broadcast_order.

(* pinned tree, D5: keyed by *PID the same PID subscribed through two objects
   receives an event twice, and Unsubscribe through the other object removes
   nothing; the repaired machine on the same histories *)
Theorem C12_pointer_keys_refuted :
  delivered_to (0, 1) (es_run_pinned v_ex es_ex []
     [SubR (0, (0, 1)); SubR (1, (0, 1)); EvR (EUser 7)]).2 = [EUser 7; EUser 7] /\
  delivered_to (0, 1) (es_run_pinned v_ex es_ex []
     [SubR (0, (0, 1)); UnsubR (1, (0, 1)); EvR (EUser 7)]).2 = [EUser 7] /\
  delivered_to (0, 1) (es_run es_ex []
     [(v_ex, Sub (0, 1)); (v_ex, Sub (0, 1)); (v_ex, Ev (EUser 7))]).2 = [EUser 7] /\
  delivered_to (0, 1) (es_run es_ex []
     [(v_ex, Sub (0, 1)); (v_ex, Unsub (0, 1)); (v_ex, Ev (EUser 7))]).2 = [].
Proof. exact pointer_keys_refuted. Qed.
Print Assumptions C12_pointer_keys_refuted.

(* the predicates evaluated on the implementation are true of every model run *)
Theorem C12_oracle_holds_of_model :
  forall remote np ops,
    np <= 50 -> oracle12_on remote np ops (model12 remote np ops).1 (model12 remote np ops).2 = true.
Proof. exact oracle12_holds_of_model. Qed.
Print Assumptions C12_oracle_holds_of_model.

(** * C09 — undeliverable messages surface exactly once as events *)

(* Engine.send is a total function of the target, the message, the sender and
   the registry: it never panics, for nil, unknown, stopped, foreign and live
   targets alike, and it consists of one push on an unbounded inbox (C14) —
   there is no step on which the caller could block.  The five classes: *)
Theorem C09_send_total :
  forall v t m s,
    route v t m s <> Panicked /\
    match t with
    | None => route v t m s = Dropped
    | Some p =>
        if is_local v p
        then (if registered v p then route v t m s = ToInbox p m s else route v t m s = DeadLetter p m s)
        else (if v_remote v then route v t m s = ToRemote p m s else route v t m s = RemoteMissing p m s)
    end.
Proof. exact send_total. Qed.
Print Assumptions C09_send_total.

(* a message for a local PID without registered actor, sent while the event
   stream is at rest: the event stream then handles exactly the list [G] —
   first the one DeadLetterEvent with the original target, message and sender,
   then one event per subscriber that cannot be reached any more (each about
   that subscriber and carrying the dead letter as its message) — and comes to
   rest; every live subscriber receives exactly [G], once, in this order;
   nobody else receives anything; unreachable subscribers are dropped.  With
   no unreachable subscriber [G] is the single dead letter. *)
Theorem C09_dead_letter_exact :
  forall es st t m s,
    w_q st = [] -> NoDup (w_subs st) ->
    is_local (w_view st) t = true -> registered (w_view st) t = false ->
    let v := w_view st in
    let G := EDead t m s :: (bounce v es (EDead t m s) <$> dead_subs v (w_subs st)) in
    let st' := wq_drain es (wq_step es st (LSend (Some t) m s)) in
    w_q st' = [] /\ w_done st' = w_done st ++ G /\ w_subs st' = live_subs v (w_subs st) /\
    (forall p, p ∈ w_subs st -> live v p -> inbox_of p st' = inbox_of p st ++ G) /\
    (forall p, p ∉ w_subs st -> inbox_of p st' = inbox_of p st).
Proof. exact dead_letter_exact. Qed.
Print Assumptions C09_dead_letter_exact.

(* the same for a foreign address on an engine without remote *)
Theorem C09_remote_missing_exact :
  forall es st t m s,
    w_q st = [] -> NoDup (w_subs st) ->
    is_local (w_view st) t = false -> v_remote (w_view st) = false ->
    let v := w_view st in
    let G := EMissing t m s :: (bounce v es (EMissing t m s) <$> dead_subs v (w_subs st)) in
    let st' := wq_drain es (wq_step es st (LSend (Some t) m s)) in
    w_q st' = [] /\ w_done st' = w_done st ++ G /\ w_subs st' = live_subs v (w_subs st) /\
    (forall p, p ∈ w_subs st -> live v p -> inbox_of p st' = inbox_of p st ++ G) /\
    (forall p, p ∉ w_subs st -> inbox_of p st' = inbox_of p st).
Proof. exact remote_missing_exact. Qed.
Print Assumptions C09_remote_missing_exact.

(* a finite number of sends produces a finite number of events: [ls] is any
   finite interleaving of sends (to whatever targets), broadcasts,
   subscriptions (of whatever PIDs), unsubscriptions and stops of actors with
   steps of the event stream, from any duplicate-free subscriber population
   [subs] — live, stopped, never spawned, foreign; afterwards the event stream
   empties its inbox within [wq_measure] steps and stays at rest, and all in
   all it has handled at most [cost ls + #unreachable subs] events (one per
   send or broadcast, one per subscription, two per stop). *)
Theorem C09_finitely_many_events :
  forall es v subs ls,
    NoDup subs ->
    let st := wq_drain es (wq_run es (winit v subs) ls) in
    w_q st = [] /\ (forall n, Nat.iter n (wq_proc es) st = st) /\
    length (w_done st) <= cost ls + length (dead_subs v subs).
Proof. exact finitely_many_events. Qed.
Print Assumptions C09_finitely_many_events.

(* pinned tree, D6: nobody is ever dropped; with one subscriber that cannot
   be reached one event keeps the event stream busy for ever: after [n] steps
   it has handled [n] events and the next one is waiting *)
Theorem C09_dead_subscriber_diverges_pinned_refuted :
  forall v es d e n,
    unreachable v d = true ->
    exists e', Nat.iter n (wq_proc_pinned v es) ([d], [e], 0) = ([d], [e'], n).
Proof. exact dead_subscriber_diverges_pinned. Qed.
Print Assumptions C09_dead_subscriber_diverges_pinned_refuted.

(* the predicate evaluated on the implementation is true of every model run of
   a well-formed scenario *)
Theorem C09_oracle_holds_of_model :
  forall nmon ops,
    wf09 nmon ops = true ->
    oracle09_on nmon ops (model09 nmon ops) false false = true.
Proof. exact oracle09_holds_of_model. Qed.
Print Assumptions C09_oracle_holds_of_model.
