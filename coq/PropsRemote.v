(** The property theorems of the remote layer (C17).  Nothing else lives here:
    each is closed by [exact <lemma>] and followed by [Print Assumptions].
    Models: Remote.v.  The deterministic machine's steps are whole messages /
    batches (what the inbox layer guarantees, C01-C03) and its wire encoding is
    Wire.v's (C15); the interleaving machine cuts Shutdown and deliverStream
    into their statements and is about the *repaired* order of Shutdown
    (fixes/D12.diff); [C17_blackhole_pinned_refuted] is the witness for the
    pinned order. *)
From Coq Require Import List Arith Bool.
From HV Require Import Wire Remote RemoteExec RemoteProofs.
Import ListNotations.

(** * C17 (a) — while the connection stays up: exactly once, in order, with its sender *)

(* [s0]: any state in which nothing is under way for node [a] ([fresh]: no
   table entry, no writer, nothing queued or in flight — e.g. the initial
   state, or the state after an unreachable episode).  [a] becomes reachable;
   then any list of operations [ops] that contains neither the loss of the
   connection to [a] nor [a] going down — an arbitrary interleaving of
   Remote.Send calls for any node, router steps, writer steps with batches of
   any size, reader steps, and failures concerning other nodes.  Then what
   [a]'s reader has delivered, followed by what the pipe (link, writer inbox,
   router inbox) still holds, is [expected] of the messages handed to
   Remote.Send for [a], in the order of those calls: one delivery per
   serialisable message with the same target, sender and payload
   (C15_same_count_order_target_sender_payload); when the pipe is drained the
   deliveries are exactly that; nothing for [a] became a dead letter or was
   dropped.  Per target (and per sender) order follows by filtering both
   sides. *)
Theorem C17_up_exactly_once_in_order :
  forall (value data : Type) (tyname_of : value -> option tyname) (ser : value -> option data)
         (deser : tyname -> data -> option value),
    (forall v t d, tyname_of v = Some t -> ser v = Some d -> deser t d = Some v) ->
    forall (s0 : dstate value data) (a : str) (ops : list (op value)),
      fresh a s0 -> Forall (up_op a) ops ->
      let s := run tyname_of ser deser ops (exec tyname_of ser deser s0 (OPeer a true)) in
      flow tyname_of ser deser s a = a_got (tab s0 a) ++ expected tyname_of ser (sent_to a ops) /\
      (drained s a -> a_got (tab s a) = a_got (tab s0 a) ++ expected tyname_of ser (sent_to a ops)) /\
      only a (dead s) = only a (dead s0) /\ a_lost (tab s a) = a_lost (tab s0 a).
Proof. exact @up_exactly_once_in_order. Qed.
Print Assumptions C17_up_exactly_once_in_order.

(** * C17 (b) — an unreachable peer is reported and its messages surface as dead letters *)

(* The router takes up a message [d] for a node [a] it has no stream for,
   nothing is registered for [a] and [a] cannot be reached (all dials of the
   new writer fail).  In that step RemoteUnreachableEvent{a} is broadcast and
   queued for the router itself.  For as long as [a] stays unreachable
   ([ops]: anything but [a] coming up): the dead letters for [a], in order,
   followed by the messages for [a] still waiting at the router, are [d], what
   was queued behind it, and what has been handed to Remote.Send since; none
   is dropped silently and no writer stays registered. *)
Theorem C17_unreachable_reported :
  forall (value data : Type) (tyname_of : value -> option tyname) (ser : value -> option data)
         (deser : tyname -> data -> option value)
         (s : dstate value data) (a : str) (d : deliver value) (q : list (rmsg value)) (ops : list (op value)),
    rq s = RDeliver d :: q -> addr_of d = a ->
    a_streams (tab s a) = false -> a_w (tab s a) = WAbsent -> a_peer (tab s a) = false ->
    Forall (down_op a) ops ->
    let s1 := exec tyname_of ser deser s ORouter in
    let s' := run tyname_of ser deser ops s1 in
    evs s1 = evs s ++ [a] /\ rq s1 = q ++ [RUnreach a] /\
    only a (dead s') ++ rq_for a (rq s') = only a (dead s) ++ d :: rq_for a q ++ sent_to a ops /\
    a_lost (tab s' a) = a_lost (tab s a) /\ a_w (tab s' a) = WAbsent.
Proof. exact @unreachable_reported. Qed.
Print Assumptions C17_unreachable_reported.

(** * C17 (c) — a later send makes a fresh attempt that succeeds once the peer is up *)

(* In any state reachable from the initial one — whatever failed before — in
   which the router is done with [a] and has no entry for it (the state after
   it handled the RemoteUnreachableEvent) and nothing is in flight: nothing is
   registered under the writer's id ([fresh]); so, once [a] is reachable, the
   next message spawns a new writer that dials, and (a) holds again. *)
Theorem C17_fresh_attempt_after_unreachable :
  forall (value data : Type) (tyname_of : value -> option tyname) (ser : value -> option data)
         (deser : tyname -> data -> option value),
    (forall v t d, tyname_of v = Some t -> ser v = Some d -> deser t d = Some v) ->
    forall (ops1 : list (op value)) (a : str) (ops2 : list (op value)),
      let s := run tyname_of ser deser ops1 (dstate0 : dstate value data) in
      router_quiet s a -> a_streams (tab s a) = false -> a_link (tab s a) = [] ->
      Forall (up_op a) ops2 ->
      let s' := run tyname_of ser deser ops2 (exec tyname_of ser deser s (OPeer a true)) in
      fresh a s /\
      flow tyname_of ser deser s' a = a_got (tab s a) ++ expected tyname_of ser (sent_to a ops2) /\
      (drained s' a -> a_got (tab s' a) = a_got (tab s a) ++ expected tyname_of ser (sent_to a ops2)) /\
      only a (dead s') = only a (dead s) /\ a_lost (tab s' a) = a_lost (tab s a).
Proof. exact @fresh_attempt_after_unreachable. Qed.
Print Assumptions C17_fresh_attempt_after_unreachable.

(* the condition under which that holds, in the machine where Shutdown is one
   step: in every reachable state, when the router has nothing in hand for
   [a], its table has an entry for [a] exactly if a connected writer is
   registered.  ([C17_no_blackhole] is the same statement with Shutdown cut
   into its statements.) *)
Theorem C17_no_stale_entry_when_router_quiet :
  forall (value data : Type) (tyname_of : value -> option tyname) (ser : value -> option data)
         (deser : tyname -> data -> option value) (ops : list (op value)) (a : str),
    let s := run tyname_of ser deser ops (dstate0 : dstate value data) in
    router_quiet s a ->
    (a_streams (tab s a) = true -> exists ib, a_w (tab s a) = WUp ib) /\
    (a_streams (tab s a) = false -> a_w (tab s a) = WAbsent).
Proof. exact @det_no_blackhole. Qed.
Print Assumptions C17_no_stale_entry_when_router_quiet.

(** * C17 (d) — Start twice or Stop twice is harmless; no inbound after Stop *)

Theorem C17_start_stop_idempotent :
  forall cs : list rcall,
    let m := fst (rcalls rmach0 cs) in
    (r_listening m = true <-> r_state m = StRunning) /\ r_routers m <= 1 /\
    (let m1 := fst (rcall_step m CStart) in rcall_step m1 CStart = (m1, ResAlreadyStarted)) /\
    (let m1 := fst (rcall_step m CStop) in rcall_step m1 CStop = (m1, ResNotRunning)).
Proof. exact start_stop_idempotent. Qed.
Print Assumptions C17_start_stop_idempotent.

Theorem C17_stopped_never_listens :
  forall (m : rmach) (cs : list rcall),
    r_state m = StStopped -> r_listening m = false ->
    r_state (fst (rcalls m cs)) = StStopped /\ r_listening (fst (rcalls m cs)) = false /\
    Forall (fun p => snd p = false /\ fst p <> ResOk) (snd (rcalls m cs)).
Proof. exact stopped_never_listens. Qed.
Print Assumptions C17_stopped_never_listens.

(** * D12 — Shutdown against the router, statement by statement *)

(* Repaired order (Registry.Remove first): for every interleaving of senders,
   router statements, connection losses, Shutdown statements of any number of
   writers (on their own goroutines or, after a failed dial, on the router's)
   and inbox workers, from the initial state: no writer is ever spawned onto a
   taken id; an entry without a registered writer always has its deleting
   event pending; the id is free whenever the router registers a writer; at
   rest an entry means a registered, connected writer and no entry means
   nothing registered. *)
Theorem C17_no_blackhole :
  forall sched : list lbl,
    let s := rrun Repaired sched rstate0 in
    rdups s = 0 /\
    (has s = true -> reg s = None -> evt_pending s) /\
    (forall n, pc s = RAdd n -> reg s = None) /\
    (at_rest s ->
     (has s = true -> exists w, reg s = Some w /\ w < nw s /\ w_conn (ws s w) = true /\ w_todo (ws s w) = None) /\
     (has s = false -> reg s = None)).
Proof. exact no_blackhole. Qed.
Print Assumptions C17_no_blackhole.

(* Pinned order (notify first, Remove last): a schedule ends at rest in a
   black-holed state — one duplicate spawn, message 2 in the inbox of the dead
   writer (lost silently), message 3 a dead letter. *)
Theorem C17_blackhole_pinned_refuted :
  exists sched, let s := rrun Pinned sched rstate0 in
    at_rest s /\ blackholed s /\ rdups s = 1 /\ rdead s = [3] /\ w_inbox (ws s 0) = [2].
Proof. exact blackhole_pinned_refuted. Qed.
Print Assumptions C17_blackhole_pinned_refuted.

(* ... and a black hole is for ever: no step of anybody undoes it, no writer is
   started or given a message again, every message the router takes up becomes
   a dead letter. *)
Theorem C17_blackhole_is_permanent :
  forall (o : order) (s : rstate) (l : lbl),
    blackholed s ->
    blackholed (rstep o s l) /\ nw (rstep o s l) = nw s /\ pushed (rstep o s l) = pushed s /\
    (forall n ok, l = LRouter ok -> pc s = RGet n -> rdead (rstep o s l) = rdead s ++ [n]).
Proof. exact blackhole_is_permanent. Qed.
Print Assumptions C17_blackhole_is_permanent.

(** * what the property does not promise, and the code does not do *)

(* a message sitting in a writer's inbox when its connection is lost vanishes
   silently: not delivered, no dead letter *)
Theorem C17_connection_loss_drops_silently :
  let s := xrun [OPeer (node 1) true; OSend (ex_d ex_t0 0 0); ORouter; ODrop (node 1); ORouter] xstate0 in
  a_lost (tab s (node 1)) = [ex_d ex_t0 0 0] /\ dead s = [] /\ a_got (tab s (node 1)) = [] /\
  a_link (tab s (node 1)) = [] /\ rq s = [] /\ evs s = [node 1].
Proof. exact connection_loss_drops_silently. Qed.
Print Assumptions C17_connection_loss_drops_silently.

(** * the predicates evaluated on the implementation hold of the models *)

(* scenario "up", for every schedule: the target peers reachable and untouched
   at the start, no connection lost, the Remote.Send calls any interleaving of
   the senders' programmes, router / writers / readers scheduled in any way
   with batches of any size; whenever the pipes to the target peers are
   drained, the oracle ([exactly_once_in_order]: per target and sender exactly
   the sequence numbers addressed to it, once, ascending, right Sender()) is
   true of what the recording actors saw *)
Theorem C17_oracle_up_holds_for_every_drained_schedule :
  forall (ts : list (nat * nat)) (senders : list bool) (per : nat) (ops : list (op xv)) (s0 : dstate xv xv),
    NoDup ts -> interleaved ts senders 0 per ops ->
    (forall p t, In (p, t) ts ->
       fresh (node p) s0 /\ a_peer (tab s0 (node p)) = true /\ a_got (tab s0 (node p)) = [] /\
       Forall (up_op (node p)) ops /\ drained (xrun ops s0) (node p)) ->
    exactly_once_in_order ts (length senders) 0 per (map (seen_at senders (xrun ops s0)) ts) = true.
Proof. exact oracle_up_holds_for_every_drained_schedule. Qed.
Print Assumptions C17_oracle_up_holds_for_every_drained_schedule.

(* scenario "stop" and the race (repaired order): the oracle is true of every model run *)
Theorem C17_oracle_holds_of_model :
  (forall cs : list rcall,
     oracle_stop {| s_calls := cs; s_obs := stop_model cs; s_probe := [r_listening (fst (rcalls rmach0 cs))] |} = true) /\
  (forall senders drop terms,
     model_terminals Repaired senders drop = Some terms -> forallb no_blackhole_obs terms = true).
Proof. exact (conj oracle_stop_holds_of_model oracle_race_holds_of_model). Qed.
Print Assumptions C17_oracle_holds_of_model.
