(** Executable checks for the inbox layer (C01, C02, C03): lock-step replay of
    schedules explored on the real inbox.go under the deterministic scheduler,
    and the properties' predicates evaluated on the terminal observations of
    the implementation. *)
From Coq Require Import List Arith Bool.
Import ListNotations.
From HV Require Export Inbox.

Definition list_eqb {A} (f : A -> A -> bool) := fix go (l1 l2 : list A) : bool :=
  match l1, l2 with
  | [], [] => true
  | a :: l1', b :: l2' => f a b && go l1' l2'
  | _, _ => false
  end.

Definition label_eqb (a b : label) : bool :=
  match a, b with
  | LPush m, LPush n => Nat.eqb m n
  | LCas o n k, LCas o' n' k' => status_eqb o o' && status_eqb n n' && Bool.eqb k k'
  | LLoad v, LLoad w => status_eqb v w
  | LSwap n o, LSwap n' o' => status_eqb n n' && status_eqb o o'
  | LStore v, LStore w => status_eqb v w
  (* a swap whose old value the code does not look at and a store are the same write *)
  | LSwap n _, LStore v | LStore v, LSwap n _ => status_eqb n v
  | LPopN b k, LPopN b' k' => list_eqb Nat.eqb b b' && Bool.eqb k k'
  | LLen n, LLen m => Nat.eqb n m
  | LInvB b, LInvB b' => list_eqb Nat.eqb b b'
  | LInvE, LInvE => true
  | LNone, LNone => true
  | _, _ => false
  end.

(* what the harness reads off the real inbox and its recording Processer *)
Record obs := { o_status : status; o_qlen : nat; o_delivered : list msg; o_dropped : list msg;
                o_pushed : list msg;       (* push order as executed *)
                o_overlap : bool;          (* two Invoke regions were open at once *)
                o_deadlock : bool;         (* unfinished goroutines, none enabled *)
                o_terminal : bool }.       (* all goroutines finished *)

Record case := { c_prop : nat; c_bound : nat; c_started : bool; c_clients : list pc;
                 c_sched : list nat; c_labels : list label;   (* empty for terminal-only cases *)
                 c_replay : bool;
                 c_obs : obs }.

Definition start_state (c : case) : st :=
  if c_started c then init_started (c_clients c) else init (c_clients c).

Definition region_count (s : st) : nat := cnt in_region (thr s).

(* Replay with stutter tolerance for pure reads.  The model is driven by the
   implementation's thread choices and must perform the same operations with
   the same results, except that
   - an implementation read (Load / Len) that the model's thread is not about
     to perform is accepted when its result is what the model state holds
     (an extra read in the code changes nothing), and
   - a model read the implementation does not show is performed silently
     before the thread's next visible operation (a read removed from the code).
   Writes, CASes, pushes, pops and Invoke boundaries always have to match. *)
(* a failing CAS writes nothing: it is a read too *)
Definition is_read_label (l : label) : bool :=
  match l with LLoad _ | LLen _ | LCas _ _ false => true | _ => false end.
Definition read_consistent (s : st) (l : label) : bool :=
  match l with
  | LLoad v => status_eqb (status_ s) v
  | LLen n => Nat.eqb (length (q s)) n
  | LCas o _ false => negb (status_eqb (status_ s) o)
  | _ => false
  end.

Definition orelse {A} (a : option A) (b : unit -> option A) : option A :=
  match a with Some x => Some x | None => b tt end.

(* trailing silent reads of threads that the implementation finished without them *)
Fixpoint settle (fuel : nat) (c : config) (s : st) : st :=
  match fuel with 0 => s | S f =>
  let fix first (i : nat) (l : list pc) : option st :=
      match l with
      | [] => None
      | _ :: l' => match step c s i with
                   | Some (s', lb) => if is_read_label lb then Some s' else first (S i) l'
                   | None => first (S i) l'
                   end
      end in
  match first 0 (thr s) with Some s' => settle f c s' | None => s end
  end.

(* [final] is what the end state must satisfy: it is part of the search, so a
   choice between "extra implementation read" and "silent model read" that
   leads to the wrong end state is revised *)
Fixpoint replay (fuel : nat) (c : config) (final : st -> bool) (s : st) (sched : list nat) (ls : list label) : option st :=
  match fuel with 0 => None | S f =>
  match sched, ls with
  | [], [] => if final s then Some s
              else let s' := settle (length (thr s) + 3) c s in if final s' then Some s' else None
  | i :: sched', l :: ls' =>
    let skip_impl_read := fun _ : unit =>
      if is_read_label l && read_consistent s l then replay f c final s sched' ls' else None in
    match step c s i with
    | None => skip_impl_read tt
    | Some (s', l') =>
      if label_eqb l l' then orelse (replay f c final s' sched' ls') skip_impl_read
      else orelse (skip_impl_read tt)                                   (* extra implementation read *)
                  (fun _ => if is_read_label l' then replay f c final s' sched ls else None)  (* silent model read *)
    end
  | _, _ => None
  end end.

(* correspondence: the model, driven by the same thread choices, performs the
   same operations with the same results and ends in the same observable state *)
Definition obs_matches (s : st) (o : obs) : bool :=
  status_eqb (status_ s) (o_status o) &&
  Nat.eqb (length (q s)) (o_qlen o) &&
  list_eqb Nat.eqb (delivered s) (o_delivered o) &&
  list_eqb Nat.eqb (dropped s) (o_dropped o) &&
  list_eqb Nat.eqb (pushed s) (o_pushed o) &&
  Bool.eqb (quiescent s) (o_terminal o).

Definition corr_exact (c : case) : bool :=
  match run_sched {| bound := c_bound c |} (start_state c) (c_sched c) with
  | None => false
  | Some (s, ls) => list_eqb label_eqb ls (c_labels c) && obs_matches s (c_obs c)
  end.

Definition corr (c : case) : bool :=
  if negb (c_replay c) then true else
  if corr_exact c then true else
  match replay (4 * length (c_sched c) + 10) {| bound := c_bound c |} (fun s => obs_matches s (c_obs c))
               (start_state c) (c_sched c) (c_labels c) with
  | None => false
  | Some _ => true
  end.

(* every message of the clients' programs *)
Definition program_msgs (clients : list pc) : list msg :=
  flat_map (fun p => match p with SPush ms => ms | SCas ms => ms | _ => [] end) clients.
Definition has_starter (clients : list pc) : bool := existsb is_starter clients.

(* per-sender order: the sub-sequence of [l] made of the messages of [ms] is a
   prefix of [ms] *)
Definition sub_of (ms l : list msg) : list msg := filter (fun m => existsb (Nat.eqb m) ms) l.
Definition sender_order_ok (clients : list pc) (l : list msg) : bool :=
  forallb (fun p => match p with
                    | SPush ms => list_eqb Nat.eqb (firstn (length (sub_of ms l)) ms) (sub_of ms l)
                    | _ => true end) clients.

(* the properties' predicates on an implementation observation, one
   projection per property (c_prop = 1, 2, 3):
   C01  what was handed to the receiver is a prefix of the push order (each
        message once, same value, in order), every sender's messages appear in
        its program order, and at a terminal state nothing has vanished: every
        pushed message was delivered, dropped behind a pill, or is still queued;
   C02  no two receive regions overlap;
   C03  no deadlock, and at a terminal state of a started inbox with no pill
        among the messages the inbox rests idle with an empty queue and
        everything the clients sent was pushed and invoked. *)
Definition is_prefix (a b : list msg) : bool := list_eqb Nat.eqb (firstn (length a) b) a.

Definition oracle_c01 (c : case) : bool :=
  let o := c_obs c in
  is_prefix (o_delivered o) (o_pushed o) &&
  sender_order_ok (c_clients c) (o_pushed o) &&
  (if o_terminal o
   then Nat.eqb (length (o_delivered o) + length (o_dropped o) + o_qlen o) (length (o_pushed o))
   else true).

Definition oracle_c02 (c : case) : bool := negb (o_overlap (c_obs c)).

Definition oracle_c03 (c : case) : bool :=
  let o := c_obs c in
  negb (o_deadlock o) &&
  (if o_terminal o && (c_started c || has_starter (c_clients c))
      && negb (pills_in (program_msgs (c_clients c)))
   then status_eqb (o_status o) Idle && Nat.eqb (o_qlen o) 0 &&
        Nat.eqb (length (o_pushed o)) (length (program_msgs (c_clients c))) &&
        Nat.eqb (length (o_delivered o)) (length (o_pushed o))
   else true).

Definition oracle (c : case) : bool :=
  match c_prop c with
  | 1 => oracle_c01 c
  | 2 => oracle_c02 c
  | 3 => oracle_c03 c
  | _ => oracle_c01 c && oracle_c02 c && oracle_c03 c
  end.

(* proof-relevant situations reached by a replayed schedule:
   1 a sender's CAS fails (worker active), 2 worker re-check finds messages
   (WLen with non-empty queue), 3 starter's kick finds a backlog, 4 pill stops
   the inbox, 5 batch bound splits the backlog, 6 CAS running->idle fails,
   7 a push lands between the worker's empty pop and its idle transition *)
Fixpoint tags (bnd : nat) (ls : list label) (prev_empty_pop : bool) : list nat :=
  match ls with
  | [] => []
  | l :: ls' =>
    (match l with
     | LCas Idle Running false => [1]
     | LLen (S _) => [2]
     | LStore Stopped => [4]
     | LCas Running Idle false => [6]
     | LPopN b true => if Nat.eqb (length b) bnd then [5] else []
     | LPush _ => if prev_empty_pop then [7] else []
     | _ => []
     end) ++
    tags bnd ls' (match l with
                  | LPopN _ false => true
                  | LCas Running Idle _ => false
                  | _ => prev_empty_pop end)
  end.

Fixpoint dedup (l : list nat) : list nat :=
  match l with [] => [] | x :: l' => if existsb (Nat.eqb x) l' then dedup l' else x :: dedup l' end.

(* tag 9: the replay needed the read tolerance (the code's reads no longer line up with the model's) *)
Definition branches (c : case) : list nat :=
  dedup (tags (c_bound c) (c_labels c) false) ++ (if c_replay c && negb (corr_exact c) && corr c then [9] else []).

Fixpoint failing {A} (f : A -> bool) (i : nat) (l : list A) : list nat :=
  match l with [] => [] | a :: l' => (if f a then [] else [i]) ++ failing f (S i) l' end.

Definition report (cs : list case) : list nat * list nat * list (list nat) :=
  (failing corr 0 cs, failing oracle 0 cs, map branches cs).
