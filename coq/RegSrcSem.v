(** LMini — syntax and interleaving semantics of the fragment of Go in which
    actor/registry.go is written, for the translation tie of C10.

    [tools/regtrans] maps the method bodies of [*Registry] (add, insert, get,
    getByID, Remove) one-to-one to terms of [stmt]; this file says what those
    terms mean when several goroutines run them against one registry.  The
    granularity is that of Registry.v (ii) and of the scheduler shim of the
    harness: ONE step of the system is one VISIBLE operation of one thread —

      an acquisition of the RWMutex (Lock / RLock),
      proc.Start(), BroadcastEvent(ActorDuplicateIdEvent{..}),
      the environment's "the actor registered under i handles Stopped",

    preceded by the thread's local computation from the start of the client
    operation (the call, tests on parameters) and followed by its local
    computation up to its next visible operation or the end of the client
    operation: map reads / writes / deletes, Unlock / RUnlock (explicit or
    deferred), tests, calls and returns.  That a critical section contains no
    visible operation, that the mutex is released when the step ends, that
    every access to [lookup] happens while the mutex is held, and every write
    or delete while it is held for writing, are not assumed: a thread that
    breaks one of them is STUCK (no step), and the simulation proof
    (RegSrcProofs.v) fails.  Under that discipline critical sections exclude
    each other, which is what justifies running one to its end in one step.

    The label of a step that takes the mutex is DERIVED from what the critical
    section did to the map ([eff] log), not from the name of the method.

    Environment, as in Registry.v: a client thread runs a program of [cop]s;
    [CAdd i] creates a process object for id i (numbered when its add takes
    the lock) and calls r.add(proc); [CGet i] calls the lookup method named by the
    parameter [G] — r.get(pid) with pid.ID = i (never nil) or r.getByID(i) —; [CStop i]: the process registered under i, if it is started
    and has not yet handled Stopped, handles it, and its cleanup then calls
    r.Remove(pid).  Every key expression the translator accepts (pid.ID,
    proc.PID().ID, a local or parameter holding one of them) denotes the id
    the thread's current operation is about ([tkey]).

    Definitions only (total, executable). *)
From stdpp Require Import list.
From Coq Require Import String.
From HV Require Import Registry.
Local Open Scope string_scope.

Inductive lkind := LkW | LkR.
Definition lkind_eqb (a b : lkind) : bool :=
  match a, b with LkW, LkW | LkR, LkR => true | _, _ => false end.

Inductive cond :=
| COk                          (* ok — second result of the last two-result map read *)
| CPidNil                      (* pid == nil *)
| CCallB (m : string).         (* r.m(proc), a method of the registry with a boolean result *)

Inductive stmt :=
| Skip
| Seq (a b : stmt)
| If (c : cond) (t e : stmt)
| Lock (k : lkind)             (* r.mu.Lock() / r.mu.RLock() *)
| Unlock (k : lkind)           (* r.mu.Unlock() / r.mu.RUnlock() *)
| DeferUnlock (k : lkind)      (* defer r.mu.Unlock() / defer r.mu.RUnlock() *)
| MapGet2                      (* v, ok := r.lookup[key]      (v may be _) *)
| MapSet                       (* r.lookup[key] = proc *)
| MapDelete                    (* delete(r.lookup, key) *)
| KeyDef                       (* id := proc.PID().ID *)
| RetVoid                      (* return *)
| RetBool (b : bool)           (* return true / false *)
| RetFound                     (* return v — the value of the last map read *)
| RetNil                       (* return nil *)
| RetMapGet                    (* return r.lookup[key] *)
| CallStart                    (* proc.Start() *)
| Broadcast                    (* r.engine.BroadcastEvent(ActorDuplicateIdEvent{PID: proc.PID()}) *)
| CallV (m : string).          (* r.m(..) as a statement *)

Definition methods := list (string * stmt).

Fixpoint lookup_m {A} (m : string) (ms : list (string * A)) : option A :=
  match ms with
  | [] => None
  | (n, b) :: r => if String.eqb m n then Some b else lookup_m m r
  end.

Inductive frame :=
| FS (s : stmt)
| FRet (ds : list lkind)       (* boundary of a method call, with the callee's deferred unlocks (last deferred first) *)
| FBranch (t e : stmt)         (* the rest of [If (CCallB m) t e] once m has returned *)
| FClient (prog : list cop).   (* environment: the rest of the client's program *)

(* what a critical section did to the map *)
Inductive eff := ERead (r : option nat) | EWrite | EDelete.

Record thread := { frames : list frame;
                   tkey : id;                (* the id the current operation is about *)
                   tproc : option nat;       (* the process object of the current operation, once numbered *)
                   pend : bool;              (* a process object created by CAdd and not yet numbered *)
                   okr : bool; found : option nat;      (* results of the last map read *)
                   retb : bool; retv : option nat;      (* result of the last return *)
                   held : option lkind;
                   log : list eff }.

Definition with_frames (th : thread) (k : list frame) : thread :=
  {| frames := k; tkey := tkey th; tproc := tproc th; pend := pend th; okr := okr th; found := found th;
     retb := retb th; retv := retv th; held := held th; log := log th |}.

Definition fresh_thread (k : list frame) : thread :=
  {| frames := k; tkey := 0; tproc := None; pend := false; okr := false; found := None;
     retb := false; retv := None; held := None; log := [] |}.

(* unwind to the innermost call boundary (which then runs its deferred unlocks) *)
Fixpoint unwind (k : list frame) : option (list frame) :=
  match k with
  | [] => None
  | FRet ds :: r => Some (FRet ds :: r)
  | _ :: r => unwind r
  end.

(* register a deferred unlock with the innermost call boundary *)
Fixpoint defer_push (d : lkind) (k : list frame) : option (list frame) :=
  match k with
  | [] => None
  | FRet ds :: r => Some (FRet (d :: ds) :: r)
  | f :: r => match defer_push d r with Some r' => Some (f :: r') | None => None end
  end.

Definition reg := id -> option nat.

Definition is_some {A} (o : option A) : bool := match o with Some _ => true | None => false end.

(* one silent step: None when the head is a visible operation, the thread has
   finished, or it is stuck *)
Definition tau (M : methods) (G : string) (d : bool) (g : reg) (th : thread) : option (reg * thread) :=
  match frames th with
  | [] => None
  | FClient [] :: k => Some (g, with_frames th k)
  | FClient (CAdd i :: rest) :: k =>
      if negb d then None else
      Some (g, {| frames := FS (CallV "add") :: FClient rest :: k; tkey := i; tproc := None; pend := true;
                  okr := false; found := None; retb := false; retv := None; held := held th; log := log th |})
  | FClient (CGet i :: rest) :: k =>
      if negb d then None else
      Some (g, {| frames := FS (CallV G) :: FClient rest :: k; tkey := i; tproc := None; pend := false;
                  okr := false; found := None; retb := false; retv := None; held := held th; log := log th |})
  | FClient (CStop _ :: _) :: _ => None
  | FRet [] :: k => Some (g, with_frames th k)
  | FRet (d :: ds) :: k =>
      match held th with
      | Some d' => if lkind_eqb d d'
                   then Some (g, {| frames := FRet ds :: k; tkey := tkey th; tproc := tproc th; pend := pend th;
                                    okr := okr th; found := found th; retb := retb th; retv := retv th;
                                    held := None; log := log th |})
                   else None
      | None => None
      end
  | FBranch t e :: k => Some (g, with_frames th (FS (if retb th then t else e) :: k))
  | FS s :: k =>
      match s with
      | Skip => Some (g, with_frames th k)
      | Seq a b => Some (g, with_frames th (FS a :: FS b :: k))
      | If COk t e => Some (g, with_frames th (FS (if okr th then t else e) :: k))
      | If CPidNil t e => Some (g, with_frames th (FS e :: k))
      | If (CCallB m) t e =>
          match lookup_m m M with
          | Some b => Some (g, with_frames th (FS b :: FRet [] :: FBranch t e :: k))
          | None => None
          end
      | Lock _ => None
      | Unlock d =>
          match held th with
          | Some d' => if lkind_eqb d d'
                       then Some (g, {| frames := k; tkey := tkey th; tproc := tproc th; pend := pend th;
                                        okr := okr th; found := found th; retb := retb th; retv := retv th;
                                        held := None; log := log th |})
                       else None
          | None => None
          end
      | DeferUnlock d =>
          match defer_push d k with Some k' => Some (g, with_frames th k') | None => None end
      | MapGet2 =>
          match held th with
          | Some _ => Some (g, {| frames := k; tkey := tkey th; tproc := tproc th; pend := pend th;
                                  okr := is_some (g (tkey th)); found := g (tkey th);
                                  retb := retb th; retv := retv th; held := held th;
                                  log := log th ++ [ERead (g (tkey th))] |})
          | None => None
          end
      | MapSet =>
          match held th, tproc th with
          | Some LkW, Some p => Some (fupd g (tkey th) (Some p),
                                      {| frames := k; tkey := tkey th; tproc := tproc th; pend := pend th;
                                         okr := okr th; found := found th; retb := retb th; retv := retv th;
                                         held := held th; log := log th ++ [EWrite] |})
          | _, _ => None
          end
      | MapDelete =>
          match held th with
          | Some LkW => Some (fupd g (tkey th) None,
                              {| frames := k; tkey := tkey th; tproc := tproc th; pend := pend th;
                                 okr := okr th; found := found th; retb := retb th; retv := retv th;
                                 held := held th; log := log th ++ [EDelete] |})
          | _ => None
          end
      | KeyDef => Some (g, with_frames th k)
      | RetVoid => match unwind k with Some k' => Some (g, with_frames th k') | None => None end
      | RetBool b =>
          match unwind k with
          | Some k' => Some (g, {| frames := k'; tkey := tkey th; tproc := tproc th; pend := pend th;
                                   okr := okr th; found := found th; retb := b; retv := retv th;
                                   held := held th; log := log th |})
          | None => None
          end
      | RetFound =>
          match unwind k with
          | Some k' => Some (g, {| frames := k'; tkey := tkey th; tproc := tproc th; pend := pend th;
                                   okr := okr th; found := found th; retb := retb th; retv := found th;
                                   held := held th; log := log th |})
          | None => None
          end
      | RetNil =>
          match unwind k with
          | Some k' => Some (g, {| frames := k'; tkey := tkey th; tproc := tproc th; pend := pend th;
                                   okr := okr th; found := found th; retb := retb th; retv := None;
                                   held := held th; log := log th |})
          | None => None
          end
      | RetMapGet =>
          match held th, unwind k with
          | Some _, Some k' => Some (g, {| frames := k'; tkey := tkey th; tproc := tproc th; pend := pend th;
                                           okr := okr th; found := found th; retb := retb th; retv := g (tkey th);
                                           held := held th; log := log th ++ [ERead (g (tkey th))] |})
          | _, _ => None
          end
      | CallStart | Broadcast => None
      | CallV m =>
          match lookup_m m M with
          | Some b => Some (g, with_frames th (FS b :: FRet [] :: k))
          | None => None
          end
      end
  end.

(* run silent steps; None: out of fuel *)
Fixpoint norm (fuel : nat) (M : methods) (G : string) (d : bool) (g : reg) (th : thread) : option (reg * thread) :=
  match tau M G d g th with
  | None => Some (g, th)
  | Some (g', th') =>
      match fuel with
      | 0 => None
      | S f => norm f M G d g' th'
      end
  end.

Definition norm_fuel := 64.

(* shared state: the map, and the history variables of Registry.cst *)
Record sst := { h_ids : list id; h_reg : reg; h_won : list nat; h_started : list nat; h_stopped : list nat;
                h_removed : list nat; h_dup : list nat; h_gets : list (id * option nat);
                h_thr : list thread }.

Inductive vkind := VLock (k : lkind) | VStart (p : nat) | VDup (p : nat) | VTry (i : id) (r : option nat).

(* the visible operation at the head of a (normalised) thread: the thread's
   continuation (not yet normalised) and what kind of operation it was *)
Definition visible (s : sst) (th : thread) : option (thread * vkind) :=
  match frames th with
  | FS (Lock k) :: fr =>
      match held th with
      | Some _ => None
      | None =>
          Some ({| frames := fr; tkey := tkey th;
                   tproc := if pend th then Some (List.length (h_ids s)) else tproc th; pend := false;
                   okr := okr th; found := found th; retb := retb th; retv := retv th;
                   held := Some k; log := [] |}, VLock k)
      end
  | FS CallStart :: fr =>
      match tproc th, held th with
      | Some p, None => Some (with_frames th fr, VStart p)
      | _, _ => None
      end
  | FS Broadcast :: fr =>
      match tproc th, held th with
      | Some p, None => Some (with_frames th fr, VDup p)
      | _, _ => None
      end
  | FClient (CStop i :: rest) :: fr =>
      match held th with
      | Some _ => None
      | None =>
        match h_reg s i with
        | Some p =>
            if mem p (h_started s) && negb (mem p (h_stopped s))
            then Some ({| frames := FS (CallV "Remove") :: FClient rest :: fr; tkey := i; tproc := Some p;
                          pend := false; okr := false; found := None; retb := false; retv := None;
                          held := None; log := [] |}, VTry i (Some p))
            else Some (with_frames th (FClient rest :: fr), VTry i None)
        | None => Some (with_frames th (FClient rest :: fr), VTry i None)
        end
      end
  | _ => None
  end.

(* the label of the step, from the kind of its visible operation and from what
   the thread did up to its next one *)
Definition label_of (v : vkind) (th : thread) : option clabel :=
  match v with
  | VStart p => Some (LStart p)
  | VDup p => Some (LDup p)
  | VTry i r => Some (LTry i r)
  | VLock LkR =>
      match log th with
      | [ERead _] => Some (LGet (tkey th) (retv th))
      | _ => None
      end
  | VLock LkW =>
      match log th, tproc th with
      | [ERead (Some _)], Some p => Some (LAdd (tkey th) p false)
      | [ERead None; EWrite], Some p => Some (LAdd (tkey th) p true)
      | [EDelete], Some p => Some (LRem p)
      | _, _ => None
      end
  end.

(* the history variables follow the label; the map was changed by the thread itself *)
Definition apply_label (s : sst) (g : reg) (thr : list thread) (l : clabel) : sst :=
  match l with
  | LAdd i p won =>
      {| h_ids := h_ids s ++ [i]; h_reg := g; h_won := if won then p :: h_won s else h_won s;
         h_started := h_started s; h_stopped := h_stopped s; h_removed := h_removed s; h_dup := h_dup s;
         h_gets := h_gets s; h_thr := thr |}
  | LStart p =>
      {| h_ids := h_ids s; h_reg := g; h_won := h_won s; h_started := p :: h_started s; h_stopped := h_stopped s;
         h_removed := h_removed s; h_dup := h_dup s; h_gets := h_gets s; h_thr := thr |}
  | LDup p =>
      {| h_ids := h_ids s; h_reg := g; h_won := h_won s; h_started := h_started s; h_stopped := h_stopped s;
         h_removed := h_removed s; h_dup := p :: h_dup s; h_gets := h_gets s; h_thr := thr |}
  | LTry _ (Some p) =>
      {| h_ids := h_ids s; h_reg := g; h_won := h_won s; h_started := h_started s; h_stopped := p :: h_stopped s;
         h_removed := h_removed s; h_dup := h_dup s; h_gets := h_gets s; h_thr := thr |}
  | LTry _ None =>
      {| h_ids := h_ids s; h_reg := g; h_won := h_won s; h_started := h_started s; h_stopped := h_stopped s;
         h_removed := h_removed s; h_dup := h_dup s; h_gets := h_gets s; h_thr := thr |}
  | LRem p =>
      {| h_ids := h_ids s; h_reg := g; h_won := h_won s; h_started := h_started s; h_stopped := h_stopped s;
         h_removed := p :: h_removed s; h_dup := h_dup s; h_gets := h_gets s; h_thr := thr |}
  | LGet i r =>
      {| h_ids := h_ids s; h_reg := g; h_won := h_won s; h_started := h_started s; h_stopped := h_stopped s;
         h_removed := h_removed s; h_dup := h_dup s; h_gets := h_gets s ++ [(i, r)]; h_thr := thr |}
  end.

(* one step of the system: thread t, resting at the start of a client
   operation or at a visible operation, runs up to its visible operation
   (entering the method: no map access, no lock before it in any term the
   proof accepts, since the label is read off the log that the visible Lock
   resets, and a map access without the mutex is stuck), performs it, and
   then runs its local computation up to the next visible operation or the
   end of the client operation; the mutex must be free again *)
Definition src_step (M : methods) (G : string) (s : sst) (t : nat) : option (sst * clabel) :=
  match h_thr s !! t with
  | None => None
  | Some th =>
      match norm norm_fuel M G true (h_reg s) th with
      | None => None
      | Some (g0, th0) =>
        match visible s th0 with
        | None => None
        | Some (th1, v) =>
          match norm norm_fuel M G false g0 th1 with
          | None => None
          | Some (g, th2) =>
              match held th2, label_of v th2 with
              | None, Some l => Some (apply_label s g (<[t := th2]> (h_thr s)) l, l)
              | _, _ => None
              end
          end
        end
      end
  end.

(* a client thread at the start of its program *)
Definition client_thread (M : methods) (G : string) (prog : list cop) : option thread :=
  match prog with
  | [] => Some (fresh_thread [])
  | _ => Some (fresh_thread [FClient prog])
  end.

Fixpoint client_threads (M : methods) (G : string) (progs : list (list cop)) : option (list thread) :=
  match progs with
  | [] => Some []
  | p :: r => match client_thread M G p, client_threads M G r with
              | Some th, Some r' => Some (th :: r')
              | _, _ => None
              end
  end.

(* newRegistry: an empty map *)
Definition src_init (M : methods) (G : string) (progs : list (list cop)) : option sst :=
  match client_threads M G progs with
  | Some ths => Some {| h_ids := []; h_reg := fun _ => None; h_won := []; h_started := []; h_stopped := [];
                        h_removed := []; h_dup := []; h_gets := []; h_thr := ths |}
  | None => None
  end.

Inductive src_reach (M : methods) (G : string) (s0 : sst) : sst -> Prop :=
| src_reach_refl : src_reach M G s0 s0
| src_reach_step s t s' l : src_reach M G s0 s -> src_step M G s t = Some (s', l) -> src_reach M G s0 s'.

Fixpoint src_run (M : methods) (G : string) (s : sst) (sched : list nat) : option (sst * list clabel) :=
  match sched with
  | [] => Some (s, [])
  | t :: rest =>
      match src_step M G s t with
      | None => None
      | Some (s', l) =>
          match src_run M G s' rest with
          | None => None
          | Some (s'', ls) => Some (s'', l :: ls)
          end
      end
  end.

Definition finished (th : thread) : bool := match frames th with [] => true | _ => false end.
Definition src_terminal (s : sst) : bool := forallb finished (h_thr s).
