(** Facts about GoMini's heap and about Z-arithmetic on numbers that are [Z.of_nat _],
    used by the symbolic executions of RingSrcProofs.v.  Nothing here depends on the
    generated terms. *)
From stdpp Require Import list.
From Coq Require Import ZArith Lia.
From HV Require Import GoMini.

Section heap.
Context {T : Type}.
Implicit Types (h : heap T) (o : obj T).

Lemma hget_lt h a o : hget h a = Some o -> a < length h.
Proof. apply lookup_lt_Some. Qed.
Lemma hset_length h a o : length (hset h a o) = length h.
Proof. apply insert_length. Qed.
Lemma hpush_length h o : length (hpush h o) = S (length h).
Proof. unfold hpush. rewrite app_length. cbn. lia. Qed.
Lemma hget_hset_eq h a o : a < length h -> hget (hset h a o) a = Some o.
Proof. apply list_lookup_insert. Qed.
Lemma hget_hset_ne h a b o : a ≠ b -> hget (hset h a o) b = hget h b.
Proof. apply list_lookup_insert_ne. Qed.
Lemma hget_hpush_old h a o : a < length h -> hget (hpush h o) a = hget h a.
Proof. intros. apply lookup_app_l. done. Qed.
Lemma hget_hpush_new h a o : a = length h -> hget (hpush h o) a = Some o.
Proof. intros ->. unfold hget, hpush. apply list_lookup_middle. done. Qed.
Lemma hget_ne h a b o1 o2 : hget h a = Some o1 -> hget h b = Some o2 -> o1 ≠ o2 -> a ≠ b.
Proof. intros H1 H2 Hne ->. congruence. Qed.

Lemma index_ok_nat (l : list (value T)) n : n < length l -> index_ok l (Z.of_nat n) = true.
Proof.
  intros. unfold index_ok. apply andb_true_intro. split; [apply Z.leb_le|apply Z.ltb_lt]; lia.
Qed.
End heap.

(** int64 values that are natural numbers *)
Lemma zn_add a b : (Z.of_nat a + Z.of_nat b)%Z = Z.of_nat (a + b).
Proof. lia. Qed.
Lemma zn_add1 a : (Z.of_nat a + 1)%Z = Z.of_nat (a + 1).
Proof. lia. Qed.
Lemma zn_mul2 a : (Z.of_nat a * 2)%Z = Z.of_nat (2 * a).
Proof. lia. Qed.
Lemma zn_rem a b : Z.rem (Z.of_nat a) (Z.of_nat b) = Z.of_nat (a mod b).
Proof.
  destruct b as [|b]; [cbn; by rewrite Z.rem_0_r_ext|].
  rewrite Z.rem_mod_nonneg by lia. symmetry. apply Nat2Z.inj_mod.
Qed.
Lemma zn_sub a k : k <= a -> (Z.of_nat a + - Z.of_nat k)%Z = Z.of_nat (a - k).
Proof. lia. Qed.
Lemma zn_sub1 a : 1 <= a -> (Z.of_nat a + - (1))%Z = Z.of_nat (a - 1).
Proof. lia. Qed.
Lemma zn_eqb a b : (Z.of_nat a =? Z.of_nat b)%Z = bool_decide (a = b).
Proof. case_bool_decide; [apply Z.eqb_eq|apply Z.eqb_neq]; lia. Qed.
Lemma zn_eqb0 a : (Z.of_nat a =? 0)%Z = bool_decide (a = 0).
Proof. case_bool_decide; [apply Z.eqb_eq|apply Z.eqb_neq]; lia. Qed.
Lemma zn_ltb a b : (Z.of_nat a <? Z.of_nat b)%Z = bool_decide (a < b).
Proof. case_bool_decide; [apply Z.ltb_lt|apply Z.ltb_ge]; lia. Qed.
Lemma zn_leb a b : (Z.of_nat a <=? Z.of_nat b)%Z = bool_decide (a <= b).
Proof. case_bool_decide; [apply Z.leb_le|apply Z.leb_gt]; lia. Qed.
Lemma zn_ltb0 a : (Z.of_nat a <? 0)%Z = false.
Proof. apply Z.ltb_ge. lia. Qed.
Lemma zn_budget a : Z.to_nat (Z.of_nat a - 0) = a.
Proof. lia. Qed.
Lemma zn_leb0 a : (0 <=? Z.of_nat a)%Z = true.
Proof. apply Z.leb_le. lia. Qed.
