(** Executable instance for membership changes that SPREAD (C19, part
    [stagger]): a member joins and the agents of the existing members are told
    one after the other, with activations issued in between — by members that
    already know the joiner and by members that do not yet.  ClusterNet.v
    delivers every operation's notifications before the next operation is
    issued and tells every agent at once (C19_quiescent_history_refines_spec);
    the model replayed here is JoinSpread.v.

    [corr]: the model run of the same operations returns the same results
    (nil / the host of the PID) and ends in the same GetActiveByID views on
    every member.  [oracle]: the clause of C19 "once the resulting
    notifications have been delivered, every member resolves
    GetActiveByID(kind/id) to that same PID ... and a member that joins later
    learns all active actors", on what the implementation did: when every agent
    has been told the final member list, every member's view of every key
    equals the PID that its Activate returned
    (JoinSpreadProofs.join_spread_views proves it of every model run). *)
From Coq Require Import List Arith Bool.
Import ListNotations.
From HV Require Export JoinSpread.

(* c_res: per model operation, 0 = nil, h+1 = the PID returned lives on node h;
   c_expect: per key, 0 = no activation returned a PID, h+1 as above;
   c_views: the same encoding of GetActiveByID on every member (old members, then the joiner), at the end *)
Record case := { c_m : nat; c_nk : nat; c_ops : list op; c_res : list nat;
                 c_expect : list nat; c_views : list (list nat) }.

Fixpoint list_eqb (a b : list nat) : bool :=
  match a, b with
  | [], [] => true
  | x :: a', y :: b' => Nat.eqb x y && list_eqb a' b'
  | _, _ => false
  end.
Fixpoint lists_eqb (a b : list (list nat)) : bool :=
  match a, b with
  | [], [] => true
  | x :: a', y :: b' => list_eqb x y && lists_eqb a' b'
  | _, _ => false
  end.

Definition res_code (r : res) : nat := match r with RNil => 0 | RPid h => S h end.

Definition corr (c : case) : bool :=
  let r := run (c_m c) init (c_ops c) in
  list_eqb (map res_code (snd r)) (c_res c) && lists_eqb (views (c_m c) (c_nk c) (fst r)) (c_views c).

Definition oracle (c : case) : bool :=
  match c_views c with [] => false | _ => forallb (fun v => list_eqb v (c_expect c)) (c_views c) end.

(* proof-relevant situations reached by the model run: 1 an activation by a member that has not
   been told yet, 2 an activation by one that has, 3 several agents told in one operation,
   4 an activation by the joiner, 5 the asked member refuses an id it knows (D26) *)
Fixpoint branches_from (m : nat) (s : st) (ops : list op) : list nat :=
  match ops with
  | [] => []
  | o :: r =>
      (match o with
       | Act who k sel =>
           (if Nat.eqb who m then [4] else if memb who (told s) then [2] else [1]) ++
           (if Nat.eqb who m && jtold s && negb (is_some (jmap s k)) && Nat.ltb sel m && is_some (omaps s sel k) then [5] else [])
       | Tell rs _ => match rs with _ :: _ :: _ => [3] | _ => [] end
       end) ++ branches_from m (fst (step m s o)) r
  end.
Definition branches (c : case) : list nat := nodup Nat.eq_dec (branches_from (c_m c) init (c_ops c)).

Fixpoint failing {A} (f : A -> bool) (i : nat) (l : list A) : list nat :=
  match l with [] => [] | a :: l' => (if f a then [] else [i]) ++ failing f (S i) l' end.

Definition report (cs : list case) : list nat * list nat * list (list nat) :=
  (failing corr 0 cs, failing oracle 0 cs, map branches cs).

(* the PID per key that the activations of a run returned (the first one, should a key be
   activated twice): what the driver computes from the implementation's results as [c_expect] *)
Fixpoint expect_from (e : amap) (ops : list op) (rs : list res) : amap :=
  match ops, rs with
  | o :: ops', r :: rs' =>
      expect_from (match o, r with Act _ k _, RPid h => aadd k h e | _, _ => e end) ops' rs'
  | _, _ => e
  end.

(* the case a model run makes *)
Definition model_case (m nk : nat) (ops : list op) : case :=
  let r := run m init ops in
  {| c_m := m; c_nk := nk; c_ops := ops; c_res := map res_code (snd r);
     c_expect := view_of (expect_from aempty ops (snd r)) nk; c_views := views m nk (fst r) |}.
