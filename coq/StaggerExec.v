(** Oracle for membership changes that SPREAD (C19, part [stagger]): a member
    joins and the agents of the existing members are told one after the other,
    with activations issued in between — by members that already know the
    joiner and by members that do not yet.  ClusterNet.v delivers every
    operation's notifications before the next operation is issued (quiescent
    histories: C19_quiescent_history_refines_spec), so there is no model run to
    replay here; the clause of C19 evaluated on what the implementation did is
    its last-but-one: "once the resulting notifications have been delivered,
    every member resolves GetActiveByID(kind/id) to that same PID ... and a
    member that joins later learns all active actors" — when every agent has
    been told the final member list and the network is quiet, every member's
    view of every key equals the PID that its Activate returned. *)
From Coq Require Import List Arith Bool.
Import ListNotations.

(* per key: 0 = Activate returned nil / never issued, h+1 = the PID returned lives on node h;
   c_views: the same encoding of GetActiveByID on every member, at the end *)
Record case := { c_expect : list nat; c_views : list (list nat) }.

Fixpoint list_eqb (a b : list nat) : bool :=
  match a, b with
  | [], [] => true
  | x :: a', y :: b' => Nat.eqb x y && list_eqb a' b'
  | _, _ => false
  end.

Definition oracle (c : case) : bool :=
  match c_views c with [] => false | _ => forallb (fun v => list_eqb v (c_expect c)) (c_views c) end.
Definition corr (c : case) : bool := true.
Definition branches (c : case) : list nat := [length (c_views c)].

Fixpoint failing {A} (f : A -> bool) (i : nat) (l : list A) : list nat :=
  match l with [] => [] | a :: l' => (if f a then [] else [i]) ++ failing f (S i) l' end.

Definition report (cs : list case) : list nat * list nat * list (list nat) :=
  (failing corr 0 cs, failing oracle 0 cs, map branches cs).
