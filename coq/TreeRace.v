(** C08 — the child's departure from its parent's [children] map racing with
    the parent spawning a child under the same id ("make sure the child is
    there": SpawnChild with a fixed id, a duplicate no-op while the child lives).

    A small transition system, explored exhaustively by [vm_compute]
    (breadth first, visited states pruned).  Processes are numbered: 0 is the
    child that is there at the start (registered, listed, started), request i
    of the parent creates process i.

      parent (one goroutine, requests one after the other), per request i:
        pinned/D11 order   PAdd  Registry.add: insert if the id is free, and Start at once
                           PSet  children.Set(id, pid_i)         -- unconditional
        repaired (D21)     PIns  Registry.insert
                           PSet  children.Set(id, pid_i)         -- only if inserted
                           PStart

      a stopper: Poison(child id): the pill goes to the process registered at
        that moment (nothing happens if there is none)

      process q, once poisoned and started:  CX (Stopped handled) ;
        CR  Registry.Remove ;  then the delete from the parent's map:
          unconditional  children.Delete(id)
          check-then-act v := children.Get(id) ; if v == pid_q then children.Delete(id)
          atomic         children.DeleteIf(id, v == pid_q)

    At the end (nothing can move): is a process registered, is there an entry
    in the map.  They must agree: registered-but-not-listed is an orphan (it is
    not stopped with its parent), listed-but-not-registered a stale entry. *)
From Coq Require Import List Arith Bool.
Import ListNotations.

Record variant := {
  v_set_cond : bool;         (* Set only when the insert succeeded *)
  v_set_first : bool;        (* Set before Start (insert / Set / Start) *)
  v_del : nat }.             (* 0 unconditional, 1 get-then-delete, 2 atomic delete-if *)

Definition pinned : variant := {| v_set_cond := false; v_set_first := false; v_del := 0 |}.
Definition ptr_delete_only : variant := {| v_set_cond := false; v_set_first := false; v_del := 2 |}.
Definition set_after_start : variant := {| v_set_cond := true; v_set_first := false; v_del := 2 |}.
Definition check_then_act : variant := {| v_set_cond := true; v_set_first := true; v_del := 1 |}.
Definition repaired : variant := {| v_set_cond := true; v_set_first := true; v_del := 2 |}.

(* cleanup of one process *)
Inductive cpc := CIdle | CR | CDel | CGet2 (seen : option nat) | CGone.

Record proc := { p_started : bool; p_poisoned : bool; p_inserted : bool; p_pc : cpc }.

Record rstate := {
  r_reg : option nat;
  r_map : option nat;
  r_req : nat;              (* request being served (1-based), > requests: parent done *)
  r_phase : nat;            (* 0 add/insert, 1 set, 2 start *)
  r_procs : list proc;      (* process 0 .. requests *)
  r_stoppers : nat }.       (* poisons still to be issued *)

Definition proc0 : proc := {| p_started := true; p_poisoned := false; p_inserted := true; p_pc := CIdle |}.
Definition procN : proc := {| p_started := false; p_poisoned := false; p_inserted := false; p_pc := CIdle |}.

Definition rinit (requests stoppers : nat) : rstate :=
  {| r_reg := Some 0; r_map := Some 0; r_req := 1; r_phase := 0;
     r_procs := proc0 :: repeat procN requests; r_stoppers := stoppers |}.

Fixpoint set_nth {A} (l : list A) (i : nat) (a : A) : list A :=
  match l, i with
  | [], _ => []
  | _ :: l', 0 => a :: l'
  | x :: l', S i' => x :: set_nth l' i' a
  end.

Definition getp (s : rstate) (q : nat) : proc := nth q (r_procs s) procN.
Definition setp (s : rstate) (q : nat) (p : proc) : rstate :=
  {| r_reg := r_reg s; r_map := r_map s; r_req := r_req s; r_phase := r_phase s;
     r_procs := set_nth (r_procs s) q p; r_stoppers := r_stoppers s |}.

Definition onat_eqb (a b : option nat) : bool :=
  match a, b with Some x, Some y => Nat.eqb x y | None, None => true | _, _ => false end.

Inductive rlabel := LParent | LStopper | LProc (q : nat).

Definition parent_step (v : variant) (requests : nat) (s : rstate) : option rstate :=
  let i := r_req s in
  if Nat.ltb requests i then None else
  let p := getp s i in
  let next (s' : rstate) (last : bool) :=
    {| r_reg := r_reg s'; r_map := r_map s';
       r_req := if last then S i else i; r_phase := if last then 0 else S (r_phase s);
       r_procs := r_procs s'; r_stoppers := r_stoppers s' |} in
  match r_phase s with
  | 0 =>    (* Registry.add / Registry.insert *)
      let free := match r_reg s with None => true | Some _ => false end in
      let p' := {| p_started := if v_set_first v then false else free; p_poisoned := p_poisoned p;
                   p_inserted := free; p_pc := p_pc p |} in
      let s1 := setp s i p' in
      Some (next {| r_reg := if free then Some i else r_reg s; r_map := r_map s1; r_req := i; r_phase := 0;
                    r_procs := r_procs s1; r_stoppers := r_stoppers s1 |} false)
  | 1 =>    (* children.Set *)
      let doit := negb (v_set_cond v) || p_inserted p in
      Some (next {| r_reg := r_reg s; r_map := if doit then Some i else r_map s; r_req := i; r_phase := 1;
                    r_procs := r_procs s; r_stoppers := r_stoppers s |} (negb (v_set_first v)))
  | _ =>    (* Start (insert / Set / Start order only) *)
      let p' := {| p_started := p_inserted p; p_poisoned := p_poisoned p; p_inserted := p_inserted p; p_pc := p_pc p |} in
      Some (next (setp s i p') true)
  end.

Definition stopper_step (s : rstate) : option rstate :=
  match r_stoppers s with
  | 0 => None
  | S k =>
      let s' := match r_reg s with
                | None => s
                | Some q => let p := getp s q in
                            setp s q {| p_started := p_started p; p_poisoned := true; p_inserted := p_inserted p; p_pc := p_pc p |}
                end in
      Some {| r_reg := r_reg s'; r_map := r_map s'; r_req := r_req s'; r_phase := r_phase s';
              r_procs := r_procs s'; r_stoppers := k |}
  end.

Definition with_pc (s : rstate) (q : nat) (c : cpc) : rstate :=
  let p := getp s q in
  setp s q {| p_started := p_started p; p_poisoned := p_poisoned p; p_inserted := p_inserted p; p_pc := c |}.
Definition with_map (s : rstate) (m : option nat) : rstate :=
  {| r_reg := r_reg s; r_map := m; r_req := r_req s; r_phase := r_phase s; r_procs := r_procs s;
     r_stoppers := r_stoppers s |}.

Definition proc_step (v : variant) (s : rstate) (q : nat) : option rstate :=
  let p := getp s q in
  match p_pc p with
  | CIdle => if p_started p && p_poisoned p then Some (with_pc s q CR) else None     (* inbox.Stop, Stopped *)
  | CR => Some (with_pc {| r_reg := if onat_eqb (r_reg s) (Some q) then None else r_reg s; r_map := r_map s;
                           r_req := r_req s; r_phase := r_phase s; r_procs := r_procs s;
                           r_stoppers := r_stoppers s |} q CDel)
  | CDel =>
      match v_del v with
      | 0 => Some (with_pc (with_map s None) q CGone)
      | 1 => Some (with_pc s q (CGet2 (r_map s)))
      | _ => Some (with_pc (if onat_eqb (r_map s) (Some q) then with_map s None else s) q CGone)
      end
  | CGet2 seen => Some (with_pc (if onat_eqb seen (Some q) then with_map s None else s) q CGone)
  | CGone => None
  end.

Definition rstep (v : variant) (requests : nat) (s : rstate) (l : rlabel) : option rstate :=
  match l with
  | LParent => parent_step v requests s
  | LStopper => stopper_step s
  | LProc q => proc_step v s q
  end.

Definition rlabels (requests : nat) : list rlabel := LParent :: LStopper :: map LProc (seq 0 (S requests)).

(* states as lists of numbers, for the visited set *)
Definition enc_on (o : option nat) : nat := match o with None => 0 | Some x => S x end.
Definition enc_pc (c : cpc) : nat :=
  match c with CIdle => 0 | CR => 1 | CDel => 2 | CGone => 3 | CGet2 o => 4 + enc_on o end.
Definition b2n (b : bool) : nat := if b then 1 else 0.
Definition encode (s : rstate) : list nat :=
  [enc_on (r_reg s); enc_on (r_map s); r_req s; r_phase s; r_stoppers s] ++
  flat_map (fun p => [b2n (p_started p); b2n (p_poisoned p); b2n (p_inserted p); enc_pc (p_pc p)]) (r_procs s).

Fixpoint list_eqb (a b : list nat) : bool :=
  match a, b with
  | [], [] => true
  | x :: a', y :: b' => Nat.eqb x y && list_eqb a' b'
  | _, _ => false
  end.

Definition succs (v : variant) (requests : nat) (s : rstate) : list rstate :=
  flat_map (fun l => match rstep v requests s l with Some s' => [s'] | None => [] end) (rlabels requests).

(* breadth-first exploration: (visited states, terminal states, fuel ran out) *)
Fixpoint explore (v : variant) (requests fuel : nat) (frontier : list rstate) (visited : list (list nat))
    (terms : list rstate) : list (list nat) * list rstate * bool :=
  match fuel with
  | 0 => (visited, terms, true)
  | S f =>
    match frontier with
    | [] => (visited, terms, false)
    | s :: rest =>
        if existsb (list_eqb (encode s)) visited then explore v requests f rest visited terms
        else
          let ss := succs v requests s in
          explore v requests f (rest ++ ss) (encode s :: visited)
                  (match ss with [] => s :: terms | _ => terms end)
    end
  end.

Definition outcome (s : rstate) : bool * bool :=
  (match r_reg s with Some _ => true | None => false end, match r_map s with Some _ => true | None => false end).
Definition pair_eqb (a b : bool * bool) : bool := Bool.eqb (fst a) (fst b) && Bool.eqb (snd a) (snd b).
Fixpoint dedup_out (l : list (bool * bool)) : list (bool * bool) :=
  match l with [] => [] | x :: l' => if existsb (pair_eqb x) l' then dedup_out l' else x :: dedup_out l' end.

Definition FUEL := 4000.
(* all outcomes (registered, listed) of the terminal states; None if the fuel did not suffice *)
Definition outcomes (v : variant) (requests stoppers : nat) : option (list (bool * bool)) :=
  let '(_, terms, out) := explore v requests FUEL [rinit requests stoppers] [] [] in
  if out then None else Some (dedup_out (map outcome terms)).
Definition nstates (v : variant) (requests stoppers : nat) : nat :=
  let '(vis, _, _) := explore v requests FUEL [rinit requests stoppers] [] [] in length vis.

Definition agree (o : bool * bool) : bool := Bool.eqb (fst o) (snd o).
Definition all_agree (v : variant) (requests stoppers : nat) : bool :=
  match outcomes v requests stoppers with Some os => forallb agree os | None => false end.

Fixpoint rrun (v : variant) (requests : nat) (s : rstate) (ls : list rlabel) : option rstate :=
  match ls with
  | [] => Some s
  | l :: ls' => match rstep v requests s l with Some s' => rrun v requests s' ls' | None => None end
  end.
