(** L1 — interleaving model of actor/inbox.go.

    One step = one shared-memory operation of the Go code, exactly the
    operations at which the deterministic scheduler of the harness yields:
    ring Push / PopN / Len, and the atomic operations on [procStatus]
    (CompareAndSwap, Load, Swap, Store), plus the begin and end of
    [proc.Invoke].  [go in.process()] creates a thread as part of the
    successful CAS.  The queue is abstracted to a list here; Ring/RingProofs
    show the ring buffer is that list.

    Threads:
      sender ms   Inbox.Send for each m of ms:  Push m ; CAS(idle->running)[+go process]
      starter     Inbox.Start:  CAS(stopped->starting) ; (proc := p) Swap(idle) ; CAS(idle->running)[+go]
      worker      Inbox.process:  run() = loop { Load ; PopN(bound) ; Invoke(batch) } ;
                  CAS(running->idle) ; Len ; CAS(idle->running)[+go]
    A message [m] with [is_pill m = true] makes Invoke call Inbox.Stop
    (Store stopped) when it reaches it and drop the rest of the batch — the
    inbox-visible effect of process.cleanup.

    Definitions only; proofs are in InboxProofs.v. *)
From Coq Require Import List Arith Bool.
Import ListNotations.

Inductive status := Stopped | Starting | Idle | Running.
Definition status_eqb (a b : status) : bool :=
  match a, b with
  | Stopped, Stopped | Starting, Starting | Idle, Idle | Running, Running => true
  | _, _ => false
  end.

Definition msg := nat.
(* messages >= pill_base stand for poison pills *)
Definition pill_base := 1000.
Definition is_pill (m : msg) : bool := Nat.leb pill_base m.

(* batch bound of PopN (messageBatchSize = 4096 in the code; the theorems hold
   for any bound >= 1, the runs use a small one to cross batch borders) *)
Record config := { bound : nat }.

Inductive pc :=
| SPush (ms : list msg)            (* sender about to Push (hd ms) *)
| SCas (ms : list msg)             (* sender pushed; about to CAS idle->running; ms = remaining *)
| TCas | TSwap | TSched            (* starter *)
| WLoad | WPop
| WInvB (b : list msg)             (* worker about to enter Invoke(b) *)
| WStop                            (* inside Invoke: about to Store stopped (pill met) *)
| WInvE                            (* about to leave Invoke *)
| WExit | WLen | WSched
| Done.

Record st := { status_ : status; q : list msg; thr : list pc;
               delivered : list msg;   (* handed to the receiver, in order *)
               dropped : list msg;     (* rest of a batch behind a pill *)
               pushed : list msg }.    (* accepted by Push, in real-time order *)

Definition set_thr (s : st) (i : nat) (p : pc) (extra : list pc) : list pc :=
  firstn i (thr s) ++ p :: skipn (S i) (thr s) ++ extra.

Definition upd s stt qq i p extra dl dr pu :=
  {| status_ := stt; q := qq; thr := set_thr s i p extra; delivered := dl; dropped := dr; pushed := pu |}.

(* the label of a step: what the scheduler shim logs for the same operation *)
Inductive label :=
| LPush (m : msg)
| LCas (old new : status) (ok : bool)
| LLoad (v : status)
| LSwap (new old : status)
| LStore (v : status)
| LPopN (b : list msg) (ok : bool)
| LLen (n : nat)
| LInvB (b : list msg)
| LInvE
| LNone.                            (* sender with nothing left to send: thread ends *)

(* schedule(): CAS idle->running, go process() on success *)
Definition kick (s : st) (i : nat) (next : pc) : st * label :=
  if status_eqb (status_ s) Idle
  then (upd s Running (q s) i next [WLoad] (delivered s) (dropped s) (pushed s), LCas Idle Running true)
  else (upd s (status_ s) (q s) i next [] (delivered s) (dropped s) (pushed s), LCas Idle Running false).

(* the part of a batch handed to the receiver: everything before the first pill *)
Fixpoint before_pill (b : list msg) : list msg :=
  match b with [] => [] | m :: b' => if is_pill m then [] else m :: before_pill b' end.
Fixpoint after_pill (b : list msg) : list msg :=       (* the pill and what follows it *)
  match b with [] => [] | m :: b' => if is_pill m then m :: b' else after_pill b' end.
Definition has_pill (b : list msg) : bool := existsb is_pill b.

Definition same s i p := upd s (status_ s) (q s) i p [] (delivered s) (dropped s) (pushed s).

Definition step (c : config) (s : st) (i : nat) : option (st * label) :=
  match nth_error (thr s) i with
  | None => None
  | Some p =>
    match p with
    | Done => None
    | SPush [] => Some (same s i Done, LNone)
    | SPush (m :: ms) =>
        Some (upd s (status_ s) (q s ++ [m]) i (SCas ms) [] (delivered s) (dropped s) (pushed s ++ [m]), LPush m)
    | SCas ms => Some (kick s i (match ms with [] => Done | _ => SPush ms end))
    | TCas => if status_eqb (status_ s) Stopped
              then Some (upd s Starting (q s) i TSwap [] (delivered s) (dropped s) (pushed s), LCas Stopped Starting true)
              else Some (same s i Done, LCas Stopped Starting false)
    | TSwap => Some (upd s Idle (q s) i TSched [] (delivered s) (dropped s) (pushed s), LSwap Idle (status_ s))
    | TSched => Some (kick s i Done)
    | WLoad => if status_eqb (status_ s) Stopped
               then Some (same s i WExit, LLoad (status_ s))
               else Some (same s i WPop, LLoad (status_ s))
    | WPop => match q s with
              | [] => Some (same s i WExit, LPopN [] false)
              | _ => Some (upd s (status_ s) (skipn (bound c) (q s)) i (WInvB (firstn (bound c) (q s))) []
                               (delivered s) (dropped s) (pushed s),
                           LPopN (firstn (bound c) (q s)) true)
              end
    | WInvB b => Some (upd s (status_ s) (q s) i (if has_pill b then WStop else WInvE) []
                           (delivered s ++ before_pill b) (dropped s ++ after_pill b) (pushed s), LInvB b)
    | WStop => Some (upd s Stopped (q s) i WInvE [] (delivered s) (dropped s) (pushed s), LStore Stopped)
    | WInvE => Some (same s i WLoad, LInvE)
    | WExit => if status_eqb (status_ s) Running
               then Some (upd s Idle (q s) i WLen [] (delivered s) (dropped s) (pushed s), LCas Running Idle true)
               else Some (same s i Done, LCas Running Idle false)
    | WLen => match q s with
              | [] => Some (same s i Done, LLen 0)
              | _ => Some (same s i WSched, LLen (length (q s)))
              end
    | WSched => Some (kick s i Done)
    end
  end.

(* initial state: a fresh inbox (stopped, empty) and the given client threads *)
Definition init (clients : list pc) : st :=
  {| status_ := Stopped; q := []; thr := clients; delivered := []; dropped := []; pushed := [] |}.

(* an inbox on which Start has completed before the clients (senders only)
   begin: Start's own schedule() found it idle, so it is Running and the
   worker that Start created is thread 0, about to run *)
Definition init_started (clients : list pc) : st :=
  {| status_ := Running; q := []; thr := WLoad :: clients; delivered := []; dropped := []; pushed := [] |}.

(* a schedule is a list of thread indices; run it, collecting labels;
   None if some index names a thread that cannot step *)
Fixpoint run_sched (c : config) (s : st) (sched : list nat) : option (st * list label) :=
  match sched with
  | [] => Some (s, [])
  | i :: rest =>
    match step c s i with
    | None => None
    | Some (s', l) =>
      match run_sched c s' rest with
      | None => None
      | Some (s'', ls) => Some (s'', l :: ls)
      end
    end
  end.

Definition is_done (p : pc) : bool := match p with Done => true | _ => false end.
Definition quiescent (s : st) : bool := forallb is_done (thr s).

(* reachability *)
Inductive reach (c : config) (s0 : st) : st -> Prop :=
| reach_refl : reach c s0 s0
| reach_step s i s' l : reach c s0 s -> step c s i = Some (s', l) -> reach c s0 s'.

(* thread classes used by the invariants *)
Definition holder (p : pc) : bool :=           (* owns the processing token *)
  match p with WLoad | WPop | WInvB _ | WStop | WInvE | WExit => true | _ => false end.
Definition in_region (p : pc) : bool :=        (* inside proc.Invoke: a receive region *)
  match p with WStop | WInvE => true | _ => false end.
Definition pending_kick (p : pc) : bool :=     (* will still try to schedule *)
  match p with SCas _ | TSched | WLen | WSched => true | _ => false end.
Definition is_sender (p : pc) : bool := match p with SPush _ | SCas _ => true | _ => false end.
Definition is_starter (p : pc) : bool := match p with TCas | TSwap | TSched => true | _ => false end.
Definition cnt (f : pc -> bool) (l : list pc) := length (filter f l).
Definition inflight (s : st) : list msg :=
  flat_map (fun p => match p with WInvB b => b | _ => [] end) (thr s).
Definition pills_in (l : list msg) : bool := existsb is_pill l.

(* well-formed initial client lists: senders (no pills for the liveness
   theorems) and at most one starter *)
Definition client_ok (p : pc) : bool := match p with SPush _ | TCas => true | _ => false end.
