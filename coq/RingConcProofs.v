(** L0, concurrent part — proofs: every schedule of any number of client
    threads on one ring buffer is linearizable w.r.t. the list queue. *)
From stdpp Require Import list list_numbers.
From Coq Require Import Lia ZArith Sorted.
From HV Require Import Ring RingProofs RingConc.

Section conc.
Context {T : Type} (dflt : T).
Notation ring := (ring T).
Notation op := (op T).
Notation res := (res T).
Notation st := (st T).
Notation thread := (thread T).
Notation entry := (entry T).
Notation abs := (abs dflt).
Notation push_lock := (push_lock dflt).
Notation pop_lock := (pop_lock dflt).
Notation popN_add := (popN_add dflt).
Notation step := (step dflt).
Notation init := (init dflt).

(** ** the cut bodies recompose to the sequential operations *)
Lemma push_split (r : ring) x : push_add (push_lock r) x = push dflt r x.
Proof. unfold RingConc.push_lock, push_add, push. destruct (decide _); reflexivity. Qed.
Lemma push_lock_len (r : ring) : len (push_lock r) = len r.
Proof. unfold RingConc.push_lock. destruct (decide _); reflexivity. Qed.
Lemma pop_split (r : ring) : len r ≠ 0 -> pop dflt r = (pop_add (pop_lock r).1, Some (pop_lock r).2).
Proof. intros H. unfold pop, RingConc.pop_lock, pop_add. destruct (decide _); [done|]. reflexivity. Qed.
Lemma popN_split (r : ring) n : len r ≠ 0 ->
  popN dflt r n = ((popN_add r (n `min` len r)).1, Some (popN_add r (n `min` len r)).2).
Proof. intros H. unfold popN, RingConc.popN_add. destruct (decide _); [done|]. reflexivity. Qed.

(** ** histories on the list queue *)
Definition fin (q : list T) (ops : list op) : list T := fold_left (λ q o, (step_fifo q o).1) ops q.
Lemma run_snoc q ops o :
  run step_fifo q (ops ++ [o]) = run step_fifo q ops ++ [(step_fifo (fin q ops) o).2].
Proof.
  revert q. induction ops as [|a ops IH]; intros q; cbn.
  - destruct (step_fifo q o); reflexivity.
  - destruct (step_fifo q a) as [q' v] eqn:E. cbn. rewrite IH. reflexivity.
Qed.
Lemma run_app q a b : run step_fifo q (a ++ b) = run step_fifo q a ++ run step_fifo (fin q a) b.
Proof.
  revert q. induction a as [|o a IH]; intros q; cbn; [done|].
  unfold fin. cbn. destruct (step_fifo q o) as [q' v] eqn:E. cbn. rewrite IH. done.
Qed.
Lemma run_length (q : list T) (ops : list op) : length (run step_fifo q ops) = length ops.
Proof. revert q. induction ops as [|o ops IH]; intros q; cbn; [done|]. destruct (step_fifo q o). cbn. by rewrite IH. Qed.
Lemma fin_snoc q ops o : fin q (ops ++ [o]) = (step_fifo (fin q ops) o).1.
Proof. unfold fin. rewrite fold_left_app. reflexivity. Qed.

(** ** the invariant *)
(* what the holder of the mutex has done so far to the ring *)
Definition hold_inv (p : list op) (c : pc T) (r : ring) (q : list T) : Prop :=
  match c with
  | PPushAdd x => hd_error p = Some (Push x) ∧ ∃ r', wf r' ∧ abs r' = q ∧ r = push_lock r'
  | PPopAdd x => hd_error p = Some Pop ∧ ∃ r', wf r' ∧ abs r' = q ∧ len r' ≠ 0 ∧ pop_lock r' = (r, x)
  | PPopNAdd k => ∃ n, hd_error p = Some (PopN n) ∧ wf r ∧ abs r = q ∧ len r ≠ 0 ∧ k = n `min` len r
  | _ => True
  end.

Definition key (e : entry) : res * nat := (e_res e, e_time e).
Definition dkey (d : done T) : res * nat := (d_res d, d_lp d).

Record tinv (progs : list (list op)) (s : st) (i : nat) (t : thread) : Prop := {
  t_idle : pcs t = PIdle ∨ prog t ≠ [];
  t_own : crit (pcs t) = true <-> lk s = Some i;
  t_hold : hold_inv (prog t) (pcs t) (rg s) (gq s);
  t_ops : progs !! i = Some ((e_op <$> lin_of i (lin s)) ++ remaining t);
  t_res : key <$> lin_of i (lin s) = (dkey <$> outs t) ++ pending t;
  t_spans : Forall (λ d, d_inv d < d_lp d ∧ d_lp d < d_ret d ∧ d_ret d <= now s) (outs t);
  t_cur : pcs t ≠ PIdle -> cur_inv t < now s;
  t_lp : ∀ r lp, pcs t = PUnl r lp -> cur_inv t < lp ∧ lp < now s;
}.

Record inv (q0 : list T) (progs : list (list op)) (s : st) : Prop := {
  i_thr : ∀ i t, thr s !! i = Some t -> tinv progs s i t;
  i_free : lk s = None -> wf (rg s) ∧ abs (rg s) = gq s;
  i_holder : ∀ i, lk s = Some i -> ∃ t, thr s !! i = Some t;
  i_len : len (rg s) = length (gq s);
  i_lin : e_res <$> lin s = run step_fifo q0 (e_op <$> lin s);
  i_gq : gq s = fin q0 (e_op <$> lin s);
  i_times : Forall (λ e, e_time e < now s) (lin s);
  i_sorted : StronglySorted lt (e_time <$> lin s);
  i_nthr : length (thr s) = length progs;
  i_tids : Forall (λ e, e_tid e < length progs) (lin s);
}.

Lemma lin_of_snoc_same i (l : list entry) e : e_tid e = i -> lin_of i (l ++ [e]) = lin_of i l ++ [e].
Proof. intros H. unfold lin_of. rewrite filter_app. f_equal. rewrite filter_cons_True by done. done. Qed.
Lemma lin_of_snoc_other i (l : list entry) e : e_tid e ≠ i -> lin_of i (l ++ [e]) = lin_of i l.
Proof. intros H. unfold lin_of. rewrite filter_app, filter_cons_False by done. cbn. by rewrite app_nil_r. Qed.

Lemma inv_init r0 progs : wf r0 -> inv (abs r0) progs (init r0 progs).
Proof.
  intros Hwf. split; cbn.
  - intros i t Ht. rewrite list_lookup_fmap in Ht.
    destruct (progs !! i) as [p|] eqn:Ep; [|done]. cbn in Ht. injection Ht as <-.
    split; cbn; try done; auto.
  - auto.
  - done.
  - by rewrite abs_length.
  - done.
  - done.
  - constructor.
  - constructor.
  - by rewrite fmap_length.
  - constructor.
Qed.

(* a step of thread i that leaves ring, mutex and abstract queue alone keeps
   every other thread's invariant *)
Lemma tinv_other progs (s s' : st) j t :
  tinv progs s j t ->
  (crit (pcs t) = true -> rg s' = rg s ∧ gq s' = gq s) ->
  (crit (pcs t) = true <-> lk s = Some j) -> (crit (pcs t) = true <-> lk s' = Some j) ->
  lin_of j (lin s') = lin_of j (lin s) -> now s <= now s' ->
  tinv progs s' j t.
Proof.
  intros [] Hsame _ Hown' Hlin Hnow. split; auto.
  - destruct (crit (pcs t)) eqn:Ec.
    + destruct (Hsame eq_refl) as [-> ->]. done.
    + destruct (pcs t); done.
  - by rewrite Hlin.
  - by rewrite Hlin.
  - eapply Forall_impl; [done|]. cbn. intros d (?&?&?). lia.
  - intros H. specialize (t_cur0 H). lia.
  - intros r lp H. specialize (t_lp0 r lp H). lia.
Qed.

Definition gq_after (s : st) (lpo : option op) : list T :=
  match lpo with Some o => (step_fifo (gq s) o).1 | None => gq s end.

(* the generic part of a step: thread i becomes t', the ring r, the mutex l,
   and the operation lpo (if any) is linearized now *)
Lemma inv_mk q0 progs (s : st) i t t' r l lpo :
  inv q0 progs s -> thr s !! i = Some t ->
  ((∀ j tj, j ≠ i -> thr s !! j = Some tj -> crit (pcs tj) = false) ∨
   (r = rg s ∧ l = lk s ∧ gq_after s lpo = gq s)) ->
  (∀ k, l = Some k -> k = i ∨ lk s = Some k) ->
  tinv progs (mk s r l i t' lpo) i t' ->
  (l = None -> wf r ∧ abs r = gq_after s lpo) ->
  len r = length (gq_after s lpo) ->
  inv q0 progs (mk s r l i t' lpo).
Proof.
  intros [] Hi Hoth Hl Ht' Hfree Hlen.
  assert (Hlt : i < length (thr s)) by (by eapply lookup_lt_Some).
  assert (Hgq : gq (mk s r l i t' lpo) = gq_after s lpo) by (by destruct lpo).
  split.
  - intros j tj Hj. cbn [thr mk] in Hj. unfold set_thr in Hj.
    destruct (decide (j = i)) as [->|Hne].
    + rewrite list_lookup_insert in Hj by done. by injection Hj as <-.
    + rewrite list_lookup_insert_ne in Hj by done.
      pose proof (i_thr0 j tj Hj) as Htj.
      apply (tinv_other progs s); auto.
      * intros Hc. cbn [rg mk]. rewrite Hgq. destruct Hoth as [Hoth|(-> & _ & ->)]; [|done].
        rewrite (Hoth j tj Hne Hj) in Hc. done.
      * apply Htj.
      * cbn [lk mk]. destruct Hoth as [Hoth|(_ & -> & _)]; [|apply Htj].
        rewrite (Hoth j tj Hne Hj). split; [done|]. intros E.
        destruct (Hl j E) as [->|E']; [done|]. apply Htj in E'. rewrite (Hoth j tj Hne Hj) in E'. done.
      * cbn [lin mk]. destruct lpo; [|done]. apply lin_of_snoc_other. cbn. auto.
      * cbn. lia.
  - cbn [lk rg mk]. rewrite Hgq. done.
  - cbn [lk thr mk]. intros k Hk. unfold set_thr.
    destruct (Hl k Hk) as [->|Hk'].
    + exists t'. by rewrite list_lookup_insert.
    + destruct (i_holder0 k Hk') as [tk Htk]. destruct (decide (k = i)) as [->|Hne].
      * exists t'. by rewrite list_lookup_insert.
      * exists tk. by rewrite list_lookup_insert_ne.
  - cbn [rg mk]. by rewrite Hgq.
  - cbn [lin mk]. destruct lpo as [o|]; [|done].
    rewrite !fmap_app. cbn [fmap list_fmap]. rewrite run_snoc, i_lin0. f_equal.
    unfold lp_entry. cbn [e_res e_op]. by rewrite i_gq0.
  - cbn [lin gq mk]. destruct lpo as [o|]; [|done].
    rewrite fmap_app. cbn [fmap list_fmap]. rewrite fin_snoc. unfold lp_entry; cbn [e_op]. by rewrite i_gq0.
  - cbn [lin now mk]. assert (Forall (λ e : entry, e_time e < S (now s)) (lin s)).
    { eapply Forall_impl; [exact i_times0|]. cbn. intros; lia. }
    destruct lpo; [|done]. apply Forall_app. split; [done|]. constructor; [cbn; lia|constructor].
  - cbn [lin mk]. destruct lpo as [o|]; [|done].
    rewrite fmap_app. cbn [fmap list_fmap]. unfold lp_entry at 1; cbn [e_time].
    clear -i_sorted0 i_times0. induction (lin s) as [|e l' IH]; cbn.
    + repeat constructor.
    + inversion i_sorted0; subst. inversion i_times0; subst. constructor; [auto|].
      apply Forall_app. split; [done|]. repeat constructor. done.
  - cbn [thr mk]. unfold set_thr. by rewrite insert_length.
  - cbn [lin mk]. destruct lpo; [|done]. apply Forall_app. split; [done|]. constructor; [|constructor].
    cbn. by rewrite <- i_nthr0.
Qed.

Lemma others_free q0 progs (s : st) : inv q0 progs s -> lk s = None ->
  ∀ j tj, thr s !! j = Some tj -> crit (pcs tj) = false.
Proof.
  intros Hinv Hlk j tj Hj. destruct (crit (pcs tj)) eqn:E; [|done].
  apply (t_own _ _ _ _ (i_thr _ _ _ Hinv j tj Hj)) in E. congruence.
Qed.
Lemma others_held q0 progs (s : st) i : inv q0 progs s -> lk s = Some i ->
  ∀ j tj, j ≠ i -> thr s !! j = Some tj -> crit (pcs tj) = false.
Proof.
  intros Hinv Hlk j tj Hne Hj. destruct (crit (pcs tj)) eqn:E; [|done].
  apply (t_own _ _ _ _ (i_thr _ _ _ Hinv j tj Hj)) in E. congruence.
Qed.

Lemma spans_mono (l : list (done T)) n m : n <= m ->
  Forall (λ d, d_inv d < d_lp d ∧ d_lp d < d_ret d ∧ d_ret d <= n) l ->
  Forall (λ d, d_inv d < d_lp d ∧ d_lp d < d_ret d ∧ d_ret d <= m) l.
Proof. intros H HF. eapply Forall_impl; [done|]. cbn. intros d (?&?&?). lia. Qed.

(* thread i passes its linearization point and goes on to PUnl *)
Lemma tinv_lp progs (s : st) i (t : thread) o rest r l rv :
  tinv progs s i t -> prog t = o :: rest -> lp_done (pcs t) = false -> pcs t ≠ PIdle -> pending t = [] ->
  l ≠ Some i -> (step_fifo (gq s) o).2 = rv ->
  tinv progs (mk s r l i (at_pc t (PUnl rv (now s))) (Some o)) i (at_pc t (PUnl rv (now s))).
Proof.
  intros [] Hp Hnd Hni Hpe Hl Hrv. split; cbn [prog pcs cur_inv outs at_pc mk lk rg gq lin now].
  - right. by rewrite ?Hp.
  - cbn. split; [done|]. intros; congruence.
  - done.
  - rewrite lin_of_snoc_same by done. rewrite fmap_app. cbn [fmap list_fmap lp_entry e_op].
    unfold remaining in *. rewrite Hnd in t_ops0. rewrite t_ops0, Hp. cbn.
    by rewrite Hp, <- app_assoc.
  - rewrite lin_of_snoc_same by done. rewrite fmap_app, t_res0, Hpe. cbn. unfold key, lp_entry; cbn.
    by rewrite Hrv, app_nil_r.
  - eapply spans_mono; [|done]. lia.
  - intros _. specialize (t_cur0 Hni). lia.
  - intros r0 lp0 [= <- <-]. specialize (t_cur0 Hni). lia.
Qed.

(* thread i returns *)
Lemma tinv_ret progs (s : st) i (t : thread) o rest rv lp :
  tinv progs s i t -> prog t = o :: rest -> crit (pcs t) = false ->
  cur_inv t < lp -> lp < S (now s) ->
  (key <$> lin_of i (lin s)) = (dkey <$> outs t) ++ [(rv, lp)] ->
  progs !! i = Some ((e_op <$> lin_of i (lin s)) ++ rest) ->
  tinv progs (mk s (rg s) (lk s) i (ret s t rv lp) None) i (ret s t rv lp).
Proof.
  intros [] Hp Hc H1 H2 Hres Hops. split; cbn [prog pcs cur_inv outs ret mk lk rg gq lin now].
  - by left.
  - cbn. rewrite <- t_own0, Hc. done.
  - done.
  - unfold remaining. cbn. rewrite Hp. done.
  - rewrite fmap_app. cbn. by rewrite app_nil_r.
  - apply Forall_app. split; [eapply spans_mono; [|done]; lia|]. constructor; [cbn; lia|constructor].
  - done.
  - done.
Qed.

Lemma inv_step q0 progs (s s' : st) i l :
  inv q0 progs s -> step s i = Some (s', l) -> inv q0 progs s'.
Proof.
  intros Hinv Hstep. unfold RingConc.step in Hstep.
  destruct (thr s !! i) as [t|] eqn:Hi; [|done].
  pose proof (i_thr _ _ _ Hinv i t Hi) as Ht.
  destruct (prog t) as [|o rest] eqn:Hp; [done|].
  pose proof (t_ops _ _ _ _ Ht) as Hops. pose proof (t_res _ _ _ _ Ht) as Hres.
  unfold remaining in Hops. unfold pending in Hres.
  destruct (pcs t) as [| |x|x|k|rv lp] eqn:Hpc; rewrite ?Hp in Hops; cbn in Hops, Hres.
  - (* call *)
    injection Hstep as <- <-. eapply (inv_mk _ _ _ _ _ _ _ _ _ Hinv Hi).
    + by right.
    + intros k Hk. by right.
    + destruct Ht. split; cbn [prog pcs cur_inv outs mk lk rg gq lin now].
      * right. by rewrite ?Hp.
      * rewrite <- t_own0, Hpc. done.
      * done.
      * unfold remaining; cbn; rewrite ?Hp; exact Hops.
      * unfold pending; cbn; exact Hres.
      * eapply spans_mono; [|done]. lia.
      * intros _. lia.
      * done.
    + apply Hinv.
    + apply Hinv.
  - (* first scheduling point of the method *)
    assert (Hcur : cur_inv t < now s) by (apply Ht; rewrite Hpc; done).
    assert (Hpend : pending t = []) by (unfold pending; by rewrite Hpc).
    destruct o as [x| |n|].
    + (* Push: lock *)
      destruct (lk s) eqn:Hlk; [done|]. injection Hstep as <- <-.
      destruct (i_free _ _ _ Hinv Hlk) as [Hwf Habs].
      eapply (inv_mk _ _ _ _ _ _ _ _ _ Hinv Hi).
      * left. intros j tj _ Hj. eapply others_free; eauto.
      * intros k [= <-]. by left.
      * destruct Ht. split; cbn [prog pcs cur_inv outs at_pc mk lk rg gq lin now].
        -- right. by rewrite ?Hp.
        -- done.
        -- cbn. rewrite Hp. split; [done|]. exists (rg s). done.
        -- unfold remaining; cbn; rewrite ?Hp; exact Hops.
        -- unfold pending; cbn; exact Hres.
        -- eapply spans_mono; [|done]. lia.
        -- intros _. lia.
        -- done.
      * done.
      * cbn. rewrite push_lock_len. apply Hinv.
    + (* Pop: lock *)
      destruct (lk s) eqn:Hlk; [done|].
      destruct (i_free _ _ _ Hinv Hlk) as [Hwf Habs].
      pose proof (i_len _ _ _ Hinv) as Hlen.
      destruct (decide (len (rg s) = 0)) as [E|E].
      * injection Hstep as <- <-.
        assert (Hq : gq s = []) by (apply nil_length_inv; lia).
        eapply (inv_mk _ _ _ _ _ _ _ _ _ Hinv Hi).
        -- left. intros j tj _ Hj. eapply others_free; eauto.
        -- done.
        -- eapply tinv_lp; eauto; try (by rewrite Hpc). by rewrite Hq.
        -- intros _. cbn. rewrite Hq. cbn. by rewrite <- Hq.
        -- cbn. rewrite Hq. cbn. lia.
      * destruct (pop_lock (rg s)) as [r' x] eqn:Epl. injection Hstep as <- <-.
        eapply (inv_mk _ _ _ _ _ _ _ _ _ Hinv Hi).
        -- left. intros j tj _ Hj. eapply others_free; eauto.
        -- intros k [= <-]. by left.
        -- destruct Ht. split; cbn [prog pcs cur_inv outs at_pc mk lk rg gq lin now].
           ++ right. by rewrite ?Hp.
           ++ done.
           ++ cbn. rewrite Hp. split; [done|]. exists (rg s). done.
           ++ unfold remaining; cbn; rewrite ?Hp; exact Hops.
           ++ unfold pending; cbn; exact Hres.
           ++ eapply spans_mono; [|done]. lia.
           ++ intros _. lia.
           ++ done.
        -- done.
        -- cbn. unfold RingConc.pop_lock in Epl. injection Epl as <- _. cbn. done.
    + (* PopN: lock *)
      destruct (lk s) eqn:Hlk; [done|].
      destruct (i_free _ _ _ Hinv Hlk) as [Hwf Habs].
      pose proof (i_len _ _ _ Hinv) as Hlen.
      destruct (decide (len (rg s) = 0)) as [E|E].
      * injection Hstep as <- <-.
        assert (Hq : gq s = []) by (apply nil_length_inv; lia).
        eapply (inv_mk _ _ _ _ _ _ _ _ _ Hinv Hi).
        -- left. intros j tj _ Hj. eapply others_free; eauto.
        -- done.
        -- eapply tinv_lp; eauto; try (by rewrite Hpc). by rewrite Hq.
        -- intros _. cbn. rewrite Hq. cbn. by rewrite <- Hq.
        -- cbn. rewrite Hq. cbn. lia.
      * injection Hstep as <- <-.
        eapply (inv_mk _ _ _ _ _ _ _ _ _ Hinv Hi).
        -- left. intros j tj _ Hj. eapply others_free; eauto.
        -- intros k [= <-]. by left.
        -- destruct Ht. split; cbn [prog pcs cur_inv outs at_pc mk lk rg gq lin now].
           ++ right. by rewrite ?Hp.
           ++ done.
           ++ cbn. rewrite Hp. exists n. done.
           ++ unfold remaining; cbn; rewrite ?Hp; exact Hops.
           ++ unfold pending; cbn; exact Hres.
           ++ eapply spans_mono; [|done]. lia.
           ++ intros _. lia.
           ++ done.
        -- done.
        -- cbn. done.
    + (* Len: load *)
      injection Hstep as <- <-.
      eapply (inv_mk _ _ _ _ _ _ _ _ _ Hinv Hi).
      * by right.
      * intros k Hk. by right.
      * pose proof (i_len _ _ _ Hinv) as Hlen.
        assert (Hs : ∀ r' l' t', lin_of i (lin (mk s r' l' i t' (Some Len))) = lin_of i (lin s) ++ [lp_entry s i Len]).
        { intros. cbn [lin mk]. by rewrite lin_of_snoc_same. }
        destruct Ht. split; cbn [prog pcs cur_inv outs ret mk lk rg gq now]; try rewrite Hs.
        -- by left.
        -- rewrite <- t_own0, Hpc. done.
        -- done.
        -- rewrite fmap_app. cbn. unfold remaining in *. rewrite Hpc in t_ops0. cbn in t_ops0.
           rewrite t_ops0, Hp. cbn. by rewrite <- app_assoc.
        -- rewrite !fmap_app, t_res0, Hpend. cbn. unfold key, dkey; cbn. by rewrite Hlen, !app_nil_r.
        -- apply Forall_app. split; [eapply spans_mono; [|done]; lia|]. constructor; [cbn; lia|constructor].
        -- done.
        -- done.
      * intros Hl. cbn. by apply Hinv.
      * cbn. apply Hinv.
  - (* Push: len write *)
    assert (Hlk : lk s = Some i) by (apply Ht; by rewrite Hpc).
    assert (Hpend : pending t = []) by (unfold pending; by rewrite Hpc).
    pose proof (t_hold _ _ _ _ Ht) as Hh. rewrite Hpc, Hp in Hh. cbn in Hh.
    destruct Hh as ([= ->] & r' & Hwf & Habs & Hr).
    injection Hstep as <- <-.
    destruct (push_abs dflt r' x Hwf) as [Ha Hw]. rewrite <- push_split, <- Hr in Ha, Hw.
    eapply (inv_mk _ _ _ _ _ _ _ _ _ Hinv Hi).
    + left. eapply others_held; eauto.
    + done.
    + eapply tinv_lp; eauto; try (by rewrite Hpc).
    + intros _. split; [exact Hw|]. change (abs (push_add (rg s) x) = gq s ++ [x]). by rewrite <- Habs.
    + cbn. rewrite app_length. cbn. rewrite (i_len _ _ _ Hinv). done.
  - (* Pop: len write *)
    assert (Hlk : lk s = Some i) by (apply Ht; by rewrite Hpc).
    assert (Hpend : pending t = []) by (unfold pending; by rewrite Hpc).
    pose proof (t_hold _ _ _ _ Ht) as Hh. rewrite Hpc, Hp in Hh. cbn in Hh.
    destruct Hh as ([= ->] & r' & Hwf & Habs & Hne & Hr).
    injection Hstep as <- <-.
    destruct (pop_abs dflt r' Hwf Hne) as (y & q & Hq & Hy & Ha & Hw).
    rewrite (pop_split r' Hne), Hr in Hy, Ha, Hw. cbn [fst snd] in Hy, Ha, Hw. injection Hy as ->.
    assert (Hgq : gq s = y :: q) by congruence.
    eapply (inv_mk _ _ _ _ _ _ _ _ _ Hinv Hi).
    + left. eapply others_held; eauto.
    + done.
    + eapply tinv_lp; eauto; try (by rewrite Hpc). by rewrite Hgq.
    + intros _. cbn. rewrite Hgq. done.
    + cbn. rewrite Hgq. cbn. pose proof (i_len _ _ _ Hinv) as Hl. rewrite Hgq in Hl. cbn in Hl. lia.
  - (* PopN: len write and copy *)
    assert (Hlk : lk s = Some i) by (apply Ht; by rewrite Hpc).
    assert (Hpend : pending t = []) by (unfold pending; by rewrite Hpc).
    pose proof (t_hold _ _ _ _ Ht) as Hh. rewrite Hpc, Hp in Hh. cbn in Hh.
    destruct Hh as (n & [= ->] & Hwf & Habs & Hne & ->).
    destruct (popN_abs dflt (rg s) n Hwf Hne) as (H1 & H2 & H3). cbn zeta in H1, H2, H3.
    rewrite (popN_split (rg s) n Hne) in H1, H2, H3. cbn [fst snd] in H1, H2, H3.
    destruct (popN_add (rg s) (n `min` len (rg s))) as [r' xs] eqn:Epa. injection Hstep as <- <-.
    cbn [fst snd] in H1, H2, H3. injection H1 as ->.
    pose proof (abs_length dflt (rg s)) as Hal. rewrite Habs in *.
    assert (Hst : step_fifo (gq s) (PopN n) =
                  (drop (n `min` length (gq s)) (gq s), RPopN (Some (take (n `min` length (gq s)) (gq s))))).
    { apply fifo_popN_prefix. intros E. rewrite E in Hal. cbn in Hal. lia. }
    eapply (inv_mk _ _ _ _ _ _ _ _ _ Hinv Hi).
    + left. eapply others_held; eauto.
    + done.
    + eapply tinv_lp; eauto; try (by rewrite Hpc). rewrite Hst. cbn. by rewrite Hal.
    + intros _. split; [exact H3|]. unfold gq_after. rewrite Hst. cbn [fst]. by rewrite Hal.
    + unfold gq_after. rewrite Hst. cbn [fst]. unfold RingConc.popN_add in Epa. injection Epa as <- _. cbn.
      rewrite drop_length. lia.
  - (* return *)
    injection Hstep as <- <-.
    assert (Hl := t_lp _ _ _ _ Ht rv lp Hpc).
    eapply (inv_mk _ _ _ _ _ _ _ _ _ Hinv Hi).
    + by right.
    + intros k Hk. by right.
    + eapply tinv_ret; eauto; try (by rewrite Hpc); lia.
    + apply Hinv.
    + apply Hinv.
Qed.

Lemma inv_reach q0 progs (s0 s : st) : inv q0 progs s0 -> reach dflt s0 s -> inv q0 progs s.
Proof. intros H0 Hr. induction Hr; [done|]. eapply inv_step; eauto. Qed.

Lemma run_sched_reach (s0 s s' : st) sched ls : reach dflt s0 s -> run_sched dflt s sched = Some (s', ls) -> reach dflt s0 s'.
Proof.
  revert s ls. induction sched as [|i rest IH]; intros s ls Hr H; cbn in H.
  - by injection H as <- _.
  - destruct (step s i) as [[s1 l]|] eqn:E; [|done].
    destruct (run_sched dflt s1 rest) as [[s2 ls']|] eqn:E2; [|done]. injection H as <- _.
    eapply IH; [|done]. eapply reach_step; eauto.
Qed.

(** ** C14, concurrent part *)
(* Linearizability.  In every state reachable under any schedule, from a
   well-formed ring r0 and any client programs: [lin s] lists the
   linearization points so far in the order they happened (strictly increasing
   times); the result recorded at each is the one the list queue gives when
   the operations are run in that order from [abs r0]; and for every thread
   the linearization points of its operations are, in program order, exactly
   the operations it has executed, each with the result the client got (or
   is about to get) and at a time strictly between its call and its return. *)
Theorem ring_conc_linearizable r0 progs (s : st) : wf r0 -> reach dflt (init r0 progs) s ->
  e_res <$> lin s = run step_fifo (abs r0) (e_op <$> lin s) ∧
  StronglySorted lt (e_time <$> lin s) ∧
  ∀ i t, thr s !! i = Some t ->
    progs !! i = Some ((e_op <$> lin_of i (lin s)) ++ remaining t) ∧
    key <$> lin_of i (lin s) = (dkey <$> outs t) ++ pending t ∧
    Forall (λ d, d_inv d < d_lp d ∧ d_lp d < d_ret d) (outs t).
Proof.
  intros Hwf Hr. pose proof (inv_reach _ _ _ _ (inv_init r0 progs Hwf) Hr) as Hinv.
  split; [apply Hinv|]. split; [apply Hinv|]. intros i t Hi.
  destruct (i_thr _ _ _ Hinv i t Hi). split; [done|]. split; [done|].
  eapply Forall_impl; [done|]. cbn. intros d (?&?&?). auto.
Qed.

(* at the end of a complete execution: every thread got, for each operation
   of its program, the result of the list queue at that operation's
   linearization point *)
Theorem ring_conc_linearizable_complete r0 progs (s : st) :
  wf r0 -> reach dflt (init r0 progs) s -> complete s = true ->
  e_res <$> lin s = run step_fifo (abs r0) (e_op <$> lin s) ∧
  ∀ i t, thr s !! i = Some t ->
    progs !! i = Some (e_op <$> lin_of i (lin s)) ∧
    key <$> lin_of i (lin s) = dkey <$> outs t.
Proof.
  intros Hwf Hr Hc. pose proof (inv_reach _ _ _ _ (inv_init r0 progs Hwf) Hr) as Hinv.
  split; [apply Hinv|]. intros i t Hi.
  destruct (i_thr _ _ _ Hinv i t Hi).
  assert (Hfin : prog t = []).
  { unfold complete in Hc. rewrite forallb_forall in Hc. specialize (Hc t).
    unfold finished in Hc. destruct (prog t); [done|]. apply elem_of_list_lookup_2, elem_of_list_In in Hi.
    by specialize (Hc Hi). }
  destruct t_idle0 as [Hidle|]; [|done].
  unfold remaining in t_ops0. unfold pending in t_res0. rewrite Hidle, Hfin in *. cbn in *.
  by rewrite app_nil_r in *.
Qed.

Lemma sorted_split {A} (f : A -> nat) (l : list A) a b :
  StronglySorted lt (f <$> l) -> a ∈ l -> b ∈ l -> f a < f b ->
  ∃ l1 l2 l3, l = l1 ++ a :: l2 ++ b :: l3.
Proof.
  induction l as [|c l IH]; intros Hs Ha Hb Hlt; [by apply elem_of_nil in Ha|].
  cbn in Hs. inversion Hs as [|? ? Hs' Hall]; subst.
  apply elem_of_cons in Ha as [->|Ha].
  - apply elem_of_cons in Hb as [->|Hb]; [lia|].
    apply elem_of_list_split in Hb as (l2 & l3 & ->). by exists [], l2, l3.
  - apply elem_of_cons in Hb as [->|Hb].
    + rewrite Forall_fmap, Forall_forall in Hall. specialize (Hall a Ha). cbn in Hall. lia.
    + destruct (IH Hs' Ha Hb Hlt) as (l1 & l2 & l3 & ->). by exists (c :: l1), l2, l3.
Qed.

(* real-time order: if an operation returned before another (of any thread)
   was called, its linearization point comes first in [lin] *)
Theorem ring_conc_real_time r0 progs (s : st) i j ti tj d1 d2 :
  wf r0 -> reach dflt (init r0 progs) s ->
  thr s !! i = Some ti -> thr s !! j = Some tj -> d1 ∈ outs ti -> d2 ∈ outs tj ->
  d_ret d1 <= d_inv d2 ->
  ∃ l1 e1 l2 e2 l3, lin s = l1 ++ e1 :: l2 ++ e2 :: l3 ∧
    e_tid e1 = i ∧ key e1 = dkey d1 ∧ e_tid e2 = j ∧ key e2 = dkey d2.
Proof.
  intros Hwf Hr Hi Hj H1 H2 Hle.
  pose proof (inv_reach _ _ _ _ (inv_init r0 progs Hwf) Hr) as Hinv.
  assert (Hfind : ∀ k tk d, thr s !! k = Some tk -> d ∈ outs tk ->
            ∃ e, e ∈ lin s ∧ e_tid e = k ∧ key e = dkey d ∧ d_inv d < d_lp d ∧ d_lp d < d_ret d).
  { intros k tk d Hk Hd. destruct (i_thr _ _ _ Hinv k tk Hk).
    assert (Hin : dkey d ∈ key <$> lin_of k (lin s)).
    { rewrite t_res0. apply elem_of_app. left. by apply elem_of_list_fmap_1. }
    apply elem_of_list_fmap in Hin as (e & He & Hin). unfold lin_of in Hin.
    apply elem_of_list_filter in Hin as [Htid Hin]. exists e. repeat split; auto.
    all: rewrite Forall_forall in t_spans0; destruct (t_spans0 d Hd) as (?&?&?); done. }
  destruct (Hfind i ti d1 Hi H1) as (e1 & He1 & Ht1 & Hk1 & ? & ?).
  destruct (Hfind j tj d2 Hj H2) as (e2 & He2 & Ht2 & Hk2 & ? & ?).
  assert (e_time e1 < e_time e2).
  { unfold key, dkey in Hk1, Hk2. injection Hk1 as _ ->. injection Hk2 as _ ->. lia. }
  destruct (sorted_split e_time (lin s) e1 e2 (i_sorted _ _ _ Hinv) He1 He2) as (l1 & l2 & l3 & E); [done|].
  exists l1, e1, l2, e2, l3. done.
Qed.

(* mutual exclusion: two threads inside the critical section are the same thread *)
Theorem ring_conc_mutex r0 progs (s : st) i j ti tj : wf r0 -> reach dflt (init r0 progs) s ->
  thr s !! i = Some ti -> thr s !! j = Some tj ->
  crit (pcs ti) = true -> crit (pcs tj) = true -> i = j.
Proof.
  intros Hwf Hr Hi Hj Hci Hcj.
  pose proof (inv_reach _ _ _ _ (inv_init r0 progs Hwf) Hr) as Hinv.
  apply (t_own _ _ _ _ (i_thr _ _ _ Hinv i ti Hi)) in Hci.
  apply (t_own _ _ _ _ (i_thr _ _ _ Hinv j tj Hj)) in Hcj. congruence.
Qed.

(* while the mutex is free the ring is well-formed and represents the abstract queue *)
Theorem ring_conc_free_abs r0 progs (s : st) : wf r0 -> reach dflt (init r0 progs) s ->
  lk s = None -> wf (rg s) ∧ abs (rg s) = gq s.
Proof. intros Hwf Hr. apply (inv_reach _ _ _ _ (inv_init r0 progs Hwf) Hr). Qed.

(* the len field (what Len reads, at any moment, lock held or not) is the
   length of the abstract queue, i.e. initial length + pushes - popped
   elements over the operations linearized so far: a count, never negative *)
Theorem ring_conc_len r0 progs (s : st) : wf r0 -> reach dflt (init r0 progs) s ->
  len (rg s) = length (gq s) ∧
  gq s = fin (abs r0) (e_op <$> lin s) ∧
  length (abs r0) + pushes (e_op <$> lin s) = popped (e_res <$> lin s) + len (rg s).
Proof.
  intros Hwf Hr. pose proof (inv_reach _ _ _ _ (inv_init r0 progs Hwf) Hr) as Hinv.
  split; [apply Hinv|]. split; [apply Hinv|].
  rewrite (i_lin _ _ _ Hinv), (i_len _ _ _ Hinv), (i_gq _ _ _ Hinv). apply fifo_len_count.
Qed.

(* a ring filled by a sequential prefix is a legitimate initial ring, and
   represents what the list queue holds after the same prefix *)
Lemma prefilled_ok size pre : 1 <= size ->
  wf (prefilled dflt size pre) ∧ abs (prefilled dflt size pre) = fin [] pre.
Proof.
  intros H. unfold prefilled, fin. pose proof (wf_new dflt size H) as Hw.
  replace (@nil T) with (abs (new dflt size)) by apply abs_new.
  revert Hw. generalize (new dflt size). induction pre as [|o pre IH]; intros r Hw; cbn; [done|].
  destruct (step_refines dflt r o Hw) as (_ & Ha & Hw'). rewrite <- Ha. by apply IH.
Qed.

End conc.

(** ** The oracle of RingConcExec holds of every complete execution of the model *)
From HV Require Import RingConcExec.

Section oracle.
Notation entry := (entry Z).

Lemma zres_eqb_refl (r : zres) : zres_eqb r r = true.
Proof.
  destruct r as [|[x|]|[xs|]|n]; cbn; auto using Z.eqb_refl, Nat.eqb_refl.
  by apply bool_decide_eq_true.
Qed.

(* a witness order for [search] *)
Inductive valid : list Z -> list (list orec) -> list nat -> Prop :=
| valid_nil q pend : all_nil pend = true -> valid q pend []
| valid_cons q pend t x rest order :
    pend !! t = Some (x :: rest) -> minimal pend (o_inv x) = true ->
    zres_eqb (step_fifo q x.1).2 x.2.1.1 = true ->
    valid (step_fifo q x.1).1 (<[t := rest]> pend) order ->
    valid q pend (t :: order).

Lemma search_complete q pend order fuel :
  valid q pend order -> length order <= fuel -> search fuel q pend = true.
Proof.
  intros Hv. revert fuel. induction Hv as [q pend H|q pend t x rest order H H0 H1 Hv IH]; intros fuel Hf.
  - destruct fuel; cbn; by rewrite H.
  - destruct fuel; [cbn in Hf; lia|]. cbn [search]. apply orb_true_iff. right.
    apply existsb_exists. exists t. split.
    + apply in_seq. apply lookup_lt_Some in H. lia.
    + rewrite H, H0, H1. cbn. apply IH. cbn in Hf. lia.
Qed.

(* an observed operation matches its linearization point *)
Definition R (e : entry) (x : orec) : Prop :=
  x.1 = e_op e ∧ x.2.1.1 = e_res e ∧ o_inv x < e_time e ∧ e_time e < o_ret x.

Definition pend_after (F : list (list orec)) (l1 : list entry) : list (list orec) :=
  imap (λ i f, drop (length (lin_of i l1)) f) F.

Lemma all_nil_lookup {A} (l : list (list A)) : (∀ i y, l !! i = Some y -> y = []) -> all_nil l = true.
Proof.
  intros H. unfold all_nil. apply forallb_forall. intros y Hy.
  apply elem_of_list_In, elem_of_list_lookup in Hy as [i Hi]. by rewrite (H i y Hi).
Qed.

Lemma lin_of_app i (a b : list entry) : lin_of i (a ++ b) = lin_of i a ++ lin_of i b.
Proof. unfold lin_of. apply filter_app. Qed.

Lemma split_at_suffix (F : list (list orec)) (l1 l2 : list entry) u fu :
  Forall2 R (lin_of u (l1 ++ l2)) fu ->
  ∃ g1 g2, fu = g1 ++ g2 ∧ length g1 = length (lin_of u l1) ∧ Forall2 R (lin_of u l2) g2.
Proof.
  rewrite lin_of_app. intros H. apply Forall2_app_inv_l in H as (g1 & g2 & H1 & H2 & ->).
  exists g1, g2. split; [done|]. split; [|done]. symmetry. by eapply Forall2_length.
Qed.

Lemma sorted_app_r (a b : list nat) : StronglySorted lt (a ++ b) -> StronglySorted lt b.
Proof. induction a as [|x a IH]; cbn; [done|]. intros H. inversion H; subst. auto. Qed.

Lemma valid_suffix q0 (F : list (list orec)) (lin : list entry) :
  (∀ i f, F !! i = Some f -> Forall2 R (lin_of i lin) f) ->
  StronglySorted lt (e_time <$> lin) ->
  e_res <$> lin = run step_fifo q0 (e_op <$> lin) ->
  Forall (λ e, e_tid e < length F) lin ->
  ∀ l2 l1, lin = l1 ++ l2 -> valid (fin q0 (e_op <$> l1)) (pend_after F l1) (e_tid <$> l2).
Proof.
  intros HF Hsort Hres Htid. induction l2 as [|e l2 IH]; intros l1 Hlin.
  - constructor. apply all_nil_lookup. intros i y Hy. unfold pend_after in Hy.
    rewrite list_lookup_imap in Hy. destruct (F !! i) as [f|] eqn:Ef; [|done]. cbn in Hy. injection Hy as <-.
    rewrite app_nil_r in Hlin. subst l1. apply drop_ge. by rewrite (Forall2_length _ _ _ (HF i f Ef)).
  - set (t := e_tid e).
    assert (Ht : t < length F).
    { rewrite Forall_forall in Htid. apply Htid. rewrite Hlin. apply elem_of_app. right. by left. }
    destruct (lookup_lt_is_Some_2 F t Ht) as [f Ef].
    pose proof (HF t f Ef) as Hf. rewrite Hlin in Hf.
    destruct (split_at_suffix F l1 (e :: l2) t f Hf) as (g1 & g2 & -> & Hlen & Hg2).
    unfold lin_of in Hg2. rewrite filter_cons_True in Hg2 by done.
    apply Forall2_cons_inv_l in Hg2 as (x & rest & HR & Hrest & ->).
    destruct HR as (Hx1 & Hx2 & Hx3 & Hx4).
    (* the entries behind e have later times *)
    assert (Hlater : ∀ e', e' ∈ e :: l2 -> e_time e <= e_time e').
    { rewrite Hlin, fmap_app in Hsort. apply sorted_app_r in Hsort.
      cbn in Hsort. inversion Hsort as [|? ? _ Hall]; subst. intros e' He'.
      apply elem_of_cons in He' as [->|He']; [done|].
      rewrite Forall_fmap, Forall_forall in Hall. specialize (Hall e' He'). cbn in Hall. lia. }
    eapply (valid_cons _ _ t x rest).
    + unfold pend_after. rewrite list_lookup_imap, Ef. cbn. rewrite <- Hlen, drop_app. done.
    + unfold minimal. apply forallb_forall. intros fu' Hfu'. apply forallb_forall. intros y Hy.
      apply elem_of_list_In, elem_of_list_lookup in Hfu' as [u Hu]. unfold pend_after in Hu.
      rewrite list_lookup_imap in Hu. destruct (F !! u) as [fu|] eqn:Efu; [|done]. cbn in Hu. injection Hu as <-.
      pose proof (HF u fu Efu) as Hfu. rewrite Hlin in Hfu.
      destruct (split_at_suffix F l1 (e :: l2) u fu Hfu) as (h1 & h2 & -> & Hl1 & Hh2).
      rewrite <- Hl1, drop_app in Hy. apply elem_of_list_In, elem_of_list_lookup in Hy as [m Hm].
      destruct (Forall2_lookup_r _ _ _ _ _ Hh2 Hm) as (e' & He' & (_ & _ & _ & Hr)).
      apply elem_of_list_lookup_2 in He'. unfold lin_of in He'. apply elem_of_list_filter in He' as [_ He'].
      specialize (Hlater e' He'). apply negb_true_iff, Nat.leb_gt. lia.
    + rewrite Hx1, Hx2.
      assert (E : e_res e = (step_fifo (fin q0 (e_op <$> l1)) (e_op e)).2).
      { rewrite Hlin, !fmap_app, run_app in Hres. cbn [fmap list_fmap] in Hres.
        apply app_inj_1 in Hres as [_ Hres]; [|by rewrite run_length, !fmap_length].
        cbn [run] in Hres. destruct (step_fifo (fin q0 (e_op <$> l1)) (e_op e)). by injection Hres as -> _. }
      rewrite <- E. apply zres_eqb_refl.
    + specialize (IH (l1 ++ [e])). rewrite fmap_app in IH. cbn [fmap list_fmap] in IH. rewrite fin_snoc in IH.
      rewrite Hx1.
      replace (<[t:=rest]> (pend_after F l1)) with (pend_after F (l1 ++ [e])); [apply IH; by rewrite <- app_assoc|].
      apply list_eq. intros i. unfold pend_after. destruct (decide (i = t)) as [->|Hne].
      * rewrite list_lookup_insert by (by rewrite imap_length).
        rewrite list_lookup_imap, Ef. cbn. rewrite lin_of_snoc_same by done.
        rewrite app_length, <- Hlen. cbn [length]. rewrite drop_add_app by done. done.
      * rewrite list_lookup_insert_ne by done. rewrite !list_lookup_imap.
        destruct (F !! i); [|done]. cbn. rewrite lin_of_snoc_other; [done|]. fold t. congruence.
Qed.

Definition obs_of (d : done Z) : span := (d_res d, d_inv d, d_ret d).

Lemma R_zip (L : list entry) (ds : list (done Z)) :
  key <$> L = dkey <$> ds ->
  Forall (λ d, d_inv d < d_lp d ∧ d_lp d < d_ret d) ds ->
  Forall2 R L (zipo (e_op <$> L) (obs_of <$> ds)).
Proof.
  revert ds. induction L as [|e L IH]; intros ds Hk Hs.
  - destruct ds; [|done]. constructor.
  - destruct ds as [|d ds]; [done|]. cbn in Hk. injection Hk as Hr Ht Hk2.
    inversion Hs as [|? ? (Ha & Hb) Hs']; subst. cbn. constructor; [|by apply IH].
    unfold R, o_inv, o_ret, obs_of. cbn. rewrite Hr, Ht. auto.
Qed.

Lemma sum_app (a b : list nat) : sum_list (a ++ b) = sum_list a + sum_list b.
Proof. induction a as [|x a IH]; cbn; [done|]. rewrite IH. lia. Qed.

Lemma sum_cons (x : nat) l : sum_list (x :: l) = x + sum_list l.
Proof. done. Qed.

Lemma sum_indicator k n : k < n ->
  sum_list ((λ i, if decide (k = i) then 1 else 0) <$> seq 0 n) = 1.
Proof.
  induction n as [|n IH]; [lia|]. intros H. rewrite seq_S, fmap_app, sum_app. cbn.
  destruct (decide (k = n)) as [->|Hne].
  - assert (E : sum_list ((λ i, if decide (n = i) then 1 else 0) <$> seq 0 n) = 0); [|lia].
    clear. assert (G : ∀ m, m <= n -> sum_list ((λ i, if decide (n = i) then 1 else 0) <$> seq 0 m) = 0); [|by apply G].
    induction m as [|m IHm]; [done|]. intros Hm. rewrite seq_S, fmap_app, sum_app. cbn.
    destruct (decide (n = m)); [lia|]. rewrite IHm by lia. done.
  - rewrite IH by lia. lia.
Qed.

Lemma count_partition n (l : list entry) : Forall (λ e, e_tid e < n) l ->
  length l = sum_list ((λ i, length (lin_of i l)) <$> seq 0 n).
Proof.
  induction l as [|e l IH]; intros H.
  - cbn. induction (seq 0 n); cbn; auto.
  - inversion H as [|? ? He Hl]; subst. cbn [length]. rewrite (IH Hl).
    assert (G : ∀ js, sum_list ((λ i, length (lin_of i (e :: l))) <$> js) =
                      sum_list ((λ i, if decide (e_tid e = i) then 1 else 0) <$> js) +
                      sum_list ((λ i, length (lin_of i l)) <$> js)).
    { induction js as [|j js IHj]; [done|]. rewrite !fmap_cons, !sum_cons, IHj.
      unfold lin_of at 1. destruct (decide (e_tid e = j)) as [E|E].
      - rewrite filter_cons_True by done. cbn [length]. unfold lin_of. lia.
      - rewrite filter_cons_False by done. unfold lin_of. lia. }
    rewrite G, (sum_indicator (e_tid e) n He). lia.
Qed.

(* C14, oracle: on every complete execution of the model, from a fresh ring of
   any capacity >= 1 filled by any sequential prefix, the history the clients
   observed (results with call/return positions) passes the linearizability
   oracle that is applied to the implementation's histories *)
Theorem ring_conc_oracle_sound cap pre progs sched (s : st Z) ls :
  1 <= cap ->
  run_sched 0%Z (init 0%Z (prefilled 0%Z cap pre) progs) sched = Some (s, ls) ->
  complete s = true ->
  lin_ok pre progs (model_obs s) = true.
Proof.
  intros Hcap Hrun Hc.
  destruct (prefilled_ok 0%Z cap pre Hcap) as [Hwf Habs].
  set (r0 := prefilled 0%Z cap pre) in *.
  assert (Hr : reach 0%Z (init 0%Z r0 progs) s) by (eapply run_sched_reach; [constructor|done]).
  pose proof (inv_reach _ _ _ _ _ (inv_init 0%Z r0 progs Hwf) Hr) as Hinv.
  destruct (ring_conc_linearizable_complete 0%Z r0 progs s Hwf Hr Hc) as [Hres Hthr].
  destruct (ring_conc_linearizable 0%Z r0 progs s Hwf Hr) as (_ & Hsort & Hthr').
  assert (Hn : length (model_obs s) = length progs).
  { unfold model_obs. rewrite fmap_length. apply Hinv. }
  (* per thread: program, observation, linearization points *)
  assert (Hper : ∀ i p o, progs !! i = Some p -> model_obs s !! i = Some o ->
            ∃ t, thr s !! i = Some t ∧ p = e_op <$> lin_of i (lin s) ∧ o = obs_of <$> outs t ∧
                 key <$> lin_of i (lin s) = dkey <$> outs t ∧
                 Forall (λ d, d_inv d < d_lp d ∧ d_lp d < d_ret d) (outs t)).
  { intros i p o Hp Ho. unfold model_obs in Ho. rewrite list_lookup_fmap in Ho.
    destruct (thr s !! i) as [t|] eqn:Et; [|done]. cbn in Ho. injection Ho as <-.
    destruct (Hthr i t Et) as [H1 H2]. destruct (Hthr' i t Et) as (_ & _ & H3).
    exists t. repeat split; auto. congruence. }
  unfold lin_ok. rewrite Hn, Nat.eqb_refl. cbn [andb]. apply andb_true_iff. split.
  - apply forallb_forall. intros [p o] Hpo. apply elem_of_list_In, elem_of_list_lookup in Hpo as [i Hi].
    apply lookup_zip_with_Some in Hi as (p' & o' & [= <- <-] & Hp & Ho).
    destruct (Hper i p o Hp Ho) as (t & _ & -> & -> & Hk & _). cbn.
    apply Nat.eqb_eq. rewrite !fmap_length. rewrite <- (fmap_length key), Hk, fmap_length. done.
  - apply (search_complete _ _ (e_tid <$> lin s)).
    + replace (fifo_after pre) with (fin (abs 0%Z r0) (e_op <$> @nil entry)) by (cbn; by rewrite Habs).
      replace (zip_with zipo progs (model_obs s)) with (pend_after (zip_with zipo progs (model_obs s)) []).
      2:{ unfold pend_after. apply list_eq. intros i. rewrite list_lookup_imap.
          destruct (zip_with zipo progs (model_obs s) !! i); done. }
      apply (valid_suffix (abs 0%Z r0) _ (lin s)); auto.
      * intros i f Hf. apply lookup_zip_with_Some in Hf as (p & o & -> & Hp & Ho).
        destruct (Hper i p o Hp Ho) as (t & _ & -> & -> & Hk & Hsp). by apply R_zip.
      * rewrite zip_with_length, Hn, Nat.min_id. apply Hinv.
    + rewrite fmap_length. rewrite (count_partition (length progs) (lin s)) by apply Hinv.
      apply Nat.eq_le_incl. f_equal. apply list_eq. intros i. rewrite !list_lookup_fmap.
      destruct (decide (i < length progs)) as [Hi|Hi].
      * rewrite lookup_seq_lt by done. cbn. destruct (lookup_lt_is_Some_2 progs i Hi) as [p Hp].
        transitivity (length <$> Some p); [|by rewrite <- Hp]. cbn.
        assert (is_Some (model_obs s !! i)) as [o Ho] by (apply lookup_lt_is_Some_2; lia).
        destruct (Hper i p o Hp Ho) as (t & _ & -> & _). by rewrite fmap_length.
      * rewrite lookup_seq_ge by lia. cbn. symmetry. apply fmap_None. apply lookup_ge_None_2.
        apply Nat.nlt_ge in Hi. exact Hi.
Qed.

End oracle.

(** ** Non-vacuity: two threads on a ring of capacity 1 (it grows at the first
    push), operations overlapping, Len read inside the other thread's
    critical section *)
Section examples.
Let progs : list (list zop) := [[Push 1%Z; Pop]; [Push 7%Z; Len]].
Let s0 : st Z := init 0%Z (new 0%Z 1) progs.
(*            T0: call lock | T1: call | T0: add | T1: lock | T0: unlock | T1: add unlock |
              T0: call lock | T1: call load | T0: add unlock *)
Let sched : list nat := [0; 0; 1; 0; 1; 0; 1; 1; 0; 0; 1; 1; 0; 0].

Example ex_run :
  exists s ls, run_sched 0%Z s0 sched = Some (s, ls) /\ complete s = true /\
    ls = [LCall (Push 1%Z); LLock; LCall (Push 7%Z); LAdd 1%Z 1; LLock; LUnlock; LAdd 1%Z 2; LUnlock;
          LCall Pop; LLock; LCall Len; LLoad 2; LAdd (-1)%Z 1; LUnlock] /\
    (e_tid <$> lin s) = [0; 1; 1; 0] /\
    (e_op <$> lin s) = [Push 1%Z; Push 7%Z; Len; Pop] /\
    (e_res <$> lin s) = [RPush; RPush; RLen 2; RPop (Some 1%Z)] /\
    model_obs s = [[(RPush, 0, 6); (RPop (Some 1%Z), 8, 14)]; [(RPush, 2, 8); (RLen 2, 10, 12)]].
Proof. eexists _, _. split; [vm_compute; reflexivity|]. vm_compute. repeat split; reflexivity. Qed.

(* a thread that announced a mutator cannot step while another one holds the mutex *)
Example ex_blocked :
  exists s ls, run_sched 0%Z s0 [0; 0; 1] = Some (s, ls) /\ lk s = Some 0 /\
    (exists t, thr s !! 0 = Some t /\ crit (pcs t) = true) /\ step 0%Z s 1 = None.
Proof. eexists _, _. split; [vm_compute; reflexivity|]. vm_compute. repeat split; try reflexivity. eexists. split; reflexivity. Qed.

(* the oracle accepts the history of ex_run ... *)
Example ex_oracle_accepts :
  lin_ok [] progs [[(RPush, 0, 6); (RPop (Some 1%Z), 8, 14)]; [(RPush, 2, 8); (RLen 2, 10, 12)]] = true.
Proof. vm_compute. reflexivity. Qed.
(* ... rejects it when the real-time order is tightened so that Len (which saw 2) would run after Pop returned ... *)
Example ex_oracle_rejects_real_time :
  lin_ok [] progs [[(RPush, 0, 6); (RPop (Some 1%Z), 8, 10)]; [(RPush, 2, 8); (RLen 2, 10, 12)]] = false.
Proof. vm_compute. reflexivity. Qed.
(* ... and rejects the history a PopN that copies its slots out after releasing the mutex produces
   (ring of capacity 3 holding 1, 2; PopN 2 overlapped by Push 3, Push 4 returns [4; 2]) *)
Example ex_oracle_rejects_overwritten_popN :
  lin_ok [Push 1%Z; Push 2%Z] [[PopN 2]; [Push 3%Z; Push 4%Z]]
         [[(RPopN (Some [4%Z; 2%Z]), 0, 11)]; [(RPush, 3, 7); (RPush, 7, 12)]] = false.
Proof. vm_compute. reflexivity. Qed.
(* the model returns [1; 2] under the same schedule *)
Example ex_model_popN_same_schedule :
  exists s ls, run_sched 0%Z (init 0%Z (prefilled 0%Z 3 [Push 1%Z; Push 2%Z]) [[PopN 2]; [Push 3%Z; Push 4%Z]])
                 [0; 0; 0; 1; 1; 1; 1; 1; 1; 1; 0; 1] = Some (s, ls) /\
    model_obs s = [[(RPopN (Some [1%Z; 2%Z]), 0, 11)]; [(RPush, 3, 7); (RPush, 7, 12)]].
Proof. eexists _, _. split; [vm_compute; reflexivity|]. vm_compute. reflexivity. Qed.
End examples.
