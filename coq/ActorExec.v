(** Executable checks for the product model (Actor.v): executions of the real
    engine (process.go + inbox.go + registry.go + the send / poison paths of
    engine.go) under the deterministic scheduler — a Spawn racing with sender
    goroutines and Stop/Poison callers, the receiver yielding twice inside
    every Receive — are replayed step by step in the model: the same thread
    choice must give the same operation on the target actor (with the same
    arguments and results) at every scheduling point, and the same final
    state (registry entry, inbox status, what is left in the ring, the
    deliveries in order, what was sent, the dead letters, the cancelled
    contexts).  [oracle] is the conjunction of the predicates the theorems of
    ActorProofs / PropsActor prove of every run of the model, evaluated on
    what the implementation did. *)
From Coq Require Import List Arith Bool.
Import ListNotations.
From HV Require Export Inbox.
From HV Require Export Actor ProcExec.

(** ** Observation of one execution *)
Record aobs := {
  ao_recvs : list (nat * lmsg);     (* deliveries (incarnation, message) in the order of their recv-begin *)
  ao_overlap : bool; ao_deadlock : bool; ao_stuck : bool; ao_terminal : bool;
  ao_sent : list nat;               (* payloads sent to the PID (clients and the actor itself) *)
  ao_dead : list nat;               (* payloads reported as dead letters (seen by a subscriber of the event stream) *)
  ao_pills_done : list bool;        (* one entry per Stop/Poison call of the client threads that has returned *)
  ao_status : status;               (* final procStatus of the actor's inbox *)
  ao_registered : bool;             (* PID still in the registry *)
  ao_stranded : list payload }.     (* what is left in the actor's ring *)

Record case := {
  ac_maxr : nat; ac_table : list rule;
  ac_senders : list (list nat); ac_poisoners : list bool;      (* true = Poison (graceful), false = Stop *)
  ac_sched : list nat; ac_labels : list alabel;                (* thread and operation at every scheduling point *)
  ac_replay : bool;                                            (* false: only the oracle is evaluated *)
  ac_obs : aobs }.

Definition acfg_of (c : case) : acfg :=
  {| a_cfg := {| maxr := ac_maxr c; batch := 4096; scr := lookup (ac_table c) |}; a_fuel := FUEL |}.

(** ** Comparing labels *)
(* pills are anonymous in the implementation's trace *)
Definition payload_sim (a b : payload) : bool :=
  match a, b with
  | User n, User m => Nat.eqb n m
  | Pill g _, Pill h _ => Bool.eqb g h
  | _, _ => false
  end.

Definition alabel_eqb (a b : alabel) : bool :=
  match a, b with
  | ALock, ALock | ARLock, ARLock | ARecvM, ARecvM => true
  | APush p, APush q => payload_sim p q
  | ACas o n k, ACas o' n' k' => status_eqb o o' && status_eqb n n' && Bool.eqb k k'
  | ALoad v, ALoad w => status_eqb v w
  | ASwap n o, ASwap n' o' => status_eqb n n' && status_eqb o o'
  | AStore v, AStore w => status_eqb v w
  (* a swap whose old value the code does not look at and a store are the same write *)
  | ASwap n _, AStore v | AStore v, ASwap n _ => status_eqb n v
  | APopN b k, APopN b' k' => all2 payload_sim b b' && Bool.eqb k k'
  | ALen n, ALen m => Nat.eqb n m
  | ARecvB i m, ARecvB j m' => Nat.eqb i j && lmsg_eqb m m'
  | _, _ => false
  end.

(** ** Projections of the model's log *)
Fixpoint log_recvs (t : list event) : list (nat * lmsg) :=
  match t with [] => [] | Recv i _ m _ :: t' => (i, m) :: log_recvs t' | _ :: t' => log_recvs t' end.
Fixpoint log_dead (t : list event) : list nat :=
  match t with [] => [] | EvDeadLetter (User n) :: t' => n :: log_dead t' | _ :: t' => log_dead t' end.

(* multiset equality of lists of numbers *)
Fixpoint remove1 (n : nat) (l : list nat) : option (list nat) :=
  match l with
  | [] => None
  | m :: l' => if Nat.eqb n m then Some l' else match remove1 n l' with Some r => Some (m :: r) | None => None end
  end.
Fixpoint perm_eqb (a b : list nat) : bool :=
  match a with
  | [] => match b with [] => true | _ => false end
  | n :: a' => match remove1 n b with Some b' => perm_eqb a' b' | None => false end
  end.

Definition recv_eqb (a b : nat * lmsg) : bool := Nat.eqb (fst a) (fst b) && lmsg_eqb (snd a) (snd b).

(* the final state of the model against what the harness read off the engine *)
Definition final_matches (c : case) (s : ast) : bool :=
  let o := ac_obs c in
  let np := length (ac_poisoners c) in
  Bool.eqb (aquiescent s) (ao_terminal o) &&
  negb (a_oof s) && negb (a_esc s) &&
  status_eqb (a_status s) (ao_status o) &&
  Bool.eqb (a_reg s) (ao_registered o) &&
  all2 payload_sim (map emsg (a_ring s)) (ao_stranded o) &&
  all2 recv_eqb (log_recvs (elog s)) (ao_recvs o) &&
  perm_eqb (sends_of (elog s)) (ao_sent o) &&
  perm_eqb (log_dead (elog s)) (ao_dead o) &&
  Nat.eqb (length (ao_pills_done o)) np &&
  Bool.eqb (forallb (cancelled (elog s)) (seq 0 np)) (forallb (fun d => d) (ao_pills_done o)).

Definition start_state (c : case) : ast := ainit (ac_senders c) (ac_poisoners c).

Definition corr_run (c : case) : option (ast * list alabel) := arun_sched (acfg_of c) (start_state c) (ac_sched c).

Definition corr (c : case) : bool :=
  if negb (ac_replay c) then true else
  match corr_run c with
  | None => false
  | Some (s, ls) => all2 alabel_eqb ls (ac_labels c) && final_matches c s
  end.

(* where the replay first leaves the implementation's trace (for the evidence of a failure):
   index of the first differing label, or the number of steps if only the final state differs *)
Fixpoint first_diff (c : acfg) (s : ast) (sched : list nat) (ls : list alabel) (n : nat) : nat :=
  match sched, ls with
  | i :: sched', l :: ls' =>
    match astep c s i with
    | Some (s', l') => if alabel_eqb l' l then first_diff c s' sched' ls' (S n) else n
    | None => n
    end
  | _, _ => n
  end.

(** ** The properties' predicates on the implementation's observation *)
Definition member_nat (n : nat) (l : list nat) : bool := existsb (Nat.eqb n) l.

(* C02 from the trace itself: a recv-begin while another thread is between its recv-begin and recv-mid *)
Fixpoint overlap_in (sched : list nat) (ls : list alabel) (open : list nat) : bool :=
  match sched, ls with
  | i :: sched', l :: ls' =>
    match l with
    | ARecvB _ _ => negb (forallb (Nat.eqb i) open) || overlap_in sched' ls' (i :: open)
    | ARecvM => overlap_in sched' ls' (filter (fun j => negb (Nat.eqb i j)) open)
    | _ => overlap_in sched' ls' open
    end
  | _, _ => false
  end.

(* C02 (the statement of ActorProofs.C02_at_most_one_thread_runs_the_actor on the trace): the
   threads that run the actor's code — the spawner from Registry.add until Inbox.Start's Swap has
   made the inbox idle, a worker from its first operation until its CAS running->idle — never
   coexist.  [nclients] = number of sender and poisoner threads (thread 0 is the spawner, workers
   come after the clients). *)
Fixpoint holders_overlap (nclients : nat) (sched : list nat) (ls : list alabel) (open : list nat) : bool :=
  match sched, ls with
  | i :: sched', l :: ls' =>
    let is_holder_thread := Nat.eqb i 0 || Nat.ltb nclients i in
    let closes := match l with
                  | ACas Running Idle _ => Nat.ltb nclients i
                  | ASwap _ _ => Nat.eqb i 0
                  | AStore Idle => Nat.eqb i 0       (* the same write with the old value not asked for *)
                  | _ => false end in
    let closed_before := (* the spawner past its Swap (its final kick), a worker past its exit CAS (Len, kick) *)
      match l with
      | ALen _ => true
      | ACas Idle Running _ => negb (member_nat i open)
      | _ => false end in
    if negb is_holder_thread || closed_before then holders_overlap nclients sched' ls' open
    else
      let clash := negb (forallb (Nat.eqb i) open) in
      let open' := if closes then filter (fun j => negb (Nat.eqb i j)) open
                   else if member_nat i open then open else i :: open in
      clash || holders_overlap nclients sched' ls' open'
  | _, _ => false
  end.

Definition to_orecv (r : nat * lmsg) : orecv :=
  {| or_inc := fst r; or_msg := snd r; or_snd := false; or_full := true |}.

Fixpoint stranded_users (l : list payload) : list nat :=
  match l with [] => [] | User n :: l' => n :: stranded_users l' | _ :: l' => stranded_users l' end.

Definition member (n : nat) (l : list nat) : bool := existsb (Nat.eqb n) l.

Definition oracle (c : case) : bool :=
  let o := ac_obs c in
  let rs := map to_orecv (ao_recvs o) in
  let delivered := user_payloads rs in
  (* C02: one message at a time, lifecycle deliveries on the spawner included *)
  negb (ao_overlap o) && negb (overlap_in (ac_sched c) (ac_labels c) []) &&
  negb (holders_overlap (length (ac_senders c) + length (ac_poisoners c)) (ac_sched c) (ac_labels c) []) &&
  negb (ao_deadlock o) && negb (ao_stuck o) &&
  (* C04: the deliveries form a lifecycle word *)
  c04_word rs 0 0 &&
  (* C01/C05: nothing delivered twice, nothing delivered that was not sent or that was reported dead,
     per-sender order among the delivered *)
  nodupb delivered &&
  forallb (fun n => member n (ao_sent o)) delivered &&
  forallb (fun n => negb (member n (ao_dead o))) delivered &&
  forallb (fun ms => subseqb (filter (fun n => member n ms) delivered) ms) (ac_senders c) &&
  (* the inbox of an unregistered actor is stopped for good *)
  (ao_registered o || negb (ao_terminal o) || status_eqb (ao_status o) Stopped) &&
  (if ao_terminal o
   then (* conservation: sent = delivered + dead letters + stranded in the ring of a stopped actor *)
        perm_eqb (ao_sent o) (delivered ++ ao_dead o ++ stranded_users (ao_stranded o)) &&
        (match ao_stranded o with [] => true | _ => negb (ao_registered o) && status_eqb (ao_status o) Stopped end) &&
        (* C07: every Stop/Poison caller is signalled *)
        forallb (fun d => d) (ao_pills_done o)
   else true).

(** ** Proof-relevant situations reached (for the evidence histogram)
    1 restart  2 stopped  3 dead letter  4 delivery to a later incarnation  5 several stoppers
    6 envelope stranded behind the final flush  7 a client's CAS starts a worker
    8 the flush finds envelopes
    10 the actor pushes to its own ring  11 Inbox.Start on an open inbox (after a restart)
    12 a worker's exit CAS fails (stopped)  13 several workers over the execution *)
Fixpoint tags (sched : list nat) (ls : list alabel) (nclients : nat) : list nat :=
  match sched, ls with
  | i :: sched', l :: ls' =>
    (match l with
     | ACas Idle Running true => if Nat.ltb 0 i && Nat.leb i nclients then [7] else []
     | APush _ => if Nat.eqb i 0 || Nat.ltb nclients i then [10] else []
     | ACas Stopped Starting false => [11]
     | ACas Running Idle false => [12]
     | _ => []
     end) ++ tags sched' ls' nclients
  | _, _ => []
  end.

Fixpoint flush_tags (ls : list alabel) (after_store : bool) : list nat :=
  match ls with
  | [] => []
  | AStore Stopped :: ls' => flush_tags ls' true
  | APopN (_ :: _) true :: ls' => (if after_store then [8] else []) ++ flush_tags ls' after_store
  | _ :: ls' => flush_tags ls' after_store
  end.

Fixpoint dedup (l : list nat) : list nat :=
  match l with [] => [] | x :: l' => if existsb (Nat.eqb x) l' then dedup l' else x :: dedup l' end.

Definition branches (c : case) : list nat :=
  let o := ac_obs c in
  let nclients := length (ac_senders c) + length (ac_poisoners c) in
  dedup (
  (if existsb (fun r => Nat.ltb 1 (fst r)) (ao_recvs o) then [1] else []) ++
  (if existsb (fun r => lmsg_eqb (snd r) LStopped) (ao_recvs o) then [2] else []) ++
  (match ao_dead o with [] => [] | _ => [3] end) ++
  (if existsb (fun r => Nat.ltb 1 (fst r) && match snd r with LUser _ => true | _ => false end) (ao_recvs o) then [4] else []) ++
  (if Nat.ltb 1 (length (ac_poisoners c)) then [5] else []) ++
  (match ao_stranded o with [] => [] | _ => [6] end) ++
  tags (ac_sched c) (ac_labels c) nclients ++ flush_tags (ac_labels c) false ++
  (if Nat.ltb (S (S nclients)) (S (list_max (ac_sched c))) then [13] else [])).

Fixpoint failing {A} (f : A -> bool) (i : nat) (l : list A) : list nat :=
  match l with [] => [] | a :: l' => (if f a then [] else [i]) ++ failing f (S i) l' end.

Definition report (cs : list case) : list nat * list nat * list (list nat) :=
  (failing corr 0 cs, failing oracle 0 cs, map branches cs).
