(** Proofs about the registry models (Registry.v): the inductive invariant of
    the interleaving model and the C10 theorems; the duplicate-spawn and
    respawn lemmas of the sequential machine. *)
From stdpp Require Import list sets.
From HV Require Import Registry.

Lemma mem_true x l : mem x l = true <-> x ∈ l.
Proof.
  unfold mem. rewrite existsb_exists. split.
  - intros (y & Hy & He). apply Nat.eqb_eq in He. subst. by apply elem_of_list_In.
  - intros H. exists x. split; [by apply elem_of_list_In | apply Nat.eqb_refl].
Qed.
Lemma mem_false x l : mem x l = false <-> x ∉ l.
Proof.
  split.
  - intros H Hin%mem_true. congruence.
  - intros H. destruct (mem x l) eqn:E; [|done]. by apply mem_true in E.
Qed.

Lemma fupd_eq {A} (f : nat -> A) k v : fupd f k v k = v.
Proof. unfold fupd. by rewrite Nat.eqb_refl. Qed.
Lemma fupd_ne {A} (f : nat -> A) k v x : x <> k -> fupd f k v x = f x.
Proof. unfold fupd. intros. destruct (Nat.eqb_spec x k); congruence. Qed.

(** * the interleaving model *)

(* the process a thread is in the middle of working on *)
Definition pend (th : thread) : option nat :=
  match th.1 with MIdle => None | MStart p => Some p | MDup p => Some p | MRem p _ => Some p end.

Record Inv (s : cst) : Prop := {
  inv_reg : forall i p, c_reg s i = Some p -> c_ids s !! p = Some i /\ p ∈ c_won s /\ p ∉ c_removed s;
  inv_entry : forall p i, p ∈ c_won s -> p ∉ c_removed s -> c_ids s !! p = Some i -> c_reg s i = Some p;
  inv_won_lt : forall p, p ∈ c_won s -> p < length (c_ids s);
  inv_started : forall p, p ∈ c_started s -> p ∈ c_won s;
  inv_stopped : forall p, p ∈ c_stopped s -> p ∈ c_started s;
  inv_removed : forall p, p ∈ c_removed s -> p ∈ c_stopped s;
  inv_mstart : forall t p rest, c_thr s !! t = Some (MStart p, rest) -> p ∈ c_won s /\ p ∉ c_started s;
  inv_mrem : forall t p i rest, c_thr s !! t = Some (MRem p i, rest) ->
                                p ∈ c_stopped s /\ p ∉ c_removed s /\ c_ids s !! p = Some i;
  inv_mdup : forall t p rest, c_thr s !! t = Some (MDup p, rest) ->
                              p ∉ c_won s /\ p < length (c_ids s) /\ p ∉ c_dup s;
  inv_pend_uniq : forall t1 t2 th1 th2 p, c_thr s !! t1 = Some th1 -> c_thr s !! t2 = Some th2 ->
                                         pend th1 = Some p -> pend th2 = Some p -> t1 = t2;
  inv_dup : forall p, p ∈ c_dup s -> p ∉ c_won s /\ p < length (c_ids s);
  inv_dup_nodup : NoDup (c_dup s);
  inv_won_nodup : NoDup (c_won s);
  inv_loser : forall p, p < length (c_ids s) -> p ∉ c_won s ->
                        p ∈ c_dup s \/ exists t rest, c_thr s !! t = Some (MDup p, rest);
  inv_winner : forall p, p ∈ c_won s ->
                         p ∈ c_started s \/ exists t rest, c_thr s !! t = Some (MStart p, rest)
}.

Lemma Inv_init progs : Inv (cinit progs).
Proof.
  split; simpl; try (intros; set_solver); try apply NoDup_nil_2.
  - intros t p rest H. apply list_lookup_fmap_inv in H as (? & ? & ?). done.
  - intros t p i rest H. apply list_lookup_fmap_inv in H as (? & ? & ?). done.
  - intros t p rest H. apply list_lookup_fmap_inv in H as (? & ? & ?). done.
  - intros t1 t2 th1 th2 p H. apply list_lookup_fmap_inv in H as (? & -> & ?). done.
  - intros; lia.
Qed.

Lemma pend_lt s t th p : Inv s -> c_thr s !! t = Some th -> pend th = Some p -> p < length (c_ids s).
Proof.
  intros I H Hp. destruct th as [[| q | q | q i] rest]; simpl in Hp; try done; injection Hp as ->.
  - apply (inv_mstart _ I) in H as [H _]. by apply (inv_won_lt _ I).
  - by apply (inv_mdup _ I) in H as (_ & H & _).
  - apply (inv_mrem _ I) in H as (H & _ & _).
    by apply (inv_won_lt _ I), (inv_started _ I), (inv_stopped _ I).
Qed.

Ltac ins H := apply list_lookup_insert_Some in H as [(-> & H & ?) | (? & H)]; [try (by inversion H) | ].

Lemma lookup_snoc_lt {A} (l : list A) x p y : (l ++ [x]) !! p = Some y -> p < length l -> l !! p = Some y.
Proof. intros H Hl. by rewrite lookup_app_l in H. Qed.

Lemma Inv_step s t s' l : Inv s -> cstep s t = Some (s', l) -> Inv s'.
Proof.
  intros I Hs. unfold cstep in Hs.
  destruct (c_thr s !! t) as [[m prog]|] eqn:Ht; [|done].
  assert (Hlen : t < length (c_thr s)) by (by eapply lookup_lt_Some).
  destruct m as [| p | p | p i].
  - destruct prog as [|[i|i|i] rest]; [done| | |].
    + (* add *)
      destruct (c_reg s i) as [q|] eqn:Hr; injection Hs as <- <-.
      * (* lost *)
        split; simpl.
        -- intros i' p' H. destruct (inv_reg _ I _ _ H) as (H1 & H2 & H3). split_and!; try done.
           by apply lookup_app_l_Some.
        -- intros p' i' Hw Hnr Hi. apply (inv_entry _ I); try done.
           eapply lookup_snoc_lt; [done|]. by apply (inv_won_lt _ I).
        -- intros p' Hw. rewrite app_length. simpl. apply (inv_won_lt _ I) in Hw. lia.
        -- apply (inv_started _ I).
        -- apply (inv_stopped _ I).
        -- apply (inv_removed _ I).
        -- intros t0 p' rest' H. ins H. by apply (inv_mstart _ I) in H.
        -- intros t0 p' i' rest' H. ins H. apply (inv_mrem _ I) in H as (?&?&?). split_and!; try done.
           by apply lookup_app_l_Some.
        -- intros t0 p' rest' H. apply list_lookup_insert_Some in H as [(-> & H & ?) | (? & H)].
           ++ injection H as <- <-. split_and!.
              ** intros Hw. apply (inv_won_lt _ I) in Hw. lia.
              ** rewrite app_length. simpl. lia.
              ** intros Hd. apply (inv_dup _ I) in Hd as [_ Hd]. lia.
           ++ apply (inv_mdup _ I) in H as (?&?&?). split_and!; try done. rewrite app_length. simpl. lia.
        -- intros t1 t2 th1 th2 p' H1 H2 P1 P2.
           apply list_lookup_insert_Some in H1 as [(-> & H1 & ?) | (? & H1)];
           apply list_lookup_insert_Some in H2 as [(-> & H2 & ?) | (? & H2)]; try done.
           ++ subst th1. simpl in P1. injection P1 as <-.
              pose proof (pend_lt _ _ _ _ I H2 P2). lia.
           ++ subst th2. simpl in P2. injection P2 as <-.
              pose proof (pend_lt _ _ _ _ I H1 P1). lia.
           ++ by eapply (inv_pend_uniq _ I).
        -- intros p' Hd. apply (inv_dup _ I) in Hd as [? ?]. split; [done|]. rewrite app_length. simpl. lia.
        -- apply (inv_dup_nodup _ I).
        -- apply (inv_won_nodup _ I).
        -- intros p' Hlt Hnw. rewrite app_length in Hlt. simpl in Hlt.
           destruct (decide (p' = length (c_ids s))) as [->|Hne].
           ++ right. exists t, rest. by rewrite list_lookup_insert.
           ++ destruct (inv_loser _ I p') as [?|(t0 & r0 & H0)]; [lia|done|by left|].
              right. exists t0, r0. rewrite list_lookup_insert_ne; [done|]. intros ->. congruence.
        -- intros p' Hw. destruct (inv_winner _ I p' Hw) as [?|(t0 & r0 & H0)]; [by left|].
           right. exists t0, r0. rewrite list_lookup_insert_ne; [done|]. intros ->. congruence.
      * (* won *)
        set (p := length (c_ids s)).
        assert (Hfresh_won : p ∉ c_won s) by (intros Hw; apply (inv_won_lt _ I) in Hw; unfold p in Hw; lia).
        split; simpl.
        -- intros i' p' H. destruct (Nat.eqb_spec i' i) as [->|Hne].
           ++ rewrite fupd_eq in H. injection H as <-. split_and!.
              ** unfold p. by rewrite lookup_app_r, Nat.sub_diag by lia.
              ** set_solver.
              ** intros Hrm. apply Hfresh_won.
                 by apply (inv_started _ I), (inv_stopped _ I), (inv_removed _ I).
           ++ rewrite fupd_ne in H by done. destruct (inv_reg _ I _ _ H) as (H1 & H2 & H3).
              split_and!; [by apply lookup_app_l_Some|set_solver|done].
        -- intros p' i' Hw Hnr Hi. apply elem_of_cons in Hw as [->|Hw].
           ++ unfold p in Hi. rewrite lookup_app_r, Nat.sub_diag in Hi by lia. injection Hi as <-.
              by rewrite fupd_eq.
           ++ pose proof (inv_won_lt _ I _ Hw) as Hlt.
              apply lookup_snoc_lt in Hi; [|done].
              pose proof (inv_entry _ I _ _ Hw Hnr Hi) as He.
              destruct (Nat.eqb_spec i' i) as [->|Hne]; [congruence|by rewrite fupd_ne].
        -- intros p' Hw. rewrite app_length. simpl. apply elem_of_cons in Hw as [->|Hw]; [unfold p; lia|].
           apply (inv_won_lt _ I) in Hw. lia.
        -- intros p' H. apply (inv_started _ I) in H. set_solver.
        -- apply (inv_stopped _ I).
        -- apply (inv_removed _ I).
        -- intros t0 p' rest' H. apply list_lookup_insert_Some in H as [(-> & H & ?) | (? & H)].
           ++ injection H as <- <-. split; [set_solver|].
              intros Hst. by apply Hfresh_won, (inv_started _ I).
           ++ apply (inv_mstart _ I) in H as [? ?]. split; [set_solver|done].
        -- intros t0 p' i' rest' H. ins H. apply (inv_mrem _ I) in H as (?&?&?). split_and!; try done.
           by apply lookup_app_l_Some.
        -- intros t0 p' rest' H. ins H. pose proof (pend_lt _ _ _ _ I H eq_refl) as Hlt.
           apply (inv_mdup _ I) in H as (?&?&?). split_and!; try done.
           ++ intros [->|?]%elem_of_cons; [unfold p in Hlt; lia|done].
           ++ rewrite app_length. simpl. lia.
        -- intros t1 t2 th1 th2 p' H1 H2 P1 P2.
           apply list_lookup_insert_Some in H1 as [(-> & H1 & ?) | (? & H1)];
           apply list_lookup_insert_Some in H2 as [(-> & H2 & ?) | (? & H2)]; try done.
           ++ subst th1. simpl in P1. injection P1 as <-.
              pose proof (pend_lt _ _ _ _ I H2 P2). unfold p in *. lia.
           ++ subst th2. simpl in P2. injection P2 as <-.
              pose proof (pend_lt _ _ _ _ I H1 P1). unfold p in *. lia.
           ++ by eapply (inv_pend_uniq _ I).
        -- intros p' Hd. apply (inv_dup _ I) in Hd as [? Hlt]. split.
           ++ intros [->|?]%elem_of_cons; [unfold p in Hlt; lia|done].
           ++ rewrite app_length. simpl. lia.
        -- apply (inv_dup_nodup _ I).
        -- apply NoDup_cons. split; [done|apply (inv_won_nodup _ I)].
        -- intros p' Hlt Hnw. rewrite app_length in Hlt. simpl in Hlt.
           assert (Hnp : p' <> p) by set_solver. assert (Hnw' : p' ∉ c_won s) by set_solver.
           destruct (inv_loser _ I p') as [?|(t0 & r0 & H0)]; [unfold p in *; lia|done|by left|].
           right. exists t0, r0. rewrite list_lookup_insert_ne; [done|]. intros ->. congruence.
        -- intros p' Hw. apply elem_of_cons in Hw as [->|Hw].
           ++ right. exists t, rest. by rewrite list_lookup_insert.
           ++ destruct (inv_winner _ I p' Hw) as [?|(t0 & r0 & H0)]; [by left|].
              right. exists t0, r0. rewrite list_lookup_insert_ne; [done|]. intros ->. congruence.
    + (* try-stop *)
      assert (Hnone : forall s1, s1 = {| c_ids := c_ids s; c_reg := c_reg s; c_won := c_won s; c_started := c_started s;
                        c_stopped := c_stopped s; c_removed := c_removed s; c_dup := c_dup s;
                        c_gets := c_gets s; c_thr := <[t := (MIdle, rest)]> (c_thr s) |} -> Inv s1).
      { intros s1 ->. split; simpl; try apply I.
        - intros t0 p' rest' H. ins H. by apply (inv_mstart _ I) in H.
        - intros t0 p' i' rest' H. ins H. by apply (inv_mrem _ I) in H.
        - intros t0 p' rest' H. ins H. by apply (inv_mdup _ I) in H.
        - intros t1 t2 th1 th2 p' H1 H2 P1 P2.
          apply list_lookup_insert_Some in H1 as [(-> & H1 & ?) | (? & H1)]; [by subst th1|].
          apply list_lookup_insert_Some in H2 as [(-> & H2 & ?) | (? & H2)]; [by subst th2|].
          by eapply (inv_pend_uniq _ I).
        - intros p' Hlt Hnw. destruct (inv_loser _ I p' Hlt Hnw) as [?|(t0 & r0 & H0)]; [by left|].
          right. exists t0, r0. rewrite list_lookup_insert_ne; [done|]. intros ->. congruence.
        - intros p' Hw. destruct (inv_winner _ I p' Hw) as [?|(t0 & r0 & H0)]; [by left|].
          right. exists t0, r0. rewrite list_lookup_insert_ne; [done|]. intros ->. congruence. }
      destruct (c_reg s i) as [p|] eqn:Hr; [|injection Hs as <- <-; by apply Hnone].
      destruct (mem p (c_started s) && negb (mem p (c_stopped s))) eqn:Hlive;
        [|injection Hs as <- <-; by apply Hnone].
      injection Hs as <- <-. apply andb_true_iff in Hlive as [Hst Hns].
      apply mem_true in Hst. apply negb_true_iff, mem_false in Hns.
      destruct (inv_reg _ I _ _ Hr) as (Hid & Hw & Hnr).
      split; simpl; try apply I.
      * intros p' [->|H]%elem_of_cons; [done|by apply (inv_stopped _ I)].
      * intros p' H. apply (inv_removed _ I) in H. set_solver.
      * intros t0 p' rest' H. ins H. by apply (inv_mstart _ I) in H.
      * intros t0 p' i' rest' H. apply list_lookup_insert_Some in H as [(-> & H & ?) | (? & H)].
        -- injection H as <- <- <-. split_and!; [set_solver|done|done].
        -- apply (inv_mrem _ I) in H as (?&?&?). split_and!; [set_solver|done|done].
      * intros t0 p' rest' H. ins H. by apply (inv_mdup _ I) in H.
      * intros t1 t2 th1 th2 p' H1 H2 P1 P2.
        assert (Hother : forall t0 th0, c_thr s !! t0 = Some th0 -> pend th0 = Some p -> False).
        { intros t0 [[|q|q|q j] r0] H0 P0; simpl in P0; try done; injection P0 as ->.
          - apply (inv_mstart _ I) in H0 as [_ ?]. done.
          - apply (inv_mdup _ I) in H0 as (?&_). done.
          - apply (inv_mrem _ I) in H0 as (?&_). done. }
        apply list_lookup_insert_Some in H1 as [(-> & H1 & ?) | (? & H1)];
        apply list_lookup_insert_Some in H2 as [(-> & H2 & ?) | (? & H2)]; try done.
        -- subst th1. simpl in P1. injection P1 as <-. by destruct (Hother _ _ H2 P2).
        -- subst th2. simpl in P2. injection P2 as <-. by destruct (Hother _ _ H1 P1).
        -- by eapply (inv_pend_uniq _ I).
      * intros p' Hlt Hnw. destruct (inv_loser _ I p' Hlt Hnw) as [?|(t0 & r0 & H0)]; [by left|].
        right. exists t0, r0. rewrite list_lookup_insert_ne; [done|]. intros ->. congruence.
      * intros p' Hw'. destruct (inv_winner _ I p' Hw') as [?|(t0 & r0 & H0)]; [by left|].
        right. exists t0, r0. rewrite list_lookup_insert_ne; [done|]. intros ->. congruence.
    + (* get *)
      injection Hs as <- <-. split; simpl; try apply I.
      * intros t0 p' rest' H. ins H. by apply (inv_mstart _ I) in H.
      * intros t0 p' i' rest' H. ins H. by apply (inv_mrem _ I) in H.
      * intros t0 p' rest' H. ins H. by apply (inv_mdup _ I) in H.
      * intros t1 t2 th1 th2 p' H1 H2 P1 P2.
        apply list_lookup_insert_Some in H1 as [(-> & H1 & ?) | (? & H1)]; [by subst th1|].
        apply list_lookup_insert_Some in H2 as [(-> & H2 & ?) | (? & H2)]; [by subst th2|].
        by eapply (inv_pend_uniq _ I).
      * intros p' Hlt Hnw. destruct (inv_loser _ I p' Hlt Hnw) as [?|(t0 & r0 & H0)]; [by left|].
        right. exists t0, r0. rewrite list_lookup_insert_ne; [done|]. intros ->. congruence.
      * intros p' Hw. destruct (inv_winner _ I p' Hw) as [?|(t0 & r0 & H0)]; [by left|].
        right. exists t0, r0. rewrite list_lookup_insert_ne; [done|]. intros ->. congruence.
  - (* Start *)
    injection Hs as <- <-. destruct (inv_mstart _ I _ _ _ Ht) as [Hw Hns].
    split; simpl; try apply I.
    + intros p' [->|H]%elem_of_cons; [done|by apply (inv_started _ I)].
    + intros p' H. apply (inv_stopped _ I) in H. set_solver.
    + intros t0 p' rest' H. ins H. destruct (inv_mstart _ I _ _ _ H) as [? ?]. split; [done|].
      intros [->|?]%elem_of_cons; [|done].
      by pose proof (inv_pend_uniq _ I _ _ _ _ _ H Ht eq_refl eq_refl).
    + intros t0 p' i' rest' H. ins H. by apply (inv_mrem _ I) in H.
    + intros t0 p' rest' H. ins H. by apply (inv_mdup _ I) in H.
    + intros t1 t2 th1 th2 p' H1 H2 P1 P2.
      apply list_lookup_insert_Some in H1 as [(-> & H1 & ?) | (? & H1)]; [by subst th1|].
      apply list_lookup_insert_Some in H2 as [(-> & H2 & ?) | (? & H2)]; [by subst th2|].
      by eapply (inv_pend_uniq _ I).
    + intros p' Hlt Hnw. destruct (inv_loser _ I p' Hlt Hnw) as [?|(t0 & r0 & H0)]; [by left|].
      right. exists t0, r0. rewrite list_lookup_insert_ne; [done|]. intros ->. congruence.
    + intros p' Hw'. destruct (decide (p' = p)) as [->|Hne]; [left; set_solver|].
      destruct (inv_winner _ I p' Hw') as [?|(t0 & r0 & H0)]; [left; set_solver|].
      right. exists t0, r0. rewrite list_lookup_insert_ne; [done|]. intros ->. congruence.
  - (* duplicate event *)
    injection Hs as <- <-. destruct (inv_mdup _ I _ _ _ Ht) as (Hnw & Hlt & Hnd).
    split; simpl; try apply I.
    + intros t0 p' rest' H. ins H. by apply (inv_mstart _ I) in H.
    + intros t0 p' i' rest' H. ins H. by apply (inv_mrem _ I) in H.
    + intros t0 p' rest' H. ins H. destruct (inv_mdup _ I _ _ _ H) as (?&?&?). split_and!; try done.
      intros [->|?]%elem_of_cons; [|done].
      by pose proof (inv_pend_uniq _ I _ _ _ _ _ H Ht eq_refl eq_refl).
    + intros t1 t2 th1 th2 p' H1 H2 P1 P2.
      apply list_lookup_insert_Some in H1 as [(-> & H1 & ?) | (? & H1)]; [by subst th1|].
      apply list_lookup_insert_Some in H2 as [(-> & H2 & ?) | (? & H2)]; [by subst th2|].
      by eapply (inv_pend_uniq _ I).
    + intros p' [->|H]%elem_of_cons; [done|by apply (inv_dup _ I)].
    + apply NoDup_cons. split; [done|apply (inv_dup_nodup _ I)].
    + intros p' Hlt' Hnw'. destruct (decide (p' = p)) as [->|Hne]; [left; set_solver|].
      destruct (inv_loser _ I p' Hlt' Hnw') as [?|(t0 & r0 & H0)]; [left; set_solver|].
      right. exists t0, r0. rewrite list_lookup_insert_ne; [done|]. intros ->. congruence.
    + intros p' Hw. destruct (inv_winner _ I p' Hw) as [?|(t0 & r0 & H0)]; [by left|].
      right. exists t0, r0. rewrite list_lookup_insert_ne; [done|]. intros ->. congruence.
  - (* Remove *)
    injection Hs as <- <-. destruct (inv_mrem _ I _ _ _ _ Ht) as (Hsp & Hnr & Hid).
    assert (Hw : p ∈ c_won s) by (by apply (inv_started _ I), (inv_stopped _ I)).
    pose proof (inv_entry _ I _ _ Hw Hnr Hid) as Hreg.
    split; simpl; try apply I.
    + intros i' p' H. destruct (Nat.eqb_spec i' i) as [->|Hne]; [by rewrite fupd_eq in H|].
      rewrite fupd_ne in H by done. destruct (inv_reg _ I _ _ H) as (H1 & H2 & H3). split_and!; try done.
      intros [->|?]%elem_of_cons; [congruence|done].
    + intros p' i' Hw' Hnr' Hi'. assert (Hnp : p' <> p) by set_solver. assert (Hnr0 : p' ∉ c_removed s) by set_solver.
      pose proof (inv_entry _ I _ _ Hw' Hnr0 Hi') as He.
      destruct (Nat.eqb_spec i' i) as [->|Hne]; [congruence|by rewrite fupd_ne].
    + intros p' [->|H]%elem_of_cons; [done|by apply (inv_removed _ I)].
    + intros t0 p' rest' H. ins H. by apply (inv_mstart _ I) in H.
    + intros t0 p' i' rest' H. ins H. destruct (inv_mrem _ I _ _ _ _ H) as (?&?&?). split_and!; try done.
      intros [->|?]%elem_of_cons; [|done].
      by pose proof (inv_pend_uniq _ I _ _ _ _ _ H Ht eq_refl eq_refl).
    + intros t0 p' rest' H. ins H. by apply (inv_mdup _ I) in H.
    + intros t1 t2 th1 th2 p' H1 H2 P1 P2.
      apply list_lookup_insert_Some in H1 as [(-> & H1 & ?) | (? & H1)]; [by subst th1|].
      apply list_lookup_insert_Some in H2 as [(-> & H2 & ?) | (? & H2)]; [by subst th2|].
      by eapply (inv_pend_uniq _ I).
    + intros p' Hlt Hnw. destruct (inv_loser _ I p' Hlt Hnw) as [?|(t0 & r0 & H0)]; [by left|].
      right. exists t0, r0. rewrite list_lookup_insert_ne; [done|]. intros ->. congruence.
    + intros p' Hw'. destruct (inv_winner _ I p' Hw') as [?|(t0 & r0 & H0)]; [by left|].
      right. exists t0, r0. rewrite list_lookup_insert_ne; [done|]. intros ->. congruence.
Qed.

Lemma Inv_reach progs s : creach (cinit progs) s -> Inv s.
Proof. induction 1; [apply Inv_init | by eapply Inv_step]. Qed.

(** ** C10, first clause: at most one live process per id, and it is the
    registry entry; lookups return the entry *)
Lemma live_is_entry s p : Inv s -> clive s p -> cregistered s p.
Proof.
  intros I [Hst Hns].
  pose proof (inv_started _ I _ Hst) as Hw.
  destruct (lookup_lt_is_Some_2 (c_ids s) p (inv_won_lt _ I _ Hw)) as [i Hi].
  exists i. split; [done|]. apply (inv_entry _ I); try done.
  intros Hr. by apply Hns, (inv_removed _ I).
Qed.

Theorem unique_live progs s :
  creach (cinit progs) s ->
  (forall p q, clive s p -> clive s q -> c_ids s !! p = c_ids s !! q -> p = q) /\
  (forall p, clive s p -> cregistered s p) /\
  (forall i p, c_reg s i = Some p -> c_ids s !! p = Some i /\ p ∈ c_won s /\ p ∉ c_removed s).
Proof.
  intros R. pose proof (Inv_reach _ _ R) as I. split_and!.
  - intros p q Lp Lq E.
    destruct (live_is_entry _ _ I Lp) as (i & Hi & Hr), (live_is_entry _ _ I Lq) as (j & Hj & Hr').
    rewrite Hi, Hj in E. injection E as ->. congruence.
  - intros p. by apply live_is_entry.
  - apply (inv_reg _ I).
Qed.

(* what a lookup returns is the entry at that moment *)
Lemma get_returns_entry s t s' i r : cstep s t = Some (s', LGet i r) -> r = c_reg s i /\ c_reg s' = c_reg s.
Proof.
  unfold cstep. destruct (c_thr s !! t) as [[[|p|p|p j] [|[j'|j'|j'] rest]]|]; try done;
    repeat case_match; intros [= <- ?]; try done; by simplify_eq.
Qed.

(* so a lookup finds the process exactly while it is registered *)
Corollary get_iff_registered progs s t s' i r p :
  creach (cinit progs) s -> cstep s t = Some (s', LGet i r) -> c_ids s !! p = Some i ->
  (r = Some p <-> cregistered s p).
Proof.
  intros R Hs Hi. apply get_returns_entry in Hs as [-> _]. split.
  - intros Hr. by exists i.
  - intros (j & Hj & Hr). congruence.
Qed.

(** ** C10: of the adds of one id exactly one wins (while nobody stops that id) *)
Definition nostop (i : id) (s : cst) : Prop :=
  (forall t m prog, c_thr s !! t = Some (m, prog) -> i ∉ stops_of prog /\ forall p, m <> MRem p i) /\
  (forall p, p ∈ c_stopped s -> c_ids s !! p <> Some i) /\
  ((exists p, c_ids s !! p = Some i) -> exists w, c_reg s i = Some w).

Lemma stops_of_cons o rest i : i ∉ stops_of (o :: rest) -> i ∉ stops_of rest.
Proof. simpl. set_solver. Qed.

Lemma nostop_init i progs : (forall prog, prog ∈ progs -> i ∉ stops_of prog) -> nostop i (cinit progs).
Proof.
  intros H. split_and!; simpl.
  - intros t m prog Ht. apply list_lookup_fmap_inv in Ht as (pr & [= -> ->] & Hl).
    split; [|done]. apply H. by eapply elem_of_list_lookup_2.
  - set_solver.
  - intros [p Hp]. done.
Qed.

Lemma nostop_step i s t s' l : Inv s -> nostop i s -> cstep s t = Some (s', l) -> nostop i s'.
Proof.
  intros I (N1 & N2 & N3) Hs. unfold cstep in Hs.
  destruct (c_thr s !! t) as [[m prog]|] eqn:Ht; [|done].
  destruct (N1 _ _ _ Ht) as [Hns Hnm].
  assert (Hthr : forall m' rest, (exists o, prog = o :: rest) \/ prog = rest -> (forall p, m' <> MRem p i) ->
            forall t0 m0 prog0, <[t := (m', rest)]> (c_thr s) !! t0 = Some (m0, prog0) ->
                                i ∉ stops_of prog0 /\ forall p, m0 <> MRem p i).
  { intros m' rest Hp Hm' t0 m0 prog0 H0.
    apply list_lookup_insert_Some in H0 as [(-> & [= <- <-] & ?) | (? & H0)]; [|by eapply N1].
    split; [|done]. destruct Hp as [[o ->]| ->]; [by eapply stops_of_cons|done]. }
  destruct m as [| p | p | p j].
  - destruct prog as [|[j|j|j] rest]; [done| | |].
    + destruct (c_reg s j) as [q|] eqn:Hr; injection Hs as <- <-; split_and!; simpl.
      * apply Hthr; [left; eauto|done].
      * intros p Hp. pose proof (inv_won_lt _ I p (inv_started _ I _ (inv_stopped _ I _ Hp))).
        rewrite lookup_app_l by done. by apply N2.
      * intros [p Hp]. destruct (decide (i = j)) as [->|Hne]; [eauto|].
        apply N3. exists p. apply lookup_app_Some in Hp as [?|[? Hp]]; [done|].
        apply list_lookup_singleton_Some in Hp as [_ ?]. congruence.
      * apply Hthr; [left; eauto|done].
      * intros p Hp. pose proof (inv_won_lt _ I p (inv_started _ I _ (inv_stopped _ I _ Hp))).
        rewrite lookup_app_l by done. by apply N2.
      * intros [p Hp]. destruct (Nat.eqb_spec i j) as [->|Hne]; [rewrite fupd_eq; eauto|].
        rewrite fupd_ne by done. apply N3. exists p. apply lookup_app_Some in Hp as [?|[? Hp]]; [done|].
        apply list_lookup_singleton_Some in Hp as [_ ?]. congruence.
    + assert (j <> i) by (simpl in Hns; set_solver).
      destruct (c_reg s j) as [p|] eqn:Hr.
      * destruct (mem p (c_started s) && negb (mem p (c_stopped s))); injection Hs as <- <-; split_and!; simpl;
          try done; try (apply Hthr; [left; eauto|done]).
        -- apply Hthr; [left; eauto|]. intros p' [= _ ?]. done.
        -- intros p' [->|Hp]%elem_of_cons; [|by apply N2].
           destruct (inv_reg _ I _ _ Hr) as (Hid & _). congruence.
      * injection Hs as <- <-; split_and!; simpl; try done. apply Hthr; [left; eauto|done].
    + injection Hs as <- <-; split_and!; simpl; try done. apply Hthr; [left; eauto|done].
  - injection Hs as <- <-; split_and!; simpl; try done. apply Hthr; [by right|done].
  - injection Hs as <- <-; split_and!; simpl; try done. apply Hthr; [by right|done].
  - injection Hs as <- <-. assert (j <> i) by (intros ->; by eapply Hnm). split_and!; simpl; try done.
    + apply Hthr; [by right|done].
    + rewrite fupd_ne by done. done.
Qed.

Lemma nostop_reach i progs s :
  (forall prog, prog ∈ progs -> i ∉ stops_of prog) -> creach (cinit progs) s -> nostop i s.
Proof.
  intros H. induction 1; [by apply nostop_init|].
  eapply nostop_step; [|done|done]. by eapply Inv_reach.
Qed.

Theorem one_winner progs i s :
  (forall prog, prog ∈ progs -> i ∉ stops_of prog) ->
  creach (cinit progs) s ->
  (exists p, c_ids s !! p = Some i) ->       (* some add of id i has taken the lock *)
  exists w, c_ids s !! w = Some i /\ w ∈ c_won s /\ c_reg s i = Some w /\
            (w ∈ c_started s \/ exists t rest, c_thr s !! t = Some (MStart w, rest)) /\
            forall p, c_ids s !! p = Some i -> p <> w ->
                      p ∉ c_won s /\ p ∉ c_started s /\
                      (p ∈ c_dup s \/ exists t rest, c_thr s !! t = Some (MDup p, rest)).
Proof.
  intros Hns R Hex. pose proof (Inv_reach _ _ R) as I.
  destruct (nostop_reach _ _ _ Hns R) as (N1 & N2 & N3).
  destruct (N3 Hex) as [w Hw]. destruct (inv_reg _ I _ _ Hw) as (Hid & Hwon & Hnr).
  exists w. split_and!; try done; [by apply (inv_winner _ I)|].
  intros p Hp Hne.
  assert (Hnw : p ∉ c_won s).
  { intros Hpw. assert (Hnrp : p ∉ c_removed s).
    { intros Hr. apply (inv_removed _ I) in Hr. by apply (N2 p) in Hr. }
    pose proof (inv_entry _ I _ _ Hpw Hnrp Hp). congruence. }
  split_and!; [done| |].
  - intros Hst. by apply Hnw, (inv_started _ I).
  - apply (inv_loser _ I); [by eapply lookup_lt_Some|done].
Qed.

(* every add that was issued has been executed when all threads are done:
   the processes created for id i are as many as the adds of i in the programs *)
Fixpoint count_id (i : id) (l : list id) : nat :=
  match l with [] => 0 | j :: l' => (if Nat.eqb j i then 1 else 0) + count_id i l' end.
Definition pending_adds (i : id) (thr : list thread) : nat :=
  sum_list (map (fun th : thread => count_id i (adds_of th.2)) thr).

Lemma sum_list_insert {A} (f : A -> nat) l t x y :
  l !! t = Some x -> sum_list (map f (<[t := y]> l)) + f x = sum_list (map f l) + f y.
Proof.
  revert t. induction l as [|a l IH]; intros [|t] H; simpl in *; try done.
  - injection H as ->. lia.
  - specialize (IH _ H). lia.
Qed.

Lemma count_id_app i l1 l2 : count_id i (l1 ++ l2) = count_id i l1 + count_id i l2.
Proof. induction l1 as [|j l1 IH]; simpl; [done|]. rewrite IH. lia. Qed.

Lemma count_id_pos i l : 0 < count_id i l -> exists p, l !! p = Some i.
Proof.
  induction l as [|j l IH]; simpl; [lia|]. destruct (Nat.eqb_spec j i) as [->|Hne].
  - intros _. by exists 0.
  - intros H. destruct IH as [p Hp]; [lia|]. by exists (S p).
Qed.

Lemma adds_conserved i s t s' l :
  cstep s t = Some (s', l) ->
  count_id i (c_ids s') + pending_adds i (c_thr s') = count_id i (c_ids s) + pending_adds i (c_thr s).
Proof.
  unfold cstep. destruct (c_thr s !! t) as [[m prog]|] eqn:Ht; [|done]. unfold pending_adds.
  pose proof (fun y => sum_list_insert (fun th : thread => count_id i (adds_of th.2)) _ _ _ y Ht) as E.
  simpl in E.
  Ltac use_E E := match goal with |- context [<[_ := ?y]> _] => specialize (E y); simpl in E end.
  destruct m as [| p | p | p j]; [destruct prog as [|[j|j|j] rest]; [done| | |]|..].
  - destruct (c_reg s j); intros [= <- <-]; simpl; use_E E; rewrite count_id_app;
      simpl in *; revert E; destruct (Nat.eqb_spec j i); simpl.
    all: unfold thread in *; lia.
  - repeat case_match; intros [= <- <-]; simpl; use_E E; unfold thread in *; lia.
  - intros [= <- <-]; simpl; use_E E; unfold thread in *; lia.
  - intros [= <- <-]; simpl; use_E E; unfold thread in *; lia.
  - intros [= <- <-]; simpl; use_E E; unfold thread in *; lia.
  - intros [= <- <-]; simpl; use_E E; unfold thread in *; lia.
Qed.

Lemma adds_conserved_reach i progs s :
  creach (cinit progs) s ->
  count_id i (c_ids s) + pending_adds i (c_thr s) = count_id i (flat_map adds_of progs).
Proof.
  induction 1.
  - simpl. unfold pending_adds. rewrite map_map. simpl. induction progs as [|a l IH]; [done|].
    simpl. rewrite count_id_app. simpl in *. lia.
  - erewrite adds_conserved; done.
Qed.

Lemma terminal_no_pending i s : cterminal s = true -> pending_adds i (c_thr s) = 0.
Proof.
  unfold cterminal, pending_adds. induction (c_thr s) as [|[m prog] l IH]; [done|].
  simpl. intros [H1 H2]%andb_true_iff. rewrite (IH H2).
  destruct m, prog; try done.
Qed.

Lemma terminal_threads s t m prog : cterminal s = true -> c_thr s !! t = Some (m, prog) -> m = MIdle /\ prog = [].
Proof.
  unfold cterminal. rewrite forallb_forall. intros H Ht.
  apply elem_of_list_lookup_2, elem_of_list_In, H in Ht. by destruct m, prog.
Qed.

(* the statement at the end of a run: k adds of id i and no stop of i ⇒ k
   processes were created for i, exactly one of them ran Start (once), and
   every other one ran nothing and got its ActorDuplicateIdEvent (once) *)
Theorem one_winner_terminal progs i s :
  (forall prog, prog ∈ progs -> i ∉ stops_of prog) ->
  creach (cinit progs) s -> cterminal s = true ->
  0 < count_id i (flat_map adds_of progs) ->
  count_id i (c_ids s) = count_id i (flat_map adds_of progs) /\
  NoDup (c_dup s) /\ NoDup (c_won s) /\
  exists w, c_ids s !! w = Some i /\ w ∈ c_started s /\ c_reg s i = Some w /\
            forall p, c_ids s !! p = Some i -> p <> w -> p ∉ c_started s /\ p ∈ c_dup s.
Proof.
  intros Hns R T Hk. pose proof (Inv_reach _ _ R) as I.
  pose proof (adds_conserved_reach i _ _ R) as Hc. rewrite (terminal_no_pending _ _ T), Nat.add_0_r in Hc.
  split_and!; [done|apply (inv_dup_nodup _ I)|apply (inv_won_nodup _ I)|].
  assert (Hex : exists p, c_ids s !! p = Some i).
  { rewrite <- Hc in Hk. by apply count_id_pos. }
  destruct (one_winner _ _ _ Hns R Hex) as (w & Hid & Hw & Hreg & Hrun & Hothers).
  exists w. split_and!; try done.
  - destruct Hrun as [?|(t & rest & Ht)]; [done|]. by apply (terminal_threads _ _ _ _ T) in Ht as [? _].
  - intros p Hp Hne. destruct (Hothers p Hp Hne) as (_ & Hnst & [?|(t & rest & Ht)]); [done|].
    by apply (terminal_threads _ _ _ _ T) in Ht as [? _].
Qed.

(* respawn in the interleaving model: once Remove has run the id is free, and
   the next add of it wins *)
Lemma remove_frees s t s' p : Inv s -> cstep s t = Some (s', LRem p) ->
  exists i, c_ids s !! p = Some i /\ c_reg s i = Some p /\ c_reg s' i = None.
Proof.
  intros I. unfold cstep. destruct (c_thr s !! t) as [[m prog]|] eqn:Ht; [|done].
  destruct m as [| q | q | q j]; [destruct prog as [|[j|j|j] rest]; [done| | |]|..];
    repeat case_match; intros [= <- ?]; try done. subst q.
  destruct (inv_mrem _ I _ _ _ _ Ht) as (Hsp & Hnr & Hid).
  exists j. split_and!; [done| |simpl; by rewrite fupd_eq].
  apply (inv_entry _ I); try done. by apply (inv_started _ I), (inv_stopped _ I).
Qed.

Lemma add_on_free_id_wins s t rest i :
  c_thr s !! t = Some (MIdle, CAdd i :: rest) -> c_reg s i = None ->
  exists s', cstep s t = Some (s', LAdd i (length (c_ids s)) true) /\
             c_reg s' i = Some (length (c_ids s)) /\ c_thr s' !! t = Some (MStart (length (c_ids s)), rest).
Proof.
  intros Ht Hr. unfold cstep. rewrite Ht, Hr. eexists. split; [done|]. simpl. rewrite fupd_eq. split; [done|].
  apply list_lookup_insert. by eapply lookup_lt_Some.
Qed.

Lemma add_on_taken_id_loses s t rest i q :
  c_thr s !! t = Some (MIdle, CAdd i :: rest) -> c_reg s i = Some q ->
  exists s', cstep s t = Some (s', LAdd i (length (c_ids s)) false) /\
             c_reg s' = c_reg s /\ c_won s' = c_won s /\ c_started s' = c_started s /\
             c_stopped s' = c_stopped s /\ c_removed s' = c_removed s /\
             c_thr s' !! t = Some (MDup (length (c_ids s)), rest).
Proof.
  intros Ht Hr. unfold cstep. rewrite Ht, Hr. eexists. split; [done|]. simpl. split_and!; try done.
  apply list_lookup_insert. by eapply lookup_lt_Some.
Qed.

(* non-vacuity: three spawners of id 7, a stopper and a lookup; the schedule
   lets thread 1 win, thread 0 and 2 lose; then the stopper removes the winner *)
Example three_adders :
  exists s ls, crun (cinit [[CAdd 7]; [CAdd 7]; [CAdd 7]; [CStop 7]; [CGet 7]]) [1; 0; 2; 1; 4; 3; 0; 2; 3] = Some (s, ls) /\
    ls = [LAdd 7 0 true; LAdd 7 1 false; LAdd 7 2 false; LStart 0; LGet 7 (Some 0); LTry 7 (Some 0); LDup 1; LDup 2; LRem 0] /\
    c_started s = [0] /\ c_dup s = [2; 1] /\ c_reg s 7 = None /\ cterminal s = true.
Proof. eexists _, _. split; [vm_compute; reflexivity|]. by vm_compute. Qed.

(* the no-stop premise of [one_winner] is needed: with a stop in between, two
   adds of one id both win (one after the other, never two live at once) *)
Example two_winners_with_stop :
  exists s ls, crun (cinit [[CAdd 7; CStop 7]; [CAdd 7]]) [0; 0; 0; 0; 1; 1] = Some (s, ls) /\
    c_won s = [1; 0] /\ c_started s = [1; 0] /\ c_stopped s = [0] /\ c_reg s 7 = Some 1.
Proof. eexists _, _. split; [vm_compute; reflexivity|]. by vm_compute. Qed.

(** * the sequential machine *)

Lemma stop_tree_S fuel s i :
  stop_tree (S fuel) s i =
  match procs s i with
  | None => s
  | Some r =>
      if p_blocked r || p_stopping r then set_bad s else
      let s1 := foldl (stop_tree fuel) s (kids s i) in
      {| procs := fupd (procs s1) i None;
         kids := match p_parent r with
                 | Some p => fupd (fupd (kids s1) i []) p (set_del i (kids s1 p))
                 | None => fupd (kids s1) i [] end;
         runs := runs s1; dups := dups s1; recvd := recvd s1; gate := gate s1; bad := bad s1 |}
  end.
Proof. done. Qed.
Global Opaque FUEL.
Arguments stop_tree : simpl never.
Lemma FUEL_S : FUEL = S 15. Proof. Transparent FUEL. done. Opaque FUEL. Qed.

(** C10, second clause: a spawn under a taken id runs no Producer, leaves every
    process record (queue, incarnation, parent) and every children map as it
    was, delivers nothing, and publishes one ActorDuplicateIdEvent *)
Theorem duplicate_is_noop s i :
  is_live s i = true ->
  let s' := sstep s (OSpawn i) in
  procs s' = procs s /\ kids s' = kids s /\ runs s' = runs s /\ recvd s' = recvd s /\
  gate s' = gate s /\ bad s' = bad s /\
  dups s' i = S (dups s i) /\ (forall j, j <> i -> dups s' j = dups s j).
Proof.
  intros H. simpl. unfold spawn. rewrite H. simpl. rewrite fupd_eq. split_and!; try done.
  intros. by rewrite fupd_ne.
Qed.

(* the same for SpawnChild: no trace at all besides the duplicate event — in
   particular the caller's children map is as it was *)
Theorem duplicate_child_is_noop s p i :
  is_live s i = true -> is_live s p = true -> busy s p = false ->
  let s' := sstep s (OSpawnChild p i) in
  procs s' = procs s /\ kids s' = kids s /\ runs s' = runs s /\ recvd s' = recvd s /\
  gate s' = gate s /\ bad s' = bad s /\
  dups s' i = S (dups s i) /\ (forall j, j <> i -> dups s' j = dups s j).
Proof.
  intros H Hp Hb. simpl. rewrite Hp, Hb. simpl. unfold spawn. rewrite H. simpl. rewrite !fupd_eq.
  split_and!; try done. intros. by rewrite fupd_ne.
Qed.

(* the incumbent is not one of the caller's children (it was spawned at top
   level under the child's path): the duplicate SpawnChild leaves it alone, and
   so does the caller's shutdown.  (Historical remark: before fix D21 the caller
   recorded the incumbent in its children map — [kids s 0 = [2]] here — and its
   shutdown poisoned it.) *)
Example duplicate_child_leaves_foreign_incumbent_alone :
  let s := srun sinit [OSpawn 0; OSpawn 2; OSpawnChild 0 2] in
  runs s 2 = 1 /\ dups s 2 = 1 /\ kids s 0 = [] /\
  is_live (sstep s (OStop 0)) 2 = true /\ is_live (sstep s (OStop 0)) 0 = false.
Proof. by vm_compute. Qed.

(* over histories: whatever happened before *)
Corollary duplicate_is_noop_history h i :
  let s := srun sinit h in
  is_live s i = true ->
  let s' := srun sinit (h ++ [OSpawn i]) in
  procs s' = procs s /\ kids s' = kids s /\ runs s' = runs s /\ recvd s' = recvd s /\ dups s' i = S (dups s i).
Proof.
  intros s H s'. unfold s', srun. rewrite foldl_app. simpl.
  destruct (duplicate_is_noop s i H) as (?&?&?&?&?&?&?&?). by split_and!.
Qed.

(* a spawn under a free id runs the Producer once, registers the new
   incarnation with an empty queue, publishes no duplicate event *)
Theorem spawn_free_wins s i parent :
  is_live s i = false ->
  let s' := spawn s i parent in
  runs s' i = S (runs s i) /\ dups s' = dups s /\ recvd s' = recvd s /\
  procs s' i = Some {| p_inc := S (runs s i); p_parent := parent; p_queue := []; p_blocked := false; p_stopping := false |} /\
  (forall j, j <> i -> procs s' j = procs s j /\ runs s' j = runs s j).
Proof.
  intros H. unfold spawn. rewrite H. simpl. rewrite !fupd_eq. split_and!; try done.
  intros j Hj. by rewrite !fupd_ne.
Qed.

(** C10, last clause: after an actor has stopped its id can be spawned again *)
Theorem respawn_after_stop s i r :
  procs s i = Some r -> busy s i = false ->
  let s1 := sstep s (OStop i) in
  procs s1 i = None /\
  let s2 := sstep s1 (OSpawn i) in
  runs s2 i = S (runs s1 i) /\ dups s2 = dups s1 /\
  procs s2 i = Some {| p_inc := S (runs s1 i); p_parent := None; p_queue := []; p_blocked := false; p_stopping := false |}.
Proof.
  intros Hr Hb. simpl. rewrite Hb. unfold busy in Hb. rewrite Hr in Hb.
  assert (H1 : procs (stop_tree FUEL s i) i = None).
  { rewrite FUEL_S, stop_tree_S, Hr, Hb. simpl. by rewrite fupd_eq. }
  split; [done|].
  assert (Hl : is_live (stop_tree FUEL s i) i = false) by (unfold is_live; by rewrite H1).
  destruct (spawn_free_wins _ i None Hl) as (?&?&?&?&?). done.
Qed.

(* stop_tree touches neither the Producer counts, nor the duplicate events,
   nor what has been delivered *)
Lemma stop_tree_counts fuel : forall s i,
  runs (stop_tree fuel s i) = runs s /\ dups (stop_tree fuel s i) = dups s /\ recvd (stop_tree fuel s i) = recvd s.
Proof.
  induction fuel as [|fuel IH]; intros s i; [done|]. rewrite stop_tree_S.
  destruct (procs s i) as [r|]; [|done]. destruct (p_blocked r || p_stopping r); [done|]. simpl.
  generalize (kids s i). intros l. revert s. induction l as [|c l IHl]; intros s; simpl; [done|].
  destruct (IH s c) as (E1 & E2 & E3). destruct (IHl (stop_tree fuel s c)) as (F1 & F2 & F3).
  split_and!; congruence.
Qed.

(* non-vacuity: an incumbent with two messages pending behind a gated handler;
   a duplicate Spawn and a duplicate SpawnChild in between; then the gate
   opens, the messages arrive in order at the first incarnation; stop; respawn:
   the second incarnation gets the next message *)
Example pending_survive_duplicates :
  let s := srun sinit [OSpawn 0; OBlock 0; OSend 0 11; OSpawn 0; OSend 0 12; OSpawn 0; ORelease 0;
                       OStop 0; OSend 0 13; OSpawn 0; OSend 0 14] in
  recvd s = [(0, 1, 11); (0, 1, 12); (0, 2, 14)] /\ runs s 0 = 2 /\ dups s 0 = 2 /\ bad s = false.
Proof. by vm_compute. Qed.

(* a shutdown held open: parent 0 with child 2, whose Stopped handler is
   gated.  While it is held, both are still registered, a Spawn of either id is
   a duplicate; afterwards both ids are free *)
Example spawn_in_stop_window :
  let s := srun sinit [OSpawn 0; OSpawnChild 0 2; OStopBegin 0 2; OSpawn 0; OSpawn 2] in
  is_live s 0 = true /\ is_live s 2 = true /\ runs s 0 = 1 /\ dups s 0 = 1 /\ dups s 2 = 1 /\
  let s' := srun s [OStopEnd 0 2; OSpawn 0] in
  is_live s' 2 = false /\ runs s' 0 = 2 /\ bad s' = false.
Proof. by vm_compute. Qed.
