(** L0 proofs: the ring buffer refines the list FIFO, for every capacity >= 1
    and every operation sequence. *)
From stdpp Require Import list list_numbers.
From Coq Require Import Lia ZArith.
From HV Require Import Ring.

(* arithmetic helpers *)
Lemma mod_inj_window m a b : 0 < m -> a <= b -> b < a + m -> a mod m = b mod m -> a = b.
Proof.
  intros Hm Hab Hb H.
  pose proof (Nat.div_mod a m ltac:(lia)) as Ha. pose proof (Nat.div_mod b m ltac:(lia)) as Hb'.
  pose proof (Nat.mod_upper_bound a m ltac:(lia)). pose proof (Nat.mod_upper_bound b m ltac:(lia)).
  rewrite H in Ha.
  assert (a / m = b / m) by nia. nia.
Qed.

Lemma mod_add_l m a b : 0 < m -> (a mod m + b) mod m = (a + b) mod m.
Proof. intros. rewrite Nat.add_mod_idemp_l; lia. Qed.

Section ring.
Context {T : Type} (dflt : T).
Notation ring := (ring T).
Notation get := (get dflt).
Notation new := (new dflt).
Notation push := (push dflt).
Notation pop := (pop dflt).
Notation popN := (popN dflt).
Notation abs := (abs dflt).
Notation clear := (clear dflt).

Lemma get_insert_eq l i x : i < length l -> get (<[i:=x]> l) i = x.
Proof. intros. unfold Ring.get. rewrite list_lookup_insert; auto. Qed.
Lemma get_insert_ne l i j x : i ≠ j -> get (<[i:=x]> l) j = get l j.
Proof. intros. unfold Ring.get. rewrite list_lookup_insert_ne; auto. Qed.

Lemma wf_new size : 1 <= size -> wf (new size).
Proof. intros. unfold wf, Ring.new; cbn. rewrite replicate_length. repeat split; try lia. rewrite Nat.mod_small; lia. Qed.

Lemma abs_new size : abs (new size) = [].
Proof. reflexivity. Qed.

Theorem push_abs (r : ring) x : wf r -> abs (push r x) = abs r ++ [x] ∧ wf (push r x).
Proof.
  intros (Hm & Hl & Hh & Ht & Hlen & Htl). unfold Ring.push.
  set (m := modn r) in *. set (h := head r) in *.
  assert (Ht1 : (tail r + 1) mod m = (h + 1 + len r) mod m).
  { rewrite Htl. fold m. rewrite mod_add_l by lia. f_equal. lia. }
  destruct (decide ((tail r + 1) mod m = h)) as [E|E].
  - (* grow *)
    assert (Hfull : len r + 1 = m).
    { rewrite Ht1 in E. destruct (decide (len r + 1 = m)) as [|Hne]; [done|]. exfalso.
      assert (h + 1 + len r < h + m) by lia.
      destruct (decide (h + 1 + len r < m)) as [Hs|Hs].
      - rewrite Nat.mod_small in E by lia. lia.
      - assert ((h + 1 + len r) mod m = (h + 1 + len r) - m).
        { replace (h + 1 + len r) with ((h + 1 + len r - m) + 1 * m) at 1 by lia.
          rewrite Nat.mod_add by lia. apply Nat.mod_small. lia. }
        lia. }
    split.
    + unfold Ring.abs; cbn [len items head modn]. rewrite (Nat.add_1_r (len r)), seq_S, fmap_app. cbn [fmap list_fmap]. f_equal.
      * apply list_fmap_ext. intros i y Hy. apply lookup_seq in Hy as [-> Hi]. cbn in Hi.
        unfold slot; cbn [head modn]. fold m. rewrite (Nat.mod_small (0 + 1 + (0 + i)) (2 * m)) by lia.
        rewrite get_insert_ne by lia. unfold Ring.get at 1.
        rewrite lookup_app_l by (rewrite fmap_length, seq_length; lia).
        rewrite list_lookup_fmap, lookup_seq_lt by lia. cbn.
        f_equal. f_equal. fold m. rewrite E. fold h. lia.
      * f_equal. unfold slot; cbn [head modn]. fold m. rewrite (Nat.mod_small (0 + 1 + (0 + len r)) (2 * m)) by lia.
        replace (0 + 1 + (0 + len r)) with m by lia. apply get_insert_eq.
        rewrite app_length, fmap_length, seq_length, replicate_length. lia.
    + unfold wf; cbn [len items head tail modn].
      rewrite insert_length, app_length, fmap_length, seq_length, replicate_length. fold m.
      repeat split; try lia. rewrite Nat.mod_small; lia.
  - (* room left *)
    assert (Hroom : len r + 1 < m).
    { destruct (decide (len r + 1 = m)) as [Hf|]; [|lia]. exfalso. apply E. rewrite Ht1.
      replace (h + 1 + len r) with (h + 1 * m) by lia. rewrite Nat.mod_add by lia. apply Nat.mod_small. lia. }
    split.
    + unfold Ring.abs; cbn [len items]. rewrite (Nat.add_1_r (len r)), seq_S, fmap_app. cbn [fmap list_fmap]. f_equal.
      * apply list_fmap_ext. intros i y Hy. apply lookup_seq in Hy as [-> Hi]. cbn in Hi.
        unfold slot; cbn [head modn items]. fold m h. apply get_insert_ne. rewrite Ht1. intros Heq.
        symmetry in Heq. apply mod_inj_window in Heq; lia.
      * f_equal. unfold slot; cbn [head modn items]. fold m h. rewrite Ht1.
        replace (h + 1 + (0 + len r)) with (h + 1 + len r) by lia. apply get_insert_eq.
        rewrite Hl. apply Nat.mod_upper_bound. lia.
    + unfold wf; cbn [len items head tail modn]. rewrite insert_length. fold m h.
      repeat split; try lia.
      * apply Nat.mod_upper_bound; lia.
      * rewrite Ht1. f_equal. lia.
Qed.

Lemma clear_length (r : ring) n : length (clear r n) = length (items r).
Proof.
  unfold Ring.clear. generalize (items r). induction (seq 0 n) as [|i l IH]; intros its; cbn; [done|].
  rewrite IH, insert_length. done.
Qed.

Lemma slot_inj (r : ring) i j : 0 < modn r -> i < modn r -> j < modn r -> slot r i = slot r j -> i = j.
Proof.
  unfold slot. intros Hm Hi Hj H. destruct (decide (i <= j)).
  - apply mod_inj_window in H; lia.
  - symmetry in H. apply mod_inj_window in H; lia.
Qed.

Lemma get_clear_other (r : ring) n p : (forall i, i < n -> slot r i ≠ p) -> get (clear r n) p = get (items r) p.
Proof.
  unfold Ring.clear. intros H.
  assert (Hs : forall i, i ∈ seq 0 n -> slot r i ≠ p) by (intros i Hi; apply elem_of_seq in Hi; apply H; lia).
  clear H. revert Hs. generalize (items r). induction (seq 0 n) as [|i l IH]; intros its Hs; cbn; [done|].
  rewrite IH by (intros j Hj; apply Hs; by right). apply get_insert_ne. apply Hs. by left.
Qed.

Lemma take_seq' j n k : take k (seq j n) = seq j (k `min` n).
Proof. revert j k. induction n as [|n IH]; intros j [|k]; cbn; try done. by rewrite IH. Qed.
Lemma drop_seq' j n k : drop k (seq j n) = seq (j + k) (n - k).
Proof.
  revert j k. induction n as [|n IH]; intros j [|k]; cbn; try done.
  - by rewrite Nat.add_0_r.
  - rewrite IH. f_equal. lia.
Qed.

Theorem popN_abs (r : ring) n : wf r -> len r ≠ 0 ->
  let k := n `min` len r in
  (popN r n).2 = Some (take k (abs r)) ∧ abs (popN r n).1 = drop k (abs r) ∧ wf (popN r n).1.
Proof.
  intros (Hm & Hl & Hh & Ht & Hlen & Htl) Hne k. unfold Ring.popN. destruct (decide (len r = 0)); [done|].
  fold k. cbn [fst snd]. assert (Hk : k <= len r) by (unfold k; lia).
  split; [|split].
  - f_equal. unfold Ring.abs. rewrite <- fmap_take, take_seq'. f_equal. f_equal. lia.
  - unfold Ring.abs at 2. rewrite <- fmap_drop, drop_seq'. unfold Ring.abs; cbn [len items].
    apply list_eq. intros j. rewrite !list_lookup_fmap.
    destruct (decide (j < len r - k)) as [Hj|Hj].
    + rewrite !lookup_seq_lt by lia. cbn. f_equal.
      assert (Hslot : slot {| len := len r - k; items := clear r k; head := (head r + k) mod modn r; tail := tail r; modn := modn r |} j
                      = slot r (k + j)).
      { unfold slot; cbn [head modn].
        replace ((head r + k) mod modn r + 1 + j) with ((head r + k) mod modn r + (1 + j)) by lia.
        rewrite mod_add_l by lia. f_equal. lia. }
      rewrite Hslot. apply get_clear_other. intros i Hi Heq. apply slot_inj in Heq; lia.
    + rewrite !lookup_seq_ge by lia. done.
  - unfold wf; cbn [len items head tail modn]. rewrite clear_length.
    repeat split; try lia.
    + apply Nat.mod_upper_bound; lia.
    + rewrite Htl. rewrite mod_add_l by lia. f_equal. lia.
Qed.

Lemma popN_empty (r : ring) n : len r = 0 -> popN r n = (r, None).
Proof. intros H. unfold Ring.popN. destruct (decide (len r = 0)); done. Qed.

Lemma abs_length (r : ring) : length (abs r) = len r.
Proof. unfold Ring.abs. by rewrite fmap_length, seq_length. Qed.

(* Pop has its own code in Go; it behaves as PopN 1 *)
Lemma pop_as_popN (r : ring) : wf r ->
  pop r = ((popN r 1).1, match (popN r 1).2 with Some [x] => Some x | _ => None end).
Proof.
  intros (Hm & Hl & Hh & Ht & Hlen & Htl). unfold Ring.pop, Ring.popN.
  destruct (decide (len r = 0)); [done|].
  assert (E : 1 `min` len r = 1) by lia. rewrite E. cbn [fst snd seq fmap list_fmap].
  unfold Ring.clear, slot. cbn [seq foldl]. rewrite !Nat.add_0_r. done.
Qed.

Theorem pop_abs (r : ring) : wf r -> len r ≠ 0 ->
  ∃ x q, abs r = x :: q ∧ (pop r).2 = Some x ∧ abs (pop r).1 = q ∧ wf (pop r).1.
Proof.
  intros Hwf Hne. rewrite (pop_as_popN r Hwf).
  destruct (popN_abs r 1 Hwf Hne) as (H1 & H2 & H3). cbn zeta in *.
  assert (E : 1 `min` len r = 1) by lia. rewrite E in *.
  pose proof (abs_length r) as Hal.
  destruct (abs r) as [|x q] eqn:Ea; [cbn in Hal; lia|].
  exists x, q. cbn [fst snd]. rewrite H1. cbn. split; [done|]. split; [done|]. split; [done|exact H3].
Qed.

(** ** The refinement *)
Lemma step_refines (r : ring) o : wf r ->
  (step_ring dflt r o).2 = (step_fifo (abs r) o).2 ∧
  abs (step_ring dflt r o).1 = (step_fifo (abs r) o).1 ∧ wf (step_ring dflt r o).1.
Proof.
  intros Hwf. destruct o as [x| |n|]; cbn [step_ring step_fifo].
  - destruct (push_abs r x Hwf) as [H1 H2]. cbn [fst snd]. auto.
  - destruct (decide (len r = 0)) as [E|E].
    + assert (Ha : abs r = []) by (apply nil_length_inv; rewrite abs_length; done).
      unfold Ring.pop. destruct (decide (len r = 0)); [|done]. rewrite Ha. cbn. auto.
    + destruct (pop_abs r Hwf E) as (x & q & Ha & H1 & H2 & H3).
      destruct (pop r) as [r' v]. cbn [fst snd] in *. rewrite Ha. cbn. subst. auto.
  - destruct (decide (len r = 0)) as [E|E].
    + assert (Ha : abs r = []) by (apply nil_length_inv; rewrite abs_length; done).
      rewrite popN_empty by done. rewrite Ha. cbn. auto.
    + destruct (popN_abs r n Hwf E) as (H1 & H2 & H3). cbn zeta in *.
      destruct (popN r n) as [r' v]. cbn [fst snd] in *.
      pose proof (abs_length r) as Hal. rewrite <- Hal in *.
      destruct (abs r) as [|a q] eqn:Ea; [cbn in E; lia|].
      cbn [fst snd]. subst. auto.
  - cbn. rewrite abs_length. auto.
Qed.

Lemma run_refines (r : ring) ops : wf r ->
  run (step_ring dflt) r ops = run step_fifo (abs r) ops.
Proof.
  revert r. induction ops as [|o ops IH]; intros r Hwf; [done|].
  cbn [run]. destruct (step_refines r o Hwf) as (H1 & H2 & H3).
  destruct (step_ring dflt r o) as [r' v]. destruct (step_fifo (abs r) o) as [q' v'].
  cbn [fst snd] in *. subst. f_equal. apply IH. done.
Qed.

(** C14, sequential part: for every initial capacity >= 1 and every operation
    sequence the ring buffer's results are those of the list queue. *)
Theorem ring_refines_fifo size ops : 1 <= size ->
  run_ring dflt size ops = run_fifo ops.
Proof. intros H. unfold run_ring, run_fifo. rewrite run_refines by (by apply wf_new). by rewrite abs_new. Qed.

(** every reachable ring is well-formed and every slot touched is in range *)
Lemma reach_wf size ops : 1 <= size ->
  wf (fold_left (λ r o, (step_ring dflt r o).1) ops (new size)).
Proof.
  intros H. assert (Hw := wf_new size H). revert Hw. generalize (new size).
  induction ops as [|o ops IH]; intros r Hw; cbn; [done|].
  apply IH. by destruct (step_refines r o Hw) as (_ & _ & ?).
Qed.

Theorem ring_no_oob (r : ring) o : wf r -> op_in_bounds r o.
Proof.
  intros (Hm & Hl & Hh & Ht & Hlen & Htl). destruct o as [x| |n|]; cbn; auto.
  - split; [rewrite Hl; apply Nat.mod_upper_bound; lia|].
    intros _ i _. rewrite Hl. apply Nat.mod_upper_bound; lia.
  - intros _. rewrite Hl. apply Nat.mod_upper_bound; lia.
  - intros _ i _. unfold slot. rewrite Hl. apply Nat.mod_upper_bound; lia.
Qed.

(** ** The clauses of C14 spelled out on the list queue (so on the ring). *)
(* Len = pushes - popped elements, never negative: on the spec Len is [length];
   the counting statement follows by induction over the history. *)
Fixpoint pushes (ops : list (op T)) : nat :=
  match ops with [] => 0 | Push _ :: l => S (pushes l) | _ :: l => pushes l end.
Fixpoint popped (rs : list (res T)) : nat :=
  match rs with
  | [] => 0
  | RPop (Some _) :: l => S (popped l)
  | RPopN (Some xs) :: l => length xs + popped l
  | _ :: l => popped l
  end.

Lemma fifo_len_count q ops :
  length q + pushes ops =
  popped (run step_fifo q ops) + length (fold_left (λ q o, (step_fifo q o).1) ops q).
Proof.
  revert q. induction ops as [|o ops IH]; intros q; cbn [run pushes fold_left]; [cbn; lia|].
  destruct o as [x| |n|]; cbn [step_fifo].
  - cbn [fst popped]. specialize (IH (q ++ [x])). rewrite app_length in IH. cbn in IH. lia.
  - destruct q as [|y q']; cbn [fst popped]; [specialize (IH []) | specialize (IH q')]; cbn [length] in *; lia.
  - destruct q as [|y q]; cbn [fst popped]; [specialize (IH []); cbn [length] in *; lia|].
    specialize (IH (drop (n `min` length (y :: q)) (y :: q))).
    rewrite take_length. rewrite drop_length in IH at 1. lia.
  - cbn [fst popped]. apply IH.
Qed.

Lemma fifo_false_iff_empty (q : list T) (n : nat) :
  ((step_fifo q Pop).2 = RPop None <-> q = []) /\ ((step_fifo q (PopN n)).2 = RPopN None <-> q = []).
Proof. destruct q; cbn; split; split; intros H; try done. Qed.

Lemma fifo_popN_prefix (q : list T) (n : nat) : q <> [] ->
  step_fifo q (PopN n) = (drop (n `min` length q) q, RPopN (Some (take (n `min` length q) q))).
Proof. destruct q; [done|]. reflexivity. Qed.

End ring.
