(** Oracle for real-engine delivery runs (real goroutines, no schedule
    control): the implementation's delivery log is judged by the predicate that
    C01_exactly_once_in_order / C03_every_run_drains prove of every model run:
    every sent message is handed over exactly once, carrying its own sender,
    and each sender's messages arrive in the order they were sent. *)
From Coq Require Import List Arith Bool.
Import ListNotations.

Record got := { g_from : nat; g_seq : nat; g_sender_ok : bool }.
Record case := { c_senders : nat; c_per_sender : nat;   (* chain mode: 1 sender, per_sender = total *)
                 c_got : list got; c_hang : bool;
                 c_overlap : bool;        (* two Receive calls in progress at once *)
                 c_restarts : nat;
                 c_spawnrace : bool;      (* the messages were sent while the actor's Started handler was still running *)
                 c_spawn_early : bool;    (* Spawn returned before Started had been handled *)
                 c_stoprace : bool;       (* a stop request raced restarts and senders: not everything sent is delivered *)
                 c_anomalies : nat }.     (* children-race runs: nil entries in Context.Children(), dead letters for a nil target *)      (* scripted panics (each delivered once, to the incarnation it kills) *)

(* the subsequence of sequence numbers received from sender s *)
Definition seqs_of (s : nat) (l : list got) : list nat :=
  map g_seq (filter (fun g => Nat.eqb (g_from g) s) l).

Fixpoint list_eqb (a b : list nat) : bool :=
  match a, b with [], [] => true | x :: a', y :: b' => Nat.eqb x y && list_eqb a' b' | _, _ => false end.

(* from = 9 marks the Started delivery in spawn-race runs *)
Definition is_marker (g : got) : bool := Nat.eqb (g_from g) 9.
Definition msgs_of (l : list got) : list got := filter (fun g => negb (is_marker g)) l.

(* strictly increasing: in order, nothing twice *)
Fixpoint increasing (lo : nat) (l : list nat) : bool :=
  match l with [] => true | x :: l' => Nat.ltb lo x && increasing x l' end.

(* stop-race runs: the harness counts as anomalies a Stopped count other than one for the stopped
   incarnation (more than one for a crashed one), any delivery to an incarnation after its Stopped, a
   stop context that is done before the Stopped handler returned, an id still registered afterwards;
   here: no two Receive calls at once, and what was delivered is in per-sender order without repetition *)
Definition oracle_stoprace (c : case) : bool :=
  negb (c_hang c) && negb (c_overlap c) && Nat.eqb (c_anomalies c) 0 &&
  forallb (fun s => increasing 0 (seqs_of s (c_got c))) (seq 0 (c_senders c)).

Definition oracle (c : case) : bool :=
  if c_stoprace c then oracle_stoprace c else
  negb (c_hang c) && negb (c_overlap c) && negb (c_spawn_early c) && Nat.eqb (c_anomalies c) 0 &&
  (if c_spawnrace c then match c_got c with g :: _ => is_marker g | [] => false end else true) &&
  Nat.eqb (length (msgs_of (c_got c))) (c_senders c * c_per_sender c) &&
  forallb g_sender_ok (c_got c) &&
  forallb (fun s => list_eqb (seqs_of s (msgs_of (c_got c))) (seq 1 (c_per_sender c))) (seq 0 (c_senders c)).

(* there is no schedule control here, so nothing to replay in the model *)
Definition corr (c : case) : bool := true.

(* 4 = restarts with senders active during the restart delay; 1 several senders, 2 more than one batch bound (4096) of messages, 3 more
   than 300 consecutive batches in one worker run (the throughput branch) *)
Definition branches (c : case) : list nat :=
  (if Nat.ltb 1 (c_senders c) then [1] else []) ++
  (if Nat.ltb 4096 (c_senders c * c_per_sender c) then [2] else []) ++
  (if Nat.eqb (c_senders c) 1 && Nat.ltb 300 (c_per_sender c) then [3] else []) ++
  (if Nat.ltb 0 (c_restarts c) then [4] else []) ++
  (if c_spawnrace c then [5] else []) ++
  (if c_stoprace c then [7] else []) ++
  (if Nat.eqb (c_senders c) 0 then [6] else []).   (* children-race runs have no senders *)

Fixpoint failing {A} (f : A -> bool) (i : nat) (l : list A) : list nat :=
  match l with [] => [] | a :: l' => (if f a then [] else [i]) ++ failing f (S i) l' end.

Definition report (cs : list case) : list nat * list nat * list (list nat) :=
  (failing corr 0 cs, failing oracle 0 cs, map branches cs).
