(** L0 — model of ringbuffer/ringbuffer.go (sequential semantics of one
    RingBuffer[T]; every index computation of the Go code is transcribed).

    Definitions only: this file must keep compiling and running when a proof
    breaks.  Proofs are in RingProofs.v. *)
From stdpp Require Import list list_numbers.
From Coq Require Import ZArith.

Section ring.
Context {T : Type} (dflt : T).

(* buffer[T]{items, head, tail, mod} + RingBuffer.len *)
Record ring := { len : nat; items : list T; head : nat; tail : nat; modn : nat }.

(* a slot read; an out-of-range index (a Go bounds panic) would show as the
   default — [ring_no_oob] in RingProofs shows it never happens *)
Definition get (l : list T) (i : nat) : T := default dflt (l !! i).

(* New(size) *)
Definition new (size : nat) : ring :=
  {| len := 0; items := replicate size dflt; head := 0; tail := 0; modn := size |}.

(* Push: tail = (tail+1) % mod; if tail == head { grow: newBuff[i] =
   items[(tail+i) % mod] for i < mod; head = 0; tail = mod; mod *= 2 };
   len++; items[tail] = item *)
Definition push (r : ring) (x : T) : ring :=
  let t1 := (tail r + 1) mod modn r in
  if decide (t1 = head r) then
    let nb := ((λ i, get (items r) ((t1 + i) mod modn r)) <$> seq 0 (modn r))
              ++ replicate (modn r) dflt in
    {| len := len r + 1; items := <[modn r := x]> nb; head := 0; tail := modn r;
       modn := 2 * modn r |}
  else {| len := len r + 1; items := <[t1 := x]> (items r); head := head r; tail := t1;
          modn := modn r |}.

(* position of the i-th oldest element *)
Definition slot (r : ring) (i : nat) : nat := (head r + 1 + i) mod modn r.

(* zeroing of the popped slots *)
Definition clear (r : ring) (n : nat) : list T :=
  foldl (λ its i, <[slot r i := dflt]> its) (items r) (seq 0 n).

(* PopN(n): false on empty; n clamped to len; items[(head+1+i) % mod];
   head = (head+n) % mod *)
Definition popN (r : ring) (n : nat) : ring * option (list T) :=
  if decide (len r = 0) then (r, None) else
  let n := n `min` len r in
  ({| len := len r - n; items := clear r n; head := (head r + n) mod modn r;
      tail := tail r; modn := modn r |},
   Some ((λ i, get (items r) (slot r i)) <$> seq 0 n)).

(* Pop: its own code in Go: head = (head+1) % mod; item = items[head];
   items[head] = zero; len-- *)
Definition pop (r : ring) : ring * option T :=
  if decide (len r = 0) then (r, None) else
  let h1 := (head r + 1) mod modn r in
  ({| len := len r - 1; items := <[h1 := dflt]> (items r); head := h1;
      tail := tail r; modn := modn r |},
   Some (get (items r) h1)).

(* the abstract content: oldest first *)
Definition abs (r : ring) : list T := (λ i, get (items r) (slot r i)) <$> seq 0 (len r).

(* representation invariant *)
Definition wf (r : ring) : Prop :=
  0 < modn r ∧ length (items r) = modn r ∧ head r < modn r ∧ tail r < modn r ∧
  len r < modn r ∧ tail r = (head r + len r) mod modn r.

(** operations and results, for whole-history statements *)
Inductive op := Push (x : T) | Pop | PopN (n : nat) | Len.
Inductive res := RPush | RPop (o : option T) | RPopN (o : option (list T)) | RLen (n : nat).

Definition step_ring (r : ring) (o : op) : ring * res :=
  match o with
  | Push x => (push r x, RPush)
  | Pop => let '(r', v) := pop r in (r', RPop v)
  | PopN n => let '(r', v) := popN r n in (r', RPopN v)
  | Len => (r, RLen (len r))
  end.

(* the specification: a list *)
Definition step_fifo (q : list T) (o : op) : list T * res :=
  match o with
  | Push x => (q ++ [x], RPush)
  | Pop => match q with [] => (q, RPop None) | x :: q' => (q', RPop (Some x)) end
  | PopN n => match q with
              | [] => (q, RPopN None)
              | _ => (drop (n `min` length q) q, RPopN (Some (take (n `min` length q) q)))
              end
  | Len => (q, RLen (length q))
  end.

Fixpoint run {S} (step : S -> op -> S * res) (s : S) (ops : list op) : list res :=
  match ops with
  | [] => []
  | o :: ops' => let '(s', r) := step s o in r :: run step s' ops'
  end.

Definition run_ring (size : nat) (ops : list op) : list res := run step_ring (new size) ops.
Definition run_fifo (ops : list op) : list res := run step_fifo [] ops.

(* every slot the operation touches is inside the slice (no Go bounds panic) *)
Definition op_in_bounds (r : ring) (o : op) : Prop :=
  match o with
  | Push _ => (tail r + 1) mod modn r < length (items r) ∧
              ((tail r + 1) mod modn r = head r ->
               ∀ i, i < modn r -> ((tail r + 1) mod modn r + i) mod modn r < length (items r))
  | Pop => len r ≠ 0 -> (head r + 1) mod modn r < length (items r)
  | PopN n => len r ≠ 0 -> ∀ i, i < n `min` len r -> slot r i < length (items r)
  | Len => True
  end.

End ring.

Arguments ring : clear implicits.
Arguments op : clear implicits.
Arguments res : clear implicits.
