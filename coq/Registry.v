(** L3 — models of actor/registry.go and of the spawn / stop / lookup paths of
    engine.go, context.go and process.go that go through it (C10).

    Two machines, definitions only (proofs are in RegistryProofs.v):

    (i)  a sequential machine over histories of operations issued at
         quiescence through the public API (Spawn with WithID, SpawnChild,
         Stop(..).Done, Send, GetPID, a gate that keeps an actor inside a
         handler so that messages pile up behind it, and a gate on the Stopped
         handler that holds a shutdown open);

    (ii) an interleaving model of Registry.add / get / Remove at the
         granularity the deterministic scheduler of the harness sees when
         registry.go is built with `sync` rewritten to the yielding shim: one
         step per acquisition of the RWMutex (the critical sections contain no
         scheduling point, Unlock/RUnlock are none either), plus one step for
         [proc.Start()], which [add] calls outside the lock, and one for the
         moment a stopping process has handled Stopped (after which its
         cleanup calls Remove).

    Identifiers (the full "kind/id" strings) are interned to [nat]. *)
From stdpp Require Import list.

Definition id := nat.
Definition msg := nat.

Definition fupd {A} (f : nat -> A) (k : nat) (v : A) : nat -> A :=
  fun x => if Nat.eqb x k then v else f x.

Definition mem (x : nat) (l : list nat) : bool := existsb (Nat.eqb x) l.
Definition set_add (x : nat) (l : list nat) : list nat := if mem x l then l else l ++ [x].
Definition set_del (x : nat) (l : list nat) : list nat := filter (fun y => negb (Nat.eqb y x)) l.

(** * (i) the sequential machine *)

(* one live process: what newProcess + Start created and cleanup has not yet
   unregistered *)
Record prec := { p_inc : nat;              (* it is the p_inc-th Producer run under its id *)
                 p_parent : option id;     (* parentCtx (SpawnChild) *)
                 p_queue : list msg;       (* sent, not yet handled (the actor sits in a gated handler) *)
                 p_blocked : bool;         (* inside the gated handler *)
                 p_stopping : bool }.      (* its cleanup has begun and is held open by a gated Stopped handler *)

Record sst := { procs : id -> option prec;       (* Registry.lookup, and the state of each live actor *)
                kids : id -> list id;            (* Context.children of the live actor (ids) *)
                runs : id -> nat;                (* Producer invocations per id so far *)
                dups : id -> nat;                (* ActorDuplicateIdEvents per id so far *)
                recvd : list (id * nat * msg);   (* user messages handled: (id, incarnation, message) *)
                gate : option (id * id * list id);   (* a shutdown of the first is held open inside Stopped of the second;
                                                        the third is the line of descent from the one to the other *)
                bad : bool }.                    (* an operation outside the modelled domain was issued *)

Definition sinit : sst :=
  {| procs := fun _ => None; kids := fun _ => []; runs := fun _ => 0; dups := fun _ => 0;
     recvd := []; gate := None; bad := false |}.

Inductive sop :=
| OSpawn (i : id)               (* Engine.Spawn(producer, kind, WithID(x)) with kind/x = i *)
| OSpawnChild (p i : id)        (* the live actor p calls Context.SpawnChild(.., name, WithID(x)) with p/name/x = i *)
| OStop (i : id)                (* <-Engine.Stop(pid i).Done() *)
| OSend (i : id) (m : msg)      (* Engine.Send(pid i, m) *)
| OBlock (i : id)               (* a message whose handler waits on a gate: the actor stays inside Receive *)
| ORelease (i : id)             (* the gate opens *)
| OGet (i : id)                 (* Registry.GetPID / Context.GetPID: observation only *)
| OStopBegin (i g : id)         (* Engine.Stop(pid i) issued; the shutdown runs until g (i itself or its single-line
                                   descendant) sits in its gated Stopped handler *)
| OStopEnd (i g : id)           (* that gate opens; the shutdown completes *)
| ORace (i : id) (n : nat).     (* n goroutines call Engine.Spawn for id i at the same time; observed when all have returned *)

Definition set_bad (s : sst) : sst :=
  {| procs := procs s; kids := kids s; runs := runs s; dups := dups s; recvd := recvd s; gate := gate s; bad := true |}.

Definition is_live (s : sst) (i : id) : bool := match procs s i with Some _ => true | None => false end.

(* a losing spawn: ActorDuplicateIdEvent and nothing else — also for SpawnChild,
   which writes its children-map entry only when Registry.insert succeeded
   (fix D21; before it the caller recorded the incumbent as its child) *)
Definition dup_spawn (s : sst) (i : id) : sst :=
  {| procs := procs s; kids := kids s;
     runs := runs s; dups := fupd (dups s) i (S (dups s i)); recvd := recvd s; gate := gate s; bad := bad s |}.

(* a winning spawn: registered, recorded in the parent's children map, Producer run, Started *)
Definition win_spawn (s : sst) (i : id) (parent : option id) : sst :=
  {| procs := fupd (procs s) i (Some {| p_inc := S (runs s i); p_parent := parent; p_queue := [];
                                        p_blocked := false; p_stopping := false |});
     kids := match parent with
             | Some p => fupd (fupd (kids s) i []) p (set_add i (kids s p))
             | None => fupd (kids s) i [] end;
     runs := fupd (runs s) i (S (runs s i)); dups := dups s; recvd := recvd s; gate := gate s; bad := bad s |}.

Definition spawn (s : sst) (i : id) (parent : option id) : sst :=
  if is_live s i then dup_spawn s i else win_spawn s i parent.

(* process.cleanup: poison every child and wait, then (Stopped handled)
   Registry.Remove, then leave the parent's children map.  A child that is not
   registered (a stale entry) costs a dead letter and nothing else.  An actor
   sitting in a gated handler (or already held inside its own shutdown) cannot
   be stopped at quiescence: outside the domain. *)
Fixpoint stop_tree (fuel : nat) (s : sst) (i : id) : sst :=
  match fuel with
  | 0 => set_bad s
  | S fuel' =>
    match procs s i with
    | None => s
    | Some r =>
      if p_blocked r || p_stopping r then set_bad s else
      let s1 := foldl (stop_tree fuel') s (kids s i) in
      {| procs := fupd (procs s1) i None;
         kids := match p_parent r with
                 | Some p => fupd (fupd (kids s1) i []) p (set_del i (kids s1 p))
                 | None => fupd (kids s1) i [] end;
         runs := runs s1; dups := dups s1; recvd := recvd s1; gate := gate s1; bad := bad s1 |}
    end
  end.

(* the tail of cleanup alone: Stopped handled, Registry.Remove, leave the parent's children map *)
Definition remove_proc (s : sst) (i : id) : sst :=
  match procs s i with
  | None => s
  | Some r =>
      {| procs := fupd (procs s) i None;
         kids := match p_parent r with
                 | Some p => fupd (fupd (kids s) i []) p (set_del i (kids s p))
                 | None => fupd (kids s) i [] end;
         runs := runs s; dups := dups s; recvd := recvd s; gate := gate s; bad := bad s |}
  end.

Definition FUEL := 16.

(* the line of descent from i down to g: every actor on it has exactly one child *)
Fixpoint line (fuel : nat) (s : sst) (i g : id) : option (list id) :=
  match fuel with
  | 0 => None
  | S fuel' =>
    if Nat.eqb i g then Some [i] else
    match kids s i with
    | [c] => if is_live s c then option_map (cons i) (line fuel' s c g) else None
    | _ => None
    end
  end.

Definition set_stopping (s : sst) (l : list id) (b : bool) : sst :=
  {| procs := fun x => match procs s x with
                       | Some r => if mem x l
                                   then Some {| p_inc := p_inc r; p_parent := p_parent r; p_queue := p_queue r;
                                                p_blocked := p_blocked r; p_stopping := b |}
                                   else Some r
                       | None => None end;
     kids := kids s; runs := runs s; dups := dups s; recvd := recvd s; gate := gate s; bad := bad s |}.

Definition set_gate (s : sst) (g : option (id * id * list id)) : sst :=
  {| procs := procs s; kids := kids s; runs := runs s; dups := dups s; recvd := recvd s; gate := g; bad := bad s |}.

Definition blocked_at (s : sst) (i : id) : bool :=
  match procs s i with Some r => p_blocked r | None => false end.

Definition busy (s : sst) (i : id) : bool :=       (* live, and unable to handle a message now *)
  match procs s i with Some r => p_blocked r || p_stopping r | None => false end.

Definition upd_proc (s : sst) (i : id) (r : prec) (rc : list (id * nat * msg)) : sst :=
  {| procs := fupd (procs s) i (Some r); kids := kids s; runs := runs s; dups := dups s; recvd := rc;
     gate := gate s; bad := bad s |}.

Definition sstep (s : sst) (o : sop) : sst :=
  match o with
  | OSpawn i => spawn s i None
  | OSpawnChild p i =>
      if is_live s p && negb (busy s p) then spawn s i (Some p) else set_bad s
  | OStop i =>
      if busy s i then set_bad s else stop_tree FUEL s i
  | OSend i m =>
      match procs s i with
      | None => s                                     (* dead letter *)
      | Some r =>
          if p_stopping r then s                      (* lands in a closed inbox; flushed as a dead letter later *)
          else if p_blocked r
          then upd_proc s i {| p_inc := p_inc r; p_parent := p_parent r; p_queue := p_queue r ++ [m];
                               p_blocked := true; p_stopping := false |} (recvd s)
          else upd_proc s i r (recvd s ++ [(i, p_inc r, m)])
      end
  | OBlock i =>
      match procs s i with
      | Some r => if p_blocked r || p_stopping r then set_bad s
                  else upd_proc s i {| p_inc := p_inc r; p_parent := p_parent r; p_queue := p_queue r;
                                       p_blocked := true; p_stopping := false |} (recvd s)
      | None => set_bad s
      end
  | ORelease i =>
      match procs s i with
      | Some r => if p_blocked r
                  then upd_proc s i {| p_inc := p_inc r; p_parent := p_parent r; p_queue := [];
                                       p_blocked := false; p_stopping := p_stopping r |}
                                (recvd s ++ map (fun m => (i, p_inc r, m)) (p_queue r))
                  else set_bad s
      | None => set_bad s
      end
  | OGet _ => s
  | OStopBegin i g =>
      match gate s, line FUEL s i g with
      | None, Some l =>
          if negb (is_live s i) || existsb (busy s) l then set_bad s else
          let s1 := foldl (stop_tree FUEL) s (kids s g) in
          set_gate (set_stopping s1 l true) (Some (i, g, l))
      | _, _ => set_bad s
      end
  | OStopEnd i g =>
      match gate s with
      | Some (i', g', l) =>
          (* the children loops of the actors on the line have run already (each is waiting for the
             next one's poison pill): what is left is the tail of each cleanup, from g upwards.  An
             actor on the line that sits in a gated handler would be outside the domain. *)
          if Nat.eqb i i' && Nat.eqb g g' && negb (existsb (blocked_at s) l)
          then foldl remove_proc (set_gate (set_stopping s l false) None) (rev l)
          else set_bad s
      | None => set_bad s
      end
  | ORace i n => Nat.iter n (fun s' => spawn s' i None) s      (* in whatever order: one winner at most *)
  end.

Definition srun (s : sst) (h : list sop) : sst := foldl sstep s h.

(* the states after each operation *)
Fixpoint strace (s : sst) (h : list sop) : list sst :=
  match h with [] => [] | o :: h' => let s' := sstep s o in s' :: strace s' h' end.

(** * (ii) the interleaving model of Registry.add / get / Remove *)

(* what a client thread does, one call after the other *)
Inductive cop :=
| CAdd (i : id)      (* newProcess under id i; Registry.add(proc) — Spawn / SpawnChild / SpawnProc / Request *)
| CStop (i : id)     (* the actor registered under i, if it is started and not yet stopping, handles Stopped;
                        then its cleanup calls Registry.Remove *)
| CGet (i : id).     (* Registry.get / getByID / GetPID *)

(* where a thread stands inside the call it is executing *)
Inductive mpc :=
| MIdle                      (* between calls: the next step is the first step of the next call *)
| MStart (p : nat)           (* add: won (inserted, lock released); about to call proc.Start() *)
| MDup (p : nat)             (* add: lost (lock released); about to publish ActorDuplicateIdEvent *)
| MRem (p : nat) (i : id).   (* cleanup: Stopped handled; about to Lock in Registry.Remove(pid i) *)

Definition thread := (mpc * list cop)%type.

(* Process objects are numbered in the order in which their [add] takes the
   lock: every add works on a process object of its own (newProcess /
   NewResponse allocate). *)
Record cst := { c_ids : list id;              (* process p was created for id [c_ids !! p] *)
                c_reg : id -> option nat;     (* Registry.lookup *)
                c_won : list nat;             (* processes whose add inserted them *)
                c_started : list nat;         (* processes whose Start() has been called (Producer run) *)
                c_stopped : list nat;         (* processes that have handled Stopped *)
                c_removed : list nat;         (* processes whose entry has been deleted by their cleanup *)
                c_dup : list nat;             (* processes for which ActorDuplicateIdEvent was published *)
                c_gets : list (id * option nat);   (* results of the lookups, in execution order *)
                c_thr : list thread }.

Definition cinit (progs : list (list cop)) : cst :=
  {| c_ids := []; c_reg := fun _ => None; c_won := []; c_started := []; c_stopped := []; c_removed := [];
     c_dup := []; c_gets := []; c_thr := map (fun p => (MIdle, p)) progs |}.

Inductive clabel :=
| LAdd (i : id) (p : nat) (won : bool)   (* Lock in add: check, insert or not, Unlock *)
| LStart (p : nat)                       (* proc.Start() *)
| LDup (p : nat)                         (* BroadcastEvent(ActorDuplicateIdEvent): RLock lookup of the event stream, Send *)
| LTry (i : id) (r : option nat)         (* the process registered under i (if live) handles Stopped *)
| LRem (p : nat)                         (* Lock in Remove: delete, Unlock *)
| LGet (i : id) (r : option nat).        (* RLock in get: lookup, RUnlock *)

Definition cstep (s : cst) (t : nat) : option (cst * clabel) :=
  match c_thr s !! t with
  | None => None
  | Some (MIdle, []) => None
  | Some (MIdle, CAdd i :: rest) =>
      let p := length (c_ids s) in
      match c_reg s i with
      | Some _ =>
          Some ({| c_ids := c_ids s ++ [i]; c_reg := c_reg s; c_won := c_won s; c_started := c_started s;
                   c_stopped := c_stopped s; c_removed := c_removed s; c_dup := c_dup s; c_gets := c_gets s;
                   c_thr := <[t := (MDup p, rest)]> (c_thr s) |}, LAdd i p false)
      | None =>
          Some ({| c_ids := c_ids s ++ [i]; c_reg := fupd (c_reg s) i (Some p); c_won := p :: c_won s;
                   c_started := c_started s; c_stopped := c_stopped s; c_removed := c_removed s;
                   c_dup := c_dup s; c_gets := c_gets s;
                   c_thr := <[t := (MStart p, rest)]> (c_thr s) |}, LAdd i p true)
      end
  | Some (MIdle, CStop i :: rest) =>
      match c_reg s i with
      | Some p =>
          if mem p (c_started s) && negb (mem p (c_stopped s))
          then Some ({| c_ids := c_ids s; c_reg := c_reg s; c_won := c_won s; c_started := c_started s;
                        c_stopped := p :: c_stopped s; c_removed := c_removed s; c_dup := c_dup s;
                        c_gets := c_gets s; c_thr := <[t := (MRem p i, rest)]> (c_thr s) |}, LTry i (Some p))
          else Some ({| c_ids := c_ids s; c_reg := c_reg s; c_won := c_won s; c_started := c_started s;
                        c_stopped := c_stopped s; c_removed := c_removed s; c_dup := c_dup s;
                        c_gets := c_gets s; c_thr := <[t := (MIdle, rest)]> (c_thr s) |}, LTry i None)
      | None =>
          Some ({| c_ids := c_ids s; c_reg := c_reg s; c_won := c_won s; c_started := c_started s;
                   c_stopped := c_stopped s; c_removed := c_removed s; c_dup := c_dup s;
                   c_gets := c_gets s; c_thr := <[t := (MIdle, rest)]> (c_thr s) |}, LTry i None)
      end
  | Some (MIdle, CGet i :: rest) =>
      Some ({| c_ids := c_ids s; c_reg := c_reg s; c_won := c_won s; c_started := c_started s;
               c_stopped := c_stopped s; c_removed := c_removed s; c_dup := c_dup s;
               c_gets := c_gets s ++ [(i, c_reg s i)]; c_thr := <[t := (MIdle, rest)]> (c_thr s) |},
            LGet i (c_reg s i))
  | Some (MStart p, rest) =>
      Some ({| c_ids := c_ids s; c_reg := c_reg s; c_won := c_won s; c_started := p :: c_started s;
               c_stopped := c_stopped s; c_removed := c_removed s; c_dup := c_dup s; c_gets := c_gets s;
               c_thr := <[t := (MIdle, rest)]> (c_thr s) |}, LStart p)
  | Some (MDup p, rest) =>
      Some ({| c_ids := c_ids s; c_reg := c_reg s; c_won := c_won s; c_started := c_started s;
               c_stopped := c_stopped s; c_removed := c_removed s; c_dup := p :: c_dup s; c_gets := c_gets s;
               c_thr := <[t := (MIdle, rest)]> (c_thr s) |}, LDup p)
  | Some (MRem p i, rest) =>
      Some ({| c_ids := c_ids s; c_reg := fupd (c_reg s) i None; c_won := c_won s; c_started := c_started s;
               c_stopped := c_stopped s; c_removed := p :: c_removed s; c_dup := c_dup s; c_gets := c_gets s;
               c_thr := <[t := (MIdle, rest)]> (c_thr s) |}, LRem p)
  end.

(* a schedule is a list of thread indices *)
Fixpoint crun (s : cst) (sched : list nat) : option (cst * list clabel) :=
  match sched with
  | [] => Some (s, [])
  | t :: rest =>
    match cstep s t with
    | None => None
    | Some (s', l) =>
      match crun s' rest with
      | None => None
      | Some (s'', ls) => Some (s'', l :: ls)
      end
    end
  end.

Inductive creach (s0 : cst) : cst -> Prop :=
| creach_refl : creach s0 s0
| creach_step s t s' l : creach s0 s -> cstep s t = Some (s', l) -> creach s0 s'.

Definition thread_done (th : thread) : bool :=
  match th with (MIdle, []) => true | _ => false end.
Definition cterminal (s : cst) : bool := forallb thread_done (c_thr s).

(* a process is live from its Start() until it has handled Stopped *)
Definition clive (s : cst) (p : nat) : Prop := p ∈ c_started s /\ p ∉ c_stopped s.
Definition cliveb (s : cst) (p : nat) : bool := mem p (c_started s) && negb (mem p (c_stopped s)).
(* it is registered while it is the entry of its id *)
Definition cregistered (s : cst) (p : nat) : Prop := exists i, c_ids s !! p = Some i /\ c_reg s i = Some p.

Definition stops_of (prog : list cop) : list id :=
  flat_map (fun o => match o with CStop i => [i] | _ => [] end) prog.
Definition adds_of (prog : list cop) : list id :=
  flat_map (fun o => match o with CAdd i => [i] | _ => [] end) prog.
