(** Executable instance of the ring model used by the correspondence check of
    C14: elements are [Z], the zero value is 0. *)
From stdpp Require Import list list_numbers.
From Coq Require Import ZArith Bool.
From HV Require Export Ring.

Definition zop := op Z.
Definition zres := res Z.

Definition zres_eqb (a b : zres) : bool :=
  match a, b with
  | RPush, RPush => true
  | RPop None, RPop None => true
  | RPop (Some x), RPop (Some y) => Z.eqb x y
  | RPopN None, RPopN None => true
  | RPopN (Some xs), RPopN (Some ys) => bool_decide (xs = ys)
  | RLen n, RLen m => Nat.eqb n m
  | _, _ => false
  end.

Fixpoint all2 {A} (f : A -> A -> bool) (l1 l2 : list A) : bool :=
  match l1, l2 with
  | [], [] => true
  | a :: l1', b :: l2' => f a b && all2 f l1' l2'
  | _, _ => false
  end.

(* a case: initial capacity, the operations, the results the implementation gave *)
Record case := { c_size : nat; c_ops : list zop; c_obs : list zres }.

(* correspondence: the ring model computes what the implementation returned *)
Definition corr (c : case) : bool := all2 zres_eqb (run_ring 0%Z (c_size c) (c_ops c)) (c_obs c).
(* oracle: the implementation's results are those of the FIFO specification
   (the predicate proved of the model in [C14_ring_refines_fifo]) *)
Definition oracle (c : case) : bool := all2 zres_eqb (run_fifo (c_ops c)) (c_obs c).

(* proof-relevant branches reached by a case, for the evidence histogram:
   1 grow with head = 0, 2 grow while wrapped (head <> 0), 3 PopN across the
   wrap, 4 PopN clamped, 5 pop/popN on empty, 6 Pop across the wrap *)
Definition branches_step (r : ring Z) (o : zop) : list nat :=
  match o with
  | Push _ => if decide ((tail r + 1) mod modn r = head r)
              then (if decide (head r = 0) then [1] else [2]) else []
  | Pop => if decide (len r = 0) then [5] else
           if decide (head r + 1 = modn r) then [6] else []
  | PopN n => if decide (len r = 0) then [5] else
              (if decide (len r < n) then [4] else []) ++
              (if decide (modn r <= head r + n `min` len r) then [3] else [])
  | Len => []
  end.

Fixpoint branches_run (r : ring Z) (ops : list zop) : list nat :=
  match ops with
  | [] => []
  | o :: ops' => branches_step r o ++ branches_run (step_ring 0%Z r o).1 ops'
  end.

Definition branches (c : case) : list nat :=
  remove_dups (branches_run (new 0%Z (c_size c)) (c_ops c)).

Fixpoint failing {A} (f : A -> bool) (i : nat) (l : list A) : list nat :=
  match l with [] => [] | a :: l' => (if f a then [] else [i]) ++ failing f (S i) l' end.

(* report: indices where the correspondence fails, where the oracle fails,
   and the branch tags of every case *)
Definition report (cs : list case) : list nat * list nat * list (list nat) :=
  (failing corr 0 cs, failing oracle 0 cs, map branches cs).
