(** The property theorems of the composed node (C18 ∘ C20).  Nothing else
    lives here: each is closed by [exact]/[apply] of a lemma and followed by
    [Print Assumptions]. *)
From stdpp Require Import gmap list sorting.
From HV Require Import Agent AgentProofs Provider ProviderProofs ClusterCompose ClusterComposeProofs.

(* One node = provider + agent, the provider's Members messages fed to the
   agent in order.  For every history of handshakes, member lists and
   unreachable reports (addresses and ids in one-to-one correspondence, no
   report for the node's own address), after the history:
   - Members() is the provider's member list (the same Member values), whose
     ids are self + everything handshaked or listed - what was reported since
     ([spec_ids], C20_member_list_is_spec), and the node itself is in it;
   - HasKind(k) iff some member of the provider's list advertises k;
   - the agent's state is the result of handling exactly the snapshots the
     provider sent, each of which contains the node itself (C18's premise,
     from C20_self_stays_member);
   - message by message ([nstep_ok]): at most one event per id, a Join
     exactly for the ids that entered the provider's list at that message, a
     Leave exactly for those that left it, carrying the provider's Member
     value. *)
Theorem C18_C20_members_follow_the_provider :
  forall (self : member) (hist : list pmsg),
    host_consistent (directory self hist) -> (forall a, LeaveAddr a ∈ hist -> a <> mhost self) ->
    let n := nafter self hist in
    members (n_agent n) = pafter self hist /\
    view_ids (n_agent n) = spec_ids self hist /\
    members (n_agent n) !! mid self = Some self /\
    (forall k, has_kind k (n_agent n) = true <-> exists i m, pafter self hist !! i = Some m /\ k ∈ mkinds m) /\
    n_agent n = after (init (kset self)) (all_snaps self hist) /\
    Forall (has_self (mid self) (kset self)) (all_snaps self hist) /\
    (forall i pre post ev, nrun (nstart self).1 hist !! i = Some (pre, post, ev) ->
       n_prov pre = pafter self (take i hist) /\ n_prov post = pafter self (take (S i) hist) /\
       nstep_ok pre post ev).
Proof. exact members_follow_the_provider. Qed.
Print Assumptions C18_C20_members_follow_the_provider.

(* the view/list equality and the event clause need no premise at all *)
Theorem C18_C20_view_is_provider_list :
  forall self hist, members (n_agent (nafter self hist)) = pafter self hist.
Proof. exact node_view_is_provider_list. Qed.
Print Assumptions C18_C20_view_is_provider_list.

Theorem C18_C20_events_follow_provider :
  forall self hist i pre post ev,
    nrun (nstart self).1 hist !! i = Some (pre, post, ev) ->
    n_prov pre = pafter self (take i hist) /\ n_prov post = pafter self (take (S i) hist) /\
    nstep_ok pre post ev.
Proof. exact node_events_follow_provider. Qed.
Print Assumptions C18_C20_events_follow_provider.

(* the explicit composition: every snapshot the provider sends contains the
   node itself, so C18_view_follows_snapshots applies to each of them *)
Theorem C18_C20_snapshots_contain_self :
  forall self hist,
    host_inj (directory self hist) -> (forall a, LeaveAddr a ∈ hist -> a <> mhost self) ->
    Forall (has_self (mid self) (kset self)) (all_snaps self hist).
Proof. exact provider_snapshots_contain_self. Qed.
Print Assumptions C18_C20_snapshots_contain_self.

Theorem C18_C20_every_snapshot_step_ok :
  forall self hist,
    host_inj (directory self hist) -> (forall a, LeaveAddr a ∈ hist -> a <> mhost self) ->
    forall i pre post ev snap,
      all_snaps self hist !! i = Some snap ->
      run (init (kset self)) (all_snaps self hist) !! i = Some (pre, post, ev) ->
      step_ok pre post ev snap.
Proof. exact every_provider_snapshot_step_ok. Qed.
Print Assumptions C18_C20_every_snapshot_step_ok.

(* HasKind read off the ids of the provider's list when kinds are a function of the id *)
Theorem C18_C20_has_kind_follows_provider :
  forall self hist (K : nat -> gset nat),
    (forall m, m ∈ directory self hist -> kset m = K (mid m)) ->
    forall k, has_kind k (n_agent (nafter self hist)) = true <->
              exists i, i ∈ dom (pafter self hist) /\ k ∈ K i.
Proof. exact has_kind_follows_provider_ids. Qed.
Print Assumptions C18_C20_has_kind_follows_provider.

Theorem C18_C20_oracle_holds_of_model :
  forall self hist, noracle_on self hist (node_model_run self hist) = true.
Proof. exact noracle_holds_of_model. Qed.
Print Assumptions C18_C20_oracle_holds_of_model.
