(** The property theorems of the product model (Actor.v): one actor on an
    engine — process.go's behaviour (Proc.v: Start, Invoke, tryRestart,
    cleanup, flush) running inside the interleaving of inbox.go, registry.go
    and the engine's send / poison paths.  Nothing else lives here: each
    theorem is closed by [exact <lemma>] and followed by [Print Assumptions].

    Reading guide.  [c : acfg] fixes the script ([scr (a_cfg c)]: incarnation
    -> message -> actions of the receiver), MaxRestarts, the PopN bound and the
    fuel of the Proc functions.  [ainit senders poisoners] is the initial
    state: nothing registered, a fresh inbox; thread 0 is the spawner
    (Registry.add, then process.Start on its own goroutine, then
    Inbox.Start), then one thread per sender (a list of payloads, each sent by
    Engine.Send: lookup, push, CAS) and per poisoner (true = Poison, false =
    Stop: lookup, lookup, push, CAS, lookup); workers are created by
    successful CASes idle->running.  [areach c s0 s]: some schedule leads from
    s0 to s; one step = one scheduling point of the deterministic scheduler
    on the real code.  All theorems hold for every schedule, every number of
    senders, messages and poisoners.  Premises: [stopped_safe]: no
    incarnation's Stopped handler panics (as in PropsProc: such a panic is
    raised inside the recover path and kills the goroutine); [a_oof s = false]:
    no call of Proc.start / Proc.invoke ran out of fuel on the way (fuel
    exhaustion is an explicit flag, never a normal result).

    [a_log s] is the ghost log of the execution: every event of Proc's traces
    at the moment it happens, tagged with who logged it ([OProc]: the code of
    process.go on whichever goroutine runs it; [OExt i]: client thread i);
    [plog s] is its [OProc] part. *)
From Coq Require Import List Arith Bool Permutation.
Import ListNotations.
From HV Require Import Inbox Proc ProcExec ProcProofs Actor ActorProofs.

(** * C02 — an actor processes one message at a time (full statement) *)

(* at most one thread runs the actor's code: [holds] = the spawner from
   Registry.add until Inbox.Start's Swap has made the inbox idle (all of
   process.Start: Producer, Initialized, Started, restarts caused by panics in
   them), or a worker from its creation until its CAS running->idle (all of
   Inbox.run, every Invoke with its restarts, cleanup and flush).  Hence no
   worker exists before the inbox opens, a restarted or stopped actor never
   has two, and a cleaned-up actor's inbox is not reopened under a worker. *)
Theorem C02_at_most_one_thread_runs_the_actor :
  forall c senders poisoners s,
  stopped_safe (a_cfg c) -> areach c (ainit senders poisoners) s -> a_oof s = false ->
  acnt holds (a_thr s) <= 1.
Proof. exact C02_at_most_one_thread_runs_the_actor_thm. Qed.
Print Assumptions C02_at_most_one_thread_runs_the_actor.

(* in particular at most one thread is inside a Receive — lifecycle deliveries
   on the spawner's goroutine included *)
Theorem C02_no_two_receives_overlap :
  forall c senders poisoners s,
  stopped_safe (a_cfg c) -> areach c (ainit senders poisoners) s -> a_oof s = false ->
  acnt in_receive (a_thr s) <= 1.
Proof. exact C02_no_two_receives_overlap_thm. Qed.
Print Assumptions C02_no_two_receives_overlap.

(* non-vacuity: a run in which the spawner is inside the Initialized handler *)
Definition ex_cfg : acfg := {| a_cfg := {| maxr := 1; batch := 4096; scr := fun _ _ => [] |}; a_fuel := 20 |}.
Lemma ex_cfg_safe : stopped_safe (a_cfg ex_cfg).
Proof. intros i. constructor. Qed.
Example C02_receive_region_reachable :
  exists s, areach ex_cfg (ainit [[1]] [true]) s /\ a_oof s = false /\ acnt in_receive (a_thr s) = 1.
Proof.
  destruct (arun_sched ex_cfg (ainit [[1]] [true]) [0; 0]) as [[s ls]|] eqn:E; [|vm_compute in E; discriminate].
  exists s. split; [eapply arun_sched_reach; exact E|]. vm_compute in E. injection E as <- _. split; reflexivity.
Qed.

(** * C04 — lifecycle protocol, under every schedule *)

(* the deliveries of the whole execution, in the order in which they happen —
   Initialized and Started on the spawner's goroutine, user messages, Stopped
   and the deliveries of restarts on the workers — form a lifecycle word
   ([c04_word], ProcExec.v); only process code delivers ([recvs_elog]) *)
Theorem C04_lifecycle_word_all_schedules :
  forall c senders poisoners s,
  stopped_safe (a_cfg c) -> areach c (ainit senders poisoners) s -> a_oof s = false ->
  c04_word (recvs_of (plog s)) 0 0 = true /\ recvs_of (elog s) = recvs_of (plog s).
Proof.
  intros c senders poisoners s Hs Hr Ho. split.
  - exact (C04_lifecycle_word_all_schedules_thm c senders poisoners s Hs Hr Ho).
  - exact (recvs_elog c senders poisoners s Hr).
Qed.
Print Assumptions C04_lifecycle_word_all_schedules.

(** * C07 — a context is cancelled only after Stopped and the unregistration, under every schedule *)

(* every [Cancel k] of the log is preceded by the actor's removal from the
   registry — itself preceded by the Stopped of cleanup and followed by no
   delivery at all — or is the immediate answer to a caller whose first lookup
   found no actor (the dead letter it reports is the entry just before).  This
   covers the cancels of process.go (pill met in a batch, pills behind it,
   pills in the final flush, pills of the restart buffer) and the caller's own
   cancel after its lookup - push - re-check. *)
Theorem C07_cancel_after_stopped_all_schedules :
  forall c senders poisoners s,
  stopped_safe (a_cfg c) -> areach c (ainit senders poisoners) s -> a_oof s = false ->
  forall l1 o k l2, a_log s = l1 ++ (o, Cancel k) :: l2 ->
    (In (OProc, RegRemove) l1 /\ (exists i sd, In (OProc, Recv i true LStopped sd) l1) /\
     Forall (fun oe => match snd oe with Recv _ _ _ _ => False | _ => True end) l2) \/
    (exists i g l1', o = OExt i /\ l1 = l1' ++ [(OExt i, EvDeadLetter (Pill g k))]).
Proof. exact C07_cancel_after_stopped_all_schedules_thm. Qed.
Print Assumptions C07_cancel_after_stopped_all_schedules.

(* non-vacuity: a poisoner's pill is met by the worker; its context is cancelled by cleanup
   (after the flush) and once more by the caller's re-check *)
Example C07_cancel_reachable :
  exists s, areach ex_cfg (ainit [] [true]) s /\ a_oof s = false /\ aquiescent s = true /\
            In (OProc, Cancel 0) (a_log s) /\ In (OExt 1, Cancel 0) (a_log s).
Proof.
  destruct (arun_sched ex_cfg (ainit [] [true]) [0;0;0;0;0;0;0;0; 1;1;1;1; 2;2;2;2;2;2;2;2;2; 1]) as [[s ls]|] eqn:E; [|vm_compute in E; discriminate].
  exists s. split; [eapply arun_sched_reach; exact E|]. vm_compute in E. injection E as <- _.
  repeat split; cbn; tauto.
Qed.

(** * C01 / C05 — conservation of user messages, under every schedule *)

(* when all threads have finished (the spawner, every sender, every poisoner
   and every worker), every user message sent to the PID — by the senders and
   by the actor itself — has been delivered ([dlv]: payloads of Recv (LUser _))
   or reported as a dead letter ([ddl]) or is left in the ring of the inbox
   ([uenv (a_ring s)]; the send raced the actor's shutdown: lookup hit before
   Registry.Remove, push after the final flush), with multiplicity; hence with
   pairwise distinct payloads nothing is delivered twice.  ([elog s]: the
   events of the whole log.)  Together with the next theorem: something can
   be left in the ring only if the inbox has been stopped.  NOT proved here:
   that what is left was pushed after the final flush had seen the ring
   empty, and per-sender order among the delivered; both are judged on every
   replayed execution by ActorExec.oracle. *)
Theorem C01_C05_conservation_all_schedules_partial :
  forall c senders poisoners s,
  stopped_safe (a_cfg c) -> areach c (ainit senders poisoners) s -> a_oof s = false -> aquiescent s = true ->
  Permutation (sends_of (elog s)) (dlv (elog s) ++ ddl (elog s) ++ uenv (a_ring s)) /\
  (NoDup (sends_of (elog s)) -> NoDup (dlv (elog s))).
Proof. exact C01_C05_conservation_perm_thm. Qed.
Print Assumptions C01_C05_conservation_all_schedules_partial.

(* non-vacuity: a sender whose message is delivered, and a quiescent end *)
Example C01_C05_conservation_reachable :
  exists s, areach ex_cfg (ainit [[7]] []) s /\ a_oof s = false /\ aquiescent s = true /\ dlv (elog s) = [7].
Proof.
  destruct (arun_sched ex_cfg (ainit [[7]] []) [0;0;0;0;0;0;0;0; 1;1;1; 2;2;2;2;2;2;2;2]) as [[s ls]|] eqn:E; [|vm_compute in E; discriminate].
  exists s. split; [eapply arun_sched_reach; exact E|]. vm_compute in E. injection E as <- _. repeat split.
Qed.

(* no lost wake-up in the product: when all threads have finished the inbox is
   idle with an empty ring, or it has been stopped (cleanup, or an actor that
   died in its first Start): only the ring of a stopped inbox can be left
   non-empty *)
Theorem C03_at_rest_idle_and_empty_or_stopped :
  forall c senders poisoners s,
  stopped_safe (a_cfg c) -> areach c (ainit senders poisoners) s -> a_oof s = false -> aquiescent s = true ->
  (a_status s = Idle /\ a_ring s = []) \/ a_status s = Stopped.
Proof. exact C03_at_rest_idle_and_empty_or_stopped_thm. Qed.
Print Assumptions C03_at_rest_idle_and_empty_or_stopped.
