(** The respawn race decided on the model (TreeRace.v): exhaustive exploration
    by [vm_compute] of every interleaving of the parent's requests, the
    stoppers and the cleanups, for up to 3 requests and 3 stoppers. *)
From Coq Require Import List Arith Bool.
Import ListNotations.
From HV Require Import TreeRace.

(* D21, orphan: with the D11 order and an unconditional delete the old child's
   delete removes the entry of the child that was spawned in between *)
Lemma pinned_orphan :
  exists s, rrun pinned 1 (rinit 1 1)
              [LStopper; LProc 0; LProc 0; LParent; LParent; LProc 0] = Some s /\
            r_reg s = Some 1 /\ r_map s = None /\ succs pinned 1 s = [].
Proof. eexists. split; [vm_compute; reflexivity|]. vm_compute. auto. Qed.

(* D21, stale entry: a duplicate SpawnChild (the child is still registered)
   whose unconditional Set comes after the child's delete *)
Lemma pinned_stale :
  exists s, rrun pinned 1 (rinit 1 1)
              [LStopper; LParent; LProc 0; LProc 0; LProc 0; LParent] = Some s /\
            r_reg s = None /\ r_map s = Some 1 /\ succs pinned 1 s = [].
Proof. eexists. split; [vm_compute; reflexivity|]. vm_compute. auto. Qed.

(* half repairs do not do *)
Lemma ptr_delete_only_stale : outcomes ptr_delete_only 1 1 = Some [(true, true); (false, true)].
Proof. vm_compute. reflexivity. Qed.
Lemma check_then_act_orphan :
  exists s, rrun check_then_act 1 (rinit 1 1)
              [LStopper; LProc 0; LProc 0; LProc 0; LParent; LParent; LParent; LProc 0] = Some s /\
            r_reg s = Some 1 /\ r_map s = None /\ succs check_then_act 1 s = [].
Proof. eexists. split; [vm_compute; reflexivity|]. vm_compute. auto. Qed.
Lemma set_after_start_stale : all_agree set_after_start 2 2 = false.
Proof. vm_compute. reflexivity. Qed.

(* the repair: insert, Set only if inserted, then Start; atomic delete of one's own entry *)
Lemma repaired_agrees :
  forallb (fun rk => all_agree repaired (fst rk) (snd rk))
          [(1, 1); (1, 2); (2, 1); (2, 2); (3, 1); (1, 3); (3, 2); (2, 3); (3, 3)] = true.
Proof. vm_compute. reflexivity. Qed.

Lemma repaired_outcomes : outcomes repaired 2 2 = Some [(true, true); (false, false)].
Proof. vm_compute. reflexivity. Qed.
