(** L1 extended — the inbox transition system of Inbox.v in which an Invoke may
    also send to its own inbox (the actor sending to itself from Receive):
    for every message m handed to the receiver, the worker performs
    Inbox.Send m' = Push m' ; CAS(idle->running) for each m' of [react m],
    before it leaves Invoke (and before the Stop of a poison pill further down
    the batch).  Everything else is as in Inbox.v, which this file does not
    touch (Inbox.v is tied to the code by replay).

    Definitions only; proofs are in InboxSelfProofs.v. *)
From Coq Require Import List Arith Bool.
Import ListNotations.
From HV Require Import Inbox.

Inductive xpc :=
| XSPush (ms : list msg) | XSCas (ms : list msg)
| XTCas | XTSwap | XTSched
| XWLoad | XWPop
| XWInvB (b : list msg)
| XWSelf (ms : list msg) (pill : bool)      (* inside Invoke: about to Push (hd ms) to its own inbox *)
| XWSelfCas (ms : list msg) (pill : bool)   (* inside Invoke: pushed; about to CAS idle->running *)
| XWStop | XWInvE | XWExit | XWLen | XWSched
| XDone.

Record xconfig := { xbound : nat; react : msg -> list msg }.

Record xst := { xstatus : status; xq : list msg; xthr : list xpc;
                xdelivered : list msg; xdropped : list msg; xpushed : list msg }.

Definition xset_thr (s : xst) (i : nat) (p : xpc) (extra : list xpc) : list xpc :=
  firstn i (xthr s) ++ p :: skipn (S i) (xthr s) ++ extra.

Definition xupd (s : xst) stt qq i p extra dl dr pu : xst :=
  {| xstatus := stt; xq := qq; xthr := xset_thr s i p extra; xdelivered := dl; xdropped := dr; xpushed := pu |}.

Definition xkick (s : xst) (i : nat) (next : xpc) : xst * label :=
  if status_eqb (xstatus s) Idle
  then (xupd s Running (xq s) i next [XWLoad] (xdelivered s) (xdropped s) (xpushed s), LCas Idle Running true)
  else (xupd s (xstatus s) (xq s) i next [] (xdelivered s) (xdropped s) (xpushed s), LCas Idle Running false).

Definition xsame (s : xst) i p := xupd s (xstatus s) (xq s) i p [] (xdelivered s) (xdropped s) (xpushed s).

(* where the worker goes when its self-sends are done *)
Definition after_self (pill : bool) : xpc := if pill then XWStop else XWInvE.
Definition self_or_after (ms : list msg) (pill : bool) : xpc :=
  match ms with [] => after_self pill | _ => XWSelf ms pill end.

Definition xstep (c : xconfig) (s : xst) (i : nat) : option (xst * label) :=
  match nth_error (xthr s) i with
  | None => None
  | Some p =>
    match p with
    | XDone => None
    | XSPush [] => Some (xsame s i XDone, LNone)
    | XSPush (m :: ms) =>
        Some (xupd s (xstatus s) (xq s ++ [m]) i (XSCas ms) [] (xdelivered s) (xdropped s) (xpushed s ++ [m]), LPush m)
    | XSCas ms => Some (xkick s i (match ms with [] => XDone | _ => XSPush ms end))
    | XTCas => if status_eqb (xstatus s) Stopped
               then Some (xupd s Starting (xq s) i XTSwap [] (xdelivered s) (xdropped s) (xpushed s), LCas Stopped Starting true)
               else Some (xsame s i XDone, LCas Stopped Starting false)
    | XTSwap => Some (xupd s Idle (xq s) i XTSched [] (xdelivered s) (xdropped s) (xpushed s), LSwap Idle (xstatus s))
    | XTSched => Some (xkick s i XDone)
    | XWLoad => if status_eqb (xstatus s) Stopped
                then Some (xsame s i XWExit, LLoad (xstatus s))
                else Some (xsame s i XWPop, LLoad (xstatus s))
    | XWPop => match xq s with
               | [] => Some (xsame s i XWExit, LPopN [] false)
               | _ => Some (xupd s (xstatus s) (skipn (xbound c) (xq s)) i (XWInvB (firstn (xbound c) (xq s))) []
                                 (xdelivered s) (xdropped s) (xpushed s),
                            LPopN (firstn (xbound c) (xq s)) true)
               end
    | XWInvB b =>
        Some (xupd s (xstatus s) (xq s) i
                   (self_or_after (flat_map (react c) (before_pill b)) (has_pill b)) []
                   (xdelivered s ++ before_pill b) (xdropped s ++ after_pill b) (xpushed s), LInvB b)
    | XWSelf [] pill => Some (xsame s i (after_self pill), LNone)
    | XWSelf (m :: ms) pill =>
        Some (xupd s (xstatus s) (xq s ++ [m]) i (XWSelfCas ms pill) [] (xdelivered s) (xdropped s) (xpushed s ++ [m]), LPush m)
    | XWSelfCas ms pill => Some (xkick s i (self_or_after ms pill))
    | XWStop => Some (xupd s Stopped (xq s) i XWInvE [] (xdelivered s) (xdropped s) (xpushed s), LStore Stopped)
    | XWInvE => Some (xsame s i XWLoad, LInvE)
    | XWExit => if status_eqb (xstatus s) Running
                then Some (xupd s Idle (xq s) i XWLen [] (xdelivered s) (xdropped s) (xpushed s), LCas Running Idle true)
                else Some (xsame s i XDone, LCas Running Idle false)
    | XWLen => match xq s with
               | [] => Some (xsame s i XDone, LLen 0)
               | _ => Some (xsame s i XWSched, LLen (length (xq s)))
               end
    | XWSched => Some (xkick s i XDone)
    end
  end.

(* client programs are given as Inbox.pc (SPush ms / TCas) and injected *)
Definition inj (p : pc) : xpc :=
  match p with
  | SPush ms => XSPush ms | SCas ms => XSCas ms | TCas => XTCas | TSwap => XTSwap | TSched => XTSched
  | WLoad => XWLoad | WPop => XWPop | WInvB b => XWInvB b | WStop => XWStop | WInvE => XWInvE
  | WExit => XWExit | WLen => XWLen | WSched => XWSched | Done => XDone
  end.

Definition xinit (clients : list pc) : xst :=
  {| xstatus := Stopped; xq := []; xthr := map inj clients; xdelivered := []; xdropped := []; xpushed := [] |}.
Definition xinit_started (clients : list pc) : xst :=
  {| xstatus := Running; xq := []; xthr := XWLoad :: map inj clients; xdelivered := []; xdropped := []; xpushed := [] |}.

Fixpoint xrun_sched (c : xconfig) (s : xst) (sched : list nat) : option (xst * list label) :=
  match sched with
  | [] => Some (s, [])
  | i :: rest =>
    match xstep c s i with
    | None => None
    | Some (s', l) =>
      match xrun_sched c s' rest with
      | None => None
      | Some (s'', ls) => Some (s'', l :: ls)
      end
    end
  end.

Inductive xreach (c : xconfig) (s0 : xst) : xst -> Prop :=
| xreach_refl : xreach c s0 s0
| xreach_step s i s' l : xreach c s0 s -> xstep c s i = Some (s', l) -> xreach c s0 s'.

Definition xis_done (p : xpc) : bool := match p with XDone => true | _ => false end.
Definition xquiescent (s : xst) : bool := forallb xis_done (xthr s).

Definition xholder (p : xpc) : bool :=
  match p with XWLoad | XWPop | XWInvB _ | XWSelf _ _ | XWSelfCas _ _ | XWStop | XWInvE | XWExit => true | _ => false end.
Definition xin_region (p : xpc) : bool :=
  match p with XWSelf _ _ | XWSelfCas _ _ | XWStop | XWInvE => true | _ => false end.
Definition xpending_kick (p : xpc) : bool :=
  match p with XSCas _ | XTSched | XWSelfCas _ _ | XWLen | XWSched => true | _ => false end.
Definition xcnt (f : xpc -> bool) (l : list xpc) := length (filter f l).
Definition xinflight (s : xst) : list msg :=
  flat_map (fun p => match p with XWInvB b => b | _ => [] end) (xthr s).
