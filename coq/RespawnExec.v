(** Executable checks for the sequential registry machine (C10, family
    `respawn`): spawn / send / stop / respawn / duplicate-spawn histories run on
    the real engine through the public API, observed after every operation at
    quiescence, compared with [Registry.sstep] and judged by the property's
    predicate. *)
From stdpp Require Import list.
From HV Require Export Registry.

Definition list_eqb {A} (f : A -> A -> bool) := fix go (l1 l2 : list A) : bool :=
  match l1, l2 with
  | [], [] => true
  | a :: l1', b :: l2' => f a b && go l1' l2'
  | _, _ => false
  end.

Definition rcv := (id * nat * msg)%type.       (* (actor, incarnation, message) *)
Definition rcv_eqb (a b : rcv) : bool :=
  Nat.eqb a.1.1 b.1.1 && Nat.eqb a.1.2 b.1.2 && Nat.eqb a.2 b.2.

(* what the harness sees after an operation, at quiescence; the lists are
   indexed by the ids 0..n-1 of the case *)
Record sobs := { so_runs : list nat;        (* Producer invocations so far *)
                 so_dups : list nat;        (* ActorDuplicateIdEvents seen by a monitor subscriber so far *)
                 so_reg : list bool;        (* Registry.GetPID(kind, id) <> nil *)
                 so_regctx : list bool;     (* Context.GetPID(kind/id) <> nil, asked from inside an actor *)
                 so_recv : list rcv;        (* user messages handled so far, in order *)
                 so_overlap : bool;         (* a Producer ran while an earlier incarnation of the id had not finished Stopped *)
                 so_hang : bool }.          (* a wait of the harness ran into its bound *)

Record case := { c_n : nat; c_hist : list sop; c_obs : list sobs }.

Definition mobs (n : nat) (s : sst) : sobs :=
  {| so_runs := map (runs s) (seq 0 n); so_dups := map (dups s) (seq 0 n);
     so_reg := map (is_live s) (seq 0 n); so_regctx := map (is_live s) (seq 0 n);
     so_recv := recvd s; so_overlap := false; so_hang := false |}.

Definition sobs_eqb (a b : sobs) : bool :=
  list_eqb Nat.eqb (so_runs a) (so_runs b) && list_eqb Nat.eqb (so_dups a) (so_dups b) &&
  list_eqb Bool.eqb (so_reg a) (so_reg b) && list_eqb Bool.eqb (so_regctx a) (so_regctx b) &&
  list_eqb rcv_eqb (so_recv a) (so_recv b) &&
  Bool.eqb (so_overlap a) (so_overlap b) && Bool.eqb (so_hang a) (so_hang b).

Definition final_bad (h : list sop) : bool := bad (srun sinit h).

(* correspondence: after every operation the implementation shows what the
   machine shows.  A history that leaves the modelled domain is not compared
   (it is counted, tag 99). *)
Definition corr (c : case) : bool :=
  if final_bad (c_hist c) then true
  else list_eqb sobs_eqb (map (mobs (c_n c)) (strace sinit (c_hist c))) (c_obs c).

(** the property's predicate on the implementation's observations alone *)
Definition nb (l : list bool) (i : nat) : bool := nth i l false.
Definition nn (l : list nat) (i : nat) : nat := nth i l 0.
Definition inc_at (i : nat) (l : list nat) : list nat := imap (fun k x => if Nat.eqb k i then S x else x) l.
Definition add_at (i n : nat) (l : list nat) : list nat := imap (fun k x => if Nat.eqb k i then x + n else x) l.
Definition set_at (i : nat) (b : bool) (l : list bool) : list bool := imap (fun k x => if Nat.eqb k i then b else x) l.
Definition subset_b (a b : list bool) : bool :=       (* a ⊆ b *)
  list_eqb Bool.eqb (zip_with (fun x y => x && negb y) a b) (repeat false (length a)).
Definition neqb := list_eqb Nat.eqb.
Definition beqb := list_eqb Bool.eqb.
Definition is_prefix (a b : list rcv) : bool := list_eqb rcv_eqb (firstn (length a) b) a.

Definition init_obs (n : nat) : sobs :=
  {| so_runs := repeat 0 n; so_dups := repeat 0 n; so_reg := repeat false n; so_regctx := repeat false n;
     so_recv := []; so_overlap := false; so_hang := false |}.

Definition spawn_ok (i : id) (a b : sobs) : bool :=
  list_eqb rcv_eqb (so_recv a) (so_recv b) &&
  if nb (so_reg a) i
  then (* taken: no Producer run, one ActorDuplicateIdEvent, nothing else changes *)
       neqb (so_runs b) (so_runs a) && neqb (so_dups b) (inc_at i (so_dups a)) && beqb (so_reg b) (so_reg a)
  else (* free (never used, or its actor has stopped): the Producer runs once, the id is registered *)
       neqb (so_runs b) (inc_at i (so_runs a)) && neqb (so_dups b) (so_dups a) &&
       beqb (so_reg b) (set_at i true (so_reg a)).

Definition unchanged_counts (a b : sobs) : bool :=
  neqb (so_runs b) (so_runs a) && neqb (so_dups b) (so_dups a).

Definition step_ok (n : nat) (o : sop) (a b : sobs) : bool :=
  negb (so_overlap b) && negb (so_hang b) && beqb (so_reg b) (so_regctx b) &&
  Nat.eqb (length (so_runs b)) n && Nat.eqb (length (so_dups b)) n && Nat.eqb (length (so_reg b)) n &&
  is_prefix (so_recv a) (so_recv b) &&
  match o with
  | OSpawn i => spawn_ok i a b
  | OSpawnChild p i =>
      if nb (so_reg a) p then spawn_ok i a b
      else unchanged_counts a b && beqb (so_reg b) (so_reg a)
  | OStop i => unchanged_counts a b && negb (nb (so_reg b) i) && subset_b (so_reg b) (so_reg a)
  | OStopBegin i g =>
      (* the shutdown is held inside g's Stopped handler: neither g nor i has
         finished Stopped, both are live, both must still answer to their ids *)
      unchanged_counts a b && subset_b (so_reg b) (so_reg a) &&
      (if nb (so_reg a) i && nb (so_reg a) g then nb (so_reg b) i && nb (so_reg b) g else true)
  | OStopEnd i g => unchanged_counts a b && negb (nb (so_reg b) i) && negb (nb (so_reg b) g) &&
                    subset_b (so_reg b) (so_reg a)
  | OSend _ _ | OBlock _ | ORelease _ | OGet _ => unchanged_counts a b && beqb (so_reg b) (so_reg a)
  | ORace i n =>
      (* n concurrent spawns of one id: exactly one Producer run if the id was free (none if taken), an
         ActorDuplicateIdEvent for every other one *)
      list_eqb rcv_eqb (so_recv a) (so_recv b) &&
      if nb (so_reg a) i
      then neqb (so_runs b) (so_runs a) && neqb (so_dups b) (add_at i n (so_dups a)) && beqb (so_reg b) (so_reg a)
      else if Nat.eqb n 0 then unchanged_counts a b && beqb (so_reg b) (so_reg a)
      else neqb (so_runs b) (inc_at i (so_runs a)) && neqb (so_dups b) (add_at i (n - 1) (so_dups a)) &&
           beqb (so_reg b) (set_at i true (so_reg a))
  end.

Fixpoint steps_ok (n : nat) (h : list sop) (a : sobs) (os : list sobs) : bool :=
  match h, os with
  | [], [] => true
  | o :: h', b :: os' => step_ok n o a b && steps_ok n h' b os'
  | _, _ => false
  end.

(* the messages that must arrive: sent to an id that was registered at that
   moment, outside a held shutdown; each to the incarnation registered then *)
Fixpoint expected (h : list sop) (a : sobs) (os : list sobs) (held : bool) : list rcv :=
  match h, os with
  | o :: h', b :: os' =>
      (match o with
       | OSend i m => if negb held && nb (so_reg a) i then [(i, nn (so_runs a) i, m)] else []
       | _ => [] end) ++
      expected h' b os' (match o with OStopBegin _ _ => true | OStopEnd _ _ => false | _ => held end)
  | _, _ => []
  end.

Definition last_obs (n : nat) (os : list sobs) : sobs := List.last os (init_obs n).

(* pending messages are not disturbed: every expected message was handled
   exactly once, by that incarnation, in the order sent (per actor) *)
Definition deliveries_ok (c : case) : bool :=
  let ex := expected (c_hist c) (init_obs (c_n c)) (c_obs c) false in
  let fin := so_recv (last_obs (c_n c) (c_obs c)) in
  forallb (fun i =>
    list_eqb rcv_eqb (filter (fun x : rcv => (Nat.eqb x.1.1 i && existsb (rcv_eqb x) ex) = true) fin)
                     (filter (fun x : rcv => Nat.eqb x.1.1 i = true) ex)) (seq 0 (c_n c)).

Definition oracle (c : case) : bool :=
  steps_ok (c_n c) (c_hist c) (init_obs (c_n c)) (c_obs c) && deliveries_ok c.

(* proof-relevant situations of a history, read off the model run *)
Definition has_pending (s : sst) (i : id) : bool :=
  match procs s i with Some r => negb (Nat.eqb (length (p_queue r)) 0) | None => false end.
Definition is_child_proc (s : sst) (i : id) : bool :=
  match procs s i with Some r => match p_parent r with Some _ => true | None => false end | None => false end.
Definition gate_open (s : sst) : bool := match gate s with Some _ => true | None => false end.

Definition tag (s : sst) (o : sop) : list nat :=
  (match o with
   | OSpawn i =>
       if is_live s i
       then [1] ++ (if has_pending s i then [4] else []) ++ (if is_child_proc s i then [8] else []) ++
            (if busy s i && gate_open s then [6] else [])
       else (if Nat.eqb (runs s i) 0 then [] else [3]) ++ (if gate_open s then [11] else [])
   | OSpawnChild p i =>
       if is_live s i
       then [2] ++ (if has_pending s i then [4] else []) ++ (if mem i (kids s p) then [] else [5])
       else (if Nat.eqb (runs s i) 0 then [] else [3]) ++ (if mem i (kids s p) then [7] else [])
   | OStop i => if is_live s i then (match kids s i with [] => [] | _ => [12] end) else [13]
   | OSend i _ => if busy s i then [10] else []
   | OGet i => if busy s i && gate_open s then [9] else []
   | OStopBegin i g => if Nat.eqb i g then [14] else [15]
   | ORace i _ => if is_live s i then [17] else [16]
   | _ => []
   end).

Fixpoint tags (s : sst) (h : list sop) : list nat :=
  match h with [] => [] | o :: h' => tag s o ++ tags (sstep s o) h' end.

Fixpoint dedup (l : list nat) : list nat :=
  match l with [] => [] | x :: l' => if mem x l' then dedup l' else x :: dedup l' end.

Definition branches (c : case) : list nat :=
  if final_bad (c_hist c) then [99] else dedup (tags sinit (c_hist c)).

Fixpoint failing {A} (f : A -> bool) (i : nat) (l : list A) : list nat :=
  match l with [] => [] | a :: l' => (if f a then [] else [i]) ++ failing f (S i) l' end.

Definition report (cs : list case) : list nat * list nat * list (list nat) :=
  (failing corr 0 cs, failing oracle 0 cs, map branches cs).

(* the model's own observations of a history *)
Definition model_case (n : nat) (h : list sop) : case :=
  {| c_n := n; c_hist := h; c_obs := map (mobs n) (strace sinit h) |}.

Example model_run_passes :
  report [ model_case 3 [OSpawn 0; OSpawnChild 0 2; OBlock 0; OSend 0 11; OSpawn 0; OSpawn 2; OSend 0 12; ORelease 0;
                         OSpawnChild 0 2; OStopBegin 0 2; OSpawn 0; OGet 2; OStopEnd 0 2; OSend 0 13;
                         OSpawn 0; OSend 0 14; OSpawn 2; OSpawnChild 0 2; OStop 0] ]
  = ([], [], [[4; 8; 10; 15; 1; 6; 9; 3; 2; 5]]).
Proof. vm_compute. reflexivity. Qed.

(* what a removal before Stopped looks like: during the held shutdown the id is
   not registered and a Spawn starts a second live actor *)
Example early_remove_is_flagged :
  oracle {| c_n := 1; c_hist := [OSpawn 0; OStopBegin 0 0; OSpawn 0; OStopEnd 0 0];
            c_obs := [ {| so_runs := [1]; so_dups := [0]; so_reg := [true]; so_regctx := [true]; so_recv := [];
                          so_overlap := false; so_hang := false |};
                       {| so_runs := [1]; so_dups := [0]; so_reg := [false]; so_regctx := [false]; so_recv := [];
                          so_overlap := false; so_hang := false |};
                       {| so_runs := [2]; so_dups := [0]; so_reg := [true]; so_regctx := [true]; so_recv := [];
                          so_overlap := true; so_hang := false |};
                       {| so_runs := [2]; so_dups := [0]; so_reg := [true]; so_regctx := [true]; so_recv := [];
                          so_overlap := true; so_hang := false |} ] |} = false.
Proof. by vm_compute. Qed.
