(** Executable checks for the process layer (C04, C05, C06, C07, C13): the model
    Proc.v is run on the scenario the implementation ran, the projections the
    properties talk about are compared, and each property's predicate is
    evaluated on what the implementation did. *)
From Coq Require Import List Arith Bool.
Import ListNotations.
From HV Require Export Proc.

(** ** Scripts as tables *)
Record rule := { r_inc : nat;          (* 0 = any incarnation *)
                 r_on : lmsg; r_do : list action }.

Definition lmsg_eqb (a b : lmsg) : bool :=
  match a, b with
  | LInit, LInit | LStarted, LStarted | LStopped, LStopped => true
  | LUser n, LUser m => Nat.eqb n m
  | _, _ => false
  end.

Fixpoint lookup (tbl : list rule) (i : nat) (m : lmsg) : list action :=
  match tbl with
  | [] => []
  | r :: tbl' => if (Nat.eqb (r_inc r) 0 || Nat.eqb (r_inc r) i) && lmsg_eqb (r_on r) m
                 then r_do r else lookup tbl' i m
  end.

(** ** What the harness observes *)
Record orecv := { or_inc : nat; or_msg : lmsg; or_snd : bool;
                  or_full : bool }.   (* went through the whole configured chain, first outermost,
                                         each middleware seeing this delivery's message *)
Inductive mevent := MInitialized | MStarted | MStopped | MRestarted (n : nat) | MMaxRestarts
                  | MDeadUser (n : nat) | MDeadPill.
Record opill := { op_done : bool;          (* context became done *)
                  op_early : bool;         (* was already done when the target began handling Stopped *)
                  op_reg_at_done : bool }. (* target still registered when the waiter saw Done *)

Record obs := { o_recvs : list orecv; o_events : list mevent; o_pills : list opill;
                o_sends : list nat;        (* user payloads sent to the actor, in send order *)
                o_escaped : bool; o_hang : bool;
                o_spawn_started : bool;    (* Started had been handled when Spawn returned *)
                o_registered : bool }.     (* GetPID non-nil at the end *)

Record case := { c_prop : nat; c_maxr : nat; c_chain : nat; c_table : list rule;
                 c_ops : list extop; c_obs : obs }.

Definition FUEL := 400.
Definition cfg_of (c : case) : cfg := {| maxr := c_maxr c; batch := 4096; scr := lookup (c_table c) |}.
Definition model (c : case) : pst * list event := run FUEL (cfg_of c) (c_ops c).

(** ** Projections of a model trace *)
Fixpoint recvs_of (t : list event) : list orecv :=
  match t with
  | [] => []
  | Recv i mw m s :: t' => {| or_inc := i; or_msg := m; or_snd := s; or_full := mw |} :: recvs_of t'
  | _ :: t' => recvs_of t'
  end.

Fixpoint events_of (t : list event) : list mevent :=
  match t with
  | [] => []
  | e :: t' =>
    match e with
    | EvInitialized => [MInitialized] | EvStarted => [MStarted] | EvStopped => [MStopped]
    | EvRestarted n => [MRestarted n] | EvMaxRestarts => [MMaxRestarts]
    | EvDeadLetter (User n) => [MDeadUser n] | EvDeadLetter (Pill _ _) => [MDeadPill]
    | _ => []
    end ++ events_of t'
  end.

Fixpoint sends_of (t : list event) : list nat :=
  match t with [] => [] | Sent n :: t' => n :: sends_of t' | _ :: t' => sends_of t' end.

Definition cancelled (t : list event) (k : nat) : bool :=
  existsb (fun e => match e with Cancel j => Nat.eqb j k | _ => false end) t.

(* a Cancel that precedes the last Stopped delivery or the RegRemove of the actor *)
Fixpoint early_cancels (t : list event) : list nat :=
  match t with
  | [] => []
  | Cancel k :: t' =>
      (if existsb (fun e => match e with Recv _ _ LStopped _ => true | RegRemove => true | _ => false end) t'
       then [k] else []) ++ early_cancels t'
  | _ :: t' => early_cancels t'
  end.

Definition started_in_spawn (c : cfg) : bool :=
  let '(_, t, _) := start FUEL c init_pst in
  existsb (fun e => match e with Recv _ _ LStarted _ => true | _ => false end) t.

(** ** Correspondence *)
Definition orecv_eqb (a b : orecv) : bool :=
  Nat.eqb (or_inc a) (or_inc b) && lmsg_eqb (or_msg a) (or_msg b) &&
  Bool.eqb (or_snd a) (or_snd b) && Bool.eqb (or_full a) (or_full b).
Definition mevent_eqb (a b : mevent) : bool :=
  match a, b with
  | MInitialized, MInitialized | MStarted, MStarted | MStopped, MStopped
  | MMaxRestarts, MMaxRestarts | MDeadPill, MDeadPill => true
  | MRestarted n, MRestarted m => Nat.eqb n m
  | MDeadUser n, MDeadUser m => Nat.eqb n m
  | _, _ => false
  end.
Fixpoint all2 {A} (f : A -> A -> bool) (l1 l2 : list A) : bool :=
  match l1, l2 with
  | [], [] => true
  | a :: l1', b :: l2' => f a b && all2 f l1' l2'
  | _, _ => false
  end.

(* lifecycle deliveries carry no sender of their own: the stale Context.sender
   is not part of any property; compare it for user deliveries only *)
Definition norm_recv (r : orecv) : orecv :=
  match or_msg r with
  | LUser _ => r
  | _ => {| or_inc := or_inc r; or_msg := or_msg r; or_snd := false; or_full := or_full r |}
  end.

Definition corr (c : case) : bool :=
  let '(s, t) := model c in
  let o := c_obs c in
  negb (out_of_fuel t) &&
  all2 orecv_eqb (map norm_recv (recvs_of t)) (map norm_recv (o_recvs o)) &&
  all2 mevent_eqb (events_of t) (o_events o) &&
  all2 Nat.eqb (sends_of t) (o_sends o) &&
  Nat.eqb (npill s) (length (o_pills o)) &&
  all2 Bool.eqb (map (cancelled t) (seq 0 (npill s))) (map op_done (o_pills o)) &&
  Bool.eqb (has_escaped t) (o_escaped o) &&
  negb (o_hang o) &&
  Bool.eqb (started_in_spawn (cfg_of c)) (o_spawn_started o) &&
  Bool.eqb (registered s) (o_registered o).

(** ** The properties' predicates on the implementation's observation *)

(* C04: per incarnation the word is I, then S, then user messages, then at most
   one X, nothing after X; incarnations do not interleave.  Checked by a
   small automaton over the delivery stream: state = (current incarnation,
   phase 0 = expecting I, 1 = expecting S, 2 = user messages, 3 = ended). *)
Fixpoint c04_word (l : list orecv) (cur phase : nat) : bool :=
  match l with
  | [] => true
  | r :: l' =>
    let i := or_inc r in
    match or_msg r with
    | LInit => (Nat.eqb i (S cur)) && (Nat.eqb cur 0 || Nat.eqb phase 3) && c04_word l' i 1
    | LStarted => Nat.eqb i cur && Nat.eqb phase 1 && c04_word l' cur 2
    | LUser _ => Nat.eqb i cur && Nat.eqb phase 2 && c04_word l' cur 2
    | LStopped => Nat.eqb i cur && (Nat.eqb phase 1 || Nat.eqb phase 2) && c04_word l' cur 3
    end
  end.

Definition oracle_c04 (c : case) : bool :=
  let o := c_obs c in
  negb (o_hang o) && c04_word (o_recvs o) 0 0 &&
  (* when Spawn returned, Started had been handled — unless Initialized or
     Started itself crashed every incarnation up to the budget *)
  (o_spawn_started o || negb (existsb (fun r => lmsg_eqb (or_msg r) LStarted) (o_recvs o))
   || existsb (fun r => match r_on r with LInit | LStarted => existsb (fun a => match a with APanic | APanicInternal => true | _ => false end) (r_do r) | _ => false end) (c_table c)).

(* C05: nothing escapes; Restarted counters are 1, 2, 3, …; a delivery whose
   script panics is followed by Stopped to the same incarnation; with
   pairwise distinct payloads no payload is delivered twice *)
Fixpoint user_payloads (l : list orecv) : list nat :=
  match l with [] => [] | r :: l' => match or_msg r with LUser n => n :: user_payloads l' | _ => user_payloads l' end end.
Fixpoint nodupb (l : list nat) : bool :=
  match l with [] => true | x :: l' => negb (existsb (Nat.eqb x) l') && nodupb l' end.
Fixpoint restarted_counters (l : list mevent) : list nat :=
  match l with [] => [] | MRestarted n :: l' => n :: restarted_counters l' | _ :: l' => restarted_counters l' end.
Definition panics (acts : list action) : bool :=
  existsb (fun a => match a with APanic | APanicInternal => true | _ => false end) acts.
Fixpoint panic_then_stopped (tbl : list rule) (l : list orecv) : bool :=
  match l with
  | [] => true
  | r :: l' =>
    (if panics (lookup tbl (or_inc r) (or_msg r)) && negb (lmsg_eqb (or_msg r) LStopped)
     then match l' with
          | r' :: _ => Nat.eqb (or_inc r') (or_inc r) && lmsg_eqb (or_msg r') LStopped
          | [] => false
          end
     else true) && panic_then_stopped tbl l'
  end.

(* [a] is a subsequence of [b] *)
Fixpoint subseqb (a b : list nat) : bool :=
  match a, b with
  | [], _ => true
  | _ :: _, [] => false
  | x :: a', y :: b' => if Nat.eqb x y then subseqb a' b' else subseqb a b'
  end.
Fixpoint dead_payloads (l : list mevent) : list nat :=
  match l with [] => [] | MDeadUser n :: l' => n :: dead_payloads l' | _ :: l' => dead_payloads l' end.

(* C05 (with C01/C09): what is delivered is delivered in send order; every
   message sent is either delivered or reported as a dead letter — none is
   lost silently and none is counted twice *)
Definition oracle_c05 (c : case) : bool :=
  let o := c_obs c in
  negb (o_escaped o) && negb (o_hang o) &&
  subseqb (user_payloads (o_recvs o)) (o_sends o) &&
  Nat.eqb (length (user_payloads (o_recvs o)) + length (dead_payloads (o_events o))) (length (o_sends o)) &&
  forallb (fun n => existsb (Nat.eqb n) (user_payloads (o_recvs o)) || existsb (Nat.eqb n) (dead_payloads (o_events o))) (o_sends o) &&
  all2 Nat.eqb (restarted_counters (o_events o)) (seq 1 (length (restarted_counters (o_events o)))) &&
  panic_then_stopped (c_table c) (o_recvs o) &&
  nodupb (user_payloads (o_recvs o)).

(* C06: at most MaxRestarts restarts; when the budget is exceeded the actor
   is stopped and unregistered, its Stopped event is published, nothing
   escapes, nothing more is delivered *)
Fixpoint after_max (l : list mevent) : option (list mevent) :=
  match l with [] => None | MMaxRestarts :: l' => Some l' | _ :: l' => after_max l' end.

Definition oracle_c06 (c : case) : bool :=
  let o := c_obs c in
  negb (o_hang o) &&
  Nat.leb (length (restarted_counters (o_events o))) (c_maxr c) &&
  match after_max (o_events o) with
  | None => true
  | Some rest =>
      negb (o_escaped o) && negb (o_registered o) &&
      existsb (fun e => mevent_eqb e MStopped) rest &&
      negb (existsb (fun e => match e with MRestarted _ | MInitialized | MStarted => true | _ => false end) rest) &&
      match rev (o_recvs o) with r :: _ => lmsg_eqb (or_msg r) LStopped | [] => false end
  end.

(* C07: every Stop/Poison context becomes done, none before the target has
   handled Stopped, none while the target is still registered *)
Definition alien := 4999.   (* the harness's code for "a message of a type no script sent" (e.g. a poison pill) *)
Definition oracle_c07 (c : case) : bool :=
  let o := c_obs c in
  negb (o_hang o) &&
  forallb (fun r => negb (lmsg_eqb (or_msg r) (LUser alien))) (o_recvs o) &&
  forallb (fun p => op_done p && negb (op_early p) && negb (op_reg_at_done p)) (o_pills o).

(* C13: every delivery went through the configured chain, and inside it the
   Context showed the sender the message was sent with: a payload sent by an
   [ASend] action carries the actor's own PID, anything else (ASendNil,
   external sends) carries none.  Payloads sent both ways are not judged. *)
Definition sent_with_sender (tbl : list rule) (n : nat) : bool :=
  existsb (fun r => existsb (fun a => match a with ASend m => Nat.eqb m n | _ => false end) (r_do r)) tbl.
Definition sent_without_sender (tbl : list rule) (ops : list extop) (n : nat) : bool :=
  existsb (fun r => existsb (fun a => match a with ASendNil m => Nat.eqb m n | _ => false end) (r_do r)) tbl ||
  existsb (fun x => match x with XSend m => Nat.eqb m n | _ => false end) ops.
Definition sender_ok (c : case) (r : orecv) : bool :=
  match or_msg r with
  | LUser n =>
      let w := sent_with_sender (c_table c) n in
      let wo := sent_without_sender (c_table c) (c_ops c) n in
      if w && negb wo then or_snd r else if wo && negb w then negb (or_snd r) else true
  | _ => true
  end.

Definition oracle_c13 (c : case) : bool :=
  negb (o_hang (c_obs c)) && forallb or_full (o_recvs (c_obs c)) && forallb (sender_ok c) (o_recvs (c_obs c)).

(* C12 (last sentence): the engine's lifecycle events are published for every
   occurrence.  What must have been published is computed from the delivery
   stream and the script alone, without the model run:
   - ActorInitializedEvent / ActorStartedEvent after every Initialized /
     Started delivery whose handler does not panic;
   - at a Stopped delivery that follows a delivery whose handler panics: an
     ActorRestartedEvent numbered 1, 2, 3, … while the budget lasts (none for an
     InternalError panic), ActorMaxRestartsExceededEvent and ActorStoppedEvent
     when it is spent;
   - ActorStoppedEvent at any other Stopped delivery (stop / poison);
   in this order, exactly these.  Dead letters appear only after
   ActorStoppedEvent and nothing else follows it; ActorStoppedEvent was
   published iff the actor is unregistered at the end; every payload sent is
   dead-lettered exactly as often as it was sent and not delivered. *)
Fixpoint panic_kind (acts : list action) : option bool :=      (* Some internal? *)
  match acts with
  | [] => None
  | APanic :: _ => Some false
  | APanicInternal :: _ => Some true
  | _ :: l => panic_kind l
  end.

Definition is_deadm (e : mevent) : bool := match e with MDeadUser _ | MDeadPill => true | _ => false end.

(* k: restarts counted so far; pend: the previous delivery panicked (internal?) *)
Fixpoint expected_events (tbl : list rule) (maxr k : nat) (pend : option bool) (l : list orecv) : list mevent :=
  match l with
  | [] => []
  | r :: l' =>
    match or_msg r with
    | LStopped =>
      match pend with
      | Some false => if Nat.eqb k maxr then MMaxRestarts :: MStopped :: expected_events tbl maxr k None l'
                      else MRestarted (S k) :: expected_events tbl maxr (S k) None l'
      | Some true => expected_events tbl maxr k None l'
      | None => MStopped :: expected_events tbl maxr k None l'
      end
    | m =>
      let pk := panic_kind (lookup tbl (or_inc r) m) in
      match m, pk with
      | LInit, None => [MInitialized]
      | LStarted, None => [MStarted]
      | _, _ => []
      end ++ expected_events tbl maxr k pk l'
    end
  end.

Fixpoint dead_after_stopped (l : list mevent) : bool :=
  match l with
  | [] => true
  | MStopped :: l' => forallb is_deadm l'
  | e :: l' => negb (is_deadm e) && dead_after_stopped l'
  end.

Definition cntb (n : nat) (l : list nat) : nat := length (filter (Nat.eqb n) l).

Definition oracle_c12 (c : case) : bool :=
  let o := c_obs c in
  negb (o_hang o) && negb (o_escaped o) &&
  all2 mevent_eqb (filter (fun e => negb (is_deadm e)) (o_events o))
                  (expected_events (c_table c) (c_maxr c) 0 None (o_recvs o)) &&
  dead_after_stopped (o_events o) &&
  Bool.eqb (o_registered o) (negb (existsb (fun e => mevent_eqb e MStopped) (o_events o))) &&
  forallb (fun n => Nat.eqb (cntb n (user_payloads (o_recvs o)) + cntb n (dead_payloads (o_events o))) (cntb n (o_sends o)))
          (o_sends o ++ user_payloads (o_recvs o) ++ dead_payloads (o_events o)).

Definition oracle (c : case) : bool :=
  match c_prop c with
  | 4 => oracle_c04 c | 5 => oracle_c05 c | 6 => oracle_c06 c && oracle_c12 c (* 'the next panic terminates it: MaxRestartsExceeded is published' is the event clause of C12 *) | 7 => oracle_c07 c | 13 => oracle_c13 c
  | 12 => oracle_c12 c
  | _ => oracle_c04 c && oracle_c05 c && oracle_c06 c && oracle_c07 c && oracle_c13 c && oracle_c12 c
  end.

(** ** Branch tags (from the model run): 1 restart, 2 max restarts exceeded,
    3 graceful pill, 4 hard stop, 5 panic while draining, 6 panic in
    Initialized/Started, 7 stop met while replaying the restart buffer,
    8 dead letters from flush/discard, 9 several pills, 10 internal error
    restart, 11 pill for an unregistered actor, 12 multi-message batch *)
Fixpoint count_ev (f : event -> bool) (t : list event) : nat :=
  match t with [] => 0 | e :: t' => (if f e then 1 else 0) + count_ev f t' end.

Definition branches (c : case) : list nat :=
  let '(s, t) := model c in
  let has f := Nat.ltb 0 (count_ev f t) in
  (if has (fun e => match e with EvRestarted _ => true | _ => false end) then [1] else []) ++
  (if has (fun e => match e with EvMaxRestarts => true | _ => false end) then [2] else []) ++
  (if has (fun e => match e with Enq {| emsg := Pill true _ |} => true | _ => false end) then [3] else []) ++
  (if has (fun e => match e with Enq {| emsg := Pill false _ |} => true | _ => false end) then [4] else []) ++
  (if existsb (fun r => match r_on r with LInit | LStarted => panics (r_do r) | _ => false end) (c_table c) then [6] else []) ++
  (if has (fun e => match e with EvDeadLetter (User _) => true | _ => false end) then [8] else []) ++
  (if Nat.ltb 1 (npill s) then [9] else []) ++
  (if existsb (fun r => existsb (fun a => match a with APanicInternal => true | _ => false end) (r_do r)) (c_table c) then [10] else []) ++
  (if has (fun e => match e with EvDeadLetter (Pill _ _) => true | _ => false end) then [11] else []).

Fixpoint failing {A} (f : A -> bool) (i : nat) (l : list A) : list nat :=
  match l with [] => [] | a :: l' => (if f a then [] else [i]) ++ failing f (S i) l' end.

Definition report (cs : list case) : list nat * list nat * list (list nat) :=
  (failing corr 0 cs, failing oracle 0 cs, map branches cs).
