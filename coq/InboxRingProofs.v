(** The ring-backed inbox (InboxRing.v) and the list-backed inbox (Inbox.v)
    simulate each other in lock step, thread by thread and label by label, for
    every initial ring capacity >= 1 and every batch bound >= 1.  Hence every
    theorem of InboxProofs.v holds of the system that runs on the transcription
    of ringbuffer.go: however the ring grows, wraps or splits its backlog into
    batches. *)
From stdpp Require Import list.
From Coq Require Import Arith Bool Lia Wellfounded Relations.
From HV Require Import Ring RingProofs Inbox InboxExec InboxProofs InboxRing.

Notation rabs := (Ring.abs rdflt).
Notation rwf := (@Ring.wf msg).

(* the simulation relation: the ring is well-formed, its content is the list
   queue, everything else is equal *)
Definition sim (rs : rst) (s : st) : Prop :=
  rwf (rq rs) /\ rabs (rq rs) = q s /\ rstatus rs = status_ s /\ rthr rs = thr s /\
  rdelivered rs = delivered s /\ rdropped rs = dropped s /\ rpushed rs = pushed s.

Lemma sim_abs rs s : sim rs s <-> rwf (rq rs) /\ s = abs_st rs.
Proof.
  split.
  - intros (H1 & H2 & H3 & H4 & H5 & H6 & H7). split; [exact H1|].
    destruct s; cbn in *; unfold abs_st; congruence.
  - intros [H ->]. unfold sim, abs_st; cbn. tauto.
Qed.

Lemma take_min_length {A} n (l : list A) : take (n `min` length l) l = take n l.
Proof.
  destruct (Nat.le_ge_cases n (length l)) as [H|H].
  - rewrite Nat.min_l by exact H. reflexivity.
  - rewrite Nat.min_r by exact H. rewrite !take_ge by lia. reflexivity.
Qed.

Lemma drop_min_length {A} n (l : list A) : drop (n `min` length l) l = drop n l.
Proof.
  destruct (Nat.le_ge_cases n (length l)) as [H|H].
  - rewrite Nat.min_l by exact H. reflexivity.
  - rewrite Nat.min_r by exact H. rewrite !drop_ge by lia. reflexivity.
Qed.

(* one step of the ring system is the same thread's step of the list system
   on the abstracted state, with the same label; and a thread that cannot
   step here cannot step there *)
Lemma rstep_abs c rs i :
  1 <= bound c -> rwf (rq rs) ->
  match rstep c rs i with
  | Some (rs', l) => step c (abs_st rs) i = Some (abs_st rs', l) /\ rwf (rq rs')
  | None => step c (abs_st rs) i = None
  end.
Proof.
  intros Hb Hwf. unfold rstep, step. cbn [thr abs_st].
  destruct (nth_error (rthr rs) i) as [p|]; [|reflexivity].
  destruct p as [[|m ms]|ms| | | | | |b| | | | | | ]; unfold rkick, kick;
  change (status_ (abs_st rs)) with (rstatus rs);
  try (destruct (rstatus rs); cbn [status_eqb]; (split; [reflexivity|exact Hwf]));
  try (split; [reflexivity|exact Hwf]); try reflexivity.
  - (* Push *)
    destruct (push_abs rdflt (rq rs) m Hwf) as [Ha Hw]. split; [|exact Hw].
    unfold abs_st, rupd, upd; cbn. rewrite Ha. reflexivity.
  - (* PopN *)
    pose proof (abs_length rdflt (rq rs)) as Hal. change (q (abs_st rs)) with (rabs (rq rs)).
    destruct (decide (Ring.len (rq rs) = 0)) as [E|E].
    + rewrite popN_empty by exact E.
      assert (Ha : rabs (rq rs) = []) by (apply nil_length_inv; lia).
      rewrite Ha. split; [|exact Hwf]. unfold abs_st, rsame, rupd, same, upd; cbn. rewrite Ha. reflexivity.
    + destruct (popN_abs rdflt (rq rs) (bound c) Hwf E) as (H1 & H2 & H3). cbn zeta in *.
      destruct (Ring.popN rdflt (rq rs) (bound c)) as [r' v]. cbn [fst snd] in *. subst v.
      rewrite <- Hal in H2 |- *. rewrite take_min_length. rewrite drop_min_length in H2.
      destruct (rabs (rq rs)) as [|a l0] eqn:Ea; [cbn in Hal; lia|].
      destruct (bound c) as [|n] eqn:En; [lia|]. cbn [take firstn].
      split; [|exact H3]. unfold abs_st, rupd, upd; cbn [rstatus rq rthr rdelivered rdropped rpushed status_ q thr delivered dropped pushed].
      rewrite H2. reflexivity.
  - (* Len *)
    pose proof (abs_length rdflt (rq rs)) as Hal. change (q (abs_st rs)) with (rabs (rq rs)).
    destruct (rabs (rq rs)) as [|a l0] eqn:Ea; cbn [length] in Hal; rewrite <- Hal.
    + split; [reflexivity|exact Hwf].
    + split; [|exact Hwf]. unfold abs_st, rsame, rupd, same, upd; cbn. rewrite Ea. reflexivity.
Qed.

(** * Lock-step simulation, both directions, same thread, same label *)

Theorem sim_step_forward c rs s i rs' l :
  1 <= bound c -> sim rs s -> rstep c rs i = Some (rs', l) ->
  exists s', step c s i = Some (s', l) /\ sim rs' s'.
Proof.
  intros Hb Hs Hr. apply sim_abs in Hs. destruct Hs as [Hwf ->].
  pose proof (rstep_abs c rs i Hb Hwf) as H. rewrite Hr in H. destruct H as [H1 H2].
  exists (abs_st rs'). split; [exact H1|]. apply sim_abs. split; [exact H2|reflexivity].
Qed.

Theorem sim_step_backward c rs s i s' l :
  1 <= bound c -> sim rs s -> step c s i = Some (s', l) ->
  exists rs', rstep c rs i = Some (rs', l) /\ sim rs' s'.
Proof.
  intros Hb Hs Hr. apply sim_abs in Hs. destruct Hs as [Hwf ->].
  pose proof (rstep_abs c rs i Hb Hwf) as H.
  destruct (rstep c rs i) as [[rs' l']|].
  - destruct H as [H1 H2]. rewrite H1 in Hr. injection Hr as <- <-.
    exists rs'. split; [reflexivity|]. apply sim_abs. split; [exact H2|reflexivity].
  - congruence.
Qed.

Theorem sim_step_none c rs s i :
  1 <= bound c -> sim rs s -> (rstep c rs i = None <-> step c s i = None).
Proof.
  intros Hb Hs. apply sim_abs in Hs. destruct Hs as [Hwf ->].
  pose proof (rstep_abs c rs i Hb Hwf) as H.
  destruct (rstep c rs i) as [[rs' l']|].
  - destruct H as [H1 _]. rewrite H1. split; discriminate.
  - rewrite H. split; reflexivity.
Qed.

Lemma sim_init size clients : 1 <= size -> sim (rinit size clients) (init clients).
Proof. intros H. apply sim_abs. split; [apply wf_new; exact H|reflexivity]. Qed.

Lemma sim_init_started size clients : 1 <= size -> sim (rinit_started size clients) (init_started clients).
Proof. intros H. apply sim_abs. split; [apply wf_new; exact H|reflexivity]. Qed.

Theorem rreach_sim c rs0 s0 rs :
  1 <= bound c -> sim rs0 s0 -> rreach c rs0 rs -> exists s, reach c s0 s /\ sim rs s.
Proof.
  intros Hb H0 Hr. induction Hr as [|rs i rs' l Hr IH Hstep].
  - exists s0. split; [apply reach_refl|exact H0].
  - destruct IH as (s & Hs & Hsim).
    destruct (sim_step_forward c rs s i rs' l Hb Hsim Hstep) as (s' & Hs' & Hsim').
    exists s'. split; [exact (reach_step c s0 _ _ _ _ Hs Hs')|exact Hsim'].
Qed.

Theorem reach_rsim c rs0 s0 s :
  1 <= bound c -> sim rs0 s0 -> reach c s0 s -> exists rs, rreach c rs0 rs /\ sim rs s.
Proof.
  intros Hb H0 Hr. induction Hr as [|s i s' l Hr IH Hstep].
  - exists rs0. split; [apply rreach_refl|exact H0].
  - destruct IH as (rs & Hs & Hsim).
    destruct (sim_step_backward c rs s i s' l Hb Hsim Hstep) as (rs' & Hs' & Hsim').
    exists rs'. split; [exact (rreach_step c rs0 _ _ _ _ Hs Hs')|exact Hsim'].
Qed.

(* whole schedules: the two systems log the same labels (batch contents and
   Len results included) and end in related states, or both get stuck *)
Theorem rrun_sched_sim c sched : forall rs s,
  1 <= bound c -> sim rs s ->
  match rrun_sched c rs sched with
  | Some (rs', ls) => exists s', run_sched c s sched = Some (s', ls) /\ sim rs' s'
  | None => run_sched c s sched = None
  end.
Proof.
  induction sched as [|i r IH]; intros rs s Hb Hsim; cbn [rrun_sched run_sched].
  - exists s. split; [reflexivity|exact Hsim].
  - destruct (rstep c rs i) as [[rs1 l]|] eqn:E.
    + destruct (sim_step_forward c rs s i rs1 l Hb Hsim E) as (s1 & Hs1 & Hsim1). rewrite Hs1.
      specialize (IH rs1 s1 Hb Hsim1). destruct (rrun_sched c rs1 r) as [[rs2 ls]|].
      * destruct IH as (s2 & Hs2 & Hsim2). rewrite Hs2. exists s2. split; [reflexivity|exact Hsim2].
      * rewrite IH. reflexivity.
    + apply (sim_step_none c rs s i Hb Hsim) in E. rewrite E. reflexivity.
Qed.

(** * Initial states: any capacity >= 1 *)

Definition rvalid_start (clients : list pc) (rs0 : rst) : Prop :=
  exists size, 1 <= size /\ forallb client_ok clients = true /\
    ((rs0 = rinit size clients /\ cnt is_starter clients <= 1) \/
     (rs0 = rinit_started size clients /\ cnt is_starter clients = 0)).

Definition rstarted_start (clients : list pc) (rs0 : rst) : Prop :=
  exists size, 1 <= size /\ forallb client_ok clients = true /\
    ((rs0 = rinit size clients /\ cnt is_starter clients = 1) \/
     (rs0 = rinit_started size clients /\ cnt is_starter clients = 0)).

Lemma rvalid_sim clients rs0 : rvalid_start clients rs0 -> exists s0, valid_start clients s0 /\ sim rs0 s0.
Proof.
  intros (size & Hs & Hok & [[-> Hc]|[-> Hc]]).
  - exists (init clients). split; [split; [exact Hok|left; auto]|apply sim_init; exact Hs].
  - exists (init_started clients). split; [split; [exact Hok|right; auto]|apply sim_init_started; exact Hs].
Qed.

Lemma rstarted_sim clients rs0 : rstarted_start clients rs0 -> exists s0, started_start clients s0 /\ sim rs0 s0.
Proof.
  intros (size & Hs & Hok & [[-> Hc]|[-> Hc]]).
  - exists (init clients). split; [split; [exact Hok|left; auto]|apply sim_init; exact Hs].
  - exists (init_started clients). split; [split; [exact Hok|right; auto]|apply sim_init_started; exact Hs].
Qed.

Lemma rstarted_rvalid clients rs0 : rstarted_start clients rs0 -> rvalid_start clients rs0.
Proof.
  intros (size & Hs & Hok & H). exists size. split; [exact Hs|]. split; [exact Hok|].
  destruct H as [[-> Hc]|[-> Hc]]; [left|right]; split; try reflexivity; lia.
Qed.

(** * The theorems of the list system, over the ring *)

(* the ring's representation invariant holds in every reachable inbox state:
   by RingProofs.ring_no_oob no index of ringbuffer.go leaves its slice *)
Theorem ring_wf_over_inbox c clients rs0 rs :
  rvalid_start clients rs0 -> 1 <= bound c -> rreach c rs0 rs -> rwf (rq rs).
Proof.
  intros Hv Hb Hr. destruct (rvalid_sim _ _ Hv) as (s0 & _ & H0).
  destruct (rreach_sim c rs0 s0 rs Hb H0 Hr) as (s & _ & Hsim). apply Hsim.
Qed.

Theorem conservation_over_ring c clients rs0 rs :
  rvalid_start clients rs0 -> 1 <= bound c -> rreach c rs0 rs ->
  rdelivered rs ++ rdropped rs ++ inflight (abs_st rs) ++ rabs (rq rs) = rpushed rs /\
  Ring.len (rq rs) = length (rabs (rq rs)).
Proof.
  intros Hv Hb Hr. destruct (rvalid_sim _ _ Hv) as (s0 & Hv0 & H0).
  destruct (rreach_sim c rs0 s0 rs Hb H0 Hr) as (s & Hs & Hsim).
  apply sim_abs in Hsim. destruct Hsim as [_ ->].
  split; [exact (conservation c _ _ _ Hv0 Hs)|]. symmetry. apply abs_length.
Qed.

Theorem receive_mutex_over_ring c clients rs0 rs :
  rvalid_start clients rs0 -> 1 <= bound c -> rreach c rs0 rs -> cnt in_region (rthr rs) <= 1.
Proof.
  intros Hv Hb Hr. destruct (rvalid_sim _ _ Hv) as (s0 & Hv0 & H0).
  destruct (rreach_sim c rs0 s0 rs Hb H0 Hr) as (s & Hs & Hsim).
  apply sim_abs in Hsim. destruct Hsim as [_ ->]. exact (C02_receive_mutex_thm c _ _ _ Hv0 Hs).
Qed.

Theorem quiescent_is_drained_over_ring c clients rs0 rs :
  rstarted_start clients rs0 -> pills_in (program_msgs clients) = false -> 1 <= bound c ->
  rreach c rs0 rs -> rquiescent rs = true ->
  rstatus rs = Idle /\ Ring.len (rq rs) = 0 /\ rdelivered rs = rpushed rs /\
  length (rpushed rs) = length (program_msgs clients).
Proof.
  intros Hv HP Hb Hr Hq. destruct (rstarted_sim _ _ Hv) as (s0 & Hv0 & H0).
  destruct (rreach_sim c rs0 s0 rs Hb H0 Hr) as (s & Hs & Hsim).
  apply sim_abs in Hsim. destruct Hsim as [_ ->].
  destruct (C03_quiescent_is_drained_thm c _ _ _ Hv0 HP Hs Hq) as (E1 & E2 & E3 & E4).
  split; [exact E1|]. split; [|split; [exact E3|exact E4]].
  rewrite <- (abs_length rdflt (rq rs)). cbn [q abs_st] in E2. rewrite E2. reflexivity.
Qed.

Theorem exactly_once_in_order_over_ring c clients rs0 rs :
  rstarted_start clients rs0 -> pills_in (program_msgs clients) = false ->
  List.NoDup (program_msgs clients) -> 1 <= bound c ->
  rreach c rs0 rs -> rquiescent rs = true ->
  rdelivered rs = rpushed rs /\
  (forall ms, List.In (SPush ms) clients -> sub_of ms (rdelivered rs) = ms) /\
  Permutation (rdelivered rs) (program_msgs clients).
Proof.
  intros Hv HP ND Hb Hr Hq. destruct (rstarted_sim _ _ Hv) as (s0 & Hv0 & H0).
  destruct (rreach_sim c rs0 s0 rs Hb H0 Hr) as (s & Hs & Hsim).
  apply sim_abs in Hsim. destruct Hsim as [_ ->].
  destruct (C01_exactly_once_in_order_thm c _ _ _ Hv0 HP ND Hs Hq) as (E1 & E2 & _).
  split; [exact E1|]. split; [exact E2|].
  exact (C01_delivered_permutation_thm c _ _ _ Hv0 HP Hs Hq).
Qed.

(** * Termination over the ring *)

Definition Rrstep (c : config) (rs0 : rst) : rst -> rst -> Prop :=
  fun r2 r1 => exists i l, rstep c r1 i = Some (r2, l) /\ rreach c rs0 r1.

Theorem terminates_over_ring c clients rs0 :
  rvalid_start clients rs0 -> 1 <= bound c -> well_founded (Rrstep c rs0).
Proof.
  intros Hv Hb rs. destruct (rvalid_sim _ _ Hv) as (s0 & Hv0 & H0).
  apply (Acc_incl _ (Rrstep c rs0) (fun x y => Rstep c s0 (abs_st x) (abs_st y))).
  - intros r2 r1 (i & l & Hstep & Hr).
    destruct (rreach_sim c rs0 s0 r1 Hb H0 Hr) as (s1 & Hs1 & Hsim1).
    pose proof Hsim1 as Hsim1'. apply sim_abs in Hsim1'. destruct Hsim1' as [Hwf ->].
    pose proof (rstep_abs c r1 i Hb Hwf) as H. rewrite Hstep in H. destruct H as [H _].
    exists i, l. split; [exact H|exact Hs1].
  - apply (Acc_inverse_image _ _ (Rstep c s0) abs_st). apply (C03_terminates_thm c clients s0 Hv0 Hb).
Qed.

Theorem no_deadlock_over_ring c clients rs0 rs :
  rvalid_start clients rs0 -> 1 <= bound c -> rreach c rs0 rs ->
  rquiescent rs = false -> exists i, rstep c rs i <> None.
Proof.
  intros Hv Hb Hr Hq. pose proof (ring_wf_over_inbox c _ _ _ Hv Hb Hr) as Hwf.
  destruct (no_deadlock c (abs_st rs) Hq) as (i & _ & Hi). exists i. intros E.
  apply Hi. apply (sim_step_none c rs (abs_st rs) i Hb); [apply sim_abs; split; [exact Hwf|reflexivity]|exact E].
Qed.

Inductive rinev (c : config) (P : rst -> Prop) : rst -> Prop :=
| rinev_now s : P s -> rinev c P s
| rinev_step s : (exists i, rstep c s i <> None) ->
                 (forall i s' l, rstep c s i = Some (s', l) -> rinev c P s') -> rinev c P s.

(* every maximal run of the ring-backed inbox is finite and ends drained *)
Theorem every_run_drains_over_ring c clients rs0 rs :
  rstarted_start clients rs0 -> pills_in (program_msgs clients) = false -> 1 <= bound c ->
  rreach c rs0 rs ->
  rinev c (fun t => rquiescent t = true /\ rstatus t = Idle /\ Ring.len (rq t) = 0 /\
                    rdelivered t = rpushed t /\ length (rpushed t) = length (program_msgs clients)) rs.
Proof.
  intros Hs HP Hb. pose proof (rstarted_rvalid _ _ Hs) as Hv.
  induction (terminates_over_ring c clients rs0 Hv Hb rs) as [rs _ IH]. intros Hr.
  destruct (rquiescent rs) eqn:E.
  - apply rinev_now. split; [exact E|]. exact (quiescent_is_drained_over_ring c _ _ _ Hs HP Hb Hr E).
  - apply rinev_step.
    + exact (no_deadlock_over_ring c _ _ _ Hv Hb Hr E).
    + intros i rs' l Hstep. apply IH.
      * exists i, l. split; [exact Hstep|exact Hr].
      * exact (rreach_step c rs0 _ _ _ _ Hr Hstep).
Qed.

(** * Non-vacuity: a run that makes the ring of capacity 1 grow twice and wrap *)

Example ex_ring_run :
  exists rs ls,
    rrun_sched {| bound := 2 |} (rinit 1 [SPush [1; 2; 3]; TCas]) [0; 0; 0; 0; 0; 0; 1; 1; 1; 2; 2; 2; 2; 2; 2; 2; 2; 2; 2; 2; 2]
      = Some (rs, ls) /\
    rquiescent rs = true /\ rstatus rs = Idle /\ rdelivered rs = [1; 2; 3] /\
    Ring.modn (rq rs) = 4 /\ Ring.len (rq rs) = 0 /\
    List.In (LPopN [1; 2] true) ls /\ List.In (LPopN [3] true) ls.
Proof. eexists. eexists. split; [vm_compute; reflexivity|]. vm_compute. intuition. Qed.
