(** The ring-backed inbox (InboxRing.v) and the list-backed inbox (Inbox.v)
    simulate each other in lock step, thread by thread and label by label, for
    every initial ring capacity >= 1 and every batch bound >= 1.  Hence every
    theorem of InboxProofs.v holds of the system that runs on the transcription
    of ringbuffer.go: however the ring grows, wraps or splits its backlog into
    batches. *)
From stdpp Require Import list.
From Coq Require Import Arith Bool Lia Wellfounded Relations.
From HV Require Import Ring RingProofs Inbox InboxExec InboxProofs InboxRing.

Notation rabs := (Ring.abs rdflt).
Notation rwf := (@Ring.wf msg).

(* the simulation relation: the ring is well-formed, its content is the list
   queue, everything else is equal *)
Definition sim (rs : rst) (s : st) : Prop :=
  rwf (rq rs) /\ rabs (rq rs) = q s /\ rstatus rs = status_ s /\ rthr rs = thr s /\
  rdelivered rs = delivered s /\ rdropped rs = dropped s /\ rpushed rs = pushed s.

Lemma sim_abs rs s : sim rs s <-> rwf (rq rs) /\ s = abs_st rs.
Proof.
  split.
  - intros (H1 & H2 & H3 & H4 & H5 & H6 & H7). split; [exact H1|].
    destruct s; cbn in *; unfold abs_st; congruence.
  - intros [H ->]. unfold sim, abs_st; cbn. tauto.
Qed.

Lemma take_min_length {A} n (l : list A) : take (n `min` length l) l = take n l.
Proof.
  destruct (Nat.le_ge_cases n (length l)) as [H|H].
  - rewrite Nat.min_l by exact H. reflexivity.
  - rewrite Nat.min_r by exact H. rewrite !take_ge by lia. reflexivity.
Qed.

Lemma drop_min_length {A} n (l : list A) : drop (n `min` length l) l = drop n l.
Proof.
  destruct (Nat.le_ge_cases n (length l)) as [H|H].
  - rewrite Nat.min_l by exact H. reflexivity.
  - rewrite Nat.min_r by exact H. rewrite !drop_ge by lia. reflexivity.
Qed.

(* one step of the ring system is the same thread's step of the list system
   on the abstracted state, with the same label; and a thread that cannot
   step here cannot step there *)
Lemma rstep_abs c rs i :
  1 <= bound c -> rwf (rq rs) ->
  match rstep c rs i with
  | Some (rs', l) => step c (abs_st rs) i = Some (abs_st rs', l) /\ rwf (rq rs')
  | None => step c (abs_st rs) i = None
  end.
Proof.
  intros Hb Hwf. unfold rstep, step. cbn [thr abs_st].
  destruct (nth_error (rthr rs) i) as [p|]; [|reflexivity].
  destruct p as [[|m ms]|ms| | | | | |b| | | | | | ]; unfold rkick, kick;
  change (status_ (abs_st rs)) with (rstatus rs);
  try (destruct (rstatus rs); cbn [status_eqb]; split; [reflexivity|exact Hwf]);
  try (split; [reflexivity|exact Hwf]); try reflexivity.
  - (* Push *)
    destruct (push_abs rdflt (rq rs) m Hwf) as [Ha Hw]. split; [|exact Hw].
    unfold abs_st, rupd, upd; cbn. rewrite Ha. reflexivity.
  - (* PopN *)
    pose proof (abs_length rdflt (rq rs)) as Hal. cbn [q].
    destruct (decide (Ring.len (rq rs) = 0)) as [E|E].
    + rewrite popN_empty by exact E.
      assert (Ha : rabs (rq rs) = []) by (apply nil_length_inv; lia).
      rewrite Ha. split; [|exact Hwf]. unfold abs_st, rsame, rupd, same, upd; cbn. rewrite Ha. reflexivity.
    + destruct (popN_abs rdflt (rq rs) (bound c) Hwf E) as (H1 & H2 & H3). cbn zeta in *.
      destruct (Ring.popN rdflt (rq rs) (bound c)) as [r' v]. cbn [fst snd] in *. subst v.
      rewrite <- Hal in H2 |- *. rewrite take_min_length. rewrite drop_min_length in H2.
      destruct (rabs (rq rs)) as [|a l0] eqn:Ea; [cbn in Hal; lia|].
      destruct (bound c) as [|n] eqn:En; [lia|]. cbn [take firstn].
      split; [|exact H3]. unfold abs_st, rupd, upd; cbn [rstatus rq rthr rdelivered rdropped rpushed status_ q thr delivered dropped pushed].
      rewrite H2. reflexivity.
  - (* Len *)
    pose proof (abs_length rdflt (rq rs)) as Hal. cbn [q].
    destruct (rabs (rq rs)) as [|a l0] eqn:Ea; cbn [length] in Hal; rewrite <- Hal.
    + split; [reflexivity|exact Hwf].
    + split; [|exact Hwf]. unfold abs_st, rsame, rupd, same, upd; cbn. rewrite Ea. reflexivity.
Qed.
