(** Proofs about the request/response model (Response.v): the inductive
    invariant and the C11 theorems; what happens without distinct ids; a reply
    that blocks its sender for ever. *)
From stdpp Require Import list sets.
From HV Require Import Response.

Lemma rupd_eq {A} (f : nat -> A) k v : rupd f k v k = v.
Proof. unfold rupd. by rewrite Nat.eqb_refl. Qed.
Lemma rupd_ne {A} (f : nat -> A) k v x : x <> k -> rupd f k v x = f x.
Proof. unfold rupd. intros. destruct (Nat.eqb_spec x k); congruence. Qed.

Definition active (p : rphase) : bool :=
  match p with Requested | Waiting _ | Decided _ => true | _ => false end.

Record RInv (c : cfg) (s : rst) : Prop := {
  ri_reg : forall i r, reg s i = Some r -> ids c r = i /\ active (phase s r) = true;
  ri_pend : forall k r' v r, pend s !! k = Some (r', v, r) -> ids c r' = ids c r /\ (r, v) ∈ sent s;
  ri_buf : forall r v, buf s r = Some v -> exists r0, ids c r0 = ids c r /\ (r0, v) ∈ sent s;
  ri_val : forall r v, phase s r = Decided (Some v) \/ phase s r = Returned (Some v) ->
                       exists r0, ids c r0 = ids c r /\ (r0, v) ∈ sent s;
  ri_err : forall r, phase s r = Decided None \/ phase s r = Returned None ->
                     exists t0, began s r = Some t0 /\ t0 + timeout c <= clock s;
  ri_wait : forall r d, phase s r = Waiting d -> exists t0, began s r = Some t0 /\ d = t0 + timeout c
}.

Lemma RInv_init c : RInv c rinit.
Proof. split; simpl; try done; intros; by destruct_or?. Qed.

Ltac rup := repeat (rewrite rupd_eq in * || (rewrite rupd_ne in * by congruence)).
Ltac cases_eq x y := destruct (Nat.eqb_spec x y) as [->|?]; rup.

Lemma RInv_step c s l s' : RInv c s -> rstep c s l = Some s' -> RInv c s'.
Proof.
  intros I Hs. destruct l as [r|r v|k|r| |r|r]; simpl in Hs.
  - (* Request *)
    destruct (phase s r) eqn:Hp; try done. destruct (reg s (ids c r)) as [r0|] eqn:Hr; injection Hs as <-.
    + split; simpl.
      * intros i r1 H. destruct (ri_reg _ _ I _ _ H) as [? Ha]. split; [done|].
        cases_eq r1 r; [done|done].
      * apply (ri_pend _ _ I).
      * apply (ri_buf _ _ I).
      * intros r1 v H. cases_eq r1 r; [by destruct_or!|]. by apply (ri_val _ _ I).
      * intros r1 H. cases_eq r1 r; [by destruct_or!|]. by apply (ri_err _ _ I).
      * intros r1 d H. cases_eq r1 r; [done|]. by apply (ri_wait _ _ I).
    + split; simpl.
      * intros i r1 H. cases_eq i (ids c r).
        -- injection H as <-. by rup.
        -- destruct (ri_reg _ _ I _ _ H) as [? Ha]. split; [done|]. cases_eq r1 r; done.
      * apply (ri_pend _ _ I).
      * apply (ri_buf _ _ I).
      * intros r1 v H. cases_eq r1 r; [by destruct_or!|]. by apply (ri_val _ _ I).
      * intros r1 H. cases_eq r1 r; [by destruct_or!|]. by apply (ri_err _ _ I).
      * intros r1 d H. cases_eq r1 r; [done|]. by apply (ri_wait _ _ I).
  - (* Lookup *)
    destruct (is_requested (phase s r)); [|done].
    destruct (reg s (ids c r)) as [r0|] eqn:Hr; injection Hs as <-.
    + destruct (ri_reg _ _ I _ _ Hr) as [Hid _].
      split; simpl; try apply I.
      * intros k r' v' r1 H. apply lookup_app_Some in H as [H|[_ H]].
        -- destruct (ri_pend _ _ I _ _ _ _ H). split; [done|set_solver].
        -- apply list_lookup_singleton_Some in H as [_ [= <- <- <-]]. split; [done|set_solver].
      * intros r1 v' H. destruct (ri_buf _ _ I _ _ H) as (r2 & ? & ?). exists r2. split; [done|set_solver].
      * intros r1 v' H. destruct (ri_val _ _ I _ _ H) as (r2 & ? & ?). exists r2. split; [done|set_solver].
    + split; simpl; try apply I.
      * intros k r' v' r1 H. destruct (ri_pend _ _ I _ _ _ _ H). split; [done|set_solver].
      * intros r1 v' H. destruct (ri_buf _ _ I _ _ H) as (r2 & ? & ?). exists r2. split; [done|set_solver].
      * intros r1 v' H. destruct (ri_val _ _ I _ _ H) as (r2 & ? & ?). exists r2. split; [done|set_solver].
  - (* Put *)
    destruct (pend s !! k) as [[[r' v] r0]|] eqn:Hk; [|done].
    destruct (ri_pend _ _ I _ _ _ _ Hk) as [Hid Hsent].
    assert (Hpend : forall k1 r1 v1 r2, delete k (pend s) !! k1 = Some (r1, v1, r2) ->
                                        ids c r1 = ids c r2 /\ (r2, v1) ∈ sent s).
    { intros k1 r1 v1 r2 H. destruct (decide (k1 < k)).
      - rewrite lookup_delete_lt in H by done. by apply (ri_pend _ _ I) in H.
      - rewrite lookup_delete_ge in H by lia. by apply (ri_pend _ _ I) in H. }
    assert (Hfill : buf s r' = None ->
              RInv c {| clock := clock s; reg := reg s; phase := phase s; began := began s;
                        buf := rupd (buf s) r' (Some v); pend := delete k (pend s); sent := sent s; dead := dead s;
                        dupid := dupid s |}).
    { intros Hb. split; simpl; try apply I; [done|].
      intros r1 v1 H. cases_eq r1 r'; [|by apply (ri_buf _ _ I)]. injection H as <-. eauto. }
    assert (Hdrop : RInv c {| clock := clock s; reg := reg s; phase := phase s; began := began s; buf := buf s;
                               pend := delete k (pend s); sent := sent s; dead := dead s ++ [(ids c r', v)];
                               dupid := dupid s |}).
    { split; simpl; try apply I. done. }
    destruct (phase s r') eqn:Hp.
    1,2,4,5: destruct (buf s r') eqn:Hb; [destruct (nonblock c); [|done]; injection Hs as <-; by apply Hdrop|];
             injection Hs as <-; by apply Hfill.
    injection Hs as <-. split; simpl; try apply I; [| done | | |].
    + intros i r1 H. destruct (ri_reg _ _ I _ _ H) as [? Ha]. split; [done|]. cases_eq r1 r'; done.
    + intros r1 v1 H. cases_eq r1 r'; [|by apply (ri_val _ _ I)].
      destruct H as [[= <-]|?]; [eauto|done].
    + intros r1 H. cases_eq r1 r'; [by destruct_or!|]. by apply (ri_err _ _ I).
    + intros r1 d H. cases_eq r1 r'; [done|]. by apply (ri_wait _ _ I).
  - (* Begin *)
    destruct (phase s r) eqn:Hp; try done. destruct (buf s r) as [v|] eqn:Hb; injection Hs as <-.
    + split; simpl; try apply I.
      * intros i r1 H. destruct (ri_reg _ _ I _ _ H) as [? Ha]. split; [done|]. cases_eq r1 r; done.
      * intros r1 v1 H. cases_eq r1 r; [done|]. by apply (ri_buf _ _ I).
      * intros r1 v1 H. cases_eq r1 r; [|by apply (ri_val _ _ I)].
        destruct H as [[= <-]|?]; [|done]. by apply (ri_buf _ _ I).
      * intros r1 H. cases_eq r1 r; [by destruct_or!|]. by apply (ri_err _ _ I).
      * intros r1 d H. cases_eq r1 r; [done|]. by apply (ri_wait _ _ I).
    + split; simpl; try apply I.
      * intros i r1 H. destruct (ri_reg _ _ I _ _ H) as [? Ha]. split; [done|]. cases_eq r1 r; done.
      * intros r1 v1 H. cases_eq r1 r; [by destruct_or!|]. by apply (ri_val _ _ I).
      * intros r1 H. cases_eq r1 r; [by destruct_or!|]. by apply (ri_err _ _ I).
      * intros r1 d H. cases_eq r1 r; [|by apply (ri_wait _ _ I)]. injection H as <-. eauto.
  - (* Tick *)
    injection Hs as <-. split; simpl; try apply I.
    intros r H. destruct (ri_err _ _ I _ H) as (t0 & ? & ?). exists t0. split; [done|lia].
  - (* Timeout *)
    destruct (phase s r) eqn:Hp; try done. destruct (Nat.leb_spec deadline (clock s)) as [Hle|?]; [|done].
    injection Hs as <-. destruct (ri_wait _ _ I _ _ Hp) as (t0 & Hb & ->).
    split; simpl; try apply I.
    + intros i r1 H. destruct (ri_reg _ _ I _ _ H) as [? Ha]. split; [done|]. cases_eq r1 r; done.
    + intros r1 v1 H. cases_eq r1 r; [by destruct_or!|]. by apply (ri_val _ _ I).
    + intros r1 H. cases_eq r1 r; [eauto|]. by apply (ri_err _ _ I).
    + intros r1 d H. cases_eq r1 r; [done|]. by apply (ri_wait _ _ I).
  - (* Return *)
    destruct (phase s r) eqn:Hp; try done. injection Hs as <-.
    split; simpl; try apply I.
    + intros i r1 H. cases_eq i (ids c r); [done|].
      destruct (ri_reg _ _ I _ _ H) as [<- Ha]. split; [done|]. cases_eq r1 r; done.
    + intros r1 v1 H. cases_eq r1 r; [|by apply (ri_val _ _ I)].
      apply (ri_val _ _ I). left. destruct H as [?|[= <-]]; done.
    + intros r1 H. cases_eq r1 r; [|by apply (ri_err _ _ I)].
      apply (ri_err _ _ I). left. destruct H as [?|[= <-]]; done.
    + intros r1 d H. cases_eq r1 r; [done|]. by apply (ri_wait _ _ I).
Qed.

Lemma RInv_reach c s : rreach c rinit s -> RInv c s.
Proof. induction 1; [apply RInv_init | by eapply RInv_step]. Qed.

(** * C11 *)

(* the value Result() returns (or is about to return) for request r was sent
   by a Respond answering request r — provided the ids are distinct *)
Theorem correlated c s r v :
  injective (ids c) -> rreach c rinit s ->
  phase s r = Decided (Some v) \/ phase s r = Returned (Some v) ->
  (r, v) ∈ sent s.
Proof.
  intros Hinj R H. destruct (ri_val _ _ (RInv_reach _ _ R) _ _ H) as (r0 & Hid & Hs).
  by rewrite <- (Hinj _ _ Hid).
Qed.

(* in particular: a request nobody answers does not get a value *)
Corollary no_reply_no_value c s r v :
  injective (ids c) -> rreach c rinit s -> (forall w, (r, w) ∉ sent s) -> result_of s r <> Some (Some v).
Proof.
  intros Hinj R Hn. unfold result_of. destruct (phase s r) eqn:Hp; try done. intros [= ->].
  eapply Hn, correlated; eauto.
Qed.

(* an error is returned only once the timeout, counted from the call of
   Result(), has passed *)
Theorem error_only_after_deadline c s r :
  rreach c rinit s -> phase s r = Decided None \/ phase s r = Returned None ->
  exists t0, began s r = Some t0 /\ t0 + timeout c <= clock s.
Proof. intros R. apply (ri_err _ _ (RInv_reach _ _ R)). Qed.

(* the step that decides for the error happens at or after the deadline *)
Lemma timeout_step_after_deadline c s r s' :
  rreach c rinit s -> rstep c s (LTimeout r) = Some s' ->
  exists t0, began s r = Some t0 /\ t0 + timeout c <= clock s /\ phase s' r = Decided None.
Proof.
  intros R. simpl. destruct (phase s r) eqn:Hp; try done.
  destruct (Nat.leb_spec deadline (clock s)) as [Hle|?]; [|done]. intros [= <-].
  destruct (ri_wait _ _ (RInv_reach _ _ R) _ _ Hp) as (t0 & Hb & ->). exists t0. simpl. by rewrite rupd_eq.
Qed.

(* phases only move forward: once Result() has returned, its outcome never
   changes, whatever is replied later; a decided outcome is the one returned *)
Lemma returned_stable_step c s l s' r res :
  phase s r = Returned res -> rstep c s l = Some s' -> phase s' r = Returned res.
Proof.
  intros Hp Hs. destruct l as [r1|r1 v|k|r1| |r1|r1]; simpl in Hs.
  - destruct (phase s r1) eqn:Hp1; try done. destruct (reg s (ids c r1)); injection Hs as <-; simpl;
      (destruct (Nat.eqb_spec r r1) as [->|?]; [congruence|by rewrite rupd_ne]).
  - destruct (is_requested (phase s r1)); [|done]. destruct (reg s (ids c r1)); by injection Hs as <-.
  - destruct (pend s !! k) as [[[r' v] r0]|]; [|done].
    destruct (phase s r') eqn:Hp1.
    1,2,4,5: destruct (buf s r'); [destruct (nonblock c); [|done]|]; by injection Hs as <-.
    injection Hs as <-. simpl. destruct (Nat.eqb_spec r r') as [->|?]; [congruence|by rewrite rupd_ne].
  - destruct (phase s r1) eqn:Hp1; try done. destruct (buf s r1); injection Hs as <-; simpl;
      (destruct (Nat.eqb_spec r r1) as [->|?]; [congruence|by rewrite rupd_ne]).
  - by injection Hs as <-.
  - destruct (phase s r1) eqn:Hp1; try done. destruct (deadline <=? clock s); [|done]. injection Hs as <-. simpl.
    destruct (Nat.eqb_spec r r1) as [->|?]; [congruence|by rewrite rupd_ne].
  - destruct (phase s r1) eqn:Hp1; try done. injection Hs as <-. simpl.
    destruct (Nat.eqb_spec r r1) as [->|?]; [congruence|by rewrite rupd_ne].
Qed.

Lemma decided_stable_step c s l s' r res :
  phase s r = Decided res -> rstep c s l = Some s' -> phase s' r = Decided res \/ phase s' r = Returned res.
Proof.
  intros Hp Hs. destruct l as [r1|r1 v|k|r1| |r1|r1]; simpl in Hs.
  - destruct (phase s r1) eqn:Hp1; try done. destruct (reg s (ids c r1)); injection Hs as <-; simpl;
      (destruct (Nat.eqb_spec r r1) as [->|?]; [congruence|left; by rewrite rupd_ne]).
  - destruct (is_requested (phase s r1)); [|done]. destruct (reg s (ids c r1)); injection Hs as <-; by left.
  - destruct (pend s !! k) as [[[r' v] r0]|]; [|done].
    destruct (phase s r') eqn:Hp1.
    1,2,4,5: destruct (buf s r'); [destruct (nonblock c); [|done]|]; injection Hs as <-; by left.
    injection Hs as <-. simpl. destruct (Nat.eqb_spec r r') as [->|?]; [congruence|left; by rewrite rupd_ne].
  - destruct (phase s r1) eqn:Hp1; try done. destruct (buf s r1); injection Hs as <-; simpl;
      (destruct (Nat.eqb_spec r r1) as [->|?]; [congruence|left; by rewrite rupd_ne]).
  - injection Hs as <-. by left.
  - destruct (phase s r1) eqn:Hp1; try done. destruct (deadline <=? clock s); [|done]. injection Hs as <-. simpl.
    destruct (Nat.eqb_spec r r1) as [->|?]; [congruence|left; by rewrite rupd_ne].
  - destruct (phase s r1) eqn:Hp1; try done. injection Hs as <-. simpl.
    destruct (Nat.eqb_spec r r1) as [->|?]; [|left; by rewrite rupd_ne].
    right. rewrite rupd_eq. congruence.
Qed.

Theorem at_most_one_result c s s' r res :
  rreach c s s' ->
  (phase s r = Returned res -> phase s' r = Returned res) /\
  (phase s r = Decided res -> phase s' r = Decided res \/ phase s' r = Returned res).
Proof.
  induction 1 as [|s1 l s2 R [IH1 IH2] Hs]; [by split; [|left]|]. split.
  - intros Hp. exact (returned_stable_step c s1 l s2 r res (IH1 Hp) Hs).
  - intros Hp. destruct (IH2 Hp) as [Hd|Hr].
    + exact (decided_stable_step c s1 l s2 r res Hd Hs).
    + right. exact (returned_stable_step c s1 l s2 r res Hr Hs).
Qed.

(* once Result() has returned — with a value or with the error — the response
   PID is not registered, and never is again *)
Theorem unregistered_after_result c s s' r res :
  injective (ids c) -> rreach c rinit s -> phase s r = Returned res -> rreach c s s' ->
  reg s' (ids c r) = None.
Proof.
  intros Hinj R Hp R'.
  assert (R2 : rreach c rinit s').
  { clear Hp. induction R'; [done|]. by eapply rreach_step. }
  destruct (at_most_one_result c s s' r res R') as [Hst _]. specialize (Hst Hp).
  destruct (reg s' (ids c r)) as [r'|] eqn:Hr; [|done].
  destruct (ri_reg _ _ (RInv_reach _ _ R2) _ _ Hr) as [Hid Ha].
  apply Hinj in Hid. subst r'. by rewrite Hst in Ha.
Qed.

(* the step itself, in both branches, whatever the ids *)
Lemma return_step_unregisters c s r s' :
  rstep c s (LReturn r) = Some s' ->
  reg s' (ids c r) = None /\ exists res, phase s r = Decided res /\ phase s' r = Returned res.
Proof.
  simpl. destruct (phase s r) eqn:Hp; try done. intros [= <-]. simpl. rewrite !rupd_eq. eauto.
Qed.

(* a Respond executed after Result() has returned becomes one DeadLetterEvent
   for the response PID carrying the reply; it reaches no Response object *)
Theorem late_reply_dead_letters c s r res v :
  injective (ids c) -> rreach c rinit s -> phase s r = Returned res ->
  exists s', rstep c s (LLookup r v) = Some s' /\
             dead s' = dead s ++ [(ids c r, v)] /\ pend s' = pend s /\ buf s' = buf s /\ phase s' = phase s /\
             reg s' = reg s.
Proof.
  intros Hinj R Hp. simpl. rewrite Hp. simpl.
  rewrite (unregistered_after_result c s s r res Hinj R Hp (rreach_refl _ _)). eauto 10.
Qed.

(** * deterministic consequences used by the correspondence check *)

(* a reply that reaches the Response while Result() is parked decides it *)
Lemma put_to_waiting_decides c s k r v r0 d :
  pend s !! k = Some (r, v, r0) -> phase s r = Waiting d ->
  exists s', rstep c s (LPut k) = Some s' /\ phase s' r = Decided (Some v).
Proof. intros Hk Hp. simpl. rewrite Hk, Hp. eexists. split; [done|]. simpl. by rewrite rupd_eq. Qed.

(* a reply buffered before Result() is called is what Result() takes *)
Lemma begin_takes_buffered c s r v :
  phase s r = Requested -> buf s r = Some v ->
  exists s', rstep c s (LBegin r) = Some s' /\ phase s' r = Decided (Some v) /\ buf s' r = None.
Proof. intros Hp Hb. simpl. rewrite Hp, Hb. eexists. split; [done|]. simpl. by rewrite !rupd_eq. Qed.

(** * what the distinct-ids premise is for *)

(* two requests draw the same id while both are outstanding: the second is not
   registered, its answer lands in the first one's mailbox *)
Example crosstalk_same_id_concurrent :
  let c := {| ids := fun _ => 5; timeout := 3; nonblock := false |} in
  exists s, rrun c rinit [LRequest 0; LRequest 1; LLookup 1 77; LPut 0; LBegin 0; LReturn 0] = Some s /\
            result_of s 0 = Some (Some 77) /\ (0, 77) ∉ sent s /\ sent s = [(1, 77)] /\ dupid s = [1].
Proof. eexists. split; [by vm_compute|]. split_and!; try by vm_compute. vm_compute. set_solver. Qed.

(* distinct ids among the outstanding requests are not enough: an id drawn
   again after its first holder has finished catches the late answer to that
   first request *)
Example crosstalk_id_reused_later :
  let c := {| ids := fun _ => 5; timeout := 2; nonblock := false |} in
  exists s, rrun c rinit [LRequest 0; LBegin 0; LTick; LTick; LTimeout 0; LReturn 0;
                         LRequest 1; LLookup 0 66; LPut 0; LBegin 1; LReturn 1] = Some s /\
            result_of s 0 = Some None /\ result_of s 1 = Some (Some 66) /\ sent s = [(0, 66)] /\ dupid s = [].
Proof. eexists. split; [by vm_compute|]. by vm_compute. Qed.

(** * several replies: a sender can stay blocked for ever (not a C11 clause —
      it concerns "sending never blocks the caller") *)

(* after Result() has returned nobody ever receives from the channel again:
   a full buffer stays full *)
Lemma full_buffer_stays_full c s s' r res w :
  rreach c s s' -> phase s r = Returned res -> buf s r = Some w ->
  phase s' r = Returned res /\ buf s' r = Some w.
Proof.
  induction 1 as [|s1 l s2 R IH Hs]; [done|]. intros Hp Hb. destruct (IH Hp Hb) as [Hp1 Hb1].
  split; [by eapply returned_stable_step|].
  destruct l as [r1|r1 v|k|r1| |r1|r1]; simpl in Hs.
  - destruct (phase s1 r1); try done. destruct (reg s1 (ids c r1)); by injection Hs as <-.
  - destruct (is_requested (phase s1 r1)); [|done]. destruct (reg s1 (ids c r1)); by injection Hs as <-.
  - destruct (pend s1 !! k) as [[[r' v] r0]|]; [|done].
    destruct (phase s1 r') eqn:Hp2.
    1,2,4,5: destruct (buf s1 r') eqn:Hb2; [destruct (nonblock c); [|done]; by injection Hs as <-|];
      injection Hs as <-; simpl;
      (destruct (Nat.eqb_spec r r') as [->|?]; [congruence|by rewrite rupd_ne]).
    by injection Hs as <-.
  - destruct (phase s1 r1) eqn:Hp2; try done. destruct (buf s1 r1); injection Hs as <-; simpl; [|done].
    destruct (Nat.eqb_spec r r1) as [->|?]; [congruence|by rewrite rupd_ne].
  - by injection Hs as <-.
  - destruct (phase s1 r1); try done. destruct (deadline <=? clock s1); [|done]. by injection Hs as <-.
  - destruct (phase s1 r1); try done. by injection Hs as <-.
Qed.

(* so a channel send to it that is still pending can never proceed *)
Lemma blocked_for_ever c s s' r res w k v r0 :
  nonblock c = false ->
  rreach c s s' -> phase s r = Returned res -> buf s r = Some w -> pend s' !! k = Some (r, v, r0) ->
  rstep c s' (LPut k) = None.
Proof.
  intros Hnb R Hp Hb Hk. destruct (full_buffer_stays_full c s s' r res w R Hp Hb) as [Hp' Hb'].
  simpl. by rewrite Hk, Hp', Hb', Hnb.
Qed.

(* one responder answering three times in a row: reply 1 is returned by
   Result(); reply 2 was looked up while the PID was registered, waits for the
   buffer, gets in when Result() takes reply 1 and is never read; reply 3 is
   looked up between that and the deferred Registry.Remove, finds the PID, and
   its channel send blocks for ever — no dead letter for replies 2 and 3 *)
Example three_replies_block_the_responder :
  let c := {| ids := fun r => r; timeout := 5; nonblock := false |} in
  exists s, rrun c rinit [LRequest 0; LLookup 0 1; LPut 0; LLookup 0 2; LBegin 0; LPut 0; LLookup 0 3; LReturn 0] = Some s /\
            result_of s 0 = Some (Some 1) /\ reg s 0 = None /\ dead s = [] /\
            buf s 0 = Some 2 /\ pend s = [(0, 3, 0)] /\
            forall s', rreach c s s' -> rstep c s' (LPut 0) = None \/ pend s' !! 0 <> Some (0, 3, 0).
Proof.
  eexists. split; [by vm_compute|]. split_and!; try by vm_compute.
  intros s' R. destruct (decide (pend s' !! 0 = Some (0, 3, 0))) as [E|]; [left|by right].
  eapply (blocked_for_ever _ _ _ 0 (Some 1) 2 0 3 0); [done|exact R|by vm_compute|by vm_compute|exact E].
Qed.

(* the same run with the non-blocking send of the candidate repair: reply 3
   is reported as a dead letter and the responder goes on *)
Example three_replies_with_nonblocking_send :
  let c := {| ids := fun r => r; timeout := 5; nonblock := true |} in
  exists s, rrun c rinit [LRequest 0; LLookup 0 1; LPut 0; LLookup 0 2; LBegin 0; LPut 0; LLookup 0 3; LReturn 0; LPut 0] = Some s /\
            result_of s 0 = Some (Some 1) /\ dead s = [(0, 3)] /\ pend s = [].
Proof. eexists. split; [by vm_compute|]. by vm_compute. Qed.

(** * the repaired Response.Send ([nonblock c = true], fixes/D16.diff): replying
      never blocks — this is C09's "sending never blocks the caller" for the
      one process kind whose Send was a blocking channel operation *)

(* Respond is total: once the request has been issued, the lookup step is
   always enabled, and it ends in a DeadLetterEvent or in a channel send *)
Lemma lookup_total c s r v :
  is_requested (phase s r) = true ->
  exists s', rstep c s (LLookup r v) = Some s' /\ sent s' = sent s ++ [(r, v)] /\
             ((reg s (ids c r) = None /\ dead s' = dead s ++ [(ids c r, v)] /\ pend s' = pend s) \/
              (exists r', reg s (ids c r) = Some r' /\ pend s' = pend s ++ [(r', v, r)] /\ dead s' = dead s)).
Proof.
  intros H. simpl. rewrite H. destruct (reg s (ids c r)) as [r'|]; eexists; (split; [done|]); simpl; eauto 10.
Qed.

(* and the channel send always completes at once: the reply is handed to the
   Result() parked on the channel, or parked in the empty slot, or — slot full,
   nobody receiving — reported as a DeadLetterEvent for the response PID *)
Theorem respond_never_blocks c s k r' v r0 :
  nonblock c = true -> pend s !! k = Some (r', v, r0) ->
  exists s', rstep c s (LPut k) = Some s' /\ pend s' = delete k (pend s) /\
    ((exists d, phase s r' = Waiting d /\ phase s' r' = Decided (Some v) /\ dead s' = dead s) \/
     (buf s r' = None /\ buf s' r' = Some v /\ phase s' = phase s /\ dead s' = dead s) \/
     (exists w, buf s r' = Some w /\ buf s' = buf s /\ phase s' = phase s /\ dead s' = dead s ++ [(ids c r', v)])).
Proof.
  intros Hnb Hk. simpl. rewrite Hk.
  destruct (phase s r') eqn:Hp.
  3: { eexists. split; [done|]. split; [done|]. left. eexists. simpl. by rewrite rupd_eq. }
  all: destruct (buf s r') as [w|] eqn:Hb; [rewrite Hnb|]; eexists; (split; [done|]); (split; [done|]); right;
       [right; eexists; by simpl | left; simpl; by rewrite rupd_eq].
Qed.

(* so with the repaired Send no pending channel send ever stays pending: in
   every state every one of them can proceed *)
Corollary no_reply_is_ever_stuck c s :
  nonblock c = true -> forall k, k < length (pend s) -> rstep c s (LPut k) <> None.
Proof.
  intros Hnb k Hk. destruct (lookup_lt_is_Some_2 _ _ Hk) as [[[r' v] r0] Hp].
  destruct (respond_never_blocks c s k r' v r0 Hnb Hp) as (s' & -> & _). done.
Qed.

(* non-vacuity of the C11 theorems: two concurrent requests with distinct ids,
   answers arriving crosswise in time, one timeout with a late reply *)
Example two_requests_one_timeout :
  let c := {| ids := fun r => 10 + r; timeout := 2; nonblock := false |} in
  exists s, rrun c rinit [LRequest 0; LRequest 1; LRequest 2; LBegin 0; LBegin 2; LLookup 1 41; LLookup 0 40; LPut 1; LPut 0;
                         LBegin 1; LTick; LTick; LTimeout 2; LReturn 0; LReturn 1; LReturn 2; LLookup 2 42; LLookup 0 43] = Some s /\
            result_of s 0 = Some (Some 40) /\ result_of s 1 = Some (Some 41) /\ result_of s 2 = Some None /\
            dead s = [(12, 42); (10, 43)] /\ reg s 10 = None /\ reg s 11 = None /\ reg s 12 = None.
Proof. eexists. split; [by vm_compute|]. by vm_compute. Qed.

(** * the liveness half of "bounded by the timeout", in logical time

    The transition system has no fairness: any enabled step may be postponed.
    What the code guarantees is urgency of Result()'s own steps: the runtime
    timer wakes the select when the deadline is reached, and the deferred
    Remove/return follow the decision without waiting for anything.  A run is
    [urgent] when logical time does not advance past a moment at which some
    Result() has a step of its own to take: no Tick while a parked Result() has
    reached its deadline, nor while a decided Result() has not returned. *)
Definition tick_allowed (s : rst) : Prop :=
  forall r, match phase s r with
            | Waiting d => clock s < d
            | Decided _ => False
            | _ => True
            end.

Inductive ureach (c : cfg) : rst -> Prop :=
| ureach_init : ureach c rinit
| ureach_step s l s' : ureach c s -> rstep c s l = Some s' -> (l = LTick -> tick_allowed s) -> ureach c s'.

Lemma ureach_rreach c s : ureach c s -> rreach c rinit s.
Proof. induction 1; [apply rreach_refl | by eapply rreach_step]. Qed.

(* urgency never blocks time for ever: whenever Tick is not allowed, a step of
   some Result() is enabled (the timer fires, or the decided call returns) *)
Lemma urgent_step_enabled c s r :
  (exists d, phase s r = Waiting d /\ d <= clock s) \/ (exists res, phase s r = Decided res) ->
  exists l s', (l = LTimeout r \/ l = LReturn r) /\ rstep c s l = Some s'.
Proof.
  intros [(d & Hp & Hd)|(res & Hp)].
  - exists (LTimeout r). eexists. split; [by left|]. simpl. rewrite Hp.
    destruct (Nat.leb_spec d (clock s)); [done|lia].
  - exists (LReturn r). eexists. split; [by right|]. simpl. by rewrite Hp.
Qed.

(* a call of Result() that has begun and not yet returned has not outlived its
   timeout *)
Definition in_result (p : rphase) : bool := match p with Waiting _ | Decided _ => true | _ => false end.

Lemma urgent_inv c s :
  ureach c s -> forall r, in_result (phase s r) = true ->
  exists t0, began s r = Some t0 /\ t0 <= clock s <= t0 + timeout c /\
             (forall d, phase s r = Waiting d -> d = t0 + timeout c).
Proof.
  induction 1 as [|s l s' U IH Hs Ht]; [done|]. intros r Hin.
  destruct l as [r1|r1 v|k|r1| |r1|r1]; simpl in Hs.
  - destruct (phase s r1) eqn:Hp; try done.
    destruct (reg s (ids c r1)); injection Hs as <-; simpl in *;
      (destruct (Nat.eqb_spec r r1) as [->|?]; [by rewrite rupd_eq in Hin|rewrite rupd_ne in * by done; by apply IH]).
  - destruct (is_requested (phase s r1)); [|done]. destruct (reg s (ids c r1)); injection Hs as <-; by apply IH.
  - destruct (pend s !! k) as [[[r' v] r0]|]; [|done].
    assert (Hsame : in_result (phase s r) = true ->
              exists t0, began s r = Some t0 /\ t0 <= clock s <= t0 + timeout c /\
                         (forall d, phase s r = Waiting d -> d = t0 + timeout c)) by apply IH.
    destruct (phase s r') eqn:Hp.
    1,2,4,5: destruct (buf s r'); [destruct (nonblock c); [|done]|]; injection Hs as <-; by apply IH.
    injection Hs as <-. simpl in *. destruct (Nat.eqb_spec r r') as [->|?].
    + rewrite rupd_eq. destruct (IH r') as (t0 & ? & ? & ?); [by rewrite Hp|]. exists t0. split_and!; try done; lia.
    + rewrite rupd_ne in * by done. by apply IH.
  - destruct (phase s r1) eqn:Hp; try done.
    destruct (buf s r1); injection Hs as <-; simpl in *;
      (destruct (Nat.eqb_spec r r1) as [->|?];
       [rewrite !rupd_eq; exists (clock s); split_and!; try done; try lia; intros d [= <-]; done
       |rewrite !rupd_ne in * by done; by apply IH]).
  - injection Hs as <-. simpl in *. destruct (IH r Hin) as (t0 & Hb & [H1 H2] & Hd). exists t0. split_and!; try done; [lia|].
    specialize (Ht eq_refl r). destruct (phase s r) eqn:Hp; try done.
    specialize (Hd _ eq_refl). lia.
  - destruct (phase s r1) eqn:Hp; try done. destruct (deadline <=? clock s); [|done]. injection Hs as <-. simpl in *.
    destruct (Nat.eqb_spec r r1) as [->|?].
    + rewrite rupd_eq. destruct (IH r1) as (t0 & ? & ? & ?); [by rewrite Hp|]. exists t0. split_and!; try done; lia.
    + rewrite rupd_ne in * by done. by apply IH.
  - destruct (phase s r1) eqn:Hp; try done. injection Hs as <-. simpl in *.
    destruct (Nat.eqb_spec r r1) as [->|?]; [by rewrite rupd_eq in Hin|]. rewrite rupd_ne in * by done. by apply IH.
Qed.

(* began is set by the call of Result() and by nothing else *)
Lemma began_unset c s r :
  rreach c rinit s -> phase s r = NotRequested \/ phase s r = Requested -> began s r = None.
Proof.
  induction 1 as [|s l s' R IH Hs]; [done|]. intros Hp.
  destruct l as [r1|r1 v|k|r1| |r1|r1]; simpl in Hs.
  - destruct (phase s r1) eqn:Hp1; try done.
    destruct (reg s (ids c r1)); injection Hs as <-; simpl in *;
      (destruct (Nat.eqb_spec r r1) as [->|?]; [apply IH; by left|rewrite rupd_ne in Hp by done; by apply IH]).
  - destruct (is_requested (phase s r1)); [|done]. destruct (reg s (ids c r1)); injection Hs as <-; by apply IH.
  - destruct (pend s !! k) as [[[r' v] r0]|]; [|done]. destruct (phase s r') eqn:Hp1.
    1,2,4,5: destruct (buf s r'); [destruct (nonblock c); [|done]|]; injection Hs as <-; by apply IH.
    injection Hs as <-. simpl in *. destruct (Nat.eqb_spec r r') as [->|?]; [rewrite rupd_eq in Hp; by destruct Hp|].
    rewrite rupd_ne in Hp by done. by apply IH.
  - destruct (phase s r1) eqn:Hp1; try done.
    destruct (buf s r1); injection Hs as <-; simpl in *;
      (destruct (Nat.eqb_spec r r1) as [->|?]; [rewrite rupd_eq in Hp; by destruct Hp|rewrite !rupd_ne in * by done; by apply IH]).
  - injection Hs as <-. by apply IH.
  - destruct (phase s r1) eqn:Hp1; try done. destruct (deadline <=? clock s); [|done]. injection Hs as <-. simpl in *.
    destruct (Nat.eqb_spec r r1) as [->|?]; [rewrite rupd_eq in Hp; by destruct Hp|]. rewrite rupd_ne in Hp by done. by apply IH.
  - destruct (phase s r1) eqn:Hp1; try done. injection Hs as <-. simpl in *.
    destruct (Nat.eqb_spec r r1) as [->|?]; [rewrite rupd_eq in Hp; by destruct Hp|]. rewrite rupd_ne in Hp by done. by apply IH.
Qed.

(* Result() returns no later than the logical deadline: in every urgent run,
   at every moment, a call of Result() that began at t0 and has not returned
   yet sees a clock of at most t0 + timeout (so the step by which it returns is
   taken at such a moment); a parked call has not passed its deadline *)
Theorem result_waits_at_most_timeout c s r t0 :
  ureach c s -> began s r = Some t0 ->
  (forall res, phase s r <> Returned res) ->
  t0 <= clock s <= t0 + timeout c /\ (forall d, phase s r = Waiting d -> d = t0 + timeout c /\ clock s <= d).
Proof.
  intros U Hb Hnr.
  assert (Hin : in_result (phase s r) = true).
  { destruct (phase s r) eqn:Hp; try done.
    - rewrite (began_unset c s r (ureach_rreach _ _ U)) in Hb; [done|by left].
    - rewrite (began_unset c s r (ureach_rreach _ _ U)) in Hb; [done|by right].
    - by destruct (Hnr res). }
  destruct (urgent_inv c s U r Hin) as (t1 & Hb' & Hc & Hd). assert (t1 = t0) by congruence. subst t1.
  split; [done|]. intros d Hp. specialize (Hd d Hp). lia.
Qed.

(* the returning step of an urgent run happens at a clock within the timeout *)
Corollary return_step_within_timeout c s r s' t0 :
  ureach c s -> rstep c s (LReturn r) = Some s' -> began s r = Some t0 ->
  clock s' = clock s /\ t0 <= clock s <= t0 + timeout c.
Proof.
  intros U Hs Hb. pose proof Hs as Hs'. simpl in Hs. destruct (phase s r) eqn:Hp; try done. injection Hs as <-. simpl.
  split; [done|]. apply (result_waits_at_most_timeout c s r t0 U Hb). intros res'. by rewrite Hp.
Qed.

(* non-vacuity: an urgent run in which one Result() times out exactly at its
   deadline (clock 3 + 2) and another returns a value at once *)
Example urgent_run_example :
  let c := {| ids := fun r => r; timeout := 2; nonblock := true |} in
  exists s, rrun c rinit [LRequest 0; LRequest 1; LTick; LTick; LTick; LBegin 0; LLookup 1 9; LPut 0; LBegin 1; LReturn 1;
                         LTick; LTick; LTimeout 0; LReturn 0; LTick] = Some s /\
            result_of s 0 = Some None /\ result_of s 1 = Some (Some 9) /\ began s 0 = Some 3 /\ clock s = 6.
Proof. eexists. split; [by vm_compute|]. by vm_compute. Qed.
