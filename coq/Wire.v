(** L4 — model of the wire layer: remote/stream_writer.go ([Invoke]: the three
    lookup tables and the per-message indices), remote/stream_reader.go
    ([Receive]: index resolution and the call of [SendLocal]) and the part of
    actor/pid.go they use ([LookupKey]).

    Two writer/reader pairs are modelled:
    - the *repaired* pair (fixes/D8.diff + fixes/D9.diff): [encode], [decode],
      [decode_stream] — the theorems C15 and C16 are about these;
    - the *pinned* pair (tree c85c093): [encode_pinned], [transport],
      [decode_pinned] — kept short, used only for the [_refuted] witnesses.

    Strings are lists of character codes, a PID is the pair (address, id).
    Payload (de)serialisation is an oracle: [tyname_of] (None: the Go value is
    not a proto.Message), [ser] (None: proto.Marshal returns an error), [deser]
    (None: unknown type name or undecodable bytes).

    Definitions only: this file must keep compiling and running when a proof
    breaks.  Proofs are in WireProofs.v. *)
From Coq Require Import List Arith Bool ZArith.
Import ListNotations.

Definition str := list nat.
Definition pid := (str * str)%type.          (* actor.PID{Address, ID} *)
Definition tyname := nat.                    (* protobuf full name, interned *)

Fixpoint str_eqb (a b : str) : bool :=
  match a, b with
  | [], [] => true
  | x :: a', y :: b' => Nat.eqb x y && str_eqb a' b'
  | _, _ => false
  end.

(* repaired writer: the table key is the struct pidKey{address, id} *)
Definition pid_eqb (a b : pid) : bool := str_eqb (fst a) (fst b) && str_eqb (snd a) (snd b).

(* pinned writer: the key is PID.LookupKey() = xxh3(address ++ id); xxh3 is
   taken to be collision-free, so the key *is* the concatenation *)
Definition lookup_key (p : pid) : str := fst p ++ snd p.
Definition key_eqb (a b : pid) : bool := str_eqb (lookup_key a) (lookup_key b).

(* how a goroutine of the node leaves the code under study *)
Inductive outcome := Ok | Err | Panic.

Definition outcome_eqb (a b : outcome) : bool :=
  match a, b with Ok, Ok | Err, Err | Panic, Panic => true | _, _ => false end.

(** ** the lookup tables of the writer
    [lookupPIDs]/[lookupTypeName]: a Go map from key to index plus the slice
    of entries, one entry per distinct key; the map is determined by the
    slice, so the model keeps the slice only and searches it with the key
    equality [eqb]. *)
Section tables.
Context {A : Type} (eqb : A -> A -> bool).

Fixpoint index_of (x : A) (l : list A) : option nat :=
  match l with
  | [] => None
  | y :: l' => if eqb x y then Some 0 else option_map S (index_of x l')
  end.

(* id, ok := m[key]; if !ok { m[key] = len(m); id = len(m); entries = append(entries, x) } *)
Definition intern (x : A) (l : list A) : nat * list A :=
  match index_of x l with
  | Some i => (i, l)
  | None => (length l, l ++ [x])
  end.
End tables.

(* inRange(idx, n) of the repaired reader: 0 <= idx < n *)
Definition in_range (z : Z) (n : nat) : bool := ((0 <=? z) && (z <? Z.of_nat n))%Z.

(* a Go slice index expression l[z] with z an int32: None is the run-time
   panic "index out of range".  (The bound is tested before [Z.to_nat] so that
   evaluating the model on an index like 2^31-1 does not build that numeral
   in unary.) *)
Definition go_index {A} (l : list A) (z : Z) : option A :=
  if in_range z (length l) then nth_error l (Z.to_nat z) else None.

Section wire.
Context {value data : Type}.
Context (tyname_of : value -> option tyname)         (* None: not a proto.Message *)
        (ser : value -> option data)                  (* None: Serialize returns an error *)
        (deser : tyname -> data -> option value).    (* None: Deserialize returns an error *)

(* streamDeliver: what the router hands to the writer *)
Record deliver := { s_target : pid; s_sender : option pid; s_msg : value }.
(* remote.Message / remote.Envelope *)
Record wmsg := { m_data : data; m_ti : Z; m_si : Z; m_tyi : Z }.
Record envelope := { e_tnames : list tyname; e_targets : list pid; e_senders : list pid;
                     e_msgs : list wmsg }.
(* one call engine.SendLocal(target, payload, sender) of the reader *)
Record delivery := { d_target : pid; d_sender : option pid; d_ty : tyname; d_msg : value }.
(* what one run of the reader did: its SendLocal calls in order, and how it ended *)
Record result := { delivered : list delivery; out : outcome }.

(** ** repaired writer: streamWriter.Invoke after fixes/D8.diff *)

Definition serialisable (v : value) : bool :=
  match tyname_of v with
  | None => false
  | Some _ => match ser v with None => false | Some _ => true end
  end.

(* lookupPIDs(senderLookup, stream.sender, senders): a nil pid has no entry, its index is -1 *)
Definition lookup_sender (s : option pid) (sd : list pid) : Z * list pid :=
  match s with
  | None => ((-1)%Z, sd)
  | Some p => let '(i, sd') := intern pid_eqb p sd in (Z.of_nat i, sd')
  end.

Fixpoint enc (b : list deliver) (tn : list tyname) (tg sd : list pid) (acc : list wmsg) : envelope :=
  match b with
  | [] => {| e_tnames := tn; e_targets := tg; e_senders := sd; e_msgs := acc |}
  | d :: b' =>
    match tyname_of (s_msg d) with
    | None => enc b' tn tg sd acc                (* not a proto.Message: logged; continue *)
    | Some t =>
      match ser (s_msg d) with
      | None => enc b' tn tg sd acc              (* Serialize failed: logged; continue *)
      | Some bytes =>
        let '(tyid, tn') := intern Nat.eqb t tn in
        let '(sid, sd') := lookup_sender (s_sender d) sd in
        let '(tid, tg') := intern pid_eqb (s_target d) tg in
        enc b' tn' tg' sd'
            (acc ++ [{| m_data := bytes; m_ti := Z.of_nat tid; m_si := sid; m_tyi := Z.of_nat tyid |}])
      end
    end
  end.

Definition encode (b : list deliver) : envelope := enc b [] [] [] [].

(** ** repaired reader: streamReader.Receive after fixes/D9.diff
    Every slice access is [go_index], whose failure is [Panic]; the checks in
    front of them are the ones the patch adds. *)
Inductive step := Deliver (d : delivery) | Stop (o : outcome).

Definition read1 (tn : list tyname) (tg sd : list pid) (m : wmsg) : step :=
  if negb (in_range (m_tyi m) (length tn)) || negb (in_range (m_ti m) (length tg)) then Stop Err else
  match go_index tn (m_tyi m) with                       (* envelope.TypeNames[msg.TypeNameIndex] *)
  | None => Stop Panic
  | Some t =>
    match deser t (m_data m) with
    | None => Stop Err
    | Some v =>
      match go_index tg (m_ti m) with                    (* envelope.Targets[msg.TargetIndex] *)
      | None => Stop Panic
      | Some g =>
        if (0 <=? m_si m)%Z then
          if negb (in_range (m_si m) (length sd)) then
            if 0 <? length sd then Stop Err
            else Deliver {| d_target := g; d_sender := None; d_ty := t; d_msg := v |}
          else match go_index sd (m_si m) with           (* envelope.Senders[msg.SenderIndex] *)
               | None => Stop Panic
               | Some s => Deliver {| d_target := g; d_sender := Some s; d_ty := t; d_msg := v |}
               end
        else Deliver {| d_target := g; d_sender := None; d_ty := t; d_msg := v |}
      end
    end
  end.

(* the loop over envelope.Messages, generic in the per-message step *)
Fixpoint reads (rd : wmsg -> step) (ms : list wmsg) : result :=
  match ms with
  | [] => {| delivered := []; out := Ok |}
  | m :: ms' =>
    match rd m with
    | Stop o => {| delivered := []; out := o |}          (* return err / the goroutine panics *)
    | Deliver d => let r := reads rd ms' in {| delivered := d :: delivered r; out := out r |}
    end
  end.

Definition decode (e : envelope) : result :=
  reads (read1 (e_tnames e) (e_targets e) (e_senders e)) (e_msgs e).

(* the outer loop: envelopes arrive until the stream is cancelled; anything but
   Ok ends the stream *)
Fixpoint stream (dec : envelope -> result) (es : list envelope) : result :=
  match es with
  | [] => {| delivered := []; out := Ok |}
  | e :: es' =>
    let r := dec e in
    match out r with
    | Ok => let r' := stream dec es' in {| delivered := delivered r ++ delivered r'; out := out r' |}
    | _ => r
    end
  end.

Definition decode_stream (es : list envelope) : result := stream decode es.

Definition to_delivery (t : tyname) (d : deliver) : delivery :=
  {| d_target := s_target d; d_sender := s_sender d; d_ty := t; d_msg := s_msg d |}.

(* what the receiving node must do with a batch: one delivery per
   serialisable message, in order *)
Fixpoint expected (b : list deliver) : list delivery :=
  match b with
  | [] => []
  | d :: b' =>
    match tyname_of (s_msg d) with
    | Some t => if serialisable (s_msg d) then to_delivery t d :: expected b' else expected b'
    | None => expected b'
    end
  end.

(** ** specification of the reader (no panics by construction): a message is
    resolved when its type and target indices are in range, its payload
    decodes under the named type, and its sender index is negative (no
    sender), in range, or meaningless because the sender table is empty. *)
Definition resolve (tn : list tyname) (tg sd : list pid) (m : wmsg) : option delivery :=
  match go_index tn (m_tyi m), go_index tg (m_ti m) with
  | Some t, Some g =>
    match deser t (m_data m) with
    | None => None
    | Some v =>
      if (m_si m <? 0)%Z then Some {| d_target := g; d_sender := None; d_ty := t; d_msg := v |}
      else match go_index sd (m_si m) with
           | Some s => Some {| d_target := g; d_sender := Some s; d_ty := t; d_msg := v |}
           | None => match sd with
                     | [] => Some {| d_target := g; d_sender := None; d_ty := t; d_msg := v |}
                     | _ => None
                     end
           end
    end
  | _, _ => None
  end.

(* deliveries of the longest resolvable prefix; Err iff it is a proper prefix *)
Fixpoint spec_msgs (tn : list tyname) (tg sd : list pid) (ms : list wmsg) : result :=
  match ms with
  | [] => {| delivered := []; out := Ok |}
  | m :: ms' =>
    match resolve tn tg sd m with
    | None => {| delivered := []; out := Err |}
    | Some d => let r := spec_msgs tn tg sd ms' in {| delivered := d :: delivered r; out := out r |}
    end
  end.
Definition resolve_in (e : envelope) : wmsg -> option delivery :=
  resolve (e_tnames e) (e_targets e) (e_senders e).
Definition spec_decode (e : envelope) : result :=
  spec_msgs (e_tnames e) (e_targets e) (e_senders e) (e_msgs e).
Definition spec_stream (es : list envelope) : result := stream spec_decode es.

(* the same as a relation, in the words of C16: delivery [d] is what message
   [m] of envelope [e] names with its own valid indices *)
Definition addressed (e : envelope) (m : wmsg) (d : delivery) : Prop :=
  (exists i, m_tyi m = Z.of_nat i /\ nth_error (e_tnames e) i = Some (d_ty d)) /\
  (exists j, m_ti m = Z.of_nat j /\ nth_error (e_targets e) j = Some (d_target d)) /\
  deser (d_ty d) (m_data m) = Some (d_msg d) /\
  match d_sender d with
  | Some s => exists k, m_si m = Z.of_nat k /\ nth_error (e_senders e) k = Some s
  | None => (m_si m < 0)%Z \/ e_senders e = []
  end.

(** ** the pinned pair (tree c85c093), for the D8/D9 witnesses only *)

(* messages = make([]*Message, len(msgs)): a slot stays nil when Serialize fails *)
Record penvelope := { p_tnames : list tyname; p_targets : list pid; p_senders : list pid;
                      p_msgs : list (option wmsg) }.

(* None: s.serializer.TypeName panics on a non-proto value, nothing recovers it *)
Fixpoint enc_pinned (b : list deliver) (tn : list tyname) (tg sd : list pid) (acc : list (option wmsg))
  : option penvelope :=
  match b with
  | [] => Some {| p_tnames := tn; p_targets := tg; p_senders := sd; p_msgs := acc |}
  | d :: b' =>
    match tyname_of (s_msg d) with
    | None => None
    | Some t =>
      let '(tyid, tn') := intern Nat.eqb t tn in
      let '(sid, sd') := match s_sender d with
                         | None => (0%Z, sd)                       (* nil pid: index 0, no entry *)
                         | Some p => let '(i, l) := intern key_eqb p sd in (Z.of_nat i, l)
                         end in
      let '(tid, tg') := intern key_eqb (s_target d) tg in
      match ser (s_msg d) with
      | None => enc_pinned b' tn' tg' sd' (acc ++ [None])          (* continue: the slot stays nil *)
      | Some bytes =>
        enc_pinned b' tn' tg' sd'
          (acc ++ [Some {| m_data := bytes; m_ti := Z.of_nat tid; m_si := sid; m_tyi := Z.of_nat tyid |}])
      end
    end
  end.
Definition encode_pinned (b : list deliver) : option penvelope := enc_pinned b [] [] [] [].

(* vtproto: a nil element of a repeated message field is written as an empty
   message and read back as the zero Message *)
Definition transport (empty : data) (pe : penvelope) : envelope :=
  {| e_tnames := p_tnames pe; e_targets := p_targets pe; e_senders := p_senders pe;
     e_msgs := map (fun o => match o with
                             | Some m => m
                             | None => {| m_data := empty; m_ti := 0; m_si := 0; m_tyi := 0 |}
                             end) (p_msgs pe) |}.

(* no check in front of any index expression *)
Definition read1_pinned (tn : list tyname) (tg sd : list pid) (m : wmsg) : step :=
  match go_index tn (m_tyi m) with
  | None => Stop Panic
  | Some t =>
    match deser t (m_data m) with
    | None => Stop Err
    | Some v =>
      match go_index tg (m_ti m) with
      | None => Stop Panic
      | Some g =>
        if 0 <? length sd then
          match go_index sd (m_si m) with
          | None => Stop Panic
          | Some s => Deliver {| d_target := g; d_sender := Some s; d_ty := t; d_msg := v |}
          end
        else Deliver {| d_target := g; d_sender := None; d_ty := t; d_msg := v |}
      end
    end
  end.

Definition decode_pinned (e : envelope) : result :=
  reads (read1_pinned (e_tnames e) (e_targets e) (e_senders e)) (e_msgs e).

(* writer, wire, reader of the pinned tree end to end; a writer panic kills the sending node *)
Definition roundtrip_pinned (empty : data) (b : list deliver) : result :=
  match encode_pinned b with
  | None => {| delivered := []; out := Panic |}
  | Some pe => decode_pinned (transport empty pe)
  end.

End wire.

Arguments deliver : clear implicits.
Arguments wmsg : clear implicits.
Arguments envelope : clear implicits.
Arguments penvelope : clear implicits.
Arguments delivery : clear implicits.
Arguments result : clear implicits.
Arguments step : clear implicits.
