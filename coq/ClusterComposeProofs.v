(** Proofs about the composed node (ClusterCompose.v): the agent's view is the
    provider's member list after every history, the events are the changes of
    that list, every snapshot contains the node itself (C18's premise,
    discharged by C20's invariant), HasKind follows the provider's list. *)
From stdpp Require Import gmap list sorting.
From HV Require Import Agent AgentProofs Provider ProviderProofs ClusterCompose.

(** * the provider side *)
Lemma pstep_preserves s msg i o n :
  s !! i = Some o → (pstep s msg).1 !! i = Some n → n = o.
Proof.
  intros Ho. destruct msg as [m from|l|a]; cbn [pstep fst].
  - rewrite (add_members_lookup_old _ _ _ _ Ho). congruence.
  - rewrite (add_members_lookup_old _ _ _ _ Ho). congruence.
  - destruct (get_by_host s a) as [x|]; cbn [fst]; [|congruence].
    unfold remove_member. case_decide; [|congruence]. intros [_ ?]%lookup_delete_Some. congruence.
Qed.

(* a step sends the agent nothing and leaves the list alone, or sends exactly
   the complete new list *)
Lemma pstep_snapshots s msg :
  (snapshots_of (pstep s msg).2 = [] ∧ (pstep s msg).1 = s) ∨
  snapshots_of (pstep s msg).2 = [slice (pstep s msg).1].
Proof.
  destruct msg as [m from|l|a]; cbn [pstep]; [by right|by right|].
  destruct (get_by_host s a); [by right|by left].
Qed.

Lemma has_self_slice self s :
  keyed s → s !! mid self = Some self → has_self (mid self) (kset self) (slice s).
Proof.
  intros Hk Hs. split.
  - exists self. split; [|done]. apply elem_of_slice. eauto.
  - intros m [k Hm]%elem_of_slice Hid. rewrite <- (Hk _ _ Hm), Hid, Hs in Hm. by simplify_eq.
Qed.

Lemma filter_self_empty (s : pstate) : filter (λ kv : nat * member, s !! kv.1 = None) s = ∅.
Proof.
  apply map_filter_empty_iff. intros i x Hx. simpl. by rewrite Hx.
Qed.

(** * one snapshot that is the provider's complete list *)
Lemma feed_slice a s s' :
  members a = s → keyed s → keyed s' →
  (∀ i o n, s !! i = Some o → s' !! i = Some n → n = o) →
  kinds_exact (handle_members a (slice s')).1 →
  let h := handle_members a (slice s') in
  members h.1 = s' ∧
  model_obs (h.1, h.1, h.2) = nspec_obs s s' ∧
  NoDup (ev_id <$> h.2) ∧
  (∀ i, i ∈ join_ids h.2 ↔ i ∈ dom s' ∧ i ∉ dom s) ∧
  (∀ i, i ∈ leave_ids h.2 ↔ i ∈ dom s ∧ i ∉ dom s') ∧
  (∀ m, Join m ∈ h.2 → s' !! mid m = Some m) ∧
  (∀ m, Leave m ∈ h.2 → s !! mid m = Some m) ∧
  (∀ k, has_kind k h.1 = true ↔ ∃ i m, s' !! i = Some m ∧ k ∈ mkinds m).
Proof.
  intros Hm Hk Hk' Hpres Hex h.
  assert (keyed (members a)) as Hka by by rewrite Hm.
  assert (members h.1 = s') as Hms.
  { subst h. rewrite handle_members_members by done. apply map_eq. intros i.
    rewrite spec_view_lookup, member_set_slice, Hm by done.
    destruct (s' !! i) as [n|] eqn:Hn; [|done].
    destruct (s !! i) as [o|] eqn:Ho; simpl; [|done]. by rewrite (Hpres _ _ _ Ho Hn). }
  destruct (handle_members_step_ok a (slice s') Hka Hex)
    as (_ & Hnd & Hj & Hl & Hkind & _ & HJ & HL). fold h in Hnd, Hj, Hl, Hkind, HJ, HL.
  unfold view_ids in Hj, Hl. rewrite Hm in Hj, Hl, HL.
  split_and!; try done.
  - unfold model_obs, nspec_obs. cbn [fst snd]. rewrite Hms. f_equal.
    + subst h. rewrite handle_members_events, join_ids_events by done.
      rewrite slice_ids by apply spec_joined_keyed.
      unfold spec_joined. by rewrite member_set_slice, Hm.
    + subst h. rewrite handle_members_events, leave_ids_events by done.
      rewrite slice_ids by by apply spec_left_keyed.
      unfold spec_left. by rewrite member_set_slice, Hm.
    + apply list_fmap_ext. intros _ k _. unfold has_kind. subst h. by rewrite Hex, Hms.
  - intros i. rewrite Hj, elem_of_slice_ids by done. done.
  - intros i. rewrite Hl, elem_of_slice_ids by done. done.
  - intros m Hin. apply HJ in Hin. by rewrite <- member_set_lookup, member_set_slice in Hin.
  - intros k. rewrite Hkind, Hms. done.
Qed.

(** * start-up *)
Lemma nstart_ok self :
  ninv (nstart self).1 ∧ n_prov (nstart self).1 = pinit self ∧
  nobs (nstart self).1 (nstart self).2 = nspec_obs ∅ (pinit self).
Proof.
  unfold nstart, pstart. cbn [fst snd snapshots_of omap list_omap feed n_prov n_agent].
  assert (keyed (pinit self)) as Hk by apply keyed_pinit.
  assert (kinds_exact (handle_members (init (kset self)) (slice (pinit self))).1) as Hex.
  { apply (kinds_exact_first (kset self) (mid self)). apply has_self_slice; [done|].
    unfold pinit. apply lookup_singleton. }
  assert (keyed (∅ : pstate)) as Hk0 by (intros ??; by rewrite lookup_empty).
  assert (∀ i o n, (∅ : pstate) !! i = Some o → pinit self !! i = Some n → n = o) as Hp0
    by (intros i o n; by rewrite lookup_empty).
  destruct (feed_slice (init (kset self)) ∅ (pinit self) eq_refl Hk0 Hk Hp0 Hex) as (Hms & Hobs & _).
  unfold ninv, nobs. cbn [fst snd n_prov n_agent]. rewrite app_nil_r. split_and!; done.
Qed.

(** * one provider message *)
Lemma nstep_ok_inv n msg :
  ninv n →
  ninv (nstep n msg).1 ∧ nstep_ok n (nstep n msg).1 (nstep n msg).2 ∧
  nobs (nstep n msg).1 (nstep n msg).2 = nspec_obs (n_prov n) (pstep (n_prov n) msg).1.
Proof.
  destruct n as [s a]. intros (Hm & Hk & Hex). cbn [n_prov n_agent] in Hm, Hk, Hex.
  unfold nstep, nstep_ok, ninv, nobs. cbn [n_prov n_agent fst snd].
  pose proof (pstep_keyed s msg Hk) as Hk'.
  destruct (pstep_snapshots s msg) as [[-> Hs]| ->]; cbn [feed fst snd].
  - rewrite Hs. split_and!; try done.
    + constructor.
    + intros i. rewrite elem_of_nil. set_solver.
    + intros i. rewrite elem_of_nil. set_solver.
    + intros m Hin. by apply elem_of_nil in Hin.
    + intros m Hin. by apply elem_of_nil in Hin.
    + intros k. unfold has_kind. by rewrite bool_decide_eq_true, Hex, elem_of_kinds_of, Hm.
    + unfold model_obs, nspec_obs. cbn [fst snd]. rewrite Hm, filter_self_empty, map_to_list_empty.
      f_equal. apply list_fmap_ext. intros _ k _. unfold has_kind. by rewrite Hex, Hm.
  - rewrite app_nil_r.
    assert (keyed (members a)) as Hka by by rewrite Hm.
    pose proof (kinds_exact_step a (slice (pstep s msg).1) Hka Hex) as Hex'.
    destruct (feed_slice a s (pstep s msg).1 Hm Hk Hk') as (Hms & Hobs & Hrest); [|done|].
    { intros i o n. apply pstep_preserves. }
    split_and!; try done. all: try apply Hrest.
Qed.

(** * histories *)
Lemma nafter_snoc self hist msg : nafter self (hist ++ [msg]) = (nstep (nafter self hist) msg).1.
Proof. unfold nafter. by rewrite foldl_app. Qed.

Lemma nafter_inv self hist : ninv (nafter self hist) ∧ n_prov (nafter self hist) = pafter self hist.
Proof.
  induction hist as [|msg hist [IHi IHp]] using rev_ind.
  - destruct (nstart_ok self) as (? & ? & _). done.
  - rewrite nafter_snoc, pafter_snoc. split; [by apply nstep_ok_inv|].
    unfold nstep. cbn [fst n_prov]. by rewrite IHp.
Qed.

(* Members() is the provider's member list — the same Member values, not
   only the same ids — after every history *)
Theorem node_view_is_provider_list self hist :
  members (n_agent (nafter self hist)) = pafter self hist.
Proof. destruct (nafter_inv self hist) as [(Hm & _) Hp]. by rewrite Hm. Qed.

Lemma nrun_lookup n hist i pre post ev :
  nrun n hist !! i = Some (pre, post, ev) →
  ∃ msg, hist !! i = Some msg ∧ pre = foldl (λ n msg, (nstep n msg).1) n (take i hist) ∧
         post = (nstep pre msg).1 ∧ ev = (nstep pre msg).2.
Proof.
  revert n i. induction hist as [|m hist IH]; intros n i; [done|].
  destruct i as [|i]; simpl.
  - intros [= <- <- <-]. eauto.
  - intros H. by apply IH in H.
Qed.

(* per provider message: the events are exactly the changes of the provider's list *)
Theorem node_events_follow_provider self hist i pre post ev :
  nrun (nstart self).1 hist !! i = Some (pre, post, ev) →
  n_prov pre = pafter self (take i hist) ∧ n_prov post = pafter self (take (S i) hist) ∧
  nstep_ok pre post ev.
Proof.
  intros (msg & Hi & Hpre & -> & ->)%nrun_lookup.
  assert (pre = nafter self (take i hist)) as -> by done.
  destruct (nafter_inv self (take i hist)) as [Hinv Hp].
  split_and!; [done| |by apply nstep_ok_inv].
  rewrite (take_S_r _ _ _ Hi), pafter_snoc. unfold nstep. cbn [fst n_prov]. by rewrite Hp.
Qed.

(* the oracle holds of every model run *)
Lemma nrun_obs n hist :
  ninv n → (λ r, nobs r.1.2 r.2) <$> nrun n hist = nspec_run (n_prov n) hist.
Proof.
  revert n. induction hist as [|msg hist IH]; intros n Hinv; [done|].
  cbn [nrun fmap list_fmap nspec_run fst snd].
  destruct (nstep_ok_inv n msg Hinv) as (Hinv' & _ & Hobs). rewrite Hobs. f_equal.
  by rewrite (IH _ Hinv').
Qed.

Theorem node_model_run_is_spec self hist : node_model_run self hist = node_spec_run self hist.
Proof.
  unfold node_model_run, node_spec_run. destruct (nstart_ok self) as (Hinv & Hp & Hobs).
  rewrite Hobs, (nrun_obs _ _ Hinv), Hp. done.
Qed.

Lemma obs_eqb_refl o : obs_eqb true o o = true.
Proof. unfold obs_eqb. by rewrite !bool_decide_eq_true_2. Qed.

Theorem noracle_holds_of_model self hist : noracle_on self hist (node_model_run self hist) = true.
Proof. unfold noracle_on. rewrite node_model_run_is_spec. apply all2_refl, obs_eqb_refl. Qed.

(** * the composition made explicit: the agent handles exactly the snapshots
      the provider sent, and each of them contains the node itself *)
Lemma feed_after a snaps : (feed a snaps).1 = after a snaps.
Proof. revert a. induction snaps as [|s snaps IH]; intros a; [done|]. simpl. by rewrite IH. Qed.

Lemma after_app a l1 l2 : after a (l1 ++ l2) = after (after a l1) l2.
Proof. unfold after. by rewrite foldl_app. Qed.

Lemma nfold_agent n hist :
  n_agent (foldl (λ n msg, (nstep n msg).1) n hist) =
  after (n_agent n) (concat ((λ r, snapshots_of r.2) <$> prun (n_prov n) hist)).
Proof.
  revert n. induction hist as [|msg hist IH]; intros n; [done|].
  cbn [foldl prun fmap list_fmap concat]. rewrite IH, after_app.
  unfold nstep. cbn [fst n_prov n_agent]. by rewrite feed_after.
Qed.

Theorem node_agent_handles_provider_snapshots self hist :
  n_agent (nafter self hist) = after (init (kset self)) (all_snaps self hist).
Proof.
  unfold nafter, all_snaps. rewrite nfold_agent, after_app.
  unfold nstart. cbn [fst n_prov n_agent]. by rewrite feed_after.
Qed.

Lemma prun_snaps_elem s hist l :
  l ∈ concat ((λ r, snapshots_of r.2) <$> prun s hist) →
  ∃ k, l = slice (foldl (λ s msg, (pstep s msg).1) s (take (S k) hist)).
Proof.
  revert s. induction hist as [|msg hist IH]; intros s; [by intros ?%elem_of_nil|].
  cbn [prun fmap list_fmap concat]. rewrite elem_of_app. intros [Hl|Hl].
  - exists 0. destruct (pstep_snapshots s msg) as [[He _]|He]; rewrite He in Hl.
    + by apply elem_of_nil in Hl.
    + apply elem_of_list_singleton in Hl. by subst.
  - apply IH in Hl as [k ->]. by exists (S k).
Qed.

Lemma all_snaps_elem self hist l :
  l ∈ all_snaps self hist → ∃ k, l = slice (pafter self (take k hist)).
Proof.
  unfold all_snaps. rewrite elem_of_app. intros [Hl|Hl].
  - exists 0. apply elem_of_list_singleton in Hl. by rewrite take_0.
  - apply prun_snaps_elem in Hl as [k ->]. by exists (S k).
Qed.

Lemma elem_of_directory self hist x :
  x ∈ directory self hist ↔ x = self ∨ ∃ msg, msg ∈ hist ∧ x ∈ mentioned msg.
Proof.
  unfold directory. rewrite elem_of_cons. apply or_iff_compat_l.
  rewrite elem_of_list_In, in_concat. split.
  - intros (l & Hl & Hx). apply elem_of_list_In, elem_of_list_fmap in Hl as (msg & -> & Hmsg).
    exists msg. split; [done|]. by apply elem_of_list_In.
  - intros (msg & Hmsg & Hx). exists (mentioned msg). split; apply elem_of_list_In; [|done].
    apply elem_of_list_fmap. eauto.
Qed.

Lemma elem_of_take_elem {A} (l : list A) k x : x ∈ take k l → x ∈ l.
Proof. intros (j & Hj & _)%elem_of_take. by eapply elem_of_list_lookup_2. Qed.

(* C18's premise, from C20's invariant [self_stays_member] *)
Theorem provider_snapshots_contain_self self hist :
  host_inj (directory self hist) → (∀ a, LeaveAddr a ∈ hist → a ≠ mhost self) →
  Forall (has_self (mid self) (kset self)) (all_snaps self hist).
Proof.
  intros Hinj Hown. apply Forall_forall. intros l [k ->]%all_snaps_elem.
  apply has_self_slice; [apply pafter_inv|].
  apply self_stays_member.
  - intros x y Hx Hy. apply Hinj; apply elem_of_directory.
    + apply elem_of_directory in Hx as [?|(msg & ?%elem_of_take_elem & ?)]; eauto.
    + apply elem_of_directory in Hy as [?|(msg & ?%elem_of_take_elem & ?)]; eauto.
  - intros a Ha%elem_of_take_elem. by apply Hown.
Qed.

(* hence C18 applies to every snapshot the provider sends *)
Theorem every_provider_snapshot_step_ok self hist :
  host_inj (directory self hist) → (∀ a, LeaveAddr a ∈ hist → a ≠ mhost self) →
  ∀ i pre post ev snap,
    all_snaps self hist !! i = Some snap →
    run (init (kset self)) (all_snaps self hist) !! i = Some (pre, post, ev) →
    step_ok pre post ev snap.
Proof.
  intros Hinj Hown. apply (view_follows_snapshots (mid self) (kset self)).
  by apply provider_snapshots_contain_self.
Qed.

Lemma host_consistent_inj dir : host_consistent dir → host_inj dir.
Proof. intros Hc x y Hx Hy. by apply Hc. Qed.

(** * the composed theorem *)
Theorem members_follow_the_provider self hist :
  host_consistent (directory self hist) → (∀ a, LeaveAddr a ∈ hist → a ≠ mhost self) →
  let n := nafter self hist in
  (* Members() = the provider's list = self + handshaked/listed - reported *)
  members (n_agent n) = pafter self hist ∧
  view_ids (n_agent n) = spec_ids self hist ∧
  members (n_agent n) !! mid self = Some self ∧
  (* HasKind = some member of the provider's list advertises the kind *)
  (∀ k, has_kind k (n_agent n) = true ↔ ∃ i m, pafter self hist !! i = Some m ∧ k ∈ mkinds m) ∧
  (* the agent's state is the result of handling the provider's snapshots,
     each of which contains the node itself *)
  n_agent n = after (init (kset self)) (all_snaps self hist) ∧
  Forall (has_self (mid self) (kset self)) (all_snaps self hist) ∧
  (* events, message by message *)
  (∀ i pre post ev, nrun (nstart self).1 hist !! i = Some (pre, post, ev) →
     n_prov pre = pafter self (take i hist) ∧ n_prov post = pafter self (take (S i) hist) ∧
     nstep_ok pre post ev).
Proof.
  intros Hc Hown n. pose proof (host_consistent_inj _ Hc) as Hinj.
  pose proof (node_view_is_provider_list self hist) as Hv. fold n in Hv.
  destruct (nafter_inv self hist) as [(_ & _ & Hex) _]. fold n in Hex.
  split_and!.
  - done.
  - unfold view_ids. rewrite Hv. by apply member_list_is_spec.
  - rewrite Hv. by apply self_stays_member.
  - intros k. unfold has_kind. by rewrite bool_decide_eq_true, Hex, elem_of_kinds_of, Hv.
  - apply node_agent_handles_provider_snapshots.
  - by apply provider_snapshots_contain_self.
  - intros i pre post ev. apply node_events_follow_provider.
Qed.

(* with kinds a function of the id: HasKind read off the ids of the provider's list *)
Theorem has_kind_follows_provider_ids self hist (K : nat → gset nat) :
  (∀ m, m ∈ directory self hist → kset m = K (mid m)) →
  ∀ k, has_kind k (n_agent (nafter self hist)) = true ↔ ∃ i, i ∈ dom (pafter self hist) ∧ k ∈ K i.
Proof.
  intros HK k. destruct (nafter_inv self hist) as [(Hm & _ & Hex) Hp].
  destruct (pafter_inv self hist) as [Hk Hv].
  unfold has_kind. rewrite bool_decide_eq_true, Hex, elem_of_kinds_of, Hm, Hp. split.
  - intros (i & m & Hi & Hin). exists i. split; [by apply elem_of_dom|].
    rewrite <- (Hk _ _ Hi), <- (HK m) by eauto. by apply elem_of_kset.
  - intros (i & [m Hi]%elem_of_dom & Hin). exists i, m. split; [done|].
    apply elem_of_kset. rewrite (HK m) by eauto. by rewrite (Hk _ _ Hi).
Qed.

(* non-vacuity: joins, a list, a report for a member, one for nobody *)
Example compose_example :
  let self := mk 0 [0] in
  let hist := [Handshake (mk 1 [1]) 1; MembersMsg [mk 2 []; mk 3 [2]; mk 1 [1]]; LeaveAddr 3; LeaveAddr 7] in
  host_consistent (directory self hist) ∧
  node_model_run self hist =
  [ {| o_ids := [0]; o_joins := [0]; o_leaves := []; o_kinds := [true; false; false] |};
    {| o_ids := [0; 1]; o_joins := [1]; o_leaves := []; o_kinds := [true; true; false] |};
    {| o_ids := [0; 1; 2; 3]; o_joins := [2; 3]; o_leaves := []; o_kinds := [true; true; true] |};
    {| o_ids := [0; 1; 2]; o_joins := []; o_leaves := [3]; o_kinds := [true; true; false] |};
    {| o_ids := [0; 1; 2]; o_joins := []; o_leaves := []; o_kinds := [true; true; false] |} ].
Proof.
  split; [|by vm_compute].
  intros x y Hx Hy.
  assert (Forall (λ x, Forall (λ y, mhost x = mhost y ↔ mid x = mid y)
     (directory (mk 0 [0]) [Handshake (mk 1 [1]) 1; MembersMsg [mk 2 []; mk 3 [2]; mk 1 [1]]; LeaveAddr 3; LeaveAddr 7]))
     (directory (mk 0 [0]) [Handshake (mk 1 [1]) 1; MembersMsg [mk 2 []; mk 3 [2]; mk 1 [1]]; LeaveAddr 3; LeaveAddr 7])) as HF.
  { apply (bool_decide_unpack _). by vm_compute. }
  rewrite Forall_forall in HF. specialize (HF x Hx). rewrite Forall_forall in HF. by apply HF.
Qed.
