(** L3 — model of request/response: actor/response.go, Engine.Request
    (engine.go), Context.Respond (context.go), with the registry entries
    "response/<n>" (C11).

    A transition system whose steps are the atomic actions of the code:

      Request r       NewResponse (id := ids r, the oracle for rand.Intn);
                      Registry.add (registers unless the id is taken — then the
                      Response is NOT registered, add only publishes
                      ActorDuplicateIdEvent); SendWithSender(target, msg, response PID)
      Lookup r v      a responder handling the message of request r calls
                      Respond(v) = Engine.Send(ctx.sender, v): SendLocal looks
                      the sender PID up in the registry — miss: DeadLetterEvent;
                      hit: it holds the Response object and goes on to
      Put k           Response.Send: `r.result <- msg` on a channel of capacity
                      1: hands the value to a receiver parked in Result(), else
                      fills the empty buffer, else BLOCKS (step not enabled)
      Begin r         Result(): context.WithTimeout starts the clock; the
                      select takes a buffered value at once, else parks
      Tick            time passes
      Timeout r       the parked select of r is woken by ctx.Done()
      Return r        the deferred function: cancel, Registry.Remove(pid) —
                      by id, whatever is registered there — and Result returns

    Time is a logical clock.  Definitions only; proofs are in ResponseProofs.v. *)
From stdpp Require Import list.

Definition rid := nat.     (* the number in "response/<n>" *)
Definition req := nat.     (* requests, numbered by the harness *)
Definition val := nat.     (* reply values *)

Record cfg := { ids : req -> rid;     (* the id drawn for each request *)
                timeout : nat;
                nonblock : bool }.    (* false: Response.Send is `r.result <- msg` (the code as it stands);
                                         true: a send that finds the buffer full gives up and publishes a
                                         DeadLetterEvent instead (candidate repair fixes/D14.diff) *)

Inductive rphase :=
| NotRequested
| Requested                      (* Request() has returned; Result() not yet called *)
| Waiting (deadline : nat)       (* parked in the select of Result() *)
| Decided (res : option val)     (* the select has chosen: a value, or None = context deadline exceeded *)
| Returned (res : option val).   (* Result() has returned res; the PID has been removed *)

Definition rupd {A} (f : nat -> A) (k : nat) (v : A) : nat -> A :=
  fun x => if Nat.eqb x k then v else f x.

Record rst := {
  clock : nat;
  reg : rid -> option req;                  (* Registry: which Response object "response/<i>" names *)
  phase : req -> rphase;
  began : req -> option nat;                (* clock value when Result() was called *)
  buf : req -> option val;                  (* buffer of the result channel of request r's Response *)
  pend : list (req * val * req);            (* channel sends in progress: (target Response, value, request being answered) *)
  sent : list (req * val);                  (* ghost: every Respond executed: (request being answered, value) *)
  dead : list (rid * val);                  (* DeadLetterEvents: (target id, message) *)
  dupid : list req                          (* requests whose add found the id taken *)
}.

Definition rinit : rst :=
  {| clock := 0; reg := fun _ => None; phase := fun _ => NotRequested; began := fun _ => None;
     buf := fun _ => None; pend := []; sent := []; dead := []; dupid := [] |}.

Inductive rlabel :=
| LRequest (r : req)
| LLookup (r : req) (v : val)
| LPut (k : nat)                 (* the k-th pending channel send proceeds *)
| LBegin (r : req)
| LTick
| LTimeout (r : req)
| LReturn (r : req).

Definition is_requested (p : rphase) : bool := match p with NotRequested => false | _ => true end.

Definition rstep (c : cfg) (s : rst) (l : rlabel) : option rst :=
  match l with
  | LRequest r =>
      match phase s r with
      | NotRequested =>
          match reg s (ids c r) with
          | None =>
              Some {| clock := clock s; reg := rupd (reg s) (ids c r) (Some r); phase := rupd (phase s) r Requested;
                      began := began s; buf := buf s; pend := pend s; sent := sent s; dead := dead s; dupid := dupid s |}
          | Some _ =>
              Some {| clock := clock s; reg := reg s; phase := rupd (phase s) r Requested;
                      began := began s; buf := buf s; pend := pend s; sent := sent s; dead := dead s;
                      dupid := r :: dupid s |}
          end
      | _ => None
      end
  | LLookup r v =>
      if is_requested (phase s r) then
        match reg s (ids c r) with
        | None =>
            Some {| clock := clock s; reg := reg s; phase := phase s; began := began s; buf := buf s; pend := pend s;
                    sent := sent s ++ [(r, v)]; dead := dead s ++ [(ids c r, v)]; dupid := dupid s |}
        | Some r' =>
            Some {| clock := clock s; reg := reg s; phase := phase s; began := began s; buf := buf s;
                    pend := pend s ++ [(r', v, r)]; sent := sent s ++ [(r, v)]; dead := dead s; dupid := dupid s |}
        end
      else None
  | LPut k =>
      match pend s !! k with
      | None => None
      | Some (r', v, _) =>
          match phase s r' with
          | Waiting _ =>      (* a receiver is parked: direct hand-off *)
              Some {| clock := clock s; reg := reg s; phase := rupd (phase s) r' (Decided (Some v)); began := began s;
                      buf := buf s; pend := delete k (pend s); sent := sent s; dead := dead s; dupid := dupid s |}
          | _ =>
              match buf s r' with
              | None =>
                  Some {| clock := clock s; reg := reg s; phase := phase s; began := began s;
                          buf := rupd (buf s) r' (Some v); pend := delete k (pend s); sent := sent s; dead := dead s;
                          dupid := dupid s |}
              | Some _ =>
                  if nonblock c
                  then Some {| clock := clock s; reg := reg s; phase := phase s; began := began s; buf := buf s;
                               pend := delete k (pend s); sent := sent s; dead := dead s ++ [(ids c r', v)];
                               dupid := dupid s |}
                  else None         (* buffer full, nobody receiving: the sender stays blocked *)
              end
          end
      end
  | LBegin r =>
      match phase s r with
      | Requested =>
          match buf s r with
          | Some v =>
              Some {| clock := clock s; reg := reg s; phase := rupd (phase s) r (Decided (Some v));
                      began := rupd (began s) r (Some (clock s)); buf := rupd (buf s) r None; pend := pend s;
                      sent := sent s; dead := dead s; dupid := dupid s |}
          | None =>
              Some {| clock := clock s; reg := reg s; phase := rupd (phase s) r (Waiting (clock s + timeout c));
                      began := rupd (began s) r (Some (clock s)); buf := buf s; pend := pend s;
                      sent := sent s; dead := dead s; dupid := dupid s |}
          end
      | _ => None
      end
  | LTick =>
      Some {| clock := S (clock s); reg := reg s; phase := phase s; began := began s; buf := buf s; pend := pend s;
              sent := sent s; dead := dead s; dupid := dupid s |}
  | LTimeout r =>
      match phase s r with
      | Waiting d =>
          if Nat.leb d (clock s)
          then Some {| clock := clock s; reg := reg s; phase := rupd (phase s) r (Decided None); began := began s;
                       buf := buf s; pend := pend s; sent := sent s; dead := dead s; dupid := dupid s |}
          else None
      | _ => None
      end
  | LReturn r =>
      match phase s r with
      | Decided res =>
          Some {| clock := clock s; reg := rupd (reg s) (ids c r) None; phase := rupd (phase s) r (Returned res);
                  began := began s; buf := buf s; pend := pend s; sent := sent s; dead := dead s; dupid := dupid s |}
      | _ => None
      end
  end.

Fixpoint rrun (c : cfg) (s : rst) (ls : list rlabel) : option rst :=
  match ls with
  | [] => Some s
  | l :: ls' => match rstep c s l with Some s' => rrun c s' ls' | None => None end
  end.

Inductive rreach (c : cfg) (s0 : rst) : rst -> Prop :=
| rreach_refl : rreach c s0 s0
| rreach_step s l s' : rreach c s0 s -> rstep c s l = Some s' -> rreach c s0 s'.

(* what Result() returned for r, if it has *)
Definition result_of (s : rst) (r : req) : option (option val) :=
  match phase s r with Returned res => Some res | _ => None end.

Definition injective (f : req -> rid) : Prop := forall a b, f a = f b -> a = b.
