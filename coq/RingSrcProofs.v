(** The translation tie of C14: the GoMini terms that tools/ringtrans generates from the
    CURRENT ringbuffer/ringbuffer.go (RingSrc.v, written afresh by every run of the check)
    behave, under GoMini's semantics, exactly like the hand-written model Ring.v — for all
    heaps, all rings, all arguments — and therefore every run of the generated code returns
    what the FIFO specification returns (C14_ring_refines_fifo transferred).

    This file is NOT part of the main build (coq/_CoqProject): it depends on a generated
    file.  vlib/props/c14.py compiles RingSrc.v and then this file in the work directory of
    the run (coqc -Q /verif/coq HV -Q <work> HVSrc).  The proofs are symbolic executions of
    the terms the translator produces today; when ringbuffer.go is rewritten they may stop
    compiling, and the tie is then reported as "unavailable" (never as a violation).

    To work on it:  tools/ringsrc.sh  (generates RingSrc.v into a scratch directory and
    compiles this file there). *)
From stdpp Require Import list.
From Coq Require Import ZArith Lia.
From HV Require Import GoMini GoMiniFacts Ring RingProofs PropsRing RingSrcRun.
From HVSrc Require Import RingSrc.
Import String.StringSyntax.
Open Scope string_scope.
Open Scope list_scope.
Open Scope stdpp_scope.

(* symbolic execution is [cbn] plus rewriting; arithmetic and the heap stay folded *)
Local Arguments Z.add : simpl never.
Local Arguments Z.sub : simpl never.
Local Arguments Z.mul : simpl never.
Local Arguments Z.rem : simpl never.
Local Arguments Z.opp : simpl never.
Local Arguments Z.of_nat : simpl never.
Local Arguments Z.to_nat : simpl never.
Local Arguments Z.eqb : simpl never.
Local Arguments Z.ltb : simpl never.
Local Arguments Z.leb : simpl never.
Local Arguments Nat.modulo : simpl never.
Local Arguments Nat.add : simpl never.
Local Arguments Nat.mul : simpl never.
Local Arguments Nat.sub : simpl never.
Local Arguments hget : simpl never.
Local Arguments hset : simpl never.
Local Arguments hpush : simpl never.
Local Arguments index_ok : simpl never.

(* the five generated terms as one ring buffer implementation *)
Definition src_methods : ring_methods :=
  {| rm_new := new_src; rm_push := push_src; rm_pop := pop_src; rm_popN := popN_src; rm_len := len_src |}.

Local Hint Rewrite @hset_length @hpush_length @fmap_length @insert_length @replicate_length @app_length @seq_length : hlen.

Section proofs.
Context {T : Type} (dflt : T).

(** * The representation relation: heap [h] holds at address [a] a RingBuffer that is the
      model state [r] (whatever else the heap holds: garbage of earlier growths, result
      slices of earlier PopN calls) *)
Definition ring_obj (n b : nat) : obj T := OStruct [("content", VRef b); ("len", VInt (Z.of_nat n))].
Definition buf_obj (c hd tl md : nat) : obj T :=
  OStruct [("items", VRef c); ("head", VInt (Z.of_nat hd)); ("tail", VInt (Z.of_nat tl)); ("mod", VInt (Z.of_nat md))].
Definition rep (h : heap T) (a : nat) (r : ring T) : Prop :=
  ∃ b c, hget h a = Some (ring_obj (len r) b) ∧ hget h b = Some (buf_obj c (head r) (tail r) (modn r)) ∧
         hget h c = Some (OArr (VElem <$> items r)).

(* the smallest heap holding [r]; [rep] is satisfiable for every model state *)
Definition embed (r : ring T) : heap T :=
  [OArr (VElem <$> items r); buf_obj 0 (head r) (tail r) (modn r); ring_obj (len r) 1].
Lemma rep_embed r : rep (embed r) 2 r.
Proof. exists 1, 0. done. Qed.

Lemma lookup_velem (l : list T) n : n < length l -> (VElem <$> l) !! n = Some (VElem (get dflt l n)).
Proof.
  intros H. rewrite list_lookup_fmap. unfold get. destruct (lookup_lt_is_Some_2 l n H) as [x ->]. done.
Qed.

Lemma elems_velem (l : list T) : elems (VElem <$> l) = Some l.
Proof. induction l as [|x l IH]; cbn; [done|]. by rewrite IH. Qed.

Ltac hsolve := first [ assumption | congruence | lia | (autorewrite with hlen; first [assumption | lia]) ].

Ltac hstep :=
  match goal with
  | H : hget ?h ?a = Some _ |- context [hget ?h ?a] => rewrite H
  | H : assoc ?x ?ρ = Some _ |- context [assoc ?x ?ρ] => rewrite H
  | |- context [hget (hset ?h ?a ?o) ?a] => rewrite (hget_hset_eq h a o) by hsolve
  | |- context [hget (hset ?h ?a ?o) ?b] => rewrite (hget_hset_ne h a b o) by hsolve
  | |- context [hget (hpush ?h ?o) ?a] =>
      first [rewrite (hget_hpush_new h a o) by hsolve | rewrite (hget_hpush_old h a o) by hsolve]
  | |- context [index_ok ?l (Z.of_nat ?n)] => rewrite (index_ok_nat l n) by hsolve
  | |- context [Z.to_nat (Z.of_nat ?n)] => rewrite (Nat2Z.id n)
  | |- context [(Z.of_nat ?a + 1)%Z] => rewrite (zn_add1 a)
  | |- context [(Z.of_nat ?a + Z.of_nat ?b)%Z] => rewrite (zn_add a b)
  | |- context [(Z.of_nat ?a + - (1))%Z] => rewrite (zn_sub1 a) by hsolve
  | |- context [(Z.of_nat ?a + - Z.of_nat ?b)%Z] => rewrite (zn_sub a b) by hsolve
  | |- context [Z.to_nat (Z.of_nat ?a - 0)] => rewrite (zn_budget a)
  | |- context [(Z.of_nat ?a * 2)%Z] => rewrite (zn_mul2 a)
  | |- context [Z.rem (Z.of_nat ?a) (Z.of_nat ?b)] => rewrite (zn_rem a b)
  | |- context [(Z.of_nat ?a =? 0)%Z] => rewrite (zn_eqb0 a)
  | |- context [(Z.of_nat ?a =? Z.of_nat ?b)%Z] => rewrite (zn_eqb a b)
  | |- context [(Z.of_nat ?a <? 0)%Z] => rewrite (zn_ltb0 a)
  | |- context [(Z.of_nat ?a <? Z.of_nat ?b)%Z] => rewrite (zn_ltb a b)
  | |- context [(0 <=? Z.of_nat ?a)%Z] => rewrite (zn_leb0 a)
  | |- context [(Z.of_nat ?a <=? Z.of_nat ?b)%Z] => rewrite (zn_leb a b)
  | |- context [bool_decide ?P] =>
      first [rewrite (bool_decide_true P) by hsolve | rewrite (bool_decide_false P) by hsolve]
  | |- context [(VElem <$> ?l) !! ?n] => rewrite (lookup_velem l n) by hsolve
  end.

Ltac go := repeat (cbn; hstep); cbn.

(* the three objects of a represented ring are different objects *)
Ltac distinct a b c Ha Hb Hc :=
  assert (a ≠ b) by (eapply hget_ne; [exact Ha|exact Hb|congruence]);
  assert (a ≠ c) by (eapply hget_ne; [exact Ha|exact Hc|congruence]);
  assert (b ≠ c) by (eapply hget_ne; [exact Hb|exact Hc|congruence]);
  pose proof (hget_lt _ _ _ Ha); pose proof (hget_lt _ _ _ Hb); pose proof (hget_lt _ _ _ Hc).

(** * Len *)
Lemma len_ok h a r : rep h a r -> call dflt len_src [VRef a] h = CRet [VInt (Z.of_nat (len r))] h.
Proof.
  intros (b & c & Ha & Hb & Hc). unfold ring_obj, buf_obj in *.
  unfold call, len_src. go. done.
Qed.

(** * New *)
Lemma new_ok size :
  ∃ h a, call dflt new_src [VInt (Z.of_nat size)] [] = CRet [VRef a] h ∧ rep h a (new dflt size).
Proof.
  unfold call, new_src. go. eexists _, _. split; [reflexivity|].
  exists 1, 0. unfold hget, hpush. cbn. by rewrite fmap_replicate.
Qed.

(** * Push *)
(* the new slice after [k] iterations of the copy loop *)
Definition grown (its : list T) (t1 m k : nat) : list T :=
  ((λ i, get dflt its ((t1 + i) mod m)) <$> seq 0 k) ++ replicate (2 * m - k) dflt.

Lemma grown_step its t1 m k : k < m ->
  <[k := get dflt its ((t1 + k) mod m)]> (grown its t1 m k) = grown its t1 m (k + 1).
Proof.
  intros Hk. unfold grown.
  rewrite insert_app_r_alt by (rewrite fmap_length, seq_length; lia).
  rewrite fmap_length, seq_length, Nat.sub_diag.
  replace (2 * m - k) with (S (2 * m - (k + 1))) by lia. cbn [replicate insert list_insert].
  rewrite Nat.add_1_r, seq_S, fmap_app. cbn [fmap list_fmap]. rewrite <- app_assoc. done.
Qed.

Lemma grow_loop_ok (a b c d l hd t1 m : nat) (its : list T) n : ∀ k ρ h,
  k + n = m -> 0 < m -> length its = m -> c ≠ d ->
  assoc "rb" ρ = Some (VRef a) -> assoc "newBuff" ρ = Some (VRef d) -> assoc "i" ρ = Some (VInt (Z.of_nat k)) ->
  hget h a = Some (ring_obj l b) -> hget h b = Some (buf_obj c hd t1 m) ->
  hget h c = Some (OArr (VElem <$> its)) -> hget h d = Some (OArr (VElem <$> grown its t1 m k)) ->
  ∃ ρ' h',
    for_loop dflt "i" (EField (EField (EVar "rb") "content") "mod")
      (block [
        SDefine "idx" (EBin Rem (EBin Add (EField (EField (EVar "rb") "content") "tail") (EVar "i")) (EField (EField (EVar "rb") "content") "mod"));
        SAssign (LIndex (EVar "newBuff") (EVar "i")) (EIndex (EField (EField (EVar "rb") "content") "items") (EVar "idx"))
      ]) n ρ h = SNext ρ' h' ∧
    assoc "rb" ρ' = Some (VRef a) ∧ assoc "newBuff" ρ' = Some (VRef d) ∧
    assoc "size" ρ' = assoc "size" ρ ∧ assoc "item" ρ' = assoc "item" ρ ∧
    hget h' a = Some (ring_obj l b) ∧ hget h' b = Some (buf_obj c hd t1 m) ∧
    hget h' c = Some (OArr (VElem <$> its)) ∧ hget h' d = Some (OArr (VElem <$> grown its t1 m m)).
Proof.
  induction n as [|n IH]; intros k ρ h Hk Hm Hl Hcd Hrb Hnb Hi Ha Hb Hc Hd; unfold ring_obj, buf_obj in *.
  - assert (k = m) by lia. subst k. cbn [for_loop]. go. exists ρ, h. repeat split; assumption.
  - assert (a ≠ d) by (eapply hget_ne; [exact Ha|exact Hd|congruence]).
    assert (b ≠ d) by (eapply hget_ne; [exact Hb|exact Hd|congruence]).
    pose proof (hget_lt _ _ _ Hd).
    pose proof (Nat.mod_upper_bound (t1 + k) m ltac:(lia)).
    assert (length (grown its t1 m k) = 2 * m) by (unfold grown; autorewrite with hlen; lia).
    cbn [for_loop]. go.
    match goal with |- context [for_loop dflt _ _ _ n ?ρ1 ?h1] =>
      destruct (IH (k + 1) ρ1 h1) as (ρ' & h' & Hrun & H1' & H2' & H3' & H4' & H5' & H6' & H7' & H8')
    end; try assumption; try lia; try reflexivity; try (repeat hstep; done).
    + rewrite hget_hset_eq by done. rewrite <- list_fmap_insert, grown_step by lia. done.
    + exists ρ', h'. split; [exact Hrun|]. repeat split; assumption.
Qed.

Theorem push_ok h a r x : rep h a r -> wf r ->
  ∃ h', call dflt push_src [VRef a; VElem x] h = CRet [] h' ∧ rep h' a (push dflt r x).
Proof.
  intros (b & c & Ha & Hb & Hc) (Hm & Hl & Hh & Ht & Hlen & Htl). unfold ring_obj, buf_obj in *.
  distinct a b c Ha Hb Hc.
  pose proof (Nat.mod_upper_bound (tail r + 1) (modn r) ltac:(lia)) as Ht1.
  unfold call. change (lock_balanced push_src) with true. cbv iota.
  unfold push_src. cbn [m_params m_body bind_params].
  match goal with |- context [SFor ?i ?e0 ?bd ?body] => remember (SFor i e0 bd body) as L eqn:HL end.
  unfold push. destruct (decide ((tail r + 1) mod modn r = head r)) as [E|E].
  - (* the buffer is full: grow *)
    go. subst L. rewrite exec_for. go. rewrite !hset_length.
    match goal with |- context [for_loop dflt _ _ _ ?n ?ρ1 ?h1] =>
      destruct (grow_loop_ok a b c (length h) (len r) (head r) ((tail r + 1) mod modn r) (modn r) (items r) n 0 ρ1 h1)
        as (ρ' & h' & Hrun & Hρrb & Hρnb & Hρsz & Hρit & Ha' & Hb' & Hc' & Hd')
    end; try assumption; try lia; try reflexivity; try (repeat hstep; done).
    { rewrite hget_hpush_new by (by rewrite hset_length). unfold grown. cbn [seq fmap list_fmap app].
      by rewrite Nat.sub_0_r, fmap_replicate. }
    cbn [block foldr] in Hrun. rewrite Hrun. cbn in Hρsz, Hρit.
    pose proof (hget_lt _ _ _ Ha'). pose proof (hget_lt _ _ _ Hb'). pose proof (hget_lt _ _ _ Hc').
    pose proof (hget_lt _ _ _ Hd').
    assert (length (grown (items r) ((tail r + 1) mod modn r) (modn r) (modn r)) = 2 * modn r)
      by (unfold grown; autorewrite with hlen; lia).
    go. eexists; split; [reflexivity|]. exists (length h'), (length h). cbn [len items head tail modn].
    repeat split; repeat hstep; try done.
    rewrite list_fmap_insert. unfold grown. replace (2 * modn r - modn r) with (modn r) by lia. done.
  - (* room left *)
    go. eexists; split; [reflexivity|]. exists b, c. cbn [len items head tail modn].
    repeat split; repeat hstep; try done.
    by rewrite list_fmap_insert.
Qed.

(** * Pop *)
Theorem pop_empty_ok h a r : rep h a r -> len r = 0 ->
  call dflt pop_src [VRef a] h = CRet [VElem dflt; VBool false] h.
Proof.
  intros (b & c & Ha & Hb & Hc) E. unfold ring_obj, buf_obj in *.
  unfold call, pop_src. go. done.
Qed.

Theorem pop_ok h a r : rep h a r -> wf r -> len r ≠ 0 ->
  ∃ h', call dflt pop_src [VRef a] h = CRet [VElem (get dflt (items r) ((head r + 1) mod modn r)); VBool true] h'
        ∧ rep h' a (pop dflt r).1.
Proof.
  intros (b & c & Ha & Hb & Hc) (Hm & Hl & Hh & Ht & Hlen & Htl) E. unfold ring_obj, buf_obj in *.
  distinct a b c Ha Hb Hc.
  pose proof (Nat.mod_upper_bound (head r + 1) (modn r) ltac:(lia)).
  unfold call, pop_src. go. eexists; split; [reflexivity|].
  unfold pop. destruct (decide (len r = 0)); [done|]. cbn [fst].
  exists b, c. cbn [len items head tail modn]. repeat split; repeat hstep; try done.
  by rewrite list_fmap_insert.
Qed.

(** * PopN *)
(* the result slice after [k] iterations of the loop of PopN(n) *)
Definition taken (r : ring T) (k n : nat) : list T :=
  ((λ i, get dflt (items r) (slot r i)) <$> seq 0 k) ++ replicate (n - k) dflt.

Lemma taken_step r k n : k < n ->
  <[k := get dflt (items r) (slot r k)]> (taken r k n) = taken r (k + 1) n.
Proof.
  intros Hk. unfold taken.
  rewrite insert_app_r_alt by (rewrite fmap_length, seq_length; lia).
  rewrite fmap_length, seq_length, Nat.sub_diag.
  replace (n - k) with (S (n - (k + 1))) by lia. cbn [replicate insert list_insert].
  rewrite Nat.add_1_r, seq_S, fmap_app. cbn [fmap list_fmap]. rewrite <- app_assoc. done.
Qed.

Lemma clear_step (r : ring T) k : clear dflt r (k + 1) = <[slot r k := dflt]> (clear dflt r k).
Proof. unfold clear. rewrite Nat.add_1_r, seq_S, foldl_app. done. Qed.

Lemma popN_loop_ok (a b c d l N : nat) (r : ring T) n : ∀ k ρ h,
  k + n = N -> N <= len r -> wf r -> c ≠ d ->
  assoc "content" ρ = Some (VRef b) -> assoc "items" ρ = Some (VRef d) ->
  assoc "n" ρ = Some (VInt (Z.of_nat N)) -> assoc "i" ρ = Some (VInt (Z.of_nat k)) ->
  hget h a = Some (ring_obj l b) -> hget h b = Some (buf_obj c (head r) (tail r) (modn r)) ->
  hget h c = Some (OArr (VElem <$> clear dflt r k)) -> hget h d = Some (OArr (VElem <$> taken r k N)) ->
  ∃ ρ' h',
    for_loop dflt "i" (EVar "n")
      (block [
      SDefine "pos" (EBin Rem (EBin Add (EBin Add (EField (EVar "content") "head") (EInt 1%Z)) (EVar "i")) (EField (EVar "content") "mod"));
      SAssign (LIndex (EVar "items") (EVar "i")) (EIndex (EField (EVar "content") "items") (EVar "pos"));
      SVarZero "t" TElem;
      SAssign (LIndex (EField (EVar "content") "items") (EVar "pos")) (EVar "t")
    ]) n ρ h = SNext ρ' h' ∧
    assoc "content" ρ' = Some (VRef b) ∧ assoc "items" ρ' = Some (VRef d) ∧ assoc "n" ρ' = Some (VInt (Z.of_nat N)) ∧
    hget h' a = Some (ring_obj l b) ∧ hget h' b = Some (buf_obj c (head r) (tail r) (modn r)) ∧
    hget h' c = Some (OArr (VElem <$> clear dflt r N)) ∧ hget h' d = Some (OArr (VElem <$> taken r N N)).
Proof.
  induction n as [|n IH]; intros k ρ h Hk HN Hwf Hcd Hco Hit Hn Hi Ha Hb Hc Hd; unfold ring_obj, buf_obj in *.
  - assert (k = N) by lia. subst k. cbn [for_loop]. go. exists ρ, h. repeat split; assumption.
  - destruct Hwf as (Hm & Hl & Hh & Ht & Hlen & Htl).
    assert (a ≠ c) by (eapply hget_ne; [exact Ha|exact Hc|congruence]).
    assert (a ≠ d) by (eapply hget_ne; [exact Ha|exact Hd|congruence]).
    assert (b ≠ c) by (eapply hget_ne; [exact Hb|exact Hc|congruence]).
    assert (b ≠ d) by (eapply hget_ne; [exact Hb|exact Hd|congruence]).
    pose proof (hget_lt _ _ _ Hc). pose proof (hget_lt _ _ _ Hd).
    pose proof (Nat.mod_upper_bound (head r + 1 + k) (modn r) ltac:(lia)).
    pose proof (clear_length dflt r k).
    assert (length (taken r k N) = N) by (unfold taken; autorewrite with hlen; lia).
    cbn [for_loop]. go.
    match goal with |- context [for_loop dflt _ _ _ n ?ρ1 ?h1] =>
      destruct (IH (k + 1) ρ1 h1) as (ρ' & h' & Hrun & H1' & H2' & H3' & H4' & H5' & H6' & H7')
    end; try assumption; try lia; try reflexivity; try (repeat split; assumption);
      try (repeat hstep; done).
    + repeat hstep. rewrite <- list_fmap_insert. by rewrite clear_step.
    + repeat hstep. rewrite <- list_fmap_insert. f_equal. f_equal. f_equal.
      rewrite <- (taken_step r k N) by lia. f_equal. fold (slot r k).
      apply get_clear_other. intros i Hi' Heq. apply slot_inj in Heq; lia.
    + exists ρ', h'. split; [exact Hrun|]. repeat split; assumption.
Qed.

Theorem popN_empty_ok h a r n : rep h a r -> len r = 0 ->
  call dflt popN_src [VRef a; VInt (Z.of_nat n)] h = CRet [VNil; VBool false] h.
Proof.
  intros (b & c & Ha & Hb & Hc) E. unfold ring_obj, buf_obj in *.
  unfold call, popN_src. go. done.
Qed.

(* PopN(n) on a non-empty ring: the returned slice holds the result of the model, the
   ring is the model's next state *)
Theorem popN_ok h a r n : rep h a r -> wf r -> len r ≠ 0 ->
  ∃ h' d, call dflt popN_src [VRef a; VInt (Z.of_nat n)] h = CRet [VRef d; VBool true] h' ∧
          (∃ xs, (popN dflt r n).2 = Some xs ∧ hget h' d = Some (OArr (VElem <$> xs))) ∧
          rep h' a (popN dflt r n).1.
Proof.
  intros (b & c & Ha & Hb & Hc) Hwf E.
  assert (Hwf' := Hwf). destruct Hwf' as (Hm & Hl & Hh & Ht & Hlen & Htl). unfold ring_obj, buf_obj in *.
  distinct a b c Ha Hb Hc.
  unfold popN. destruct (decide (len r = 0)); [done|]. cbn [fst snd].
  unfold call. change (lock_balanced popN_src) with true. cbv iota.
  unfold popN_src. cbn [m_params m_body bind_params block foldr].
  match goal with |- context [SFor ?i ?e0 ?bd ?body] => remember (SFor i e0 bd body) as L eqn:HL end.
  (* both branches of the clamp [if n >= rb.len { n = rb.len }] continue the same way (K),
     with N = min n len in the variable n *)
  match goal with |- context [SSeq (SAtomicAdd ?l ?e) ?rest] => remember (SSeq (SAtomicAdd l e) rest) as K eqn:HK end.
  assert (Hfin : ∀ N ρ1, N <= len r -> assoc "rb" ρ1 = Some (VRef a) ->
            assoc "content" ρ1 = Some (VRef b) -> assoc "n" ρ1 = Some (VInt (Z.of_nat N)) ->
            ∃ h' d, match exec dflt K ρ1 h with
                    | SNext _ h1 => CRet [] h1 | SRet vs h1 => CRet vs h1 | SPanic => CPanic | SStuck => CStuck
                    end = CRet [VRef d; VBool true] h' ∧
              (∃ xs, Some ((λ i, get dflt (items r) (slot r i)) <$> seq 0 N) = Some xs ∧
                     hget h' d = Some (OArr (VElem <$> xs))) ∧
              rep h' a {| len := len r - N; items := clear dflt r N;
                          head := (head r + N) mod modn r; tail := tail r; modn := modn r |}).
  { intros N ρ1 HN Hrb Hco Hn. subst K.
    go. subst L. rewrite exec_for. go. rewrite !hset_length.
    match goal with |- context [for_loop dflt _ _ _ ?k ?ρ2 ?h2] =>
      destruct (popN_loop_ok a b c (length h) (len r - N) N r k 0 ρ2 h2)
        as (ρ' & h' & Hrun & Hρco & Hρit & Hρn & Ha' & Hb' & Hc' & Hd')
    end; try assumption; try lia; try reflexivity; try (repeat hstep; done).
    { rewrite hget_hpush_new by (by rewrite hset_length). unfold taken. cbn [seq fmap list_fmap app].
      by rewrite Nat.sub_0_r, fmap_replicate. }
    cbn [block foldr] in Hrun. rewrite Hrun.
    assert (a ≠ b) by done.
    pose proof (hget_lt _ _ _ Hb'). unfold ring_obj, buf_obj in Ha', Hb'.
    go. eexists _, _; split; [reflexivity|]. split.
    - eexists; split; [reflexivity|]. repeat hstep. unfold taken. by rewrite Nat.sub_diag, app_nil_r.
    - exists b, c. cbn [len items head tail modn]. repeat split; repeat hstep; done. }
  destruct (decide (len r <= n)) as [Hn|Hn].
  - rewrite (Nat.min_r n (len r)) by lia. go. apply Hfin; [lia|done..].
  - rewrite (Nat.min_l n (len r)) by lia. go. apply Hfin; [lia|done..].
Qed.

(** * One operation, any operation *)
Theorem step_ok h a r o : rep h a r -> wf r ->
  ∃ h', step_src dflt src_methods (h, a) o = inl ((h', a), (step_ring dflt r o).2) ∧
        rep h' a (step_ring dflt r o).1.
Proof.
  intros Hrep Hwf. destruct o as [x| |n|]; cbn [step_src step_ring src_methods rm_push rm_pop rm_popN rm_len].
  - destruct (push_ok h a r x Hrep Hwf) as (h' & -> & Hr). eauto.
  - destruct (decide (len r = 0)) as [E|E].
    + rewrite (pop_empty_ok h a r Hrep E). unfold pop. destruct (decide (len r = 0)); [|done]. eauto.
    + destruct (pop_ok h a r Hrep Hwf E) as (h' & -> & Hr). exists h'.
      assert (Hv : (pop dflt r).2 = Some (get dflt (items r) ((head r + 1) mod modn r)))
        by (unfold pop; destruct (decide (len r = 0)); done).
      destruct (pop dflt r) as [r' v]. cbn [fst snd] in *. by subst v.
  - destruct (decide (len r = 0)) as [E|E].
    + rewrite (popN_empty_ok h a r n Hrep E). rewrite (popN_empty dflt r n E). eauto.
    + destruct (popN_ok h a r n Hrep Hwf E) as (h' & d & -> & (xs & Hxs & Hd) & Hr).
      rewrite Hd, elems_velem. exists h'. destruct (popN dflt r n) as [r' v]. cbn [fst snd] in *. by subst.
  - rewrite (len_ok h a r Hrep). go. eauto.
Qed.

Lemma run_from_ok ops : ∀ h a r, rep h a r -> wf r ->
  run_from dflt src_methods (h, a) ops = (run (step_ring dflt) r ops, Finished).
Proof.
  induction ops as [|o ops IH]; intros h a r Hrep Hwf; [done|].
  cbn [run_from run]. destruct (step_ok h a r o Hrep Hwf) as (h' & -> & Hr).
  destruct (step_refines dflt r o Hwf) as (_ & _ & Hwf').
  destruct (step_ring dflt r o) as [r' v]. cbn [fst snd] in *.
  by rewrite (IH h' a r' Hr Hwf').
Qed.

(** * Whole runs of the generated code *)
Theorem run_src_is_run_ring size ops : 1 <= size ->
  run_src dflt src_methods size ops = (run_ring dflt size ops, Finished).
Proof.
  intros Hs. unfold run_src, src_new, run_ring. cbn [src_methods rm_new].
  destruct (new_ok size) as (h & a & -> & Hr).
  apply run_from_ok; [done|]. by apply wf_new.
Qed.

End proofs.

(** C14_ring_refines_fifo, transferred to the code as translated: for every element type,
    every initial capacity >= 1 and every operation sequence, running the generated GoMini
    terms finishes (no panic, never stuck) and returns exactly what the list queue returns. *)
Theorem C14_src_refines_fifo :
  forall (T : Type) (dflt : T) (size : nat) (ops : list (op T)),
    1 <= size -> run_src dflt src_methods size ops = (run_fifo ops, Finished).
Proof.
  intros T dflt size ops H. rewrite run_src_is_run_ring by done. by rewrite C14_ring_refines_fifo.
Qed.

(** The mutex in the generated terms: balanced on every path (part of [call], so already
    implied by the theorems above), and every access to shared memory happens while it is
    held — the premise of RingConc.v's model, in which Push, Pop and PopN are atomic
    sections and Len is one atomic read. *)
Example src_lock_discipline :
  forallb lock_disciplined [new_src; push_src; pop_src; popN_src; len_src] = true.
Proof. vm_compute. reflexivity. Qed.

(* non-vacuity: a run with growth while wrapped, PopN across the wrap and a clamped PopN *)
Example run_src_example :
  run_src 0%Z src_methods 2
    [Push 1%Z; Push 2%Z; Pop; Push 3%Z; Push 4%Z; Push 5%Z; Len; PopN 3; PopN 9; Pop] =
  ([RPush; RPush; RPop (Some 1%Z); RPush; RPush; RPush; RLen 4; RPopN (Some [2%Z; 3%Z; 4%Z]);
    RPopN (Some [5%Z]); RPop None], Finished).
Proof. vm_compute. reflexivity. Qed.

Goal True. idtac "@@BEGIN push_ok". Abort.
Print Assumptions push_ok.
Goal True. idtac "@@END". Abort.
Goal True. idtac "@@BEGIN pop_ok". Abort.
Print Assumptions pop_ok.
Goal True. idtac "@@END". Abort.
Goal True. idtac "@@BEGIN popN_ok". Abort.
Print Assumptions popN_ok.
Goal True. idtac "@@END". Abort.
Goal True. idtac "@@BEGIN step_ok". Abort.
Print Assumptions step_ok.
Goal True. idtac "@@END". Abort.
Goal True. idtac "@@BEGIN C14_src_refines_fifo". Abort.
Print Assumptions C14_src_refines_fifo.
Goal True. idtac "@@END". Abort.
